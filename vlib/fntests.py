"""pure-function differential tests (fn mode) - filled in per family"""

def run(pid, families, tier, seed, log):
    return {"calls": 0, "mismatches": [], "families": {}, "samples": []}
