"""pure-function differential tests (fn mode, DESIGN.md 4.1): the real Rust functions and the
Lean model are called on the same generated inputs; for `mw` an independent Python glob is
the oracle as well (implementation-vs-oracle failures are reported separately from
model disagreements)."""
import os, random, itertools
from . import runner
from .canon import esc, unesc
from .monitors import glob as pyglob

ALPHA = ["a", "b", "*", "?", "é", "€"]
WORDS = ["alice", "bob", "#a", "&c", "#sec", "*", "?", ":", "::", ":x y", "+o", "-o", "+b", "+l", "5", "0", "-1",
         "99999999999999999999", "é", "ü€𝄞", "a:b", "a,b", ",", "#a,#b", "~@#a", "@", "&", "#", "irc.test", "a.b",
         "*.*", "\t", "x\ty", "\r", "+k", "+lk", "+ovh", "+", "-", "+z", "a!b@c", "*!*@*", "", " ", "+4", "302", "301",
         "LS", "REQ", "END", "LIST", "multi-prefix", "65535", "65536", "u", "m", "uu", "k1", "\x0c", "\x0b", " "]
VERBS = ["CAP", "AUTHENTICATE", "PASS", "NICK", "USER", "PING", "PONG", "OPER", "QUIT", "JOIN", "PART", "TOPIC",
         "NAMES", "LIST", "INVITE", "KICK", "MOTD", "VERSION", "ADMIN", "CONNECT", "LUSERS", "TIME", "STATS",
         "LINKS", "HELP", "INFO", "MODE", "PRIVMSG", "NOTICE", "WHO", "WHOIS", "WHOWAS", "KILL", "REHASH",
         "RESTART", "SQUIT", "AWAY", "USERHOST", "WALLOPS", "ISON", "DIE", "FOO", "join", "PrivMsg", "mOdE"]


def rand_line(r):
    x = r.random()
    if x < 0.8:
        n = r.choice([0, 1, 1, 2, 2, 3, 4, 5, 6])
        parts = [r.choice(VERBS)] + [r.choice(WORDS) for _ in range(n)]
        sep = r.choice([" ", " ", " ", "  ", "\t"])
        s = sep.join(parts)
        if r.random() < 0.2:
            s = ":" + r.choice(["src", "a!b@c", "a@b!c", "x:y", "", "é"]) + " " + s
        if r.random() < 0.1:
            s = r.choice([" ", "  ", "\t", " ", "\x0b"]) + s
        if r.random() < 0.15:
            s += r.choice([" ", " :", " : ", " :a b", ":", " ::"])
        return s
    n = r.choice([0, 1, 3, 8, 20])
    return "".join(r.choice("ab #&:,*?!@+-~%.é€\t\r 019") for _ in range(n))


def gen_calls(family, tier, r):
    calls = []
    if family == "mw":
        maxlen = 3 if tier == "quick" else 4
        pats = [""]
        for n in range(1, maxlen + 1):
            pats += ["".join(p) for p in itertools.product(ALPHA, repeat=n)]
        texts = [t for t in pats if "*" not in t and "?" not in t]
        for p in pats:
            for t in texts:
                calls.append(("mw", [p, t]))
        for _ in range(3000 if tier == "quick" else 40000):
            p = "".join(r.choice("ab*?*é!@.") for _ in range(r.choice([1, 3, 5, 8, 12])))
            t = "".join(r.choice("abé!@.") for _ in range(r.choice([0, 2, 4, 8, 15, 30])))
            calls.append(("mw", [p, t]))
        for p, t in [("a*a", "a"), ("*!*@longhost.example", "a!b@c"), ("?", "é"), ("??", "é"), ("*", ""), ("", ""),
                     ("", "a"), ("a", ""), ("**", "abc"), ("a**b", "ab"), ("*a*a*a*", "aa"), ("a*b*c", "abcabc")]:
            calls.append(("mw", [p, t]))
    elif family == "norm":
        for _ in range(2000):
            calls.append(("norm", ["".join(r.choice("ab!@*.é") for _ in range(r.choice([0, 1, 2, 4, 7])))]))
    elif family == "msg":
        for _ in range(4000 if tier == "quick" else 40000):
            calls.append(("msg", [rand_line(r)]))
    elif family == "cmd":
        for _ in range(6000 if tier == "quick" else 60000):
            calls.append(("cmd", [rand_line(r)]))
        for v in VERBS:
            for n in range(0, 6):
                calls.append(("cmd", [" ".join([v] + ["#a"] * n)]))
                calls.append(("cmd", [" ".join([v] + ["alice"] * n)]))
                calls.append(("cmd", [" ".join([v] + ["a.b"] * n)]))
    elif family == "render":
        for _ in range(3000 if tier == "quick" else 20000):
            calls.append(("render", [rand_line(r), r.choice(["n!u@h", "irc.test", "é!~x@::1"])]))
    elif family == "validators":
        for _ in range(3000):
            s = "".join(r.choice("ab#&:,.*!@ ~%+é\t") for _ in range(r.choice([0, 1, 2, 3, 5])))
            for f in ("vsrc", "vuser", "vchan", "vsrv", "vsrvmask", "vpchan", "tt"):
                calls.append((f, [s]))
        for b in range(32):
            calls.append(("chum", [str(b), "0"]))
            calls.append(("chum", [str(b), "1"]))
    elif family == "codec":
        for _ in range(1500 if tier == "quick" else 15000):
            mx = r.choice([5, 8, 16])
            n = r.choice([0, 3, 6, 10, 20, 40])
            data = bytes(r.choice([97, 98, 10, 10, 13, 32, 0xc3, 0xa9, 0xff, 58]) for _ in range(n))
            chunks = []
            i = 0
            while i < len(data):
                k = r.choice([1, 1, 2, 3, 5, 9, 50])
                chunks.append(data[i:i + k])
                i += k
            if r.random() < 0.1:
                chunks.insert(r.randrange(len(chunks) + 1), b"")
            calls.append(("codec", [str(mx)] + [c.hex() if c else "-" for c in chunks]))
    return calls


def fmt_call(c):
    name, args = c
    if name == "codec" or name == "chum":
        return name + " " + " ".join(args)
    return name + " " + " ".join(esc(a) for a in args)


FAMILIES = {
    "C13": ["msg", "cmd", "render", "validators", "codec"],
    "C14": ["mw", "norm"],
}


def run(pid, families, tier, seed, log):
    fams = FAMILIES.get(pid, [])
    r = random.Random(seed * 7919 + 13)
    os.makedirs(runner.WORK, exist_ok=True)
    res = {"calls": 0, "mismatches": [], "families": {}, "samples": []}
    for fam in fams:
        calls = gen_calls(fam, tier, r)
        path = runner.WORK + "/fn-%s-%s.txt" % (pid, fam)
        with open(path, "w") as f:
            for c in calls:
                f.write(fmt_call(c) + "\n")
        ri = runner.sh([runner.HARNESS, "fn", path], timeout=1800)
        rm = runner.sh([runner.MODEL, "fn", path], timeout=1800)
        if ri.returncode != 0 or rm.returncode != 0:
            raise runner.BuildError("fn mode failed: %s %s" % (ri.stderr[-500:], rm.stderr[-500:]))
        oi, om = ri.stdout.split("\n"), rm.stdout.split("\n")
        n_bad = 0
        for c, a, b in zip(calls, oi, om):
            oracle_fail = False
            if fam == "mw":
                exp = "true" if pyglob(c[1][0], c[1][1]) else "false"
                if a != exp:
                    oracle_fail = True
            if a != b or oracle_fail:
                n_bad += 1
                if n_bad <= 3:
                    res["mismatches"].append({"family": fam, "call": c, "impl": a, "model": b,
                                              "oracle_fail": oracle_fail or a == "PANIC",
                                              "detail": ("impl=%s" % a)[:40]})
        res["families"][fam] = {"calls": len(calls), "mismatches": n_bad}
        res["calls"] += len(calls)
        if calls:
            res["samples"].append({"fn": fam, "call": calls[len(calls) // 2], "result": oi[len(calls) // 2]})
    return res
