"""pure-function differential tests (fn mode, DESIGN.md 4.1): the real Rust functions and the
Lean model are called on the same generated inputs; for `mw` an independent Python glob is
the oracle as well (implementation-vs-oracle failures are reported separately from
model disagreements)."""
import os, random, itertools
from . import runner
from .canon import esc, unesc
from .monitors import glob as pyglob

ALPHA = ["a", "b", "*", "?", "é", "€"]
WORDS = ["alice", "bob", "#a", "&c", "#sec", "*", "?", ":", "::", ":x y", "+o", "-o", "+b", "+l", "5", "0", "-1",
         "99999999999999999999", "é", "ü€𝄞", "a:b", "a,b", ",", "#a,#b", "~@#a", "@", "&", "#", "irc.test", "a.b",
         "*.*", "\t", "x\ty", "\r", "+k", "+lk", "+ovh", "+", "-", "+z", "a!b@c", "*!*@*", "", " ", "+4", "302", "301",
         "LS", "REQ", "END", "LIST", "multi-prefix", "65535", "65536", "u", "m", "uu", "k1", "\x0c", "\x0b", " "]
VERBS = ["CAP", "AUTHENTICATE", "PASS", "NICK", "USER", "PING", "PONG", "OPER", "QUIT", "JOIN", "PART", "TOPIC",
         "NAMES", "LIST", "INVITE", "KICK", "MOTD", "VERSION", "ADMIN", "CONNECT", "LUSERS", "TIME", "STATS",
         "LINKS", "HELP", "INFO", "MODE", "PRIVMSG", "NOTICE", "WHO", "WHOIS", "WHOWAS", "KILL", "REHASH",
         "RESTART", "SQUIT", "AWAY", "USERHOST", "WALLOPS", "ISON", "DIE", "FOO", "join", "PrivMsg", "mOdE"]


def rand_line(r):
    x = r.random()
    if x < 0.8:
        n = r.choice([0, 1, 1, 2, 2, 3, 4, 5, 6])
        parts = [r.choice(VERBS)] + [r.choice(WORDS) for _ in range(n)]
        sep = r.choice([" ", " ", " ", "  ", "\t"])
        s = sep.join(parts)
        if r.random() < 0.2:
            s = ":" + r.choice(["src", "a!b@c", "a@b!c", "x:y", "", "é"]) + " " + s
        if r.random() < 0.1:
            s = r.choice([" ", "  ", "\t", " ", "\x0b"]) + s
        if r.random() < 0.15:
            s += r.choice([" ", " :", " : ", " :a b", ":", " ::"])
        return s
    n = r.choice([0, 1, 3, 8, 20])
    return "".join(r.choice("ab #&:,*?!@+-~%.é€\t\r 019") for _ in range(n))


def gen_calls(family, tier, r):
    calls = []
    if family == "mw":
        maxlen = 3 if tier == "quick" else 4
        pats = [""]
        for n in range(1, maxlen + 1):
            pats += ["".join(p) for p in itertools.product(ALPHA, repeat=n)]
        texts = [t for t in pats if "*" not in t and "?" not in t]
        for p in pats:
            for t in texts:
                calls.append(("mw", [p, t]))
        for _ in range(3000 if tier == "quick" else 40000):
            p = "".join(r.choice("ab*?*é!@.") for _ in range(r.choice([1, 3, 5, 8, 12])))
            t = "".join(r.choice("abé!@.") for _ in range(r.choice([0, 2, 4, 8, 15, 30])))
            calls.append(("mw", [p, t]))
        for p, t in [("a*a", "a"), ("*!*@longhost.example", "a!b@c"), ("?", "é"), ("??", "é"), ("*", ""), ("", ""),
                     ("", "a"), ("a", ""), ("**", "abc"), ("a**b", "ab"), ("*a*a*a*", "aa"), ("a*b*c", "abcabc")]:
            calls.append(("mw", [p, t]))
    elif family == "banned":
        from .canon import esc_list
        idents = ["alice!~ual@127.0.0.1", "Alice!~ual@127.0.0.1", "BOB!~Ubo@10.0.0.2", "bob!~ubo@10.0.0.2", "é!~x@::1",
                  "Mallory!~mal@host.Example.org"]
        masks = ["*!*@*", "alice!*@*", "Alice!*@*", "*!~U*@*", "B*!*@*", "*!*@127.0.0.1", "bob!*@*", "BOB!*@10.*",
                 "*!*@*.Example.org", "?lice!*@*", "*ICE!*@*", "mallory!*@*", "Mallory!*@*", "*!~mal@*"]
        for _ in range(1500 if tier == "quick" else 12000):
            ban = [r.choice(masks) for _ in range(r.choice([0, 1, 1, 2, 3]))]
            exc = [r.choice(masks) for _ in range(r.choice([0, 0, 1, 2]))]
            calls.append(("banned_raw", [esc_list(sorted(set(ban))), esc_list(sorted(set(exc))), esc(r.choice(idents))]))
    elif family == "norm":
        for _ in range(2000):
            calls.append(("norm", ["".join(r.choice("ab!@*.é") for _ in range(r.choice([0, 1, 2, 4, 7])))]))
    elif family == "msg":
        for _ in range(4000 if tier == "quick" else 40000):
            calls.append(("msg", [rand_line(r)]))
    elif family == "cmd":
        for _ in range(6000 if tier == "quick" else 60000):
            calls.append(("cmd", [rand_line(r)]))
        for v in VERBS:
            for n in range(0, 6):
                calls.append(("cmd", [" ".join([v] + ["#a"] * n)]))
                calls.append(("cmd", [" ".join([v] + ["alice"] * n)]))
                calls.append(("cmd", [" ".join([v] + ["a.b"] * n)]))
    elif family == "render":
        for _ in range(3000 if tier == "quick" else 20000):
            calls.append(("render", [rand_line(r), r.choice(["n!u@h", "irc.test", "é!~x@::1"])]))
    elif family == "validators":
        for _ in range(3000):
            s = "".join(r.choice("ab#&:,.*!@ ~%+é\t") for _ in range(r.choice([0, 1, 2, 3, 5])))
            for f in ("vsrc", "vuser", "vchan", "vsrv", "vsrvmask", "vpchan", "tt"):
                calls.append((f, [s]))
        for b in range(32):
            calls.append(("chum", [str(b), "0"]))
            calls.append(("chum", [str(b), "1"]))
    elif family == "codec":
        for _ in range(1500 if tier == "quick" else 15000):
            mx = r.choice([5, 8, 16])
            n = r.choice([0, 3, 6, 10, 20, 40])
            data = bytes(r.choice([97, 98, 10, 10, 13, 32, 0xc3, 0xa9, 0xff, 58]) for _ in range(n))
            chunks = []
            i = 0
            while i < len(data):
                k = r.choice([1, 1, 2, 3, 5, 9, 50])
                chunks.append(data[i:i + k])
                i += k
            if r.random() < 0.1:
                chunks.insert(r.randrange(len(chunks) + 1), b"")
            calls.append(("codec", [str(mx)] + [c.hex() if c else "-" for c in chunks]))
    return calls


GOOD_HASH = "kABc9xjQBSwgV2WfM02/AV8rQhEpTzRjn+fYC1x3ab0hRul9S9EkxGS/GMckLQjn0gYEEX3ISmXDfetwTUwhpQ"
GOOD_HASH2 = "xVfVq4pvFosvOQb0IVaPMkK22u0ZF2Ki7XB9yRsGbnEbL6WXhQCdpOwDV62HZ0MS5RjqmfrQJT7lV3aohUa3uw"


def toml_str(s):
    return '"' + s.replace("\\", "\\\\").replace('"', '\\"').replace("\n", "\\n").replace("\r", "\\r").replace("\t", "\\t") + '"'


def gen_config_case(r):
    """one configuration + CLI vector, rendered as TOML (for MainConfig::new) and as the model call"""
    def hashv():
        x = r.random()
        if x < 0.93:
            return r.choice([GOOD_HASH, GOOD_HASH2])
        return r.choice([GOOD_HASH[:-1], GOOD_HASH + "A", GOOD_HASH[:-1] + "x", GOOD_HASH[:-1] + "B", "short",
                         GOOD_HASH.replace("/", "-"), "", GOOD_HASH[:-2] + "==",
                         # a well-formed hash with blanks around it is NOT a well-formed hash (argon2 would never accept it)
                         GOOD_HASH + "\n", " " + GOOD_HASH, GOOD_HASH + " ", "\t" + GOOD_HASH2, GOOD_HASH2 + "\r\n"])
    def uname():
        if r.random() < 0.9:
            return r.choice(["matszpk", "lucas", "ala", "é", "n" * 200])
        return r.choice(["a.b", "#chan", "a,b", "a:b", "", "a b", "x!y", "n" * 201])
    name = r.choice(["irc.test", "irci.localhost", "a.b.c"]) if r.random() < 0.88 else r.choice(["nodot", ""])
    network = r.choice(["Net", "IRCnet", ""])
    listen = r.choice(["127.0.0.1", "0.0.0.0", "::1"])
    port = r.choice([6667, 6697, 1, 65535])
    pw = hashv() if r.random() < 0.4 else None
    dns = r.random() < 0.3
    tls = ("cert.crt", "key.crt") if r.random() < 0.2 else None
    opers = [(uname(), hashv(), r.choice([None, "*!*@*"])) for _ in range(r.choice([0, 0, 1, 2]))]
    users = []
    for _ in range(r.choice([0, 0, 1, 2])):
        up = None
        if r.random() < 0.6:
            up = hashv() if r.random() < 0.95 else r.choice(["abc", "12345"])
        users.append((uname(), uname(), up, r.choice([None, "*!*@localhost"])))
    chans = [(r.choice(["#a", "&b", "#ok"]) if r.random() < 0.9 else r.choice(["nochan", "#x,y", "", "#a:b"]))
             for _ in range(r.choice([0, 0, 1, 2]))]
    cli = {"listen": r.choice([None, None, "10.0.0.1"]), "port": r.choice([None, None, 7000]),
           "name": r.choice([None, None, "cli.name", "clinodot"]), "network": r.choice([None, None, "CliNet"]),
           "log": r.choice([None, None, "x.log"]), "dns": r.random() < 0.2,
           "cert": None, "key": None}
    x = r.random()
    if x < 0.15:
        cli["cert"], cli["key"] = "c.pem", "k.pem"
    elif x < 0.22:
        cli["cert"] = "c.pem"
    elif x < 0.29:
        cli["key"] = "k.pem"
    t = []
    t.append("name = %s" % toml_str(name))
    t.append('admin_info = "a"\ninfo = "i"\nmotd = "m"')
    t.append("listen = %s" % toml_str(listen))
    t.append("port = %d" % port)
    t.append("network = %s" % toml_str(network))
    if pw is not None:
        t.append("password = %s" % toml_str(pw))
    t.append("ping_timeout = 100\npong_timeout = 30")
    t.append("dns_lookup = %s" % ("true" if dns else "false"))
    t.append('log_level = "INFO"')
    if tls:
        t.append("[tls]\ncert_file = %s\ncert_key_file = %s" % (toml_str(tls[0]), toml_str(tls[1])))
    t.append("[default_user_modes]\ninvisible = false\noper = false\nlocal_oper = false\nregistered = false\nwallops = false")
    for (n, p, m) in opers:
        t.append("[[operators]]\nname = %s\npassword = %s" % (toml_str(n), toml_str(p)) + ("\nmask = %s" % toml_str(m) if m else ""))
    for (n, k, p, m) in users:
        t.append("[[users]]\nname = %s\nnick = %s" % (toml_str(n), toml_str(k)) + ("\npassword = %s" % toml_str(p) if p is not None else "")
                 + ("\nmask = %s" % toml_str(m) if m else ""))
    for c in chans:
        t.append("[[channels]]\nname = %s\n[channels.modes]\ninvite_only = false\nmoderated = false\nsecret = false\nprotected_topic = false\nno_external_messages = false" % toml_str(c))
    toml = "\n".join(t) + "\n"
    args = []
    for flag, key in (("-l", "listen"), ("-p", "port"), ("-n", "name"), ("-N", "network"), ("-L", "log"), ("-C", "cert"), ("-K", "key")):
        if cli[key] is not None:
            args += [flag, str(cli[key])]
    if cli["dns"]:
        args.append("-d")
    def o(x):
        return "-" if x is None else "+" + esc(str(x))
    def rec(parts):
        return "|".join(parts)
    from .canon import esc_list
    model = ["configm", esc(name), esc(network), esc(listen), str(port), o(pw), "1" if dns else "0",
             "-" if not tls else "+" + esc(rec(tls)),
             esc_list([rec([n, p, "-" if m is None else "+" + m]) for (n, p, m) in opers]),
             esc_list([rec([n, k, "-" if p is None else "+" + p, "-" if m is None else "+" + m]) for (n, k, p, m) in users]),
             esc_list(chans),
             o(cli["listen"]), o(cli["port"]), o(cli["name"]), o(cli["network"]), o(cli["log"]),
             "1" if cli["dns"] else "0", o(cli["cert"]), o(cli["key"])]
    impl = "config " + esc(toml) + (" " + " ".join(esc(a) for a in args) if args else "")
    return impl, " ".join(model)


def fmt_call(c):
    name, args = c
    if name == "codec" or name == "chum":
        return name + " " + " ".join(args)
    if name == "banned_raw":
        return "banned " + " ".join(args)
    return name + " " + " ".join(esc(a) for a in args)


FAMILIES = {
    "C13": ["msg", "cmd", "render", "validators", "codec"],
    "C14": ["mw", "norm", "banned"],
    "C07": ["banned"],
    "C10": ["banned"],
    "C20": ["config", "hash"],
}


def run_config_family(tier, r, res):
    """MainConfig::new on generated TOML + CLI vectors vs Config.loadConfig"""
    n = 400 if tier == "quick" else 6000
    cases = [gen_config_case(r) for _ in range(n)]
    pi, pm = runner.WORK + "/fn-C20-config-impl.txt", runner.WORK + "/fn-C20-config-model.txt"
    open(pi, "w").write("\n".join(c[0] for c in cases) + "\n")
    open(pm, "w").write("\n".join(c[1] for c in cases) + "\n")
    ri = runner.sh([runner.HARNESS, "fn", pi], timeout=1800)
    rm = runner.sh([runner.MODEL, "fn", pm], timeout=1800)
    if ri.returncode != 0 or rm.returncode != 0:
        raise runner.BuildError("config fn mode failed: %s %s" % (ri.stderr[-500:], rm.stderr[-500:]))
    oi, om = ri.stdout.split("\n"), rm.stdout.split("\n")
    bad = 0
    kinds = {"Ok": 0, "Err": 0}
    for c, a, b in zip(cases, oi, om):
        kinds[a.split(" ")[0]] = kinds.get(a.split(" ")[0], 0) + 1
        if a != b:
            bad += 1
            if bad <= 3:
                res["mismatches"].append({"family": "config", "call": c[1], "toml": unesc(c[0].split(" ")[1])[:1500],
                                          "impl": a, "model": b, "oracle_fail": False, "detail": a[:40]})
    res["families"]["config"] = {"calls": n, "mismatches": bad, "outcomes": kinds}
    res["calls"] += n
    res["samples"].append({"fn": "config", "model_call": cases[0][1], "result": oi[0]})


def run_hash_family(tier, r, res):
    """argon2 '-g' hash accepts exactly the password it was generated from (implementation-only oracle)"""
    n = 12 if tier == "quick" else 120
    pws = ["".join(r.choice("abcXYZ019 é!") for _ in range(r.choice([1, 4, 9, 20]))) for _ in range(n)]
    p1 = runner.WORK + "/fn-C20-hash.txt"
    open(p1, "w").write("\n".join("hash " + esc(p) for p in pws) + "\n")
    r1 = runner.sh([runner.HARNESS, "fn", p1], timeout=1800)
    hashes = [unesc(x) for x in r1.stdout.split("\n") if x]
    calls = []
    for p, h in zip(pws, hashes):
        calls.append(("verify", p, h, "true"))
        calls.append(("verify", p + "x", h, "false"))
        calls.append(("verify", p[:-1], h, "false"))
        calls.append(("verify", p.swapcase() if p.swapcase() != p else p + " ", h, "false"))
        calls.append(("vhash", h, None, "true"))
        for bad in (h + " ", " " + h, h + "\n", "\t" + h, h[:-1], h + "A", h[:40] + " " + h[41:]):
            calls.append(("vhash", bad, None, "false"))
    p2 = runner.WORK + "/fn-C20-verify.txt"
    open(p2, "w").write("\n".join(("verify %s %s" % (esc(c[1]), esc(c[2]))) if c[0] == "verify" else "vhash " + esc(c[1])
                                    for c in calls) + "\n")
    r2 = runner.sh([runner.HARNESS, "fn", p2], timeout=1800)
    # the model agrees on the shape of every generated hash
    p3 = runner.WORK + "/fn-C20-vhash-model.txt"
    vcalls = [c for c in calls if c[0] == "vhash"]
    open(p3, "w").write("\n".join("vhash " + esc(c[1]) for c in vcalls) + "\n")
    r3 = runner.sh([runner.MODEL, "fn", p3], timeout=600)
    out = r2.stdout.split("\n")
    bad = 0
    for c, a in zip(calls, out):
        if a != c[3]:
            bad += 1
            if bad <= 3:
                res["mismatches"].append({"family": "hash", "call": list(c[:3]), "impl": a, "model": c[3],
                                          "oracle_fail": True, "detail": a[:40]})
    for c, a in zip(vcalls, r3.stdout.split("\n")):
        if a != c[3]:
            bad += 1
            res["mismatches"].append({"family": "hash", "call": ["vhash-model", c[1]], "impl": c[3], "model": a,
                                      "oracle_fail": False, "detail": "model and oracle disagree on the shape of a hash"})
    res["families"]["hash"] = {"calls": len(calls) + len(hashes), "mismatches": bad}
    res["calls"] += len(calls) + len(hashes)


def run(pid, families, tier, seed, log):
    fams = FAMILIES.get(pid, [])
    r = random.Random(seed * 7919 + 13)
    os.makedirs(runner.WORK, exist_ok=True)
    res = {"calls": 0, "mismatches": [], "families": {}, "samples": []}
    for fam in fams:
        if fam == "config":
            run_config_family(tier, r, res)
            continue
        if fam == "hash":
            run_hash_family(tier, r, res)
            continue
        calls = gen_calls(fam, tier, r)
        path = runner.WORK + "/fn-%s-%s.txt" % (pid, fam)
        with open(path, "w") as f:
            for c in calls:
                f.write(fmt_call(c) + "\n")
        ri = runner.sh([runner.HARNESS, "fn", path], timeout=1800)
        rm = runner.sh([runner.MODEL, "fn", path], timeout=1800)
        if ri.returncode != 0 or rm.returncode != 0:
            raise runner.BuildError("fn mode failed: %s %s" % (ri.stderr[-500:], rm.stderr[-500:]))
        oi, om = ri.stdout.split("\n"), rm.stdout.split("\n")
        n_bad = 0
        for c, a, b in zip(calls, oi, om):
            oracle_fail = False
            if fam == "mw":
                exp = "true" if pyglob(c[1][0], c[1][1]) else "false"
                if a != exp:
                    oracle_fail = True
            if a != b or oracle_fail:
                n_bad += 1
                if n_bad <= 3:
                    res["mismatches"].append({"family": fam, "call": c, "impl": a, "model": b,
                                              "oracle_fail": oracle_fail or a == "PANIC",
                                              "detail": ("impl=%s" % a)[:40]})
        res["families"][fam] = {"calls": len(calls), "mismatches": n_bad}
        res["calls"] += len(calls)
        if calls:
            res["samples"].append({"fn": fam, "call": calls[len(calls) // 2], "result": oi[len(calls) // 2]})
    return res
