"""Seeded, structured, state-aware generator of multi-client operation sequences
(DESIGN.md 4.3).  Every random choice comes from one random.Random(seed)."""
import zlib
import random
from .canon import esc, esc_list

NICKS = ["alice", "bob", "carol", "dave", "oper", "reg"]
CASE_NICKS = ["Alice", "BOB", "Carol", "aLICE"]
ODD_NICKS = ["é", "a*b", "x?y", "[w]", "~t", "@z", "+p"]
CHANS = ["#a", "#b", "&c", "#sec"]
ODD_CHANS = ["#é", "#a:b", "&", "#", "#x y"]
HOSTS = ["127.0.0.1", "10.0.0.2", "192.168.1.77", "::1"]
MASKS = ["Alice!*@*", "*!~U*@*", "B*!*@*", "*!*@*", "alice!*@*", "*!*@127.0.0.1", "*!~al@*", "bob", "b*", "*o*!*@*", "a?ice", "*@10.0.0.2",
         "carol!~c@*", "*!*@10.*", "x", "*", "?", "*!*@192.168.1.77", "dave!*", "al*ce!~al*@127.*.1"]
TEXTS = ["hello", "hello world", ":colon start", "a:b c", "", "tab\there", "ünï çødé", "x" * 30, "trailing ", " lead",
         ":)", "::", "a:b", "http://x.y:80/", ":"]
KEYS = ["k1", "k2", "sesame"]


# scenes that belong to a profile's subject are drawn more often there (half of the scenes of that profile)
SCENE_BIAS = {
    "kti": ["kick_repeat", "kick_ranks", "topic_lock", "invite_ranks", "invite_ranks", "invite_key", "invite_recreate", "invite_ban", "limit_invite", "halfop_mode"],
    "mode": ["pre_bans", "list_masks", "ranks_ladder", "halfop_mode", "topic_lock", "moderated_prefix", "ban_case", "invite_key", "limit_invite", "kick_ranks"],
    "nick": ["voice_rename", "wallops_rename", "case_twins", "rename_masks", "pre_rename", "ban_case"],
    "join": ["list_masks", "pre_bans", "pre_bans", "invite_key", "invite_recreate", "invite_ban", "limit_invite", "quota_invisible", "rejoin_list", "ban_case", "case_twins"],
    "member": ["rejoin_list", "kick_repeat", "voice_rename", "kick_ranks", "pre_rename", "ranks_ladder"],
    "chanlife": ["pre_bans", "invite_recreate", "pre_rename", "kick_repeat", "rejoin_list", "kick_ranks"],
    "secret": ["list_masks", "secret_whois", "quota_invisible", "rename_masks", "case_twins"],
    "oper": ["oper_cycle", "wallops_rename", "case_twins"],
    "stats": ["oper_cycle", "quota_invisible", "wallops_rename"],
    "endings": ["wallops_rename", "oper_cycle", "invite_recreate", "pre_rename", "late_cap", "late_cap"],
    "msg": ["multi_prefix", "multi_prefix", "flood_targets", "voice_rename", "moderated_prefix", "case_twins", "ban_case"],
    "speak": ["multi_prefix", "list_masks", "moderated_prefix", "ban_case", "case_twins", "voice_rename", "flood_targets"],
    "general": ["kick_repeat", "halfop_mode", "kick_ranks"],
}


def long_text(r):
    """longer than the *LEN values the server advertises in 005 (1000; nicks 200) but inside the 2000-byte line limit;
    multi-byte characters are placed so that byte offsets such as 1000 fall inside a character"""
    n = r.choice([300, 999, 1000, 1001, 1203, 1500])
    unit = r.choice(["a", "ab ", "\u017c", "x\u20ac", "word ", "\u017c\u017c "])
    s = r.choice(["", "a", "ab", "t "])
    while len(s.encode()) < n:
        s += unit
    return s

DEFAULT_WEIGHTS = {
    "JOIN": 10, "PART": 5, "PRIVMSG": 8, "NOTICE": 3, "MODE_CH": 10, "MODE_U": 4, "KICK": 4, "TOPIC": 4,
    "INVITE": 3, "NICK": 4, "NAMES": 3, "WHO": 3, "WHOIS": 3, "WHOWAS": 1, "LIST": 2, "LUSERS": 2,
    "ISON": 1, "USERHOST": 1, "AWAY": 2, "OPER": 2, "KILL": 1, "DIE": 0.2, "SQUIT": 0.2, "WALLOPS": 1,
    "QUIT": 1, "EOF": 0.7, "RESET": 0.3, "PING": 1, "PONG": 0.5, "MISC": 2, "REGSTEP": 3, "CONNECT": 2,
    "GARBAGE": 2, "TOOLONG": 0.2, "BADUTF8": 0.2, "PARTIAL": 0.3, "STATS": 0.5,
}

PROFILES = {
    "general": {},
    "pingpong": {"PING": 30, "PONG": 20, "JOIN": 5, "PRIVMSG": 5, "REGSTEP": 6, "CONNECT": 4, "QUIT": 2, "NICK": 3},
    "msg": {"PRIVMSG": 30, "NOTICE": 12, "JOIN": 12, "MODE_CH": 12, "KICK": 4, "NICK": 4, "PART": 4, "AWAY": 3},
    "reg": {"REGSTEP": 40, "CONNECT": 12, "NICK": 10, "EOF": 5, "RESET": 2, "QUIT": 4, "PRIVMSG": 5, "JOIN": 5,
            "WHOIS": 3, "LUSERS": 3, "MODE_CH": 2},
    "member": {"JOIN": 25, "PART": 12, "KICK": 10, "NICK": 8, "QUIT": 3, "EOF": 3, "NAMES": 10, "WHO": 8,
               "WHOIS": 8, "MODE_CH": 5, "MODE_U": 4},
    "fuzz": {"GARBAGE": 40, "MISC": 10, "TOOLONG": 1, "BADUTF8": 1, "PARTIAL": 1},
    "endings": {"QUIT": 6, "EOF": 6, "RESET": 4, "KILL": 5, "OPER": 6, "TOOLONG": 1.5, "BADUTF8": 1.5, "JOIN": 15,
                "INVITE": 5, "MODE_U": 6, "MODE_CH": 6, "CONNECT": 8, "REGSTEP": 8, "WHOWAS": 4, "NAMES": 4,
                "LUSERS": 4, "ISON": 3, "PARTIAL": 1},
    "join": {"JOIN": 40, "MODE_CH": 25, "INVITE": 8, "PART": 8, "KICK": 3, "NICK": 3},
    "mode": {"MODE_CH": 50, "JOIN": 15, "NAMES": 4, "WHO": 3, "PRIVMSG": 4, "TOPIC": 3, "KICK": 3, "INVITE": 2},
    "kti": {"KICK": 25, "TOPIC": 20, "INVITE": 20, "JOIN": 20, "MODE_CH": 15, "LIST": 4, "PART": 4},
    "speak": {"PRIVMSG": 30, "NOTICE": 20, "MODE_CH": 25, "JOIN": 12, "AWAY": 6, "NICK": 3, "PART": 3},
    "oper": {"OPER": 15, "MODE_U": 25, "KILL": 8, "DIE": 1, "SQUIT": 1, "WALLOPS": 8, "STATS": 6, "NICK": 8,
             "LUSERS": 6, "WHOIS": 3, "CONNECT": 3, "REGSTEP": 4},
    "secret": {"MODE_CH": 20, "MODE_U": 10, "JOIN": 15, "LIST": 10, "NAMES": 12, "WHO": 14, "WHOIS": 12,
               "PRIVMSG": 6, "NOTICE": 3, "PART": 3},
    "nick": {"NICK": 30, "JOIN": 14, "MODE_CH": 22, "MODE_U": 8, "AWAY": 4, "INVITE": 4, "OPER": 3, "WHOWAS": 5,
             "WHOIS": 5, "NAMES": 4, "WALLOPS": 2, "PRIVMSG": 4, "CONNECT": 3, "REGSTEP": 4},
    "chanlife": {"JOIN": 30, "PART": 15, "KICK": 8, "QUIT": 4, "EOF": 3, "KILL": 2, "OPER": 3, "MODE_CH": 10,
                 "TOPIC": 5, "LIST": 5, "NAMES": 4, "INVITE": 3, "CONNECT": 4, "REGSTEP": 4},
    "stats": {"LUSERS": 15, "ISON": 8, "USERHOST": 8, "MODE_U": 20, "OPER": 10, "NICK": 6, "JOIN": 8, "PART": 4,
              "QUIT": 4, "EOF": 3, "RESET": 2, "CONNECT": 8, "REGSTEP": 6, "AWAY": 5, "KILL": 2},
}


class Gen:
    def __init__(self, seed, profile="general"):
        self.r = random.Random(seed)
        self.profile = profile
        w = dict(DEFAULT_WEIGHTS)
        over = PROFILES.get(profile, {})
        if over:
            # profile verbs dominate, everything else stays possible at low weight
            w = {k: v * 0.15 for k, v in w.items()}
            w.update(over)
        self.weights = w
        self.scene_rate = 0.0 if profile in ("fuzz", "pingpong") else (0.09 if profile == "reg" else 0.055)

    # ------------------------------------------------------------------ config
    def gen_cfg(self):
        r = self.r
        lines = ["cfg name irc.test"]
        self.server_pw = None
        if r.random() < (0.5 if self.profile in ("reg",) else 0.12):
            self.server_pw = "srvpw"
            lines.append("cfg password srvpw")
        self.max_joins = None
        if r.random() < (0.6 if self.profile in ("join", "chanlife") else 0.3):
            self.max_joins = r.choice([1, 2, 2, 3])
            lines.append("cfg max_joins %d" % self.max_joins)
        self.max_conns = None
        if r.random() < (0.5 if self.profile in ("stats", "reg") else 0.1):
            self.max_conns = r.choice([1, 2, 3, 4] if self.profile != "reg" else [1, 2, 3, 4, 6, 8, 8])
            lines.append("cfg max_connections %d" % self.max_conns)
        if r.random() < 0.4:
            dum = "".join(c for c in "iOorw" if r.random() < 0.25)
            lines.append("cfg dum %s" % esc(dum))
        # texts the welcome burst, ADMIN, INFO, MOTD and LUSERS quote from the configuration
        if r.random() < 0.3:
            lines.append("cfg admin_info2 %s" % esc(r.choice(["second floor", "x", ":colon first"])))
        if r.random() < 0.3:
            lines.append("cfg admin_email %s" % esc(r.choice(["adm@example.org", "a b c"])))
        if r.random() < 0.2:
            lines.append("cfg admin_info %s" % esc(r.choice(["Main admin", "somebody somewhere"])))
        if r.random() < 0.2:
            lines.append("cfg motd %s" % esc(r.choice(["Hello, world!", ":starts with colon", "two  blanks", "x"])))
        if r.random() < 0.2:
            lines.append("cfg network %s" % esc(r.choice(["TestNet", "N"])))
        if r.random() < 0.15:
            lines.append("cfg info %s" % esc(r.choice(["A test server", "i"])))
        # operators
        self.opers = []
        if r.random() < 0.8:
            mask = r.choice(["-", "-", "+" + esc("*!*@127.0.0.1"), "+" + esc("oper!*@*"), "+" + esc("*!~o*@*"),
                             # short forms are NOT completed for operator masks: they simply never match a nick!user@host
                             "+oper", "+" + esc("oper@127.0.0.1"), "+" + esc("oper!~uop")])
            lines.append("cfg oper oper operpw %s" % mask)
            self.opers.append(("oper", "operpw"))
            if r.random() < 0.2:
                lines.append("cfg oper alice alicepw -")
                self.opers.append(("alice", "alicepw"))
        # configured users
        self.cfg_users = {}
        if r.random() < (0.7 if self.profile == "reg" else 0.3):
            pw = r.choice(["-", "+regpw"] + (["+regpw"] if self.profile == "reg" else []))
            mask = r.choice(["-", "-", "+" + esc("*!*@127.0.0.1"), "+" + esc("reg!~reg@*"), "+" + esc("a*a")])
            lines.append("cfg user reg reg %s %s" % (pw, mask))
            self.cfg_users["reg"] = None if pw == "-" else "regpw"
        # preconfigured channels
        self.pre_chans = []
        self.pre_ranked = []
        self.pre_masks = []
        cf = getattr(self, "cfg_force", None) or {}
        self.pre_rank_lists = []
        if r.random() < 0.4 or "one_rank" in cf:
            name = r.choice(["#pre", "#a", "&c"])
            topic = r.choice(["-", "+" + esc("configured topic")])
            flags = "".join(c for c in "imstn" if r.random() < 0.25)
            key = r.choice(["-", "-", "+k1"])
            limit = r.choice(["-", "-", "+1", "+2"])
            def pick(pool, p=0.3):
                return [x for x in pool if r.random() < p]
            pb = 0.35 if self.profile in ("join", "chanlife", "speak", "mode") else 0.15
            bans, excs, invs = pick(MASKS[:6], pb), pick(MASKS[:6], 0.1), pick(MASKS[:6], 0.1)
            ranks = [pick(NICKS, 0.2), pick(NICKS, 0.15), pick(NICKS, 0.25), pick(NICKS, 0.2), pick(NICKS, 0.25)]
            if r.random() < 0.3 or cf.get("one_rank") is not None:
                # exactly one configured rank list
                keep = r.randrange(5)
                if cf.get("one_rank") is not None:
                    keep = cf["one_rank"]
                ranks = [(x or [r.choice(NICKS)]) if i == keep else [] for i, x in enumerate(ranks)]
            if cf.get("open"):
                # nothing in the way of a JOIN: the scene is about what the joiner becomes
                key, limit, bans, flags = "-", "-", [], flags.replace("i", "")
            lines.append("cfg chan %s %s %s %s %s %s %s %s %s %s %s %s %s" % (
                esc(name), topic, esc(flags), key, limit,
                esc_list(bans), esc_list(excs), esc_list(invs), *[esc_list(x) for x in ranks]))
            self.pre_chans.append(name)
            self.pre_ranked = sorted({n for lst in ranks[:4] for n in lst})
            self.pre_masks = bans + excs
            self.pre_rank_lists = ranks
        return lines

    # ------------------------------------------------------------------ helpers
    def pick_nick(self, existing_bias=0.8):
        r = self.r
        regs = [c["nick"] for c in self.conns.values() if c["live"] and c.get("nick")]
        if regs and r.random() < existing_bias:
            return r.choice(regs)
        if r.random() < 0.1:
            return r.choice(ODD_NICKS)
        if r.random() < 0.12:
            return r.choice(CASE_NICKS)
        return r.choice(NICKS)

    def pick_chan(self):
        r = self.r
        x = r.random()
        if x < 0.04:
            return r.choice(ODD_CHANS)
        if x < 0.12 and self.pre_chans:
            return r.choice(self.pre_chans)
        return r.choice(CHANS)

    def pick_live(self, registered=None):
        ids = [i for i, c in self.conns.items() if c["live"] and (registered is None or c["done"] == registered)]
        return self.r.choice(ids) if ids else None

    def line(self, c, text):
        # a client may prefix its line with a ':source' (its own nick, somebody else's, nobody's, a full mask): the
        # prefix is parsed and otherwise ignored - the line is executed or answered like the unprefixed one
        if self.profile not in ("pingpong",) and text and not text.startswith(":") and len(text.encode()) < 1800 \
                and self.r.random() < 0.025:
            r = self.r
            pre = r.choice([self.pick_nick(1.0), self.pick_nick(1.0), self.conns.get(c, {}).get("nick") or "x",
                            "nobody", "irc.test", self.pick_nick(1.0) + "!~u@h", "a b"[:1]])
            text = ":%s %s" % (pre, text)
        # a `line` operation is a line the codec accepts (at most 2000 bytes); longer input is the `toolong` operation
        if len(text.encode()) > 2000:
            text = text.encode()[:1990].decode(errors="ignore")
        self.ops.append("line %d %s" % (c, esc(text)))

    def text(self, pool=None):
        """a text parameter: mostly short, now and then very long (see long_text)"""
        r = self.r
        if self.profile not in ("fuzz", "pingpong") and r.random() < 0.035:
            return long_text(r)
        return r.choice(pool or TEXTS)

    def register(self, c, nick=None, shuffle=False):
        """emit the registration steps of connection c"""
        r = self.r
        nick = nick or r.choice(NICKS)
        user = r.choice(["reg"] if nick == "reg" and r.random() < 0.8 else ["u" + nick[:2], "reg", "x"])
        if user == "reg" and "reg" in self.cfg_users and r.random() < 0.3:
            nick = r.choice(["Reg", "REG", "rEg", "reg2"])  # a configured user's mask is matched case-sensitively
        if r.random() < 0.3 and nick in NICKS:
            user = nick  # the common real-life case: user name = first nick (and so a substring of the source twice)
        steps = []
        pw = None
        if user in self.cfg_users and self.cfg_users[user]:
            pw = self.cfg_users[user]
        elif self.server_pw:
            pw = self.server_pw
        if pw and r.random() < 0.85:
            steps.append("PASS " + (pw if r.random() < 0.85 else "wrong"))
        elif r.random() < 0.05:
            steps.append("PASS whatever")
        cap = r.random() < 0.25
        if cap:
            steps.append(r.choice(["CAP LS 302", "CAP LS", "CAP REQ :multi-prefix", "CAP REQ multi-prefix",
                                   "CAP REQ :multi-prefix foo", "CAP LIST"]))
        steps.append("NICK " + nick)
        steps.append("USER %s 0 * :%s" % (user, r.choice(["Real Name", nick, "r"])))
        if shuffle or r.random() < 0.2:
            r.shuffle(steps)
        if cap and r.random() < 0.9:
            steps.append("CAP END")
        for s in steps:
            self.line(c, s)
        self.conns[c]["nick"] = nick
        self.conns[c]["done"] = True

    # ------------------------------------------------------------------ one op
    def modestring(self):
        r = self.r
        if r.random() < 0.12:
            a, b = self.pick_nick(), self.pick_nick()
            return r.choice(["+ol %s 10" % a, "+hl %s 3" % a, "+qk %s k1" % a, "+al %s 2" % a, "+vl %s 1" % a,
                             "+ok %s k2" % a, "+oh %s %s" % (a, b), "-ol+k %s k1" % a, "+lo 10 %s" % a,
                             "+bl *!*@* 2", "+ov %s %s" % (a, b), "+kl k1 2", "+lk 2 k1", "+ik k1", "+il 1"])
        n = r.choice([1, 1, 1, 2, 2, 3, 4])
        out = ""
        args = []
        sign = None
        for _ in range(n):
            s = r.choice("++-")
            if s != sign or r.random() < 0.1:
                out += s
                sign = s
            l = r.choice("ovhqabeIklimtnsovb" + ("z" if r.random() < 0.03 else ""))
            out += l
            if l in "ovhqa":
                if r.random() < 0.95:
                    mem = [self.conns[x]["nick"] for x in self.chan_members.get(self.cur_chan, [])
                           if self.conns[x].get("nick")] if self.cur_chan else []
                    args.append(r.choice(mem) if mem and r.random() < 0.8 else self.pick_nick())
            elif l in "beI":
                if r.random() < 0.85:
                    args.append(r.choice(MASKS))
            elif l == "k":
                if (sign == "+") == (r.random() < 0.92):
                    args.append(r.choice(KEYS))
            elif l == "l":
                if (sign == "+") == (r.random() < 0.92):
                    args.append(r.choice(["1", "2", "3", "0", "x", "99999999999999999999", "+2"]))
        if r.random() < 0.05:
            args.append("extra")
        if r.random() < 0.08 and len(args) > 0:
            # second mode group
            return out + " " + " ".join(args) + " " + r.choice(["+m", "-t", "+v " + self.pick_nick()])
        return (out + " " + " ".join(args)).strip()

    # ------------------------------------------------------------------ scenes
    # short scripted interactions of two or three conditions that random choice rarely lines up
    def new_conn(self, limit=16, host=None):
        if len(self.conns) >= limit:
            return None
        c = len(self.conns) + 1
        self.conns[c] = {"live": True, "nick": None, "done": False}
        self.ops.append("connect %d %s" % (c, host or self.r.choice(HOSTS)))
        return c

    def reg_scene(self):
        """registration attempts that are refused half-way and then retried with another identity element: whatever
        was checked for the first attempt must be checked again for the second"""
        r = self.r
        L = self.line
        c = self.new_conn()
        if c is None:
            return
        live = {x.get("nick") for x in self.conns.values() if x["live"] and x.get("nick")}
        free = [x for x in NICKS if x not in live] or ["zz9"]
        n1 = r.choice(free)
        n2 = r.choice([x for x in free if x != n1] or ["zz8"])
        pws = [p for p in (self.server_pw, self.cfg_users.get("reg")) if p] + ["wrong"]
        fk = self.force[1] if getattr(self, "force", None) and self.force[0] == "reg" else None
        if (fk == "twin") or (fk is None and r.random() < 0.25):
            # twins: a refused connection that looks exactly like the owner (same nick asked for, same user name, same host)
            # still is not the owner - its end removes nobody
            host = r.choice(HOSTS)
            self.ops[-1] = "connect %d %s" % (c, host)
            pw = self.server_pw
            if pw: L(c, "PASS " + pw)
            L(c, "NICK " + n1)
            d = self.new_conn(host=host)
            if d is None:
                return
            if pw: L(d, "PASS " + pw)
            L(d, "NICK " + n1); L(d, "USER tw 0 * :Twin")
            if r.random() < 0.5:
                L(c, "USER tw 0 * :Twin")      # refused at completion (433) ... or never completes at all
            self.conns[d]["nick"] = n1; self.conns[d]["done"] = True
            end = r.choice(["eof", "reset", "quit", "quit"])
            if end == "quit":
                L(c, "QUIT :bye")
            else:
                self.ops.append("%s %d" % (end, c))
            self.conns[c]["live"] = False
            L(d, "WHOIS " + n1); L(d, "LUSERS"); L(d, "PRIVMSG %s :still here" % n1)
            return
        k = r.choice(["overtaken", "overtaken", "taken_then_user", "pass_twice", "user_twice", "cap_mid"])
        if fk and fk != "slots":
            k = fk
        if self.max_conns and ((fk == "slots") or (fk is None and r.random() < 0.5)):
            # connection slots: fill up to the limit, be refused, free a slot, connect again - a refusal uses up nothing
            self.conns[c]["live"] = True
            opened = [c]
            for _ in range(self.max_conns + r.choice([1, 2])):
                d = self.new_conn(limit=40)
                if d is not None:
                    opened.append(d)
            for _ in range(r.choice([1, 2])):
                victims = [x for x, v in self.conns.items() if v["live"]]
                if victims:
                    v = r.choice(victims)
                    self.ops.append("%s %d" % (r.choice(["eof", "reset"]), v)); self.conns[v]["live"] = False
                d = self.new_conn(limit=40)
                if d is not None:
                    L(d, "NICK " + n2); L(d, "USER s 0 * :slot"); L(d, "LUSERS")
                    self.conns[d]["nick"] = n2; self.conns[d]["done"] = True
                    n2 = n2 + "_"
            return
        if k == "overtaken":
            # NICK accepted while free, somebody else registers it first, completion is refused (433), then the
            # connection names ANOTHER user (a configured one with its own password <-> an ordinary one under the
            # server password) and another nick: the password must be checked again for the new identity
            ids = [("x", self.server_pw), ("reg", self.cfg_users.get("reg") or self.server_pw)]
            if r.random() < 0.5:
                ids.reverse()
            (u1, p1), (u2, p2) = ids
            if r.random() < 0.3:
                u2 = r.choice(["u1", n2, u1])
            if p1 and r.random() < 0.8:
                L(c, "PASS " + p1)
            elif r.random() < 0.5:
                L(c, "PASS " + r.choice(pws))
            L(c, "NICK " + n1)
            d = self.new_conn()
            if d is not None:
                if r.random() < 0.75:
                    # an overtaker that surely registers (the random registration below often fails on purpose)
                    if self.server_pw: L(d, "PASS " + self.server_pw)
                    L(d, "NICK " + n1); L(d, "USER ov 0 * :Over")
                    self.conns[d]["nick"] = n1; self.conns[d]["done"] = True
                else:
                    self.register(d, n1)
            L(c, "USER %s 0 * :R" % u1)
            if r.random() < 0.2:
                L(c, "PASS " + r.choice(pws))
            L(c, "USER %s 0 * :R2" % u2)
            L(c, "NICK " + n2)
        elif k == "taken_then_user":
            if r.random() < 0.8 and len(pws) > 1:
                L(c, "PASS " + r.choice(pws))
            taken = r.choice(sorted(live)) if live else n1
            L(c, "NICK " + taken); L(c, "USER %s 0 * :R" % r.choice(["reg", "x"])); L(c, "NICK " + n2)
            L(c, "USER %s 0 * :R" % r.choice(["reg", "x", "u2"]))
        elif k == "pass_twice":
            L(c, "PASS " + r.choice(pws)); L(c, "NICK " + n1); L(c, "PASS " + r.choice(pws))
            L(c, "USER %s 0 * :R" % r.choice(["reg", "x"]))
        elif k == "user_twice":
            L(c, "USER %s 0 * :R" % r.choice(["reg", "x"])); L(c, "USER %s 0 * :R" % r.choice(["reg", "x", "y"]))
            if r.random() < 0.5:
                L(c, "PASS " + r.choice(pws))
            L(c, "NICK " + n1)
        elif k == "cap_mid":
            L(c, r.choice(["CAP LS 302", "CAP REQ :multi-prefix", "CAP REQ :foo"])); L(c, "NICK " + n1)
            L(c, "USER %s 0 * :R" % r.choice(["reg", "x"])); L(c, "PASS " + r.choice(pws))
            L(c, r.choice(["CAP END", "CAP END", "CAP LIST"])); L(c, "CAP END")
        # probes: who is registered now, and as what
        L(c, "WHOIS " + n2); L(c, "WHOIS " + n1); L(c, "MODE " + n2); L(c, "LUSERS")
        self.conns[c]["nick"] = n2 if k in ("overtaken", "taken_then_user") else n1
        self.conns[c]["done"] = True

    def long_scene(self, a, b, na, nb):
        """parameters longer than the lengths advertised in 005 (nothing is cut or refused by this server)"""
        r = self.r
        L = self.line
        k = r.choice(["topic", "chan", "key", "nick", "kick", "away", "real"])
        if getattr(self, "force", None) and self.force[0] == "long":
            k = self.force[1]
        ch = r.choice(["#s1", "#s2"])
        if k == "topic":
            t = long_text(r)
            L(a, "JOIN " + ch); L(b, "JOIN " + ch); L(a, "TOPIC %s :%s" % (ch, t)); L(b, "TOPIC " + ch); L(b, "LIST " + ch)
            L(b, "PART " + ch); L(b, "JOIN " + ch)
        elif k == "chan":
            lc = "#" + "c" * r.choice([49, 50, 64, 199, 200, 201, 999, 1000, 1001, 1200])
            L(a, "JOIN " + lc); L(b, "JOIN " + lc); L(a, "PRIVMSG %s :hi" % lc); L(b, "NAMES " + lc); L(b, "PART " + lc)
        elif k == "key":
            lk = "k" * r.choice([23, 24, 32, 999, 1000, 1001])
            L(a, "JOIN " + ch); L(a, "MODE %s +k %s" % (ch, lk)); L(b, "JOIN %s %s" % (ch, lk)); L(a, "MODE " + ch)
            L(b, "PART " + ch); L(b, "JOIN %s %s" % (ch, lk[:-1]))
        elif k == "nick":
            ln = "n" * r.choice([9, 10, 30, 31, 199, 200, 201, 260])
            L(b, "NICK " + ln); L(a, "WHOIS " + ln); L(a, "PRIVMSG %s :hi" % ln); L(b, "NICK " + nb)
        elif k == "kick":
            L(a, "JOIN " + ch); L(b, "JOIN " + ch); L(a, "KICK %s %s :%s" % (ch, nb, long_text(r))); L(b, "JOIN " + ch)
            L(b, "PART %s :%s" % (ch, long_text(r)))
        elif k == "away":
            L(b, "AWAY :" + long_text(r)); L(a, "PRIVMSG %s :are you there" % nb); L(a, "WHOIS " + nb); L(a, "USERHOST " + nb)
            L(b, "AWAY")
        elif k == "real":
            c = self.new_conn()
            if c is not None:
                live = {x.get("nick") for x in self.conns.values() if x["live"] and x.get("nick")}
                n1 = r.choice([x for x in NICKS if x not in live] or ["zz9"])
                if self.server_pw:
                    L(c, "PASS " + self.server_pw)
                L(c, "NICK " + n1); L(c, "USER %s 0 * :%s" % ("u" * r.choice([1, 12, 64, 300]), long_text(r)))
                L(a, "WHOIS " + n1); L(a, "WHO " + n1)
                self.conns[c]["nick"] = n1
                self.conns[c]["done"] = True

    def bulk_scene(self):
        """the same thing many times: list lengths at which chunking, caps and 'full' conditions start to matter"""
        r = self.r
        L = self.line
        regs = [c for c, x in self.conns.items() if x["live"] and x["done"] and x.get("nick")]
        k = r.choice(["whowas_many", "ison_many", "bans_many", "joins_many", "invites_many", "members_many", "names_long"])
        if self.profile == "member" and r.random() < 0.4:
            k = r.choice(["names_long", "members_many", "joins_many"])
        if getattr(self, "force", None) and self.force[0] == "bulk":
            k = self.force[1]
        live = {x.get("nick") for x in self.conns.values() if x["live"] and x.get("nick")}
        if k == "whowas_many":
            # one nickname released again and again (session ends and renames away from it), then WHOWAS
            nick = r.choice([x for x in NICKS if x not in live] or ["zz7"])
            n = r.choice([3, 8, 9, 10, 12])
            for i in range(n):
                c = self.new_conn()
                if c is None:
                    break
                if self.server_pw:
                    L(c, "PASS " + self.server_pw)
                L(c, "NICK " + nick); L(c, "USER w%d 0 * :Session %d" % (i, i))
                how = r.choice(["quit", "quit", "eof", "nick"])
                if how == "quit":
                    L(c, "QUIT :bye %d" % i); self.conns[c]["live"] = False
                elif how == "eof":
                    self.ops.append("eof %d" % c); self.conns[c]["live"] = False
                else:
                    L(c, "NICK %sx%d" % (nick, i)); self.conns[c]["nick"] = "%sx%d" % (nick, i); self.conns[c]["done"] = True
                    L(c, "QUIT"); self.conns[c]["live"] = False
            if regs:
                L(regs[0], "WHOWAS " + nick); L(regs[0], "WHOWAS %s %s" % (nick, r.choice(["1", "3", "20"])))
        elif k == "ison_many" and regs:
            n = r.choice([19, 20, 21, 40, 41, 5])
            pool = sorted(live) + ["ghost%d" % i for i in range(45)]
            names = [r.choice(sorted(live)) if (live and r.random() < 0.4) else "ghost%d" % i for i in range(n)]
            L(regs[0], "ISON " + " ".join(names)); L(regs[0], "ISON " + " ".join(sorted(live) * 7)[:1500])
            L(regs[0], "USERHOST " + " ".join((sorted(live) + ["ghost1", "ghost2"]) * 2)[:400])
        elif k == "bans_many" and regs:
            a = regs[0]
            ch = "#bulk"
            L(a, "JOIN " + ch)
            n = r.choice([5, 12, 20])
            for i in range(0, n, 4):
                ms = ["m%d!*@*" % j for j in range(i, min(i + 4, n))]
                L(a, "MODE %s +%s %s" % (ch, r.choice("beI") * len(ms), " ".join(ms)))
            L(a, "MODE %s b" % ch); L(a, "MODE %s e" % ch); L(a, "MODE %s I" % ch); L(a, "MODE " + ch)
        elif k == "joins_many" and len(regs) > 1:
            a, b = regs[0], regs[1]
            chans = ["#j%d" % i for i in range(r.choice([6, 12, 25]))]
            L(a, "JOIN " + ",".join(chans)); L(b, "WHOIS " + self.conns[a]["nick"]); L(a, "NAMES"); L(b, "LIST")
            L(a, "PART " + ",".join(chans[::2]) + " :half"); L(b, "WHOIS " + self.conns[a]["nick"]); L(a, "JOIN 0")
        elif k == "invites_many" and len(regs) > 1:
            a, b = regs[0], regs[1]
            nb = self.conns[b]["nick"]
            chans = ["#i%d" % i for i in range(r.choice([3, 9, 17]))]
            L(a, "JOIN " + ",".join(chans))
            for ch in chans:
                L(a, "MODE %s +i" % ch); L(a, "INVITE %s %s" % (nb, ch))
            L(b, "JOIN " + ",".join(chans[:len(chans) // 2 + 1])); L(b, "JOIN " + ",".join(chans))
        elif k == "names_long":
            # a roster whose names do not fit one line: many members with nicknames near NICKLEN
            ch = "#longnames"
            n = r.choice([6, 13, 14, 15, 20, 21, 22, 41])
            ln = r.choice([90, 150, 160, 190]) if n < 20 else r.choice([3, 8, 90])
            made = []
            for i in range(n):
                c = self.new_conn(limit=70)
                if c is None:
                    break
                if self.server_pw:
                    L(c, "PASS " + self.server_pw)
                nk = "n%02d" % i + "x" * ln
                L(c, "NICK " + nk); L(c, "USER u%d 0 * :r" % i); L(c, "JOIN " + ch)
                self.conns[c]["nick"] = nk; self.conns[c]["done"] = True
                made.append(c)
            if made:
                L(made[0], "NAMES " + ch); L(made[-1], "WHO " + ch); L(made[0], "WHOIS " + self.conns[made[-1]]["nick"])
                for c in made[1:]:
                    L(c, "QUIT"); self.conns[c]["live"] = False
        elif k == "members_many":
            ch = "#crowd"
            for c in regs[:12]:
                L(c, "JOIN " + ch)
            if regs:
                L(regs[0], "NAMES " + ch); L(regs[0], "WHO " + ch); L(regs[0], "PRIVMSG %s :all" % ch)
                L(regs[0], "MODE %s +%s %s" % (ch, "v" * min(len(regs), 6), " ".join(self.conns[c]["nick"] for c in regs[:6])))
                L(regs[-1], "NAMES " + ch)

    def scene(self):
        r = self.r
        f = getattr(self, "force", None)
        if f and f[0] == "reg":
            return self.reg_scene()
        if f and f[0] == "bulk":
            return self.bulk_scene()
        if f and f[0] == "long":
            regs = [c for c, x in self.conns.items() if x["live"] and x["done"] and x.get("nick")]
            if len(regs) >= 2:
                return self.long_scene(regs[0], regs[1], self.conns[regs[0]]["nick"], self.conns[regs[1]]["nick"])
            return
        if not f and r.random() < (0.55 if self.profile == "reg" else 0.06):
            return self.reg_scene()
        if not f and r.random() < 0.08:
            return self.bulk_scene()
        regs = [c for c, x in self.conns.items() if x["live"] and x["done"] and x.get("nick")]
        if len(regs) < 2:
            return
        if not f and r.random() < 0.08:
            return self.long_scene(regs[0], regs[1], self.conns[regs[0]]["nick"], self.conns[regs[1]]["nick"])
        r.shuffle(regs)
        a, b = regs[0], regs[1]
        c3 = regs[2] if len(regs) > 2 else None
        na, nb = self.conns[a]["nick"], self.conns[b]["nick"]
        ch = r.choice(["#s1", "#s2", "&s3"])
        k = r.choice(["invite_key", "invite_recreate", "invite_ban", "ranks_ladder", "halfop_mode", "quota_invisible",
                      "voice_rename", "wallops_rename", "flood_targets", "limit_invite", "case_twins", "kick_ranks",
                      "secret_whois", "oper_cycle", "moderated_prefix", "ban_case", "rejoin_list", "topic_lock",
                      "rename_masks", "kick_repeat", "pre_rename", "invite_ranks", "late_cap", "pre_bans", "list_masks", "multi_prefix"])
        bias = SCENE_BIAS.get(self.profile)
        if bias and r.random() < 0.5:
            k = r.choice(bias)
        if getattr(self, "force", None) and self.force[0] == "scene":
            k = self.force[1]
        L = self.line
        if k == "kick_repeat":
            # a target named more than once in one KICK, adjacent or not, with kickable / refused ones in between
            L(a, "JOIN " + ch); L(b, "JOIN " + ch)
            nc = self.conns[c3]["nick"] if c3 else "ghost"
            if c3: L(c3, "JOIN " + ch)
            if r.random() < 0.4: L(a, "MODE %s +%s %s" % (ch, r.choice(["o", "h", "v", "a"]), nb))
            pat = r.choice([[nb, nc, nb], [nb, nb], [nb, nc, nb, nc], [nb, "ghost", nb], [nc, nb, na, nb], [nb, nc, nc, nb]])
            L(a, "KICK %s %s%s" % (ch, ",".join(pat), r.choice(["", " :out"])))
            L(a, "NAMES " + ch); L(b, "JOIN " + ch)
        elif k == "pre_rename":
            # a nick listed in a preconfigured channel's rank lists renames while a member, leaves, and the
            # configured nick joins again (the configuration is not rewritten by a rename)
            if not self.pre_chans:
                return
            pch = self.pre_chans[0]
            live = {x.get("nick") for x in self.conns.values() if x["live"]}
            nn = r.choice([x for x in NICKS if x not in live] or ["zz9"])
            L(a, "JOIN " + pch); L(b, "JOIN " + pch); L(a, "NICK " + nn); L(a, "NAMES " + pch)
            L(a, "PART " + pch); L(a, "JOIN " + pch); L(a, "NICK " + na); L(a, "PART " + pch); L(a, "JOIN " + pch)
            L(b, "NAMES " + pch); L(b, "PART " + pch); L(b, "NICK " + nn); L(b, "JOIN " + pch)
            self.conns[b]["nick"] = nn
        elif k == "rename_masks":
            # masks are matched against the CURRENT nick!user@host of a renamed user
            live = {x.get("nick") for x in self.conns.values() if x["live"]}
            nn = r.choice([x for x in NICKS if x not in live] or ["zz9"])
            L(a, "JOIN " + ch); L(b, "NICK " + nn)
            if c3:
                L(c3, "WHO %s!*@*" % nn); L(c3, "WHO %s!*@*" % nb); L(c3, "WHO *%s*" % nn[:2])
            L(a, "WHO %s!*" % nn); L(a, "WHO %s!*" % nb)
            L(a, "MODE %s +b %s!*@*" % (ch, r.choice([nn, nb]))); L(b, "JOIN " + ch)
            L(a, "MODE %s +I %s!*@*" % (ch, nn)); L(a, "MODE %s +i" % ch); L(b, "JOIN " + ch)
            self.conns[b]["nick"] = nn
        elif k == "invite_key":
            L(a, "JOIN " + ch); L(a, "MODE %s +k sesame" % ch); L(a, "INVITE %s %s" % (nb, ch))
            L(b, "JOIN " + ch + r.choice(["", " wrong", " sesame"]))
            L(a, "MODE %s +I %s!*@*" % (ch, nb)); L(b, "JOIN " + ch + r.choice(["", " wrong"]))
        elif k == "invite_recreate":
            L(a, "JOIN " + ch); L(a, "INVITE %s %s" % (nb, ch)); L(a, "PART " + ch)
            L(b, "JOIN " + ch); L(b, "PART " + ch); L(a, "JOIN " + ch); L(a, "MODE %s +i" % ch); L(b, "JOIN " + ch)
        elif k == "invite_ban":
            L(a, "JOIN " + ch); L(a, "MODE %s +b %s!*@*" % (ch, nb)); L(a, "INVITE %s %s" % (nb, ch)); L(b, "JOIN " + ch)
            L(a, "MODE %s +e %s" % (ch, r.choice([nb + "!*@*", "*!*@127.*"]))); L(b, "JOIN " + ch)
        elif k == "ranks_ladder":
            L(a, "JOIN " + ch); L(b, "JOIN " + ch)
            if c3: L(c3, "JOIN " + ch)
            L(a, "MODE %s +%s %s" % (ch, r.choice(["h", "o", "v", "hv", "ho", "a"]), " ".join([nb] * 2)))
            if c3: L(a, "MODE %s +%s %s" % (ch, r.choice(["v", "h", "o"]), self.conns[c3]["nick"]))
            # a member acting on its OWN rank needs the same privilege as for anybody else's
            L(b, "MODE %s %s%s %s" % (ch, r.choice("-+-"), r.choice("hvoa"), nb))
            if c3: L(c3, "MODE %s -%s %s" % (ch, r.choice("vh"), self.conns[c3]["nick"]))
            L(a, "NAMES " + ch)
            self.chan_members[ch] = [x for x in (a, b, c3) if x]
            self.chan_founder[ch] = a
        elif k == "halfop_mode":
            L(a, "JOIN " + ch); L(b, "JOIN " + ch); L(a, "MODE %s +h %s" % (ch, nb))
            L(b, "MODE %s %s" % (ch, r.choice(["+ol %s 10" % na, "+ql %s 5" % na, "+ok %s key" % nb, "+vl %s 2" % na,
                                               "+al %s 3" % nb, "-o+l %s 4" % na, "+hl %s 7" % nb])))
            L(b, "KICK %s %s" % (ch, na))
        elif k == "quota_invisible":
            if self.max_joins:
                for i in range(self.max_joins):
                    L(b, "JOIN #q%d" % i)
            L(a, "JOIN " + ch); L(a, "MODE %s +i" % na); L(b, "WHO " + na); L(b, "JOIN " + ch)
            L(b, "WHO " + na); L(b, "WHOIS " + na); L(b, "WHO %s*" % na[:2])
        elif k == "voice_rename":
            L(a, "JOIN " + ch); L(b, "JOIN " + ch); L(a, "MODE %s +%s %s" % (ch, r.choice("vvhoa"), nb))
            L(b, "NICK " + nb + "2"); self.conns[b]["nick"] = nb + "2"
            L(a, "PRIVMSG %s%s :to rank" % (r.choice(["+", "%", "@", "&"]), ch)); L(a, "NAMES " + ch)
        elif k == "wallops_rename":
            L(b, "MODE %s +w" % nb); L(b, "NICK " + nb + "3"); self.conns[b]["nick"] = nb + "3"
            L(a, "OPER oper operpw"); L(a, "WALLOPS :after rename"); L(b, "QUIT"); self.conns[b]["live"] = False
            L(a, "WALLOPS :after quit"); L(a, "LUSERS")
        elif k == "flood_targets":
            chans = ["#f%d" % i for i in range(r.choice([17, 18, 20]))]
            L(a, "JOIN " + ",".join(chans[:10])); L(a, "JOIN " + ",".join(chans[10:]))
            L(b, "PRIVMSG " + ",".join(chans) + " :flood")
            L(b, "PRIVMSG " + ",".join([na] + [p + "#f0" for p in ("", "@", "~", "~@")] + chans[1:16]) + " :flood2")
        elif k == "limit_invite":
            L(a, "JOIN " + ch); L(a, "MODE %s +il 1" % ch); L(a, "INVITE %s %s" % (nb, ch)); L(b, "JOIN " + ch)
            L(a, "MODE %s +l 5" % ch); L(b, "JOIN " + ch)
        elif k == "case_twins":
            t = r.choice(["Alice", "BOB", "Carol"])
            L(b, "NICK " + t); self.conns[b]["nick"] = t
            L(a, "NICK " + t.lower()); self.conns[a]["nick"] = t.lower()
            L(a, "MODE %s %s" % (t, r.choice(["+i", "-o", "+w", ""]))); L(b, "MODE %s +w" % t.lower())
            L(a, "JOIN " + ch); L(a, "MODE %s +b %s!*@*" % (ch, t)); L(b, "JOIN " + ch); L(b, "PRIVMSG %s :hi" % ch)
        elif k == "kick_ranks":
            L(a, "JOIN " + ch); L(b, "JOIN " + ch)
            if c3: L(c3, "JOIN " + ch)
            L(a, "MODE %s +%s %s" % (ch, r.choice(["hv", "h", "vh", "ho"]), " ".join([nb] * 2)))
            if c3:
                L(a, "MODE %s +%s %s" % (ch, r.choice(["o", "h", "a"]), self.conns[c3]["nick"]))
                L(b, "KICK %s %s" % (ch, self.conns[c3]["nick"]))
            L(b, "KICK %s %s,%s" % (ch, nb, na))
        elif k == "secret_whois":
            L(a, "JOIN " + ch); L(a, "MODE %s +s" % ch); L(a, "JOIN #pub"); L(b, "JOIN #pub")
            if r.random() < 0.5:
                # an outsider holding an invitation (fresh or left over from an earlier channel of that name) is still
                # an outsider
                L(a, "INVITE %s %s" % (nb, ch))
                if r.random() < 0.4 and c3:
                    L(a, "PART " + ch); L(c3, "JOIN " + ch); L(c3, "MODE %s +s" % ch)
            L(b, "WHOIS " + na); L(b, "WHO " + ch); L(b, "NAMES"); L(b, "LIST"); L(b, "NAMES " + ch)
            L(b, "LIST " + ch); L(b, "TOPIC " + ch); L(b, "MODE " + ch)
        elif k == "oper_cycle":
            L(a, "OPER oper " + r.choice(["operpw", "bad"])); L(a, "OPER oper " + r.choice(["operpw", "bad"]))
            L(a, "MODE %s -o" % na); L(a, "OPER oper bad"); L(a, "KILL %s :x" % nb); L(a, "LUSERS")
        elif k == "moderated_prefix":
            L(a, "JOIN " + ch); L(b, "JOIN " + ch); L(a, "MODE %s +m" % ch)
            L(b, "PRIVMSG %s%s :psst" % (r.choice(["@", "%", "~", "&", "+", ""]), ch)); L(b, "NOTICE @%s :psst" % ch)
        elif k == "ban_case":
            t = r.choice(CASE_NICKS)
            L(b, "NICK " + t); self.conns[b]["nick"] = t
            L(a, "JOIN " + ch); L(b, "JOIN " + ch); L(a, "MODE %s +b %s" % (ch, t)); L(b, "PRIVMSG %s :still here" % ch)
            L(b, "PART " + ch); L(b, "JOIN " + ch); L(a, "MODE %s +e %s!*@*" % (ch, t)); L(b, "JOIN " + ch)
        elif k == "rejoin_list":
            L(a, "JOIN " + ch); L(b, "JOIN " + ch); L(a, "JOIN %s,#r9" % ch); L(b, "NAMES " + ch); L(b, "WHOIS " + na)
        elif k == "invite_ranks":
            # who may INVITE on an invite-only channel: the raw operator flag, whatever other ranks the member holds
            L(a, "JOIN " + ch); L(b, "JOIN " + ch); L(a, "MODE %s +i" % ch)
            L(a, "MODE %s +%s %s" % (ch, r.choice(["a", "q", "h", "v", "ah", "qv", "o", "ao"]), " ".join([nb] * 2)))
            tgt = self.conns[c3]["nick"] if c3 else "ghost"
            L(b, "INVITE %s %s" % (tgt, ch))
            if r.random() < 0.6:
                L(a, "MODE %s -o %s" % (ch, na)); L(a, "INVITE %s %s" % (tgt, ch))
            if c3: L(c3, "JOIN " + ch)
            L(b, "MODE %s -%s %s" % (ch, r.choice("aqo"), nb)); L(b, "INVITE %s %s" % (tgt, ch))
        elif k == "pre_bans":
            # a preconfigured channel's configured lists are ordinary lists: run-time +b/-b/+e/+I changes add to and
            # remove from them, nothing else; somebody holding a configured rank does the changes
            if not self.pre_chans:
                return
            pch = self.pre_chans[0]
            ranked = [x for x in self.pre_ranked if x] or ["alice"]
            opn = r.choice(ranked)
            holder = [c for c, x in self.conns.items() if x["live"] and x.get("nick") == opn]
            if holder:
                o = holder[0]
            else:
                o = self.new_conn()
                if o is None:
                    return
                self.register(o, opn)
            L(o, "JOIN " + pch + r.choice(["", " k1"])); L(o, "MODE %s b" % pch)
            m = r.choice(["zz!*@*", "*!*@10.9.9.9", nb + "!*@*"] + self.pre_masks[:2] * 2)
            if self.pre_masks and r.random() < 0.5:
                L(o, "MODE %s -b %s" % (pch, self.pre_masks[0])); L(o, "MODE %s b" % pch)
            L(o, "MODE %s +b %s" % (pch, m)); L(o, "MODE %s -b %s" % (pch, m))
            if r.random() < 0.5: L(o, "MODE %s -b nobody!*@*" % pch)
            L(o, "MODE %s b" % pch); L(b, "JOIN " + pch + r.choice(["", " k1"])); L(a, "JOIN " + pch + r.choice(["", " k1"]))
            L(b, "PRIVMSG %s :may I" % pch)
            L(o, "MODE %s +e %s" % (pch, m)); L(o, "MODE %s -e %s" % (pch, m)); L(b, "JOIN " + pch)
        elif k == "pre_ranks":
            # configured rank lists of a preconfigured channel: every listed nick gets exactly the listed ranks when it
            # joins (first and every later time), nobody else gets any, whatever the other lists contain
            if not self.pre_chans:
                return
            pch = self.pre_chans[0]
            listed = sorted({n for lst in self.pre_rank_lists for n in lst})
            for opn in r.sample(listed, min(len(listed), 2)) + [nb]:
                holder = [c for c, x in self.conns.items() if x["live"] and x.get("nick") == opn]
                if holder:
                    o = holder[0]
                else:
                    o = self.new_conn()
                    if o is None:
                        break
                    if self.server_pw: L(o, "PASS " + self.server_pw)
                    L(o, "NICK " + opn); L(o, "USER pr 0 * :Pre")
                    self.conns[o]["nick"] = opn; self.conns[o]["done"] = True
                L(o, "JOIN %s%s" % (pch, r.choice(["", " k1", " k1"])))
                L(o, "NAMES " + pch); L(o, "WHO " + pch)
                if r.random() < 0.5:
                    L(o, "PART " + pch); L(o, "JOIN %s k1" % pch); L(o, "NAMES " + pch)
                L(o, "MODE %s +t" % pch); L(o, "TOPIC %s :mine" % pch)
            L(a, "WHOIS " + nb)
        elif k == "list_masks":
            # list masks are normalised before they are stored, announced, COMPARED and removed: add with one spelling,
            # remove with the same short spelling / with the completed one / with another short spelling of the same mask
            L(a, "JOIN " + ch); L(b, "JOIN " + ch)
            short = r.choice(["guru*", "bob", "x@h.org", "n!u", "a*!b*", "*@10.0.0.2", nb, nb + "@*"])
            full = short if ("!" in short and "@" in short) else (short + "@*" if "!" in short else
                                                                  (short.replace("@", "!*@", 1) if "@" in short else short + "!*@*"))
            for letter in r.sample(["b", "e", "I"], r.choice([1, 2, 3])):
                L(a, "MODE %s +%s %s" % (ch, letter, short)); L(a, "MODE %s %s" % (ch, letter))
                L(a, "MODE %s -%s %s" % (ch, letter, r.choice([short, short, full, short.upper()])))
                L(a, "MODE %s %s" % (ch, letter)); L(b, "PART " + ch); L(a, "MODE %s +i" % ch); L(b, "JOIN " + ch)
        elif k == "multi_prefix":
            # targets naming several statuses: every member holding ANY of them gets exactly one copy
            L(a, "JOIN " + ch); L(b, "JOIN " + ch)
            if c3: L(c3, "JOIN " + ch)
            L(a, "MODE %s +%s %s" % (ch, r.choice(["v", "h", "a", "hv", "av", "o"]), " ".join([nb] * 2)))
            if c3 and r.random() < 0.6:
                L(c3, "PART " + ch)
            for _ in range(r.choice([2, 3])):
                pre = r.choice(["~&@", "~&@%+", "&@", "~%+", "@%+", "~&", "~@", "&@%", "+%@&~", "~+", "&+"])
                L(r.choice([a, b]), "%s %s%s :to %s" % (r.choice(["PRIVMSG", "NOTICE"]), pre, ch, pre))
        elif k == "late_cap":
            # capability negotiation re-opened AFTER registration and closed again: nothing about the session changes
            L(b, r.choice(["CAP REQ :multi-prefix", "CAP LS 302", "CAP LS", "CAP REQ :foo", "CAP LIST"]))
            if r.random() < 0.5: L(b, "JOIN " + ch)
            L(b, "CAP END"); L(b, "PRIVMSG %s :still me" % na); L(a, "WHOIS " + nb)
            how = r.choice(["quit", "eof", "none", "reset"])
            if how == "quit":
                L(b, "QUIT :bye"); self.conns[b]["live"] = False
            elif how in ("eof", "reset"):
                self.ops.append("%s %d" % (how, b)); self.conns[b]["live"] = False
            L(a, "WHOIS " + nb); L(a, "NAMES " + ch); L(a, "LUSERS")
        elif k == "topic_lock":
            L(a, "JOIN " + ch); L(b, "JOIN " + ch); L(a, "MODE %s +t" % ch); L(b, "TOPIC %s :by member" % ch)
            L(a, "MODE %s +k first" % ch); L(a, "MODE %s +k second" % ch); L(a, "MODE " + ch)

    def gen_op(self):
        r = self.r
        if r.random() < self.scene_rate:
            self.scene()
            return
        verbs = list(self.weights.keys())
        v = r.choices(verbs, [self.weights[k] for k in verbs])[0]
        if v == "CONNECT":
            nlive = sum(1 for x in self.conns.values() if x["live"])
            if len(self.conns) >= 14 or (len(self.conns) >= 8 and nlive > 0):
                return
            c = len(self.conns) + 1
            self.conns[c] = {"live": True, "nick": None, "done": False}
            self.ops.append("connect %d %s" % (c, r.choice(HOSTS)))
            if r.random() < 0.5:
                self.register(c, r.choice(NICKS))
            return
        if v == "REGSTEP":
            c = self.pick_live(registered=False)
            if c is None:
                c = self.pick_live()
            if c is None:
                return
            x = r.random()
            if x < 0.3:
                self.register(c, r.choice(NICKS), shuffle=r.random() < 0.3)
            else:
                step = r.choice(["NICK " + r.choice(NICKS), "USER %s 0 * :R" % r.choice(["reg", "x", "uu"]),
                                 "PASS " + r.choice(["srvpw", "regpw", "wrong"]), "CAP LS 302", "CAP END",
                                 "CAP REQ :multi-prefix", "CAP LIST", "CAP LS 301", "CAP FOO",
                                 "JOIN #a", "PRIVMSG alice :hi", "LUSERS", "WHOIS alice", "NAMES", "LIST",
                                 "MODE alice +i", "OPER oper operpw", "PING x", "AUTHENTICATE PLAIN"])
                self.line(c, step)
                if step.startswith("NICK "):
                    self.conns[c]["nick"] = self.conns[c]["nick"] or step[5:]
            return
        c = self.pick_live(registered=True if r.random() < 0.93 else None)
        if c is None:
            c = self.pick_live()
        if c is None:
            return
        # channel-management verbs are mostly issued by somebody who probably has the rank
        self.cur_chan = None
        if v in ("MODE_CH", "KICK", "TOPIC", "INVITE") and self.chan_members and r.random() < 0.7:
            ch = r.choice(sorted(self.chan_members))
            mem = [x for x in self.chan_members[ch] if self.conns.get(x, {}).get("live")]
            if mem:
                f = self.chan_founder.get(ch)
                c = f if (f in mem and r.random() < 0.7) else r.choice(mem)
                self.cur_chan = ch
        me = self.conns[c]
        if v == "JOIN":
            n = r.choice([1, 1, 1, 2, 3])
            chans = [self.pick_chan() for _ in range(n)]
            if r.random() < 0.06 and n > 1:
                chans[1] = chans[0]
            for ch in chans:
                self.chan_members.setdefault(ch, [])
                if c not in self.chan_members[ch]:
                    if not self.chan_members[ch]:
                        self.chan_founder[ch] = c
                    self.chan_members[ch].append(c)
            s = "JOIN " + ",".join(chans)
            if r.random() < 0.45:
                k = [r.choice(KEYS) for _ in range(n if r.random() < 0.9 else n + 1)]
                s += " " + ",".join(k)
            self.line(c, s)
        elif v == "PART":
            chans = [self.pick_chan() for _ in range(r.choice([1, 1, 2]))]
            s = "PART " + ",".join(chans)
            if r.random() < 0.4:
                s += " :" + self.text()
            self.line(c, s)
        elif v in ("PRIVMSG", "NOTICE"):
            n = r.choice([1, 1, 1, 2, 3, 4])
            ts = []
            for _ in range(n):
                x = r.random()
                if x < 0.45:
                    ts.append(self.pick_chan())
                elif x < 0.65:
                    pre = "".join(r.choice("~&@%+") for _ in range(r.choice([1, 1, 2, 3])))
                    ts.append(pre + self.pick_chan())
                else:
                    ts.append(self.pick_nick(0.85))
            if r.random() < 0.1 and ts:
                ts.append(ts[0])
            txt = self.text()
            self.line(c, "%s %s :%s" % (v, ",".join(ts), txt))
        elif v == "MODE_CH":
            ch = self.cur_chan or self.pick_chan()
            if r.random() < 0.12:
                self.line(c, "MODE " + ch + r.choice(["", " b", " +b", " e", " +I", " +e"]))
            else:
                self.line(c, "MODE %s %s" % (ch, self.modestring()))
        elif v == "MODE_U":
            tgt = me["nick"] if r.random() < 0.85 and me["nick"] else self.pick_nick()
            if r.random() < 0.1:
                self.line(c, "MODE " + tgt)
            else:
                ms = ""
                for _ in range(r.choice([1, 1, 2, 3])):
                    ms += r.choice("+-") + r.choice("iwoOriw" + ("x" if r.random() < 0.05 else ""))
                self.line(c, "MODE %s %s" % (tgt, ms))
        elif v == "KICK":
            n = r.choice([1, 1, 1, 2, 3])
            us = [self.pick_nick(0.9) for _ in range(n)]
            if r.random() < 0.1 and me["nick"]:
                us[0] = me["nick"]
            if r.random() < 0.1 and n > 1:
                us[1] = us[0]
            if r.random() < 0.15 and n > 2:
                us[2] = us[0]
            kch = self.cur_chan or self.pick_chan()
            if self.cur_chan and r.random() < 0.7:
                mem = [self.conns[x]["nick"] for x in self.chan_members.get(kch, []) if self.conns[x].get("nick")]
                if mem:
                    us = [r.choice(mem) for _ in range(n)]
                    if n > 2 and r.random() < 0.3:
                        us[2] = us[0]
            s = "KICK %s %s" % (kch, ",".join(us))
            if r.random() < 0.5:
                s += " :" + self.text()
            self.line(c, s)
        elif v == "TOPIC":
            s = "TOPIC " + (self.cur_chan or self.pick_chan())
            if r.random() < 0.7:
                s += " :" + self.text()
            self.line(c, s)
        elif v == "INVITE":
            self.line(c, "INVITE %s %s" % (self.pick_nick(0.85), self.cur_chan or self.pick_chan()))
        elif v == "NICK":
            x = r.random()
            if x < 0.45:
                n = r.choice(NICKS)
            elif x < 0.57:
                n = r.choice(CASE_NICKS)
            elif x < 0.75:
                n = self.pick_nick(1.0)
            elif x < 0.85:
                n = r.choice(ODD_NICKS)
            else:
                n = r.choice(["a.b", "#x", "a,b", "a b", "", "a:b", "a!b", "a@b"])
            self.line(c, "NICK " + n if n != "" else "NICK :")
            if me["done"] and n in NICKS:
                me["nick"] = n  # optimistic
        elif v == "NAMES":
            x = r.random()
            if x < 0.3:
                self.line(c, "NAMES")
            else:
                self.line(c, "NAMES " + ",".join(self.pick_chan() for _ in range(r.choice([1, 1, 2]))))
        elif v == "WHO":
            x = r.random()
            if x < 0.4:
                self.line(c, "WHO " + self.pick_chan())
            elif x < 0.7:
                self.line(c, "WHO " + self.pick_nick())
            else:
                self.line(c, "WHO " + r.choice(["*", "a*", "*o*", "?ob", "*!*@127.0.0.1", "R*", "*e", "????"]))
        elif v == "WHOIS":
            n = r.choice([1, 1, 2, 3])
            ms = [self.pick_nick() if r.random() < 0.7 else r.choice(["*", "a*", "?ob", "*o*", "zz*"]) for _ in range(n)]
            s = "WHOIS " + ",".join(ms)
            if r.random() < 0.05:
                s = "WHOIS irc.test " + ",".join(ms)
            self.line(c, s)
        elif v == "WHOWAS":
            s = "WHOWAS " + self.pick_nick(0.3)
            if r.random() < 0.4:
                s += " " + r.choice(["0", "1", "2", "x", "-1", "5", "20", "99999999999999999999"])
            self.line(c, s)
        elif v == "LIST":
            x = r.random()
            if x < 0.5:
                self.line(c, "LIST")
            else:
                self.line(c, "LIST " + ",".join(self.pick_chan() for _ in range(r.choice([1, 2]))))
        elif v == "LUSERS":
            self.line(c, "LUSERS")
        elif v == "ISON":
            self.line(c, "ISON " + " ".join(self.pick_nick(0.6) for _ in range(r.choice([1, 2, 4]))))
        elif v == "USERHOST":
            self.line(c, "USERHOST " + " ".join(self.pick_nick(0.6) for _ in range(r.choice([1, 2, 4]))))
        elif v == "AWAY":
            self.line(c, "AWAY" if r.random() < 0.4 else "AWAY :" + self.text())
        elif v == "OPER":
            x = r.random()
            if x < 0.7 and self.opers:
                n, p = r.choice(self.opers)
                self.line(c, "OPER %s %s" % (n, p if r.random() < 0.85 else "bad"))
            else:
                self.line(c, "OPER %s %s" % (self.pick_nick(), r.choice(["operpw", "x"])))
        elif v == "KILL":
            self.line(c, "KILL %s :%s" % (self.pick_nick(0.9), r.choice(TEXTS[:4])))
        elif v == "DIE":
            self.line(c, "DIE" if r.random() < 0.5 else "DIE :bye bye")
        elif v == "SQUIT":
            self.line(c, "SQUIT %s :gone" % r.choice(["irc.test", "other.srv"]))
        elif v == "WALLOPS":
            self.line(c, "WALLOPS :" + self.text())
        elif v == "STATS":
            self.line(c, "STATS " + r.choice(["u", "m", "m", "o", "c", "x", "uu"]))
        elif v == "QUIT":
            self.line(c, "QUIT" if r.random() < 0.5 else "QUIT :" + self.text(["bye", "bye bye", ":)"]))
            me["live"] = False
        elif v == "EOF":
            self.ops.append("eof %d" % c)
            me["live"] = False
        elif v == "RESET":
            self.ops.append("reset %d" % c)
            me["live"] = False
        elif v == "PING":
            self.line(c, "PING " + r.choice(["tok", ":a b", "12345", ":", "a b", ":é"]))
        elif v == "PONG":
            self.line(c, "PONG " + r.choice(["tok", ":LALAL", ":", ":x y"]))
        elif v == "MISC":
            self.line(c, r.choice(["MOTD", "VERSION", "ADMIN", "TIME", "INFO", "HELP", "HELP COMMANDS", "HELP nope",
                                   "LINKS", "REHASH", "RESTART", "CONNECT a.b 6667", "MOTD irc.test", "VERSION *.x",
                                   "ADMIN bad", "TIME irc.test", "LINKS a.b *.c", "LINKS *", "CONNECT a.b x",
                                   "CONNECT ab", "AUTHENTICATE", "CAP LS 302", "CAP END", "PASS x", "USER a b c d",
                                   "STATS u other.srv", "STATS u irc.test", "STATS m irc.test", "STATS m", "STATS u bad_srv",
                                   "WHOWAS alice 1 other.srv", "WHOWAS alice 1 irc.test", "WHOWAS alice x irc.test",
                                   "WHOWAS alice 2 bad_srv", "CAP", "CAP FOO BAR", "CAP LS x", "CAP REQ", "LINKS irc.test x",
                                   "TIME other.srv", "INFO other.srv", "MOTD other.srv", "VERSION irc.test",
                                   "LUSERS * other.srv", "ADMIN irc.test", "CONNECT a.b 6667 c.d", "CONNECT bad_srv 1"]))
        elif v == "GARBAGE":
            self.line(c, self.garbage())
        elif v == "TOOLONG":
            self.ops.append("toolong %d %d" % (c, r.choice([2001, 2050, 4000])))
            me["live"] = False
        elif v == "BADUTF8":
            self.ops.append("badutf8 %d" % c)
            me["live"] = False
        elif v == "PARTIAL":
            pass  # reserved (needs the partial-line buffer in the model)

    VERBS = ["CAP", "AUTHENTICATE", "PASS", "NICK", "USER", "PING", "PONG", "OPER", "QUIT", "JOIN", "PART", "TOPIC",
             "NAMES", "LIST", "INVITE", "KICK", "MOTD", "VERSION", "ADMIN", "CONNECT", "LUSERS", "TIME", "STATS",
             "LINKS", "HELP", "INFO", "MODE", "PRIVMSG", "NOTICE", "WHO", "WHOIS", "WHOWAS", "KILL", "REHASH",
             "RESTART", "SQUIT", "AWAY", "USERHOST", "WALLOPS", "ISON", "DIE", "FOO", "join", "Privmsg", ""]
    ATOMS = ["alice", "bob", "#a", "#b", "&c", "#sec", "*", "?", "a*", ":", "::", ":x y", "+o", "-o", "+b", "+l", "5",
             "0", "-1", "99999999999999999999", "é", "ü€𝄞", "a:b", "a,b", ",", ",,", "#a,#b", "alice,bob", "~@#a",
             "@", "&", "#", "irc.test", "a.b", "*.*", "\t", "x\ty", "\r", "+k", "+lk", "k1", "+ovh", "+", "-",
             "+z", "b", "!", "a!b@c", "*!*@*", "", " ", "x" * 300]

    def garbage(self):
        r = self.r
        x = r.random()
        if x < 0.75:
            verb = r.choice(self.VERBS)
            n = r.choice([0, 0, 1, 1, 2, 2, 3, 4, 5])
            parts = [verb] + [r.choice(self.ATOMS) for _ in range(n)]
            s = " ".join(parts)
            if r.random() < 0.15:
                s = ":" + r.choice(["src", "a!b@c", "a@b!c", "x:y", ""]) + " " + s
            if r.random() < 0.1:
                s = r.choice([" ", "  ", "\t"]) + s
            if r.random() < 0.1:
                s += r.choice([" ", "  ", " :", " : "])
            return s
        if x < 0.9:
            n = r.choice([1, 3, 10, 40])
            alphabet = "ab #&:,*?!@+-~%.é€\t\r 019"
            return "".join(r.choice(alphabet) for _ in range(n))
        return r.choice(["", " ", ":", ": ", ":a", "::", "\t", "PRIVMSG", "MODE #a +" + "o" * 50,
                         "JOIN " + ",".join(["#a"] * 30), "PRIVMSG " + ",".join(["alice"] * 40) + " :x",
                         "x" * 1998, "PING " + "y" * 1990])

    # ------------------------------------------------------------------ sequence
    def gen_seq(self, length):
        r = self.r
        self.ops = []
        self.conns = {}
        self.chan_members = {}
        self.chan_founder = {}
        self.cur_chan = None
        cfg = self.gen_cfg()
        nconn = r.choice([2, 3, 3, 4, 4, 5])
        for c in range(1, nconn + 1):
            self.conns[c] = {"live": True, "nick": None, "done": False}
            self.ops.append("connect %d %s" % (c, r.choice(HOSTS)))
        nicks = NICKS[:]
        r.shuffle(nicks)
        for c in range(1, nconn + 1):
            if r.random() < 0.85:
                nick = nicks[c % len(nicks)] if r.random() < 0.9 else nicks[0]
                self.register(c, nick)
        tries = 0
        while len(self.ops) < length and tries < 20 * length:
            tries += 1
            self.gen_op()
        return cfg, self.ops[:length]


def write_ops_file(path, profile, seed, nseq, length):
    g = Gen(seed, profile)
    with open(path, "w") as f:
        for i in range(nseq):
            cfg, ops = g.gen_seq(length)
            f.write("seq %s-%d-%d\n" % (profile, seed, i))
            for l in cfg:
                f.write(l + "\n")
            f.write("begin\n")
            for o in ops:
                f.write(o + "\n")
            f.write("end\n")


# ---------------------------------------------------------------------------- every scene, every run
SCENE_KINDS = ["invite_key", "invite_recreate", "invite_ban", "ranks_ladder", "halfop_mode", "quota_invisible", "voice_rename",
               "wallops_rename", "flood_targets", "limit_invite", "case_twins", "kick_ranks", "secret_whois", "oper_cycle",
               "moderated_prefix", "ban_case", "rejoin_list", "topic_lock", "rename_masks", "kick_repeat", "pre_rename",
               "invite_ranks", "late_cap", "pre_bans", "list_masks", "multi_prefix", "pre_ranks"]
REG_KINDS = ["twin", "slots", "overtaken", "taken_then_user", "pass_twice", "user_twice", "cap_mid"]
LONG_KINDS = ["topic", "chan", "key", "nick", "kick", "away", "real"]
BULK_KINDS = ["whowas_many", "ison_many", "bans_many", "joins_many", "invites_many", "members_many", "names_long"]


def write_scene_file(path, seed, reps=4):
    """One short sequence per scene kind and repetition: the scenes that random choice draws only now and then are ALL run in every
    correspondence, so that what a scene was written to expose is exposed in every run, not only when the dice fall right.
    Each sequence: a configuration that satisfies the scene's precondition, three or four registered connections, the scene
    (twice, with fresh parameters), a few probes."""
    fams = [("scene", SCENE_KINDS, "general"), ("reg", REG_KINDS, "reg"), ("long", LONG_KINDS, "general"), ("bulk", BULK_KINDS, "member")]
    with open(path, "w") as f:
        for fam, kinds, prof in fams:
            for k in kinds:
                for rep in range(reps * (3 if k in ("overtaken", "pre_ranks") else 2 if fam == "reg" else 1)):
                    for attempt in range(60):
                        g = Gen(seed * 100003 + (zlib.crc32((fam + "/" + k).encode()) % 9973) * 41 + rep * 7 + attempt * 1009, prof)
                        g.ops, g.conns, g.chan_members, g.chan_founder, g.cur_chan = [], {}, {}, {}, None
                        if k == "pre_ranks":
                            g.cfg_force = {"one_rank": (rep % 5) if rep % 6 != 5 else None, "open": rep % 7 != 3}
                        cfg = g.gen_cfg()
                        if k in ("pre_rename", "pre_bans", "pre_ranks") and not g.pre_chans:
                            continue
                        if k == "pre_bans" and rep % 2 == 0 and not g.pre_masks:
                            continue
                        if k == "slots" and not g.max_conns:
                            continue
                        if k in ("overtaken", "pass_twice", "cap_mid") and rep % 4 != 3 and not (g.server_pw and g.cfg_users.get("reg")):
                            continue
                        if k == "overtaken" and rep % 2 == 0 and not any(l.startswith("cfg user reg reg +regpw -") for l in cfg):
                            continue
                        if k == "quota_invisible" and rep % 2 == 0 and not g.max_joins:
                            continue
                        if k in ("oper_cycle", "wallops_rename") and not g.opers:
                            continue
                        if g.max_conns and g.max_conns < 4 and k != "slots":
                            continue
                        break
                    g.force = (fam, k)
                    r = g.r
                    nicks = NICKS[:]
                    r.shuffle(nicks)
                    for c in range(1, 5):
                        g.conns[c] = {"live": True, "nick": None, "done": False}
                        g.ops.append("connect %d %s" % (c, r.choice(HOSTS)))
                    for c in range(1, 4 if fam != "reg" else 3):
                        g.register(c, nicks[c])
                    n0 = len(g.ops)
                    for _ in range(2):
                        g.scene()
                    live = [c for c, x in g.conns.items() if x["live"] and x["done"]]
                    if live:
                        g.line(live[0], "LUSERS"); g.line(live[0], "NAMES")
                    f.write("seq scene-%s-%s-%d-%d\n" % (fam, k, seed, rep))
                    for l in cfg:
                        f.write(l + "\n")
                    f.write("begin\n")
                    for o in g.ops[:400]:
                        f.write(o + "\n")
                    f.write("end\n")
