"""Monitors: property predicates evaluated on IMPLEMENTATION traces (search for a concrete
failing input).  Each returns a list of failures {monitor, signature, op, detail}."""
import re
from . import canon


def _events(op):
    return op.events


def mon_nopanic(seq, cfg):
    out = []
    for op in seq.ops:
        for e in op.events:
            w = e.split(" ")
            if w[0] in ("panic", "hang", "livelock", "readtimeout", "clienteof", "fencefail"):
                site = canon.unesc(w[2]) if len(w) > 2 else ""
                site = re.sub(r"^(\S+?):\d+", r"\1", site)  # file without line number
                out.append({"monitor": "nopanic", "signature": "%s:%s" % (w[0], site[:120]),
                            "op": op.k, "detail": {"event": e, "op_text": op.text}})
                return out
    return out


MON = {
    "nopanic": mon_nopanic,
}

BY_PROP = {
    "C05": ["nopanic"],
}


def run_monitors(pid, seq, cfg, seqfile=None):
    res = []
    for name in BY_PROP.get(pid, []):
        res += MON[name](seq, cfg)
    return res
