"""Monitors: property predicates evaluated on IMPLEMENTATION traces (the search for a concrete
failing input, DESIGN.md 5).  They are written independently of the Lean model (own glob, own
state reconstruction from the hook dump) and are deliberately conservative: a monitor only
fires on something the property statement itself forbids.

Each monitor returns a list of failures {monitor, signature, op, detail}."""
import re
from . import canon
from .canon import unesc, unesc_list


# ------------------------------------------------------------------ state reconstruction

class St:
    __slots__ = ("users", "chans", "conns", "cnt", "wallops", "hist")


def opt(tok):
    return None if tok == "-" else unesc(tok[1:])


def parse_state(op):
    s = St()
    s.users, s.chans, s.conns, s.cnt, s.wallops, s.hist = {}, {}, {}, None, set(), {}
    for l in op.st:
        t = l.split(" ")
        k = t[1]
        if k == "user":
            s.users[unesc(t[2])] = dict(name=unesc(t[3]), real=unesc(t[4]), host=unesc(t[5]), src=unesc(t[6]),
                                        modes=unesc(t[7]), away=opt(t[8]), chans=set(unesc_list(t[9])),
                                        invited=set(unesc_list(t[10])), killed=t[14] == "1")
        elif k == "chan":
            s.chans.setdefault(unesc(t[2]), {"members": {}, "bans": {}}).update(
                topic=opt(t[3]), flags=unesc(t[5]), key=opt(t[6]),
                limit=None if t[7] == "-" else int(t[7][1:]),
                ban=set(unesc_list(t[8])), exc=set(unesc_list(t[9])), invex=set(unesc_list(t[10])),
                q=set(unesc_list(t[11])), a=set(unesc_list(t[12])), o=set(unesc_list(t[13])),
                h=set(unesc_list(t[14])), v=set(unesc_list(t[15])), pre=t[21] == "1",
                defaults=tuple(frozenset(unesc_list(t[i])) for i in range(16, 21)))
        elif k == "member":
            s.chans.setdefault(unesc(t[2]), {"members": {}, "bans": {}})["members"][unesc(t[3])] = unesc(t[4])
        elif k == "cnt":
            s.cnt = tuple(int(x) for x in t[2:6])
        elif k == "wallops":
            s.wallops = set(unesc_list(t[2]))
        elif k == "conn":
            s.conns[int(t[2])] = dict(nick=opt(t[3]), name=opt(t[4]), src=unesc(t[8]), auth=t[9] == "1",
                                      reg=t[10] == "1", capneg=t[11] == "1", quit=t[13] == "1")
    return s


def glob(p, t):
    """reference glob: '*' any run, '?' one char, case-sensitive, whole text"""
    pi = ti = 0
    star = -1
    mark = 0
    while ti < len(t):
        if pi < len(p) and p[pi] == "*":
            star = pi
            mark = ti
            pi += 1
        elif pi < len(p) and (p[pi] == "?" or p[pi] == t[ti]):
            pi += 1
            ti += 1
        elif star >= 0:
            pi = star + 1
            mark += 1
            ti = mark
        else:
            return False
    while pi < len(p) and p[pi] == "*":
        pi += 1
    return pi == len(p)


def op_line(op):
    p = op.text.split(" ", 2)
    if p[0] == "line" and len(p) == 3:
        return int(p[1]), unesc(p[2])
    return (int(p[1]) if len(p) > 1 and p[1].isdigit() else None), None


def parse_irc(line):
    """RFC grammar: (source, verb, params) or None"""
    s = line
    src = None
    if s.startswith(":"):
        i = s.find(" ")
        if i < 0:
            return None
        src, s = s[1:i], s[i + 1:]
    s = s.lstrip(" ")
    trailing = None
    i = s.find(" :")
    if i >= 0:
        s, trailing = s[:i], s[i + 2:]
    w = [x for x in s.split(" ") if x != ""]
    if not w:
        return None
    params = w[1:]
    if trailing is not None:
        params.append(trailing)
    return src, w[0], params


def fail(mon, sig, op, **detail):
    detail["op_text"] = op.text
    return {"monitor": mon, "signature": "%s:%s" % (mon, sig), "op": op.k, "detail": detail}


ENDING_KINDS = {"@eof", "@reset", "@toolong", "@badutf8"}


def kind_of(op):
    from .runner import op_kind
    return op_kind(op.text)


# ------------------------------------------------------------------ the monitors

def mon_nopanic(seq, ctx):
    for op in seq.ops:
        for e in op.events:
            w = e.split(" ")
            if w[0] in ("panic", "hang", "livelock", "readtimeout", "clienteof", "fencefail", "lf-without-cr"):
                site = unesc(w[2]) if len(w) > 2 else ""
                site = re.sub(r"^(\S+?):\d+", r"\1", site)
                return [fail("nopanic", "%s:%s" % (w[0], site[:100]), op, event=e)]
    # unexpected closes: a connection is closed only by its own ending op, a failed password,
    # or as the victim of KILL / DIE / SQUIT
    for i, op in enumerate(seq.ops):
        closed = [int(e.split(" ")[1]) for e in op.events if e.startswith("closed ")]
        if not closed:
            continue
        k = kind_of(op)
        c, _ = op_line(op)
        for d in closed:
            ok = False
            if d == c and (k in ENDING_KINDS or k == "QUIT"):
                ok = True
            elif d == c and any(re.match(r"^:\S+ 464 ", l) for l in op.outs.get(d, [])):
                ok = True
            elif k in ("KILL", "DIE", "SQUIT") and any("ERROR :User killed by" in l for l in op.outs.get(d, [])):
                ok = True
            if not ok:
                return [fail("nopanic", "unexpected-close:%s" % k, op, closed=d)]
    return []


def mon_ownership(seq, ctx):
    prev = None
    for op in seq.ops:
        st = parse_state(op)
        owners = {}
        for cid, cn in st.conns.items():
            if cn["auth"]:
                if cn["nick"] is None or cn["nick"] not in st.users:
                    return [fail("ownership", "auth-conn-without-user", op, conn=cid, nick=cn["nick"])]
                owners.setdefault(cn["nick"], []).append(cid)
        for n in st.users:
            if len(owners.get(n, [])) != 1:
                return [fail("ownership", "user-owner-count", op, nick=n, owners=owners.get(n, []))]
        # a connection that is not registered before and after the op changes no user
        if prev is not None:
            c, line = op_line(op)
            if c is not None and c in prev.conns and not prev.conns[c]["auth"]:
                still_unreg = (c not in st.conns) or (not st.conns[c]["auth"])
                if still_unreg and prev.users != st.users:
                    return [fail("ownership", "unregistered-conn-changed-users", op, conn=c)]
        prev = st
    return []


ALLOWED_UNREG = {"CAP", "AUTHENTICATE", "PASS", "NICK", "USER", "QUIT"}


def mon_gate(seq, ctx):
    prev = None
    for op in seq.ops:
        st = parse_state(op)
        c, line = op_line(op)
        if prev is not None and line is not None and c in prev.conns and not prev.conns[c]["auth"]:
            m = parse_irc(line.lstrip())
            verb = m[1].upper() if m else None
            if verb is not None and verb not in ALLOWED_UNREG:
                outs = op.outs.get(c, [])
                others = {d: l for d, l in op.outs.items() if d != c and l}
                changed = (prev.users != st.users or prev.chans != st.chans or prev.wallops != st.wallops)
                if others or changed or len(outs) > 1:
                    return [fail("gate", "unregistered-command-had-effect:%s" % verb, op, outs=outs[:3])]
                if outs and not re.match(r"^:\S+ (451|421|461|472|501|696|ERROR) ", outs[0] + " "):
                    return [fail("gate", "unregistered-command-answered:%s" % verb, op, outs=outs[:3])]
        prev = st
    return []


RANKS = [("q", "q"), ("a", "a"), ("o", "o"), ("h", "h"), ("v", "v")]


def mon_membership(seq, ctx):
    for op in seq.ops:
        st = parse_state(op)
        for n, u in st.users.items():
            for ch in u["chans"]:
                if ch not in st.chans or n not in st.chans[ch]["members"]:
                    return [fail("membership", "user-lists-channel-without-membership", op, nick=n, chan=ch)]
        for ch, C in st.chans.items():
            for n, flags in C["members"].items():
                if n not in st.users:
                    return [fail("membership", "member-without-user", op, nick=n, chan=ch)]
                if ch not in st.users[n]["chans"]:
                    return [fail("membership", "membership-not-in-user", op, nick=n, chan=ch)]
            for letter, key in RANKS:
                holders = {n for n, f in C["members"].items() if letter in f}
                if holders != C.get(key, set()):
                    return [fail("membership", "rank-list-differs-from-flags:%s" % letter, op, chan=ch,
                                 flags=sorted(holders), lst=sorted(C.get(key, set())))]
    return []


def mon_cleanup(seq, ctx):
    prev = None
    owner = {}   # nick -> connection that registered it / renamed to it (history, not the connection's current flags)
    for op in seq.ops:
        st = parse_state(op)
        for cid, cn in st.conns.items():
            if cn["auth"] and cn["nick"] is not None and cn["nick"] in st.users:
                owner[cn["nick"]] = cid
        for n in list(owner):
            if n not in st.users:
                del owner[n]
        if prev is not None:
            for e in op.events:
                if e.startswith("closed "):
                    d = int(e.split(" ")[1])
                    # whatever the connection's own flags say by now: the users it registered end with it
                    for n, o in list(owner.items()):
                        if o == d and n in st.users and not any(
                                c2 != d and x["auth"] and x["nick"] == n for c2, x in st.conns.items()):
                            return [fail("cleanup", "user-survives-its-connection", op, nick=n, conn=d)]
                    cn = prev.conns.get(d)
                    if cn and cn["auth"] and cn["nick"]:
                        n = cn["nick"]
                        if n in st.users:
                            return [fail("cleanup", "user-survives-its-connection", op, nick=n)]
                        for ch, C in st.chans.items():
                            if n in C["members"] or any(n in C.get(k, set()) for _, k in RANKS):
                                return [fail("cleanup", "nick-left-in-channel", op, nick=n, chan=ch)]
                        if n in st.wallops:
                            return [fail("cleanup", "nick-left-in-wallops", op, nick=n)]
                        # no trace at all: nothing in the live state may refer to a user that is gone
                        # (e.g. an earlier nickname of the ended session)
                        for wn in st.wallops:
                            if wn not in st.users:
                                return [fail("cleanup", "dangling-wallops-entry", op, nick=wn, ended=n)]
                        for ch, C in st.chans.items():
                            for _, k in RANKS:
                                for rn in C.get(k, set()):
                                    if rn not in st.users:
                                        return [fail("cleanup", "dangling-rank-entry", op, nick=rn, chan=ch)]
                        # nothing else changes: other users keep everything
                        for m, u in prev.users.items():
                            if m != n and st.users.get(m) != u:
                                # victims of the same DIE are closed too
                                if m in st.users:
                                    return [fail("cleanup", "other-user-changed", op, nick=m)]
                    elif cn and not cn["auth"]:
                        if prev.users != st.users or prev.chans != st.chans:
                            return [fail("cleanup", "unregistered-teardown-changed-state", op, conn=d)]
        prev = st
    return []


def mon_counters(seq, ctx):
    maxseen = 0
    for op in seq.ops:
        st = parse_state(op)
        if st.cnt is None:
            continue
        inv = sum(1 for u in st.users.values() if "i" in u["modes"])
        ops_ = sum(1 for u in st.users.values() if "o" in u["modes"] or "O" in u["modes"])
        maxseen = max(maxseen, len(st.users))
        if st.cnt[0] != inv:
            return [fail("counters", "invisible-count", op, counter=st.cnt[0], actual=inv)]
        if st.cnt[1] != ops_:
            return [fail("counters", "operators-count", op, counter=st.cnt[1], actual=ops_)]
        if st.cnt[2] != maxseen:
            return [fail("counters", "max-users", op, counter=st.cnt[2], actual=maxseen)]
        if st.cnt[3] != len(st.conns):
            return [fail("counters", "conns-count", op, counter=st.cnt[3], actual=len(st.conns))]
        if st.wallops != {n for n, u in st.users.items() if "w" in u["modes"]}:
            return [fail("counters", "wallops-set", op)]
        c, line = op_line(op)
        if line is not None:
            for l in op.outs.get(c, []):
                m = re.match(r"^:\S+ 251 \S+ :There are (\d+) users and (\d+) invisible", l)
                if m and (int(m.group(1)) != len(st.users) - inv or int(m.group(2)) != inv):
                    return [fail("counters", "lusers-251", op, line=l)]
                m = re.match(r"^:\S+ 252 \S+ (\d+) ", l)
                if m and int(m.group(1)) != ops_:
                    return [fail("counters", "lusers-252", op, line=l)]
                m = re.match(r"^:\S+ 254 \S+ (\d+) ", l)
                if m and int(m.group(1)) != len(st.chans):
                    return [fail("counters", "lusers-254", op, line=l)]
                m = re.match(r"^:\S+ 303 \S+ :(.*)$", l)
                if m and kind_of(op) == "ISON":
                    listed = [x for x in m.group(1).split(" ") if x]
                    if any(x not in st.users for x in listed):
                        return [fail("counters", "ison-lists-absent", op, line=l)]
    return []


def mon_audience(seq, ctx):
    prev = None
    for op in seq.ops:
        st = parse_state(op)
        k = kind_of(op)
        if prev is not None and k in ("PRIVMSG", "NOTICE"):
            c, line = op_line(op)
            cn = prev.conns.get(c)
            if cn and cn["auth"]:
                me = cn["nick"]
                src = cn["src"]
                # "the sender's current nick!user@host", rebuilt from the parts (never from a stored string)
                if me in prev.users:
                    src = "%s!~%s@%s" % (me, prev.users[me]["name"], prev.users[me]["host"])
                seen = set()
                for d, lines in op.outs.items():
                    dn = prev.conns.get(d, {}).get("nick")
                    for l in lines:
                        m = parse_irc(l)
                        if not m or m[1] not in ("PRIVMSG", "NOTICE") or len(m[2]) < 2:
                            continue
                        if m[0] != src:
                            return [fail("audience", "wrong-source", op, line=l, expected=src)]
                        tgt = m[2][0]
                        if (d, tgt) in seen:
                            return [fail("audience", "duplicate-copy", op, conn=d, target=tgt)]
                        seen.add((d, tgt))
                        chan = tgt.lstrip("~@%+")
                        if chan[:1] == "&" and chan[1:2] in "#&":
                            chan = chan.lstrip("&")
                        if chan[:1] in "#&" and chan in prev.chans:
                            if dn not in prev.chans[chan]["members"]:
                                return [fail("audience", "copy-to-non-member", op, conn=d, target=tgt)]
                            if d == c:
                                return [fail("audience", "copy-to-sender", op, target=tgt)]
                        elif tgt in prev.users:
                            if dn != tgt:
                                return [fail("audience", "copy-to-wrong-user", op, conn=d, target=tgt)]
        prev = st
    return []


def mon_notice_silent(seq, ctx):
    prev = None
    for op in seq.ops:
        st = parse_state(op)
        if prev is not None and kind_of(op) == "NOTICE":
            c, line = op_line(op)
            cn = prev.conns.get(c)
            if cn and cn["auth"]:
                m = parse_irc(line.lstrip())
                # only a well-formed NOTICE (it parsed and was executed: no parse error numerics)
                for l in op.outs.get(c, []):
                    mm = parse_irc(l)
                    if mm and mm[1] == "NOTICE":
                        continue  # a delivery to itself
                    if re.match(r"^:\S+ (461|ERROR|421) ", l + " "):
                        continue  # not well-formed
                    return [fail("notice_silent", "notice-answered", op, line=l)]
        prev = st
    return []


def mon_opergrant(seq, ctx):
    prev = None
    for op in seq.ops:
        st = parse_state(op)
        if prev is not None:
            k = kind_of(op)
            c, line = op_line(op)
            for n, u in st.users.items():
                had = n in prev.users and ("o" in prev.users[n]["modes"])
                if "o" in u["modes"] and not had:
                    owner = [d for d, cn in st.conns.items() if cn["auth"] and cn["nick"] == n]
                    if n not in prev.users:
                        continue  # registration (default modes) or rename: judged by C15 / config
                    if k == "OPER" and owner == [c]:
                        continue
                    return [fail("opergrant", "oper-without-OPER:%s" % k, op, nick=n)]
                hadO = n in prev.users and ("O" in prev.users[n]["modes"])
                if "O" in u["modes"] and not hadO and n in prev.users:
                    return [fail("opergrant", "local-oper-granted:%s" % k, op, nick=n)]
            # no user changes another user's modes
            if c is not None and c in prev.conns and prev.conns[c]["auth"] and k == "MODE":
                me = prev.conns[c]["nick"]
                for n, u in st.users.items():
                    if n != me and n in prev.users and prev.users[n]["modes"] != u["modes"]:
                        return [fail("opergrant", "foreign-modes-changed", op, nick=n)]
        prev = st
    return []


def mon_hidden(seq, ctx):
    prev = None
    for op in seq.ops:
        st = parse_state(op)
        k = kind_of(op)
        if prev is not None and k in ("LIST", "NAMES", "WHO", "WHOIS"):
            c, line = op_line(op)
            cn = prev.conns.get(c)
            if cn and cn["auth"]:
                me = cn["nick"]
                # channels the requester is REALLY on: the channels' member maps are authoritative
                mychans = {ch for ch, C in prev.chans.items() if me in C["members"]}
                secret_out = {ch for ch, C in prev.chans.items() if "s" in C.get("flags", "") and me not in C["members"]}
                outs = op.outs.get(c, [])
                for l in outs:
                    m = re.match(r"^:\S+ (\d\d\d) \S+ ?(.*)$", l)
                    if not m:
                        continue
                    num, rest = m.group(1), m.group(2)
                    w = rest.split(" ")
                    if num == "322" and w[0] in secret_out:
                        return [fail("hidden", "list-shows-secret", op, line=l)]
                    if num == "353" and len(w) > 1 and w[1] in secret_out:
                        return [fail("hidden", "names-shows-secret", op, line=l)]
                    if num == "352" and w[0] in secret_out:
                        return [fail("hidden", "who-shows-secret", op, line=l)]
                    if num == "319":
                        i = rest.find(" :")
                        for x in rest[i + 2:].split(" "):
                            if x.lstrip("~&@%+") in secret_out or (x[:1] == "&" and x in secret_out):
                                return [fail("hidden", "whois-shows-secret", op, line=l)]
                    # invisible users
                    if num in ("352", "311"):
                        nick = w[4] if num == "352" and len(w) > 4 else (w[0] if num == "311" else None)
                        u = prev.users.get(nick)
                        theirs = {ch for ch, C in prev.chans.items() if nick in C["members"]}
                        if u and "i" in u["modes"] and nick != me and not (theirs & mychans):
                            return [fail("hidden", "invisible-revealed-%s" % num, op, line=l)]
                # NAMES <explicit secret channel>: must look like a non-existent channel (366)
                if k == "NAMES":
                    m = parse_irc(line.lstrip())
                    if m and m[2]:
                        for ch in m[2][0].split(","):
                            if ch in secret_out and not any(re.match(r"^:\S+ 366 \S+ %s " % re.escape(ch), l) for l in outs):
                                return [{"monitor": "hidden", "signature": "names-explicit-secret-366", "op": op.k,
                                         "detail": {"op_text": op.text, "channel": ch}}]
        prev = st
    return []


def mon_chanlife(seq, ctx):
    prev = None
    configured = {}
    for op in seq.ops:
        st = parse_state(op)
        for ch, C in st.chans.items():
            if not C["members"] and not C.get("pre"):
                return [fail("chanlife", "empty-channel-survives", op, chan=ch)]
            if C.get("pre"):
                # the configured rank lists of a preconfigured channel are configuration: nothing rewrites them
                if ch in configured and configured[ch] != C.get("defaults"):
                    return [fail("chanlife", "configured-ranks-rewritten", op, chan=ch,
                                 before=[sorted(x) for x in configured[ch]], after=[sorted(x) for x in C["defaults"]])]
                configured.setdefault(ch, C.get("defaults"))
        for ch in configured:
            if ch not in st.chans:
                return [fail("chanlife", "preconfigured-channel-erased", op, chan=ch)]
        if prev is not None and kind_of(op) == "JOIN":
            c, line = op_line(op)
            cn = prev.conns.get(c)
            if cn and cn["auth"]:
                for ch, C in st.chans.items():
                    if ch not in prev.chans:
                        me = cn["nick"]
                        if list(C["members"].items()) != [(me, "qo")]:
                            return [fail("chanlife", "created-channel-members", op, chan=ch, members=C["members"])]
                        if C["flags"] or C["key"] is not None or C["limit"] is not None or C["ban"] or C["exc"] \
                                or C["invex"] or C["topic"] is not None or C.get("pre"):
                            return [fail("chanlife", "created-channel-not-fresh", op, chan=ch)]
        prev = st
    return []


def mon_admission(seq, ctx):
    """independent recomputation of the JOIN decision for single-channel JOINs to existing channels"""
    prev = None
    for op in seq.ops:
        st = parse_state(op)
        if prev is not None and kind_of(op) == "JOIN":
            c, line = op_line(op)
            cn = prev.conns.get(c)
            m = parse_irc(line.lstrip()) if line else None
            if cn and cn["auth"] and m and 1 <= len(m[2]) <= 2 and "," not in m[2][0]:
                ch = m[2][0]
                me = cn["nick"]
                u = prev.users.get(me)
                C = prev.chans.get(ch)
                outs = op.outs.get(c, [])
                if u and C and me not in C["members"] and not any(re.match(r"^:\S+ (ERROR|461) ", l + " ") for l in outs):
                    key = m[2][1] if len(m[2]) == 2 else None
                    if key is not None and "," in key:
                        prev = st
                        continue
                    src = cn["src"]
                    key_ok = C["key"] is None or key == C["key"]
                    banned = any(glob(b, src) for b in C["ban"]) and not any(glob(e, src) for e in C["exc"])
                    inv_ok = ("i" not in C["flags"]) or ch in u["invited"] or any(glob(e, src) for e in C["invex"])
                    not_full = C["limit"] is None or len(C["members"]) < C["limit"]
                    quota = ctx.get("max_joins") is None or len(u["chans"]) < ctx["max_joins"]
                    admit = key_ok and not banned and inv_ok and not_full and quota
                    joined = me in st.chans.get(ch, {"members": {}})["members"]
                    if admit != joined:
                        return [fail("admission", "join-decision", op, expected_admit=admit, joined=joined,
                                     key_ok=key_ok, banned=banned, inv_ok=inv_ok, not_full=not_full, quota=quota)]
                    if not joined:
                        # refused: nothing changes, nobody else hears about it
                        if prev.chans != st.chans or any(l for d, l in op.outs.items() if d != c):
                            return [fail("admission", "refused-join-had-effect", op)]
                    else:
                        if ch in st.users[me]["invited"]:
                            return [fail("admission", "invitation-not-used-up", op)]
        prev = st
    return []


def mon_rename(seq, ctx):
    prev = None
    for op in seq.ops:
        st = parse_state(op)
        if prev is not None and kind_of(op) == "NICK":
            c, line = op_line(op)
            cn = prev.conns.get(c)
            if cn and cn["auth"] and c in st.conns:
                old, new = cn["nick"], st.conns[c]["nick"]
                if old != new:
                    if old in st.users:
                        return [fail("rename", "old-nick-still-registered", op, old=old)]
                    a, b = prev.users.get(old), st.users.get(new)
                    if a is None or b is None:
                        return [fail("rename", "user-lost", op, old=old, new=new)]
                    for f in ("modes", "away", "chans", "invited", "name", "real", "host"):
                        if a[f] != b[f]:
                            return [fail("rename", "field-not-moved:%s" % f, op, before=str(a[f]), after=str(b[f]))]
                    for ch in a["chans"]:
                        if prev.chans[ch]["members"].get(old) != st.chans.get(ch, {"members": {}})["members"].get(new):
                            return [fail("rename", "rank-not-moved", op, chan=ch)]
                    if (old in prev.wallops) != (new in st.wallops):
                        return [fail("rename", "wallops-not-moved", op)]
                else:
                    # refused or no-op: nothing changes
                    if prev.users != st.users or prev.chans != st.chans:
                        return [fail("rename", "refused-nick-changed-state", op)]
        prev = st
    return []


def mon_source(seq, ctx):
    """the string masks are matched against (User.source, and the connection's own copy) is the user's CURRENT
    nick!user@host: its nick part equals the key the user is registered under, and both copies agree"""
    for op in seq.ops:
        st = parse_state(op)
        for nick, u in st.users.items():
            if not u["src"].startswith(nick + "!"):
                return [fail("source", "stale-user-source", op, nick=nick, source=u["src"])]
            if u["src"] != "%s!~%s@%s" % (nick, u["name"], u["host"]):
                return [fail("source", "source-is-not-nick-user-host", op, nick=nick, source=u["src"],
                             expected="%s!~%s@%s" % (nick, u["name"], u["host"]))]
        for c, cn in st.conns.items():
            if cn["auth"] and cn["nick"] is not None and cn["nick"] in st.users and not cn["quit"]:
                if cn["src"] != st.users[cn["nick"]]["src"]:
                    return [fail("source", "connection-and-user-source-differ", op, conn=c,
                                 conn_source=cn["src"], user_source=st.users[cn["nick"]]["src"])]
    return []


def mon_reparse(seq, ctx):
    for op in seq.ops:
        for d, lines in op.outs.items():
            for l in lines:
                if "\n" in l or l.endswith("<noeol>"):
                    return [fail("reparse", "not-one-line", op, line=l[:200])]
                m = parse_irc(l)
                if m is None or m[0] is None:
                    return [fail("reparse", "emitted-line-does-not-parse", op, line=l[:200])]
        k = kind_of(op)
        c, line = op_line(op)
        if line is not None and k in ("PRIVMSG", "NOTICE", "TOPIC", "PART", "KICK", "WALLOPS", "INVITE"):
            sent = parse_irc(line.lstrip())
            if not sent or any(ch in line for ch in "\t\r\x0c\x0b\n"):
                continue  # only lines whose blanks are spaces are judged (the code also splits at TAB/FF/CR)
            for d, lines in op.outs.items():
                for l in lines:
                    m = parse_irc(l)
                    if m and m[1].upper() == k and m[0] and "!" in m[0]:
                        # relayed copy: last parameter (text / reason / topic) must be what was sent
                        if k in ("PRIVMSG", "NOTICE") and len(sent[2]) >= 2 and m[2][-1] != sent[2][1]:
                            return [fail("reparse", "relay-text-differs:%s" % k, op, sent=sent[2][1], got=m[2][-1])]
                        # TOPIC is relayed with ALL the parameters the sender gave; the topic is the second
                        if k in ("TOPIC",) and len(sent[2]) >= 2 and (len(m[2]) < 2 or m[2][1] != sent[2][1]):
                            return [fail("reparse", "relay-text-differs:%s" % k, op, sent=sent[2][1], got=m[2][1:2])]
                        if k == "PART" and len(sent[2]) >= 2 and m[2][-1] != sent[2][1]:
                            return [fail("reparse", "relay-text-differs:%s" % k, op, sent=sent[2][1], got=m[2][-1])]
                        if k == "KICK" and len(sent[2]) >= 3 and m[2][-1] != sent[2][2]:
                            return [fail("reparse", "relay-text-differs:%s" % k, op, sent=sent[2][2], got=m[2][-1])]
    return []


MON = {
    "nopanic": mon_nopanic, "ownership": mon_ownership, "gate": mon_gate, "membership": mon_membership,
    "cleanup": mon_cleanup, "counters": mon_counters, "audience": mon_audience,
    "notice_silent": mon_notice_silent, "opergrant": mon_opergrant, "hidden": mon_hidden,
    "chanlife": mon_chanlife, "admission": mon_admission, "rename": mon_rename, "reparse": mon_reparse, "source": mon_source,
}

BY_PROP = {
    "C01": ["audience", "membership"], "C02": ["ownership", "source"], "C03": ["gate"], "C04": ["membership"],
    "C05": ["nopanic"], "C06": ["cleanup", "membership"], "C07": ["admission"], "C08": ["membership"],
    "C09": ["membership"], "C10": ["notice_silent"], "C11": ["opergrant"], "C12": ["hidden"],
    "C13": ["reparse", "nopanic"], "C14": ["source"], "C15": ["rename", "membership", "source"], "C16": ["chanlife", "membership"], "C17": [], "C18": ["nopanic"],
    "C19": ["counters"], "C20": [],
}


def seq_ctx(cfg_lines):
    ctx = {"max_joins": None}
    for l in cfg_lines or []:
        t = l.split(" ")
        if t[1] == "max_joins":
            ctx["max_joins"] = int(t[2])
    return ctx


def run_monitors(pid, seq, cfg_lines, seqfile=None):
    if cfg_lines is None and seqfile is not None:
        from .runner import read_ops_file
        key = seqfile[0]
        cache = run_monitors.__dict__.setdefault("_cache", {})
        if key not in cache:
            cache.clear()
            cache[key] = read_ops_file(key)
        cfg_lines = cache[key][seqfile[1]][1]
    ctx = seq_ctx(cfg_lines)
    res = []
    for name in BY_PROP.get(pid, []):
        try:
            res += MON[name](seq, ctx)
        except Exception as e:  # a monitor bug must never look like a violation
            import traceback
            res_dbg = traceback.format_exc()
            raise RuntimeError("monitor %s crashed: %s" % (name, res_dbg))
    return res
