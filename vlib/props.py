"""Per-property check configuration: generator profiles, footprint (which operations and which
transcript components belong to the property), theorem module, monitors (DESIGN.md 4.5)."""
import re

REG_VERBS = {"NICK", "USER", "PASS", "CAP", "AUTHENTICATE"}
END_OPS = {"QUIT", "@eof", "@reset", "@toolong", "@badutf8", "KILL", "DIE", "SQUIT"}
ALL = None  # every verb


def _num(line):
    m = re.match(r"^:\S+ (\S+)", line)
    return m.group(1) if m else "?"


def keep_kinds(kinds):
    """projection of out-lines: keep lines whose second word is in kinds"""
    def f(lines):
        return [l for l in lines if _num(l) in kinds]
    return f


def st_kinds(kinds):
    def f(st):
        return [l for l in st if l.split(" ")[1] in kinds]
    return f


ident = lambda x: x

# Each entry:
#   profiles : list of (profile, weight) for the generator
#   verbs    : operations inside the footprint (None = all).  "@eof" etc. are the non-line ops.
#   outs     : projection of the per-connection lines of an op in the footprint
#   st       : projection of the state dump
#   events   : compare `ev` lines (closed / refused / panic)
#   module   : Lean module with the property theorems
#   fn       : list of pure-function test families
#   monitors : names of monitors in vlib/monitors.py
P = {
    "C01": dict(title="audience of PRIVMSG/NOTICE", profiles=[("msg", 3), ("speak", 1), ("general", 1)],
                verbs={"PRIVMSG", "NOTICE"}, outs=keep_kinds({"PRIVMSG", "NOTICE"}), st=st_kinds(set()),
                events=False, monitors=["audience"]),
    "C02": dict(title="nick ownership", profiles=[("reg", 3), ("nick", 1), ("endings", 1)],
                verbs=REG_VERBS | END_OPS | {"@connect"}, outs=ident, st=st_kinds({"user", "conn", "hist", "cnt"}),
                events=True, monitors=["ownership"]),
    "C03": dict(title="registration gate and password", profiles=[("reg", 4), ("general", 1)],
                verbs=ALL, unregistered_only=True, outs=ident, st=ident, events=True, monitors=["gate"]),
    "C04": dict(title="membership relation and views", profiles=[("member", 3), ("chanlife", 1), ("general", 1)],
                verbs={"JOIN", "PART", "KICK", "NICK", "NAMES", "WHO", "WHOIS"} | END_OPS,
                outs=keep_kinds({"JOIN", "PART", "KICK", "NICK", "353", "366", "352", "315", "319", "318", "311"}),
                st=st_kinds({"member", "user"}), events=False, monitors=["membership"]),
    "C05": dict(title="no crash", profiles=[("fuzz", 3), ("general", 2), ("mode", 1), ("kti", 1), ("oper", 1)],
                verbs=ALL, outs=lambda ls: [], st=st_kinds({"conn"}), events=True, monitors=["nopanic"]),
    "C06": dict(title="session end cleanup", profiles=[("endings", 4), ("general", 1)],
                verbs=END_OPS, outs=ident, st=ident, events=True, monitors=["cleanup"]),
    "C07": dict(title="JOIN admission", profiles=[("join", 4), ("general", 1)],
                verbs={"JOIN"}, outs=ident, st=st_kinds({"member", "user", "chan"}), events=False, monitors=["admission"]),
    "C08": dict(title="channel MODE privileges", profiles=[("mode", 4), ("general", 1)],
                verbs={"MODE", "JOIN", "PRIVMSG", "NOTICE", "TOPIC", "KICK", "INVITE", "NAMES", "WHO"}, channel_target=True,
                outs=ident, st=st_kinds({"member", "chan", "ban"}), events=False,
                monitors=["modepriv"]),
    "C09": dict(title="KICK/TOPIC/INVITE rank", profiles=[("kti", 4), ("general", 1)],
                verbs={"KICK", "TOPIC", "INVITE", "JOIN", "LIST"}, outs=ident, st=st_kinds({"member", "chan", "user"}), events=False,
                monitors=["ktirank"]),
    "C10": dict(title="speaking restrictions, NOTICE silent", profiles=[("speak", 4), ("msg", 1)],
                verbs={"PRIVMSG", "NOTICE"}, outs=ident, st=st_kinds(set()), events=False, monitors=["notice_silent"]),
    "C11": dict(title="operator status", profiles=[("oper", 4), ("general", 1)],
                verbs={"OPER", "MODE", "KILL", "DIE", "SQUIT", "WALLOPS", "STATS", "NICK"}, user_target=True,
                outs=ident, st=st_kinds({"user", "cnt", "wallops", "srv"}), events=True, monitors=["opergrant"]),
    "C12": dict(title="secret channels / invisible users", profiles=[("secret", 4), ("general", 1)],
                verbs={"LIST", "NAMES", "WHO", "WHOIS", "PRIVMSG", "NOTICE"}, outs=ident, st=st_kinds(set()),
                events=False, monitors=["hidden"]),
    "C13": dict(title="framing and parsing", profiles=[("fuzz", 4), ("general", 1)],
                verbs=ALL, outs=keep_kinds({"421", "461", "417", "472", "501", "696", "ERROR", "451", "TOPIC", "PRIVMSG", "NOTICE",
                                            "PART", "KICK", "NICK", "INVITE", "WALLOPS", "JOIN", "MODE", "301"}),
                st=st_kinds(set()), events=False, fn=["msg", "cmd", "render", "codec"], monitors=["reparse"]),
    "C14": dict(title="glob matching", profiles=[("join", 1), ("speak", 1), ("secret", 1), ("nick", 1)],
                verbs={"JOIN", "PRIVMSG", "NOTICE", "WHO", "WHOIS", "OPER", "MODE"} | REG_VERBS,
                outs=keep_kinds({"474", "473", "404", "491", "352", "311", "MODE", "367", "348", "346", "ERROR:"}),
                st=st_kinds({"chan", "ban", "user"}), events=False, fn=["mw", "norm"], monitors=["source"]),
    "C15": dict(title="nick change moves identity", profiles=[("nick", 4), ("general", 1)],
                verbs={"NICK"}, registered_only=True, outs=ident, st=ident, events=False, monitors=["rename"]),
    "C16": dict(title="channel life cycle", profiles=[("chanlife", 4), ("join", 1)],
                verbs={"JOIN", "PART", "KICK"} | END_OPS, outs=keep_kinds({"JOIN", "353", "366", "332"}),
                st=st_kinds({"chan", "member", "ban"}), events=False, monitors=["chanlife"]),
    "C17": dict(title="keep-alive", profiles=[("pingpong", 1)], verbs={"PING", "PONG"}, outs=ident, st=st_kinds({"conn"}),
                events=True, timer=True, monitors=[]),
    "C18": dict(title="ordering and atomicity", profiles=[("general", 1), ("reg", 1), ("join", 1)],
                verbs=ALL, outs=ident, st=ident, events=True, conc=True, monitors=[]),
    "C19": dict(title="statistics, presence, slots", profiles=[("stats", 4), ("oper", 1), ("endings", 1)],
                verbs={"LUSERS", "ISON", "USERHOST", "MODE", "OPER", "NICK", "@connect"} | END_OPS | REG_VERBS,
                outs=keep_kinds({"251", "252", "253", "254", "255", "265", "266", "302", "303"}),
                st=st_kinds({"cnt", "conn"}), events=True, monitors=["counters"]),
    "C20": dict(title="configuration", profiles=[("reg", 2), ("general", 1), ("chanlife", 1)],
                verbs=REG_VERBS | {"JOIN", "@connect"}, outs=keep_kinds({"001", "002", "004", "005", "251", "252", "254", "255",
                                                            "265", "266", "375", "372", "376", "221", "405", "464", "ERROR:"}),
                st=st_kinds({"chan", "member"}), events=True, fn=["config", "hash"], monitors=[]),
}

for k, v in P.items():
    v.setdefault("module", "Irc.Props." + k)
    v.setdefault("fn", [])

# companion theorem modules (audited together with the main one)
P["C13"]["extra_modules"] = ["Irc.Props.C13Codec"]
P["C07"]["fn"] = ["banned"]
P["C13"]["extra_modules"] = ["Irc.Props.C13Codec", "Irc.Props.Wire", "Irc.Props.C13Hygiene"]
P["C10"]["fn"] = ["banned"]
P["C05"]["extra_modules"] = ["Irc.InvProofs.Step"]
P["C06"]["extra_modules"] = ["Irc.InvProofs.Timer"]
P["C04"]["extra_modules"] = ["Irc.Props.C04Announce"]

# corollaries over reachable worlds / whole runs (`Reachable cfg w`, `run cfg evs`) of every theorem that
# assumes the invariant, plus a concrete 13-event run at which eleven of them are instantiated (ReachF)
for _pid, _mods in {"C01": ["ReachA"], "C02": ["ReachA"], "C07": ["ReachA"], "C10": ["ReachA"], "C04": ["ReachB", "ReachE"],
                    "C05": ["ReachC"], "C06": ["ReachC"], "C19": ["ReachC"], "C11": ["ReachD"], "C12": ["ReachD"],
                    "C15": ["ReachF"], "C16": ["ReachF"]}.items():
    P[_pid].setdefault("extra_modules", [])
    P[_pid]["extra_modules"] = P[_pid]["extra_modules"] + ["Irc.Props." + m for m in _mods]


# ---- state components that belong to a property whatever command touches them ("changes only by ..."):
# compared after EVERY operation, not only after the verbs of the footprint.  (A divergence that first
# shows at another verb would otherwise end the comparison of that sequence outside the footprint.)
def _fields(kind, idx):
    def f(st):
        out = []
        for l in st:
            t = l.split(" ")
            if t[1] == kind:
                out.append(" ".join([kind] + [t[i] for i in idx if i < len(t)]))
        return out
    return f


def _both(*fs):
    return lambda st: [x for f in fs for x in f(st)]


def _oper_bits(st):
    out = []
    for l in st:
        t = l.split(" ")
        if t[1] == "user":
            out.append("user %s %s" % (t[2], "".join(c for c in t[7] if c in "oO")))
    return out


P["C16"]["st_any"] = _fields("chan", [2, 16, 17, 18, 19, 20, 21])          # existence, configured ranks, preconfigured
P["C04"]["st_any"] = st_kinds({"member"})                                   # the membership relation
P["C02"]["st_any"] = _both(_fields("user", [2]), _fields("conn", [2, 3, 9]))  # who owns which nick
P["C11"]["st_any"] = _oper_bits                                             # operator flags
P["C19"]["st_any"] = st_kinds({"cnt"})                                      # the counters
P["C08"]["st_any"] = _fields("chan", [2, 5, 6, 7, 8, 9, 10, 11, 12, 13, 14, 15])  # channel modes and rank lists
P["C09"]["st_any"] = _fields("chan", [2, 3, 4])                             # topic and who set it

# the frame theorem "a whole command of connection d neither reads nor writes the record of another
# connection c" for all 41 handlers (it was only stated in C18.lean until it was proved)
P["C18"].setdefault("extra_modules", [])
P["C18"]["extra_modules"] = P["C18"]["extra_modules"] + ["Irc.Props.C18Frame"]

# the general serialisability theorem: any number of connections, any programs, any schedule of lock sections
# (round 8; Irc/Props/C18General.lean + C18GeneralLemmas0..8)
P["C18"]["extra_modules"] = P["C18"]["extra_modules"] + ["Irc.Props.C18General"]
# the user records carry the source string that every relayed copy is prefixed with (C01: "truly attributed")
P["C01"]["st_any"] = _both(_fields("user", [2, 3, 5, 6]), st_kinds({"member"}), _fields("chan", [2, 11, 12, 13, 14, 15]))
# ... and the member maps and rank lists ARE the audience of a channel message (status-prefixed targets walk the rank lists)

# state components a property's decision READS are compared after every operation, whatever command changed them
# (a divergence there is inside the property's footprint even when the command is not one of its verbs)
P["C10"]["st_any"] = _both(_fields("chan", [2, 5, 8, 9, 11, 12, 13, 14, 15]), st_kinds({"member"}), _fields("user", [2, 6, 8]))
P["C07"]["st_any"] = _both(_fields("chan", [2, 5, 6, 7, 8, 9, 10]), st_kinds({"member"}), _fields("user", [2, 6, 9, 10]))
P["C12"]["st_any"] = _both(_fields("chan", [2, 5]), st_kinds({"member"}), _fields("user", [2, 7, 9]))
P["C09"]["st_any"] = _both(_fields("chan", [2, 3, 4, 5]), _fields("user", [2, 10]), st_kinds({"member"}))
P["C11"]["st_any"] = _both(_oper_bits, st_kinds({"wallops"}))
P["C14"]["st_any"] = _both(st_kinds({"ban"}), _fields("chan", [2, 8, 9, 10]), _fields("user", [2, 6]))
P["C06"]["st_any"] = _both(st_kinds({"wallops"}), _fields("user", [2, 9, 10]))
# the command counters are a write-only frame for every handler except `STATS m`: `bumpCommLine_of_not_stats` (all 41 handlers)
# and hence `general_serialisable_whole_nostats` (Irc/Props/C18Counters*.lean)
P["C18"]["extra_modules"] = P["C18"]["extra_modules"] + ["Irc.Props.C18Counters"]
P["C20"]["st_any"] = _both(_fields("cnt", [5]), _fields("conn", [2]))         # max_connections: slots in use, who is served
# the ORDER half of C18 on a model of delivery (direct replies, per-connection queues, the drain of the repair 65df214):
# result_order, sender_receiver_fifo, nothing_lost, old_server_reorders (Irc/Deliver.lean, Irc/Props/C18Order*.lean)
P["C18"]["extra_modules"] = P["C18"]["extra_modules"] + ["Irc.Props.C18Order"]
# C05: the unwraps of the fan-out loops rely on "every name in a rank list / the WALLOPS set / a member map is a registered user"
# (Inv I2/I3/I5); a divergence of these components is reported for C05 when it happens, not only when a later message trips over it
P["C05"]["st_any"] = _both(st_kinds({"member", "wallops"}), _fields("chan", [2, 11, 12, 13, 14, 15]), _fields("user", [2, 9]))
# "any other traffic on the connection in the meantime": no command but the connection's own PONG touches the keep-alive flag
# (keepalive_frame, pong_clears, pending_iff_last_event; Irc/Props/C17Traffic*.lean)
P["C17"].setdefault("extra_modules", [])
P["C17"]["extra_modules"] = P["C17"]["extra_modules"] + ["Irc.Props.C17Traffic"]
# C01 "every order in which the receiving connections drain their queues": on the delivery model every interleaving of drain
# events gives each receiver exactly the copies queued for it, once, in push order (nothing_lost, sender_receiver_fifo)
P["C01"].setdefault("extra_modules", [])
P["C01"]["extra_modules"] = P["C01"]["extra_modules"] + ["Irc.Props.C18Order"]
# every numeric reply the server can emit (all 100 generated definitions) parses as `:server NNN client …`, independent of
# the wording of the trailing texts (reply_is_wellformed; Irc/Props/C13Replies*.lean)
P["C13"]["extra_modules"] = P["C13"]["extra_modules"] + ["Irc.Props.C13Replies"]
