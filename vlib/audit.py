"""Proof audit of one property module: theorem inventory, axioms, forbidden tokens, leanchecker."""
import os, re, subprocess, json
from .runner import V, sh, WORK

ALLOWED_AXIOMS = {"propext", "Classical.choice", "Quot.sound"}
FORBIDDEN = [r"\bsorry\b", r"(^|[;·(]|\bby\b|<;>|=>)\s*admit\s*($|[;)])", r"^\s*axiom\s", r"native_decide", r"bv_decide", r"implemented_by",
             r"\bunsafe\s", r"maxHeartbeats\s+0\b"]

AUDIT_TMPL = '''import %(module)s
import Lean
open Lean Elab Command

run_cmd do
  let env ← getEnv
  let some idx := env.getModuleIdx? `%(module)s | throwError "module not found"
  let mut names : Array Name := #[]
  for (n, ci) in env.constants.map₁.toList do
    if env.getModuleIdxFor? n == some idx then
      if let .thmInfo _ := ci then
        if !n.isInternal then names := names.push n
  for n in names.qsort (fun a b => a.toString < b.toString) do
    let axs ← Lean.collectAxioms n
    logInfo m!"THEOREM {n} AXIOMS {axs.toList}"
'''


def strip_comments(src):
    src = re.sub(r"/-.*?-/", "", src, flags=re.S)
    src = re.sub(r"--.*", "", src)
    return src


def lean_files_of(module):
    """the property file plus every project file it transitively imports"""
    root = V + "/lean/"
    seen, todo = [], [module]
    while todo:
        m = todo.pop()
        p = root + m.replace(".", "/") + ".lean"
        if m in seen or not os.path.exists(p):
            continue
        seen.append(m)
        for imp in re.findall(r"^import\s+(\S+)", open(p).read(), flags=re.M):
            if imp.startswith("Irc"):
                todo.append(imp)
    return [root + m.replace(".", "/") + ".lean" for m in seen]


def audit_modules(modules, tier):
    """audit the main property module and its companion modules; counts are summed"""
    total = None
    for m in modules:
        r = audit_module(m, tier)
        if total is None:
            total = r
        else:
            for k in ("obligations", "discharged"):
                total[k] += r[k]
            for k in ("theorems", "problems", "partial", "full_statements_unproved"):
                total[k] = total.get(k, []) + r.get(k, [])
            total["axioms"] = sorted(set(total["axioms"]) | set(r["axioms"]))
            total["checker_cmd"] += " ; " + r["checker_cmd"]
    return total


def audit_module(module, tier):
    res = {"obligations": 0, "discharged": 0, "theorems": [], "axioms": [], "problems": [],
           "checker_cmd": "cd /verif/lean && lake build %s && lake env lean work/Audit_%s.lean (#print-axioms of every theorem) && lake env leanchecker %s"
                          % (module, module.split(".")[-1], module),
           "trusted_base": ["Lean 4.33 kernel (re-checked by leanchecker)",
                            "hand transcription Rust -> Lean (validated by the correspondence run)",
                            "harness + canonicaliser + hook verif_dump",
                            "tokio / tokio-util / argon2 / TOML stack (modelled, not verified)"]}
    path = V + "/lean/" + module.replace(".", "/") + ".lean"
    if not os.path.exists(path):
        res["problems"].append("theorem module %s does not exist" % module)
        return res
    # forbidden tokens in the property file and everything it imports from this project
    for f in lean_files_of(module):
        src = strip_comments(open(f).read())
        for pat in FORBIDDEN:
            if re.search(pat, src, flags=re.M):
                res["problems"].append("forbidden token /%s/ in %s" % (pat, os.path.relpath(f, V)))
    os.makedirs(V + "/lean/work", exist_ok=True)
    apath = V + "/lean/work/Audit_%s.lean" % module.split(".")[-1]
    open(apath, "w").write(AUDIT_TMPL % {"module": module})
    r = sh(["lake", "env", "lean", apath], cwd=V + "/lean", timeout=1200)
    out = r.stdout + r.stderr
    if r.returncode != 0:
        res["problems"].append("audit file failed to elaborate: " + out[-1500:])
        return res
    axioms_all = set()
    for m in re.finditer(r"THEOREM (\S+) AXIOMS \[(.*?)\]", out):
        name = m.group(1)
        # compiler-generated lemmas (equation lemmas, injectivity, matchers ...) are not obligations
        if not name.startswith("Irc.") or re.search(
                r"\.(eq_\d+|eq_def|eq_unfold|congr_simp|sizeOf_spec|injEq|inj|ofNat_ctorIdx|ctorIdx\w*|toCtorIdx\w*|match_\d+|proof_\d+|induct\w*|fun_cases\w*|_\w+)(\.|$)|\._", name):
            continue
        axs = [a.strip() for a in m.group(2).split(",") if a.strip()]
        res["obligations"] += 1
        bad = [a for a in axs if a not in ALLOWED_AXIOMS]
        if bad:
            res["problems"].append("theorem %s depends on %s" % (name, bad))
        else:
            res["discharged"] += 1
        axioms_all.update(axs)
        res["theorems"].append(name)
    res["axioms"] = sorted(axioms_all)
    if res["obligations"] == 0:
        res["problems"].append("no theorems found in %s" % module)
    # partial results are listed, never hidden
    src = open(path).read()
    res["partial"] = re.findall(r"theorem\s+(\S+_partial)\b", src)
    res["full_statements_unproved"] = re.findall(r"def\s+(\S+_full)\s*:\s*Prop", src)
    # independent re-check of the compiled module
    args = ["lake", "env", "leanchecker", module]
    r = sh(args, cwd=V + "/lean", timeout=1800)
    if r.returncode != 0:
        res["problems"].append("leanchecker rejected %s: %s" % (module, (r.stdout + r.stderr)[-800:]))
    return res
