"""special engines: timer (C17), directed scenarios, configuration (C20), concurrency (C18)"""
import os, random, re, collections, json
from . import runner
from .canon import esc, unesc


# --------------------------------------------------------------------------- C17 timer

def gen_timer_seqs(seed, n):
    r = random.Random(seed * 31 + 7)
    seqs = []
    for i in range(n):
        P = r.choice([1, 1, 2, 2, 3, 4])
        T = r.choice([1, 2, 2, 3, 4, 5])
        pattern = r.choice(["always", "never", "late", "stops", "token", "unsolicited", "pingcmd", "lateok", "lateok_stops",
                            "lateok_stops", "silent_busy", "silent_busy"])
        if pattern.startswith("lateok") and r.random() < 0.8:
            # answers that come after the NEXT ping but still within pong_timeout need pong_timeout > ping_timeout
            P = r.choice([1, 1, 2])
            T = P + r.choice([1, 2, 3])
        ops = ["connect 1 127.0.0.1", "line 1 " + esc("NICK a"), "line 1 " + esc("USER u 0 * :r")]
        t = 0
        horizon = r.choice([6, 9, 12, 16]) * 1000
        k_stop = r.choice([1, 2, 3])
        answered = 0
        if r.random() < 0.3:
            d = r.choice([100, 300, 700])
            ops.append("advance %d" % d)
            t += d
        reg = 0
        while t < horizon:
            # advance to just after the next ping, then maybe answer
            nxt = ((t - reg) // (P * 1000) + 1) * P * 1000 + reg
            delay = r.choice([100, 200, 500, 900]) if pattern != "late" else T * 1000 + r.choice([100, 500])
            if pattern.startswith("lateok") and T > P:
                delay = min(P * 1000 + r.choice([100, 400, 700]), T * 1000 - 100)
            if pattern in ("always", "token", "late", "pingcmd", "lateok") or \
                    (pattern in ("stops", "lateok_stops") and answered < k_stop):
                d = nxt + delay - t
                ops.append("advance %d" % d)
                t += d
                tok = r.choice(["x", ":LALAL", "12345", ":some thing", ":", ":é"]) if pattern == "token" else ":LALAL"
                ops.append("line 1 " + esc("PONG " + tok))
                answered += 1
                if r.random() < 0.15:
                    ops.append("line 1 " + esc(r.choice(["CAP LS 302", "CAP REQ :multi-prefix", "CAP LIST", "LUSERS", "JOIN #a"])))
                if pattern == "pingcmd" and r.random() < 0.5:
                    ops.append("line 1 " + esc(r.choice(["PING tok%d" % answered, "PING :", "PING :a b"])))
            elif pattern == "unsolicited":
                d = r.choice([300, 600, 1300])
                ops.append("advance %d" % d)
                t += d
                ops.append("line 1 " + esc("PONG early"))
            elif pattern == "silent_busy":
                # never answers a PING, but keeps the connection busy with other traffic (its own PINGs included):
                # other traffic is no proof of life
                d = r.choice([200, 300, 500, 700])
                ops.append("advance %d" % d)
                t += d
                ops.append("line 1 " + esc(r.choice(["PING keep", "PING :x y", "LUSERS", "PING keep", "JOIN #a", "PRIVMSG a :hi",
                                                     "NOTICE a :n", "MODE a +i", "AWAY :brb", "TIME", "CAP LS 302",
                                                     "CAP REQ :multi-prefix", "CAP LIST", "NICK a2", "OPER x y"])))
            else:
                d = r.choice([500, 1000, 2500, 4000])
                ops.append("advance %d" % d)
                t += d
                if r.random() < 0.3:
                    ops.append("line 1 " + esc(r.choice(["LUSERS", "PING keep", "JOIN #a", "PRIVMSG a :hi", "CAP LS 302",
                                                         "CAP REQ :multi-prefix", "CAP END", "MODE a +w"])))
        cfg = ["cfg name irc.test", "cfg ping_timeout %d" % P, "cfg pong_timeout %d" % T]
        seqs.append(("timer-%d-%d-P%d-T%d-%s" % (seed, i, P, T, pattern), cfg, ops, (P, T, pattern)))
    return seqs


def parse_timer_impl(text):
    """impl transcript -> {seq: [[(conn, ms, kind)] per op]}"""
    res = collections.OrderedDict()
    cur = None
    op = None
    for line in text.split("\n"):
        if line.startswith("seq "):
            cur = []
            res[line[4:]] = cur
        elif line.startswith("op "):
            op = []
            cur.append(op)
        elif line.startswith("out "):
            _, c, at, l = line.split(" ", 3)
            l = unesc(l)
            ms = int(at[1:])
            if re.match(r"^:\S+ PING :LALAL$", l):
                op.append((int(c), ms, "PING"))
            elif re.match(r"^:\S+ ERROR :Pong timeout", l):
                op.append((int(c), ms, "ERROR"))
            else:
                m = re.match(r"^:\S+ PONG \S+ :(.*)$", l)
                if m:
                    op.append((int(c), ms, "PONG " + m.group(1)))
        elif line.startswith("ev closed "):
            pass
        elif line.startswith("ev panic") or line.startswith("ev readtimeout"):
            op.append((0, 0, "BROKEN " + line))
    return res


def parse_timer_model(text):
    res = collections.OrderedDict()
    cur = None
    op = None
    for line in text.split("\n"):
        if line.startswith("seq "):
            cur = []
            res[line[4:]] = cur
        elif line.startswith("op "):
            op = []
            cur.append(op)
        elif line.startswith("tev "):
            _, c, at, rest = line.split(" ", 3)
            op.append((int(c), int(at[1:]), rest))
    return res


def timer_oracle(ops, P, T, events):
    """independent check of the statement on the implementation trace:
    a client silent from some PING on must get ERROR no later than T (+0.2 s slack) after the
    first PING it failed to answer; a client that answered every PING within T is never
    sent ERROR."""
    t = 0
    pong_times = []
    for o in ops:
        w = o.split(" ")
        if w[0] == "advance":
            t += int(w[1])
        elif w[0] == "line" and unesc(w[2]).upper().startswith("PONG"):
            pong_times.append(t)
    end = t
    pings = [ms for (c, ms, k) in events if k == "PING"]
    errs = [ms for (c, ms, k) in events if k == "ERROR"]
    # "after registration it sends the client a PING every ping_timeout seconds" (registration is at virtual time 0)
    stop = errs[0] if errs else end
    marks = [0] + sorted(p for p in pings if p <= stop) + [stop]
    for a, b in zip(marks, marks[1:]):
        if b - a > P * 1000 + 150:
            return "ping-not-sent-every-ping_timeout"
    for p in pings:
        answered = any(p <= q < p + T * 1000 for q in pong_times)
        later_pong = any(q >= p for q in pong_times)
        if not later_pong:
            # silent from this ping on
            if end >= p + T * 1000 + 200 and not any(e <= p + T * 1000 + 200 for e in errs):
                return "silent-client-not-dropped"
            break
    if errs:
        e = errs[0]
        # was every ping before e answered in time?
        # (answered = some PONG arrives within pong_timeout of the PING; with pong_timeout > ping_timeout the
        # answer may come after the next PING has been sent - that PING starts no second timer)
        ok_all = all(any(p <= q < p + T * 1000 for q in pong_times) for p in pings if p < e)
        if ok_all and pings:
            return "live-client-dropped"
    return None


def run_timer(tier, seed, log):
    os.makedirs(runner.WORK, exist_ok=True)
    n = 120 if tier == "quick" else 2000
    seqs = gen_timer_seqs(seed, n)
    path = runner.WORK + "/timer-%d.ops" % seed
    runner.write_seq_file(path, [(a, b, c) for a, b, c, _ in seqs])
    ri = runner.sh([runner.HARNESS, "timer", path], timeout=3000)
    rm = runner.sh([runner.MODEL, "timer", path], timeout=600)
    if ri.returncode != 0 or rm.returncode != 0:
        raise runner.BuildError("timer mode failed: %s %s" % (ri.stderr[-800:], rm.stderr[-800:]))
    A, B = parse_timer_impl(ri.stdout), parse_timer_model(rm.stdout)
    violations = []
    n_events = 0
    combos = set()
    seen = set()
    for name, cfg, ops, (P, T, pattern) in seqs:
        a, b = A.get(name, []), B.get(name, [])
        combos.add((P, T, pattern))
        flat = [e for op in a for e in op]
        n_events += len(flat)
        verdict = timer_oracle(ops, P, T, flat)
        if verdict and ("oracle:" + verdict) not in seen:
            seen.add("oracle:" + verdict)
            violations.append(("timer:" + verdict, {
                "what": "keep-alive statement violated on an implementation trace (virtual time)",
                "verdict": verdict, "ping_timeout": P, "pong_timeout": T, "pattern": pattern,
                "cfg": cfg, "ops": ops, "ops_readable": runner.render_ops(ops), "impl_events": flat[:40],
                "model_events": [e for op in b for e in op][:40], "timer": True}))
        def norm(opsl):
            # a PING due at the very instant of the timeout is a race in the real system
            # (timer task vs. waker task); it is dropped from both sides before comparing
            errs = {(c, ms) for op in opsl for (c, ms, k) in op if k == "ERROR"}
            return [[e for e in op if not (e[2] == "PING" and (e[0], e[1]) in errs)] for op in opsl]
        a, b = norm(a), norm(b)
        if a != b:
            for k, (x, y) in enumerate(zip(a, b)):
                if x != y:
                    sig = "timer:divergence"
                    if sig not in seen:
                        seen.add(sig)
                        violations.append((sig, {
                            "what": "timer model and implementation differ", "op": k + 1, "impl": x, "model": y,
                            "ping_timeout": P, "pong_timeout": T, "pattern": pattern, "cfg": cfg, "ops": ops,
                            "ops_readable": runner.render_ops(ops), "timer": True,
                            "suffix": "" if verdict else "no-failing-input-found"}))
                    break
    cov = {"evaluations": n_events, "timer_sequences": len(seqs), "distinct_nontrivial": len(combos),
           "rule": "virtual-time runs of the real event loop; a case is one (ping_timeout, pong_timeout, client response pattern) combination; events are PING / ERROR / PONG observations compared with the Lean timer model to the 100 ms step",
           "traces_validated_against_impl": len(seqs)}
    samples = [{"sequence": seqs[0][0], "ops": runner.render_ops(seqs[0][2])[:12]}]
    return {"coverage": cov, "samples": samples, "violations": violations}


# --------------------------------------------------------------------------- C17 on the wall clock, real server

def gen_live_scenarios(seed, n):
    r = random.Random(seed * 17 + 5)
    fixed = [(1, 1, "always", 0, 0, 50, 3600), (1, 2, "never", 0, 0, 0, 4600), (1, 1, "stops", 1, 0, 100, 4600),
             (2, 1, "always", 0, 2600, 50, 7200), (1, 1, "always", 0, 1300, 50, 4300), (2, 2, "stops", 1, 300, 100, 7400),
             (1, 3, "never", 0, 1200, 0, 6500), (1, 1, "always", 0, 700, 400, 3900)]
    sc = []
    for i in range(n):
        if i < len(fixed):
            P, T, pol, k, pre, ad, dur = fixed[i]
        else:
            P, T = r.choice([1, 1, 2]), r.choice([1, 2, 3])
            pol = r.choice(["always", "never", "stops"])
            k = r.choice([1, 2, 3])
            pre = r.choice([0, 0, 300, 1300, 2600, 3400])
            ad = r.choice([20, 100, 400, 700]) if T * 1000 > 900 else r.choice([20, 100, 400])
            dur = pre + (k + 2) * P * 1000 + T * 1000 + 1500
        cfg = ["cfg name irc.test", "cfg ping_timeout %d" % P, "cfg pong_timeout %d" % T]
        sc.append(("live-%d-%d-P%d-T%d-%s%d-pre%d" % (seed, i, P, T, pol, k, pre), cfg,
                   ["live %d %s %d %d %d" % (pre, pol, k, ad, dur)], (P, T, pol, k, pre, ad, dur)))
    return sc


def live_oracle(events, closed, final, P, T, pol, k, dur):
    """the statement of C17 (and the clean-up of C06) on wall-clock observations of the real server; generous
    scheduling slack (the machine may be busy): a PING may be up to 900 ms late, an ERROR up to 1 s"""
    reg = [ms for ms, kind, _ in events if kind == "001"]
    if not reg:
        return "registration-not-completed"
    reg = reg[0]
    pings = [ms for ms, kind, _ in events if kind == "PING"]
    sent = [ms for ms, kind, _ in events if kind == "SENT"]
    errs = [ms for ms, kind, _ in events if kind == "ERROR"]
    end = errs[0] if errs else (closed if closed is not None else dur)
    # schedule: the first PING one ping_timeout after registration, then one every ping_timeout
    post = [p for p in pings if p >= reg]
    if end >= reg + P * 1000 + 1000:
        if not post or not (reg + P * 1000 - 250 <= post[0] <= reg + P * 1000 + 900):
            return "first-ping-not-one-ping_timeout-after-registration"
    for a, b in zip(post, post[1:]):
        if not (P * 1000 - 400 <= b - a <= P * 1000 + 900):
            return "ping-interval-wrong"
    if post and end - post[-1] > P * 1000 + 1000:
        return "ping-missing"
    # a client that answers every PING (within pong_timeout) is never dropped
    def answered(p):
        return any(p <= q < p + T * 1000 for q in sent)
    if errs or (closed is not None and pol == "always"):
        e = errs[0] if errs else closed
        before = [p for p in pings if p < e]
        if before and all(answered(p) for p in before):
            return "live-client-dropped"
    # a silent client is dropped no later than pong_timeout after the first PING it did not answer
    un = [p for p in pings if not any(q >= p for q in sent)]
    if un:
        p0 = un[0]
        if dur >= p0 + T * 1000 + 1200:
            if not errs or errs[0] > p0 + T * 1000 + 1000:
                return "silent-client-not-dropped"
            if closed is None:
                return "dropped-client-not-disconnected"
            if final != 0:
                return "dropped-client-still-registered"
    elif pol == "always" and final != 1:
        return "live-client-not-registered-at-end"
    return None


def parse_live(text):
    res = collections.OrderedDict()
    cur = None
    for line in text.split("\n"):
        if line.startswith("seq "):
            cur = {"events": [], "closed": None, "final": None, "broken": []}
            res[line[4:]] = cur
        elif cur is None:
            continue
        elif line.startswith("lev "):
            _, ms, kind, rest = line.split(" ", 3)
            cur["events"].append((int(ms), kind, unesc(rest)))
        elif line.startswith("closed "):
            cur["closed"] = int(line.split(" ")[1])
        elif line.startswith("final "):
            cur["final"] = int(line.split(" ")[1])
        elif line.startswith("ev "):
            cur["broken"].append(line)
    return res


def run_live(tier, seed, log):
    os.makedirs(runner.WORK, exist_ok=True)
    n = 6 if tier == "quick" else 60
    sc = gen_live_scenarios(seed, n)

    def run(scs, tag):
        path = runner.WORK + "/live-%d%s.ops" % (seed, tag)
        runner.write_seq_file(path, [(a, b, c) for a, b, c, _ in scs])
        ri = runner.sh([runner.HARNESS, "live", path], timeout=600)
        if ri.returncode != 0:
            raise runner.BuildError("live mode failed: " + ri.stderr[-800:])
        return parse_live(ri.stdout)
    res = run(sc, "")
    violations, rechecked = [], []
    n_events = 0
    seen = set()
    for name, cfg, ops, (P, T, pol, k, pre, ad, dur) in sc:
        o = res.get(name)
        if o is None or o["broken"]:
            raise runner.BuildError("live scenario did not run: %s %s" % (name, o and o["broken"]))
        n_events += len(o["events"])
        v = live_oracle(o["events"], o["closed"], o["final"], P, T, pol, k, dur)
        if v:
            # wall-clock observation: counts only if it fails again when run on its own
            o2 = run([(name, cfg, ops, None)], "-re").get(name)
            v2 = live_oracle(o2["events"], o2["closed"], o2["final"], P, T, pol, k, dur) if o2 and not o2["broken"] else None
            rechecked.append({"scenario": name, "first": v, "second": v2})
            if v2 and ("live:" + v2) not in seen:
                seen.add("live:" + v2)
                violations.append(("live:" + v2, {
                    "what": "keep-alive statement violated on the real server (run_server, wall clock)", "verdict": v2,
                    "ping_timeout": P, "pong_timeout": T, "client": {"policy": pol, "answers": k, "registers_after_ms": pre,
                                                                      "answer_delay_ms": ad, "observed_for_ms": dur},
                    "events": [(ms, kind, l[:80]) for ms, kind, l in o2["events"]][:40], "closed_at": o2["closed"],
                    "still_registered_at_end": o2["final"], "scenario": name}))
    cov = {"live_scenarios": len(sc), "live_events": n_events, "live_first_run_failures_rechecked": rechecked,
           "live_rule": "real run_server + user_state_process on the wall clock, one scripted client per scenario (always / never / stops "
                        "answering, optional slow registration); PING schedule, ERROR deadline, disconnection and clean-up judged with "
                        "scheduling slack (PING up to 0.9 s late, ERROR up to 1 s late)"}
    return {"coverage": cov, "violations": violations}


# --------------------------------------------------------------------------- C18: order of results on one connection

def gen_order_scenarios(seed, n):
    """one connection pipelines commands that each carry a sequence token; every result that names a token must arrive
    in the order of the commands (first sentence of C18), on the sender's own socket and on a peer's socket"""
    r = random.Random(seed * 53 + 11)
    sc = []
    for i in range(n):
        cfg = ["cfg name irc.test"]
        setup = reg(1, "a") + reg(2, "b") + [L(1, "JOIN #c"), L(2, "JOIN #c")]
        k = r.choice([6, 10, 16])
        cmds = []
        many = ["#m%d" % x for x in range(r.choice([17, 20, 33]))]
        bulk_at = r.randrange(k) if i % 3 == 0 else None
        if bulk_at is not None:
            # one command with MANY own echoes (more than any per-turn cap somebody might put on the drain)
            setup = setup + [L(1, "JOIN " + ",".join(many[:17])), L(1, "JOIN " + ",".join(many[17:]) if many[17:] else "LUSERS")]
        for j in range(k):
            t = "tok%02dx" % j
            if j == bulk_at:
                cmds.append(L(1, "PART %s :%s" % (",".join(many), t)))
                continue
            cmds.append(L(1, r.choice(["TOPIC #c :%s" % t, "PING %s" % t, "PRIVMSG a :%s" % t, "PRIVMSG b :%s" % t,
                                        "PRIVMSG #c :%s" % t, "MODE #c +k %s" % t, "WHOIS %s" % t, "JOIN #%s" % t,
                                        "KICK #c %s" % t, "NOTICE a :%s" % t, "TOPIC #c :%s" % t, "PING %s" % t,
                                        "INVITE %s #c" % t, "NOTICE b :%s" % t])))
        sc.append(("order-%d-%d" % (seed, i), cfg, setup, {1: cmds}))
    return sc


def run_order(tier, seed, log):
    n = 12 if tier == "quick" else 200
    sc = gen_order_scenarios(seed, n)
    path = runner.WORK + "/order-%d.ops" % seed
    with open(path, "w") as f:
        for name, cfg, setup, burst in sc:
            f.write("seq %s\n" % name)
            for l in cfg:
                f.write(l + "\n")
            f.write("begin\nsetup\n")
            for o in setup:
                f.write(o + "\n")
            f.write("burst\n")
            for c in sorted(burst):
                for o in burst[c]:
                    f.write(o + "\n")
            f.write("endburst\nend\n")
    viol = []
    n_lines = 0
    # the model's prediction: the commands one at a time; per operation the acting connection's direct replies, then what
    # was queued for it (exactly what Irc/Deliver.lean's `drun … true` gives when nobody else is sending)
    from . import canon
    mpath = runner.WORK + "/order-model-%d.ops" % seed
    with open(mpath, "w") as f:
        for name, cfg, setup, burst in sc:
            f.write("seq %s\n" % name)
            for l in cfg:
                f.write(l + "\n")
            f.write("begin\n")
            for o in setup + burst[1]:
                f.write(o + "\n")
            f.write("end\n")
    rm = runner.sh([runner.MODEL, "run", mpath], timeout=600)
    if rm.returncode != 0:
        raise runner.BuildError("model run failed: " + rm.stderr[-800:])
    expected = {}
    for (name, cfg, setup, burst), ms in zip(sc, canon.parse_transcript(rm.stdout)):
        exp = {1: [], 2: []}
        for op in ms.ops[len(setup) + 1:]:
            for c in (1, 2):
                exp[c] += [canon.canon_line(l) for l in op.outs.get(c, [])]
        expected[name] = exp
    n_exact = 0
    n_skipped = 0
    for workers in ([1, 4] if tier == "quick" else [1, 2, 4, 8]):
        ri = runner.sh([runner.HARNESS, "conc", path], timeout=3000, env={"VERIF_WORKERS": str(workers)})
        if ri.returncode != 0:
            raise runner.BuildError("conc mode failed: " + ri.stderr[-800:])
        impl = parse_conc_impl(ri.stdout)
        for name, cfg, setup, burst in sc:
            im = impl.get(name)
            if im is None:
                continue
            if im["events"] or any("<<timeout>>" in l for ls in im["outs"].values() for l in ls):
                # the harness itself was starved (loaded machine): the run says nothing; liveness is judged by the burst engine
                n_skipped += 1
                continue
            for c in (1, 2):
                got = [canon.canon_line(l) for l in im["outs"].get(c, [])]
                n_exact += 1
                if got != expected[name][c] and not viol:
                    k = next((i for i, (x, y) in enumerate(zip(got, expected[name][c])) if x != y), min(len(got), len(expected[name][c])))
                    viol.append(("conc:pipeline-transcript", {
                        "what": "the lines a connection receives for pipelined commands differ (content or ORDER) from the model's "
                                "sequential prediction (socket of connection %d)" % c,
                        "cfg": cfg, "setup": runner.render_ops(setup), "burst": {"1": runner.render_ops(burst[1])},
                        "first_difference_at_line": k, "impl": got[max(0, k - 2):k + 3], "model": expected[name][c][max(0, k - 2):k + 3],
                        "workers": workers, "scenario": name}))
                seq = []
                for l in im["outs"].get(c, []):
                    m = re.search(r"tok(\d\d)x", l)
                    if m:
                        seq.append((int(m.group(1)), l))
                n_lines += len(seq)
                for (i1, l1), (i2, l2) in zip(seq, seq[1:]):
                    if i2 < i1:
                        if not viol:
                            viol.append(("conc:result-order", {
                                "what": "results of one connection's pipelined commands did not arrive in the order of the commands "
                                        "(socket of connection %d)" % c,
                                "cfg": cfg, "setup": runner.render_ops(setup), "burst": {"1": runner.render_ops(burst[1])},
                                "out_of_order": [l1[:120], l2[:120]],
                                "observed": [l[:100] for _, l in seq][:40], "workers": workers, "scenario": name}))
                        break
    cov = {"order_scenarios": len(sc), "order_lines_checked": n_lines, "order_transcripts_equal_to_model_in_order": n_exact, "order_runs_skipped_harness_starved": n_skipped,
           "order_rule": "real run_server; one connection pipelines 6-16 commands carrying sequence tokens (TOPIC, PING, PRIVMSG to itself / a peer "
                         "/ the channel, MODE, WHOIS, JOIN, KICK, INVITE, NOTICE); on its own socket and on the peer's socket the tokens must "
                         "appear in command order"}
    return {"coverage": cov, "violations": viol}


# --------------------------------------------------------------------------- directed scenarios

def L(c, s):
    return "line %d %s" % (c, esc(s))


def reg(c, nick):
    return ["connect %d 127.0.0.1" % c, L(c, "NICK " + nick), L(c, "USER u%s 0 * :r" % nick)]


DIRECTED = {
    # property -> list of (signature, cfg, ops, predicate(impl_seq) -> bool "defect present")
    "C07": [
        ("join-duplicate-quota", ["cfg name irc.test", "cfg max_joins 2"],
         reg(1, "alice") + [L(1, "JOIN #a,#a,#b")],
         lambda s: any(re.match(r"^:\S+ 405 \S+ #b ", l) for l in s.ops[-1].outs.get(1, []))),
    ],
    "C13": [
        ("relay-cr", ["cfg name irc.test"],
         reg(1, "alice") + reg(2, "bob") + [L(1, "JOIN #a"), L(2, "JOIN #a"), L(1, "TOPIC #a :x\ry")],
         lambda s: any(re.match(r"^:\S+ TOPIC #a x\ry$", l) for l in s.ops[-1].outs.get(2, []))),
    ],
}


def run_directed(pid, log):
    from . import canon
    res = []
    for sig, cfg, ops, pred in DIRECTED.get(pid, []):
        path = runner.WORK + "/directed-%s-%s.ops" % (pid, sig)
        runner.write_seq_file(path, [(sig, cfg, ops)])
        r = runner.sh([runner.HARNESS, "run", path], timeout=300)
        seqs = canon.parse_transcript(r.stdout)
        if seqs and pred(seqs[0]):
            res.append((sig, {"what": "directed scenario shows the defect", "cfg": cfg, "ops": ops,
                              "ops_readable": runner.render_ops(ops)}))
    return res


# --------------------------------------------------------------------------- C18 concurrency

def interleavings(blocks, cap, r):
    """all merges of the per-connection command lists that keep each list's order (capped)"""
    import itertools
    total = 1
    import math
    n = sum(len(b) for b in blocks)
    total = math.factorial(n)
    for b in blocks:
        total //= math.factorial(len(b))
    res = []
    if total <= cap:
        def rec(idx, acc):
            if all(i == len(b) for i, b in zip(idx, blocks)):
                res.append(list(acc))
                return
            for k, b in enumerate(blocks):
                if idx[k] < len(b):
                    idx[k] += 1
                    acc.append(b[idx[k] - 1])
                    rec(idx, acc)
                    acc.pop()
                    idx[k] -= 1
        rec([0] * len(blocks), [])
        return res, True
    seen = set()
    # whole-block orders first, then random merges
    for perm in itertools.permutations(range(len(blocks))):
        seq = [x for k in perm for x in blocks[k]]
        seen.add(tuple(seq))
    while len(seen) < cap:
        idx = [0] * len(blocks)
        seq = []
        while any(i < len(b) for i, b in zip(idx, blocks)):
            k = r.choice([k for k, b in enumerate(blocks) if idx[k] < len(b)])
            seq.append(blocks[k][idx[k]])
            idx[k] += 1
        seen.add(tuple(seq))
    return [list(x) for x in seen], False


def gen_conc_scenarios(seed, n, kinds=None, focus=None):
    r = random.Random(seed * 101 + 3)
    sc = []
    for i in range(n):
        kind = r.choice(kinds or ["nickrace", "joinrace", "limitrace", "killrace", "mixed", "mixed", "mixed"])
        cfg = ["cfg name irc.test"]
        setup, burst = [], {}
        if kind == "nickrace":
            k = r.choice([2, 3])
            pw = r.random() < 0.6
            if pw:
                cfg.append("cfg password srvpw")
            for c in range(1, k + 1):
                setup += ["connect %d 127.0.0.1" % c] + ([L(c, "PASS srvpw")] if pw else []) + [L(c, "USER u%d 0 * :r" % c)]
            setup += ["connect 9 127.0.0.1"] + ([L(9, "PASS srvpw")] if pw else []) + [L(9, "NICK zed"), L(9, "USER uzed 0 * :r")]
            for c in range(1, k + 1):
                burst[c] = [L(c, "NICK " + r.choice(["same", "same", "other"]))]
                if r.random() < 0.5:
                    burst[c].append(L(c, "JOIN #r"))
            burst[9] = [L(9, "NICK " + r.choice(["same", "zed2"]))] if r.random() < 0.5 else [L(9, "LUSERS")]
        elif kind == "flood":
            # one sender pipelines many messages: the receiver's queue builds a backlog
            setup += reg(1, "src") + reg(2, "dst") + reg(3, "oth")
            n = r.choice([40, 60, 90])
            chans = ["#f%d" % i for i in range(20)]
            setup += [L(2, "JOIN " + ",".join(chans[:10])), L(2, "JOIN " + ",".join(chans[10:]))]
            burst[1] = [L(1, "PRIVMSG dst :m%03d" % j) for j in range(n)]
            if r.random() < 0.5:
                burst[1].append(L(1, "PRIVMSG " + ",".join(chans) + " :multi"))
            burst[3] = [L(3, "PRIVMSG dst :from other")]
        elif kind == "killrace":
            # an operator kills X while another connection claims the nick X: whoever ends up owning X
            # must still be registered after the killed session has been torn down
            cfg.append("cfg oper oper operpw -")
            pw = r.random() < 0.3
            if pw:
                cfg.append("cfg password srvpw")
            P_ = lambda c: ([L(c, "PASS srvpw")] if pw else [])
            setup += ["connect 1 127.0.0.1"] + P_(1) + [L(1, "NICK op"), L(1, "USER uop 0 * :r"), L(1, "OPER oper operpw")]
            setup += ["connect 2 127.0.0.1"] + P_(2) + [L(2, "NICK vic"), L(2, "USER uvic 0 * :r")]
            if r.random() < 0.5:
                setup += [L(2, "JOIN #k"), L(1, "JOIN #k")]
            setup += ["connect 3 127.0.0.1"] + P_(3) + [L(3, "USER u3 0 * :r")]
            burst[1] = [L(1, "KILL vic :bye")]
            burst[3] = [L(3, "NICK vic")] + ([L(3, "JOIN #k")] if r.random() < 0.5 else [])
            if r.random() < 0.4:
                setup += reg(4, "nn4")
                burst[4] = [L(4, "NICK vic")]
        elif kind == "killstall":
            # the victim has stopped reading: it asked for far more output than its socket takes, so its task is
            # stuck writing and the KILL is not acted upon until the harness reads again (after the burst).
            # Meanwhile another connection claims the victim's nick.
            cfg.append("cfg oper oper operpw -")
            setup += ["connect 1 127.0.0.1", L(1, "NICK op"), L(1, "USER uop 0 * :r"), L(1, "OPER oper operpw")]
            setup += reg(4, "fl")
            names = ["#c%02d%s" % (x, "y" * 100) for x in range(40)]
            for j in range(0, 40, 10):
                setup.append(L(4, "JOIN " + ",".join(names[j:j + 10])))
            setup += [L(4, "TOPIC %s :%s" % (nm, "t" * 350)) for nm in names]   # long LIST rows: ~20 KB per LIST
            setup += ["connect-small 2 127.0.0.1", L(2, "NICK vic"), L(2, "USER uvic 0 * :r"), "mute 2"]
            setup += ["connect 3 127.0.0.1", L(3, "USER u3 0 * :r")]
            setup += ["send 2 LIST"] * r.choice([300, 360]) + ["sleep 400"]
            burst[1] = [L(1, "KILL vic :bye")]
            burst[3] = [L(3, "NICK vic"), L(3, "NICK vic")] + ([L(3, "JOIN #k")] if r.random() < 0.5 else [])
        elif kind == "gated":
            # lock-queue schedules: while the harness holds the state write lock (hook verif_hold_state) the
            # connections send one command each, in a chosen order; their handlers queue on the (FIFO) lock in
            # that order and run when the harness lets go.  A handler that is one lock section behaves as in
            # the sequential order; a handler that checks under one acquisition and updates under another lets
            # the next one slip in between - deterministically.
            k = 3
            for c in range(1, k + 1):
                setup += reg(c, "n%d" % c)
            setup += [L(1, "JOIN #c"), L(2, "JOIN #c")] + ([L(3, "JOIN #c")] if r.random() < 0.5 else [])
            setup += r.choice([[], [L(1, "MODE #c +o n2")], [L(1, "MODE #c +v n2")], [L(1, "MODE #c +l 3")],
                               [L(1, "MODE #c +i"), L(1, "INVITE n3 #c")], [L(1, "MODE #c +k key")]])
            menus = {
                1: ["MODE #c +t", "MODE #c +m", "MODE #c +n", "KICK #c n2", "KICK #c n3", "MODE #c -o n2", "MODE #c +b n3!*@*",
                    "MODE #c +i", "MODE #c +l 2", "MODE #c +k sesame", "PART #c", "TOPIC #c :by founder", "MODE #c +s",
                    "NICK own1", "MODE #c -v n2", "MODE #c +o n2", "INVITE n3 #c"],
                2: ["TOPIC #c :t2", "PRIVMSG #c :m2", "NICK x2", "PART #c", "MODE #c +t", "KICK #c n3", "INVITE n3 #c",
                    "NAMES #c", "WHO #c", "MODE #c +v n3", "AWAY :gone", "PRIVMSG n3 :p2", "JOIN #c"],
                3: ["JOIN #c", "JOIN #c key", "PRIVMSG #c :m3", "TOPIC #c :t3", "NICK x3", "WHOIS n2", "NAMES #c", "LIST",
                    "PRIVMSG n2 :p3", "PART #c", "JOIN #d"],
            }
            for c in range(1, k + 1):
                burst[c] = [L(c, r.choice(menus[c]))]
            order = list(range(1, k + 1))
            r.shuffle(order)
            if r.random() < (0.95 if focus else 0.6):
                # a command that checks something, queued BEFORE a command of another connection that invalidates
                # exactly that check (the pair a non-atomic handler gets wrong)
                pairs = [((2, "TOPIC #c :t2"), (1, "MODE #c +t")), ((2, "TOPIC #c :t2"), (1, "KICK #c n2")),
                         ((3, "JOIN #c"), (1, "MODE #c +i")), ((3, "JOIN #c"), (1, "MODE #c +k sesame")),
                         ((3, "JOIN #c"), (1, "MODE #c +l 2")), ((3, "JOIN #c"), (1, "MODE #c +b n3!*@*")),
                         ((2, "PRIVMSG #c :m2"), (1, "MODE #c +m")), ((2, "PRIVMSG #c :m2"), (1, "KICK #c n2")),
                         ((2, "PRIVMSG #c :m2"), (1, "MODE #c +b n2!*@*")), ((3, "PRIVMSG #c :m3"), (1, "MODE #c +n")),
                         ((2, "INVITE n3 #c"), (1, "KICK #c n2")), ((2, "INVITE n3 #c"), (1, "MODE #c -o n2")),
                         ((2, "KICK #c n3"), (1, "MODE #c -o n2")), ((2, "MODE #c +v n3"), (1, "MODE #c -o n2")),
                         ((2, "MODE #c +m"), (1, "MODE #c -o n2")), ((2, "PART #c"), (1, "KICK #c n2")),
                         ((2, "NICK x9"), (3, "NICK x9")), ((3, "NICK n9"), (1, "KICK #c n3")),
                         ((2, "NICK x2"), (1, "MODE #c +o n2")), ((2, "NICK x2"), (1, "KICK #c n2")),
                         ((3, "JOIN #c"), (2, "JOIN #c")), ((2, "TOPIC #c :t2"), (1, "MODE #c -o n2")),
                         ((2, "NAMES #c"), (1, "MODE #c +s")), ((3, "WHOIS n2"), (2, "MODE n2 +i")),
                         ((3, "PRIVMSG n2 :p3"), (2, "NICK x2")), ((3, "PRIVMSG n2 :p3"), (2, "AWAY :gone")),
                         ((1, "KICK #c n2"), (2, "PART #c")), ((1, "KICK #c n2"), (2, "NICK x2")),
                         ((2, "KICK #c n3"), (1, "MODE #c +a n3")), ((1, "KICK #c n2"), (2, "QUIT :bye")),
                         ((2, "NICK x9"), (1, "NICK x9")), ((1, "NICK x9"), (3, "NICK x9")),
                         ((2, "PART #c"), (1, "PART #c")), ((1, "MODE #c +o n2"), (2, "PART #c")),
                         ((1, "MODE #c +v n2"), (2, "NICK x2")), ((1, "INVITE n3 #c"), (3, "JOIN #c")),
                         ((3, "JOIN #c,#d"), (1, "MODE #c +l 2")), ((2, "JOIN #d"), (3, "JOIN #d")),
                         ((1, "MODE #c +k sesame"), (1, "MODE #c -k sesame")), ((2, "AWAY :gone"), (3, "PRIVMSG n2 :p3")),
                         ((1, "OPER oper operpw"), (1, "KILL n2 :x")), ((2, "MODE n2 +i"), (3, "WHO n2"))]
                pairs = [p for p in pairs if p[0][0] != p[1][0]]
                if focus:
                    fp = [p for p in pairs if p[0][1].split(" ")[0] in focus or p[1][1].split(" ")[0] in focus]
                    pairs = fp or pairs
                (ca, ta), (cb, tb) = r.choice(pairs)
                burst[ca], burst[cb] = [L(ca, ta)], [L(cb, tb)]
                rest = [c for c in order if c not in (ca, cb)]
                order = [ca, cb] + rest if r.random() < 0.8 else [cb, ca] + rest
            setup.append("gorder " + " ".join(str(x) for x in order))
        elif kind == "joinrace":
            k = r.choice([2, 3])
            for c in range(1, k + 1):
                setup += reg(c, "n%d" % c)
            for c in range(1, k + 1):
                burst[c] = [L(c, "JOIN #new")]
                if r.random() < 0.5:
                    burst[c].append(L(c, "PRIVMSG #new :hi from %d" % c))
        elif kind == "limitrace":
            setup += reg(1, "own") + [L(1, "JOIN #l"), L(1, "MODE #l +l 2")]
            k = r.choice([2, 3])
            for c in range(2, k + 2):
                setup += reg(c, "n%d" % c)
                burst[c] = [L(c, "JOIN #l")]
            if r.random() < 0.4:
                burst[1] = [L(1, "MODE #l +l 3")]
        else:
            k = r.choice([2, 3])
            for c in range(1, k + 1):
                setup += reg(c, "n%d" % c)
            setup += [L(1, "JOIN #c")] + ([L(2, "JOIN #c")] if r.random() < 0.7 else [])
            menu = ["PRIVMSG #c :m%d", "NICK x%d", "JOIN #c", "PART #c", "TOPIC #c :t%d", "TOPIC #c :t%d", "MODE #c +m", "MODE #c -m",
                    "MODE #c +t", "MODE #c -t", "MODE #c -o n1", "MODE #c +o n2",
                    "KICK #c n2", "AWAY :a%d", "INVITE n3 #c", "MODE #c +v n2", "PRIVMSG n1 :p%d", "QUIT", "NAMES #c",
                    "MODE #c +l 2", "JOIN #d", "WHO #c"]
            for c in range(1, k + 1):
                m = r.choice([1, 2, 2, 3])
                cmds = []
                for j in range(m):
                    t = r.choice(menu)
                    cmds.append(L(c, t % (10 * c + j) if "%d" in t else t))
                    if t == "QUIT":
                        break
                burst[c] = cmds
        sc.append(("conc-%d-%d-%s" % (seed, i, kind), cfg, setup, burst))
    return sc


_LUSERS = {"251", "252", "253", "254", "255", "265", "266"}


def conc_canon_lines(lines):
    from . import canon
    out = []
    for l in lines:
        l = canon.canon_line(l)
        m = re.match(r"^:\S+ (\d\d\d) (\S+) ?(.*)$", l)
        if m and m.group(1) in _LUSERS:
            continue  # the welcome burst reads the counters under its own later lock
        if m and m.group(1) in ("433", "451"):
            # known corner (DESIGN.md C18): a nick taken between the unregistered NICK's check and its
            # insertion is refused by `authenticate` with the new nick already recorded locally, so
            # the CLIENT token of this connection's 433/451 replies differs from every sequential run
            l = ":srv %s <client> %s" % (m.group(1), m.group(3))
        out.append(l)
    out = canon.merge_353(out)
    return sorted(out)


def conc_state(stlines):
    return sorted(l for l in stlines if not l.startswith("st conn "))


def parse_conc_impl(text):
    res = collections.OrderedDict()
    cur = None
    mode = None
    for line in text.split("\n"):
        if line.startswith("seq "):
            cur = {"setup": [], "final": [], "outs": {}, "events": []}
            res[line[4:]] = cur
        elif line == "setupstate":
            mode = "setup"
        elif line == "finalstate":
            mode = "final"
        elif line.startswith("st ") and cur is not None:
            cur[mode].append(line)
        elif line.startswith("burstout "):
            _, c, l = line.split(" ", 2)
            cur["outs"].setdefault(int(c), []).append(unesc(l))
        elif line.startswith("ev "):
            cur["events"].append(line)
    return res


def run_conc(tier, seed, log, kinds=None, n_override=None, focus=None):
    from . import canon
    os.makedirs(runner.WORK, exist_ok=True)
    r = random.Random(seed)
    n = n_override or (24 if tier == "quick" else 400)
    scenarios = gen_conc_scenarios(seed, n, kinds, focus)
    violations = []
    n_inter = 0
    n_exh = 0
    seen = set()
    worker_sets = [1, 4] if tier == "quick" else [1, 2, 4, 8]
    runs = 0
    samples = []
    retried = []
    for workers in worker_sets:
        def impl_run(scens, tag=""):
            path = runner.WORK + "/conc-%d-w%d%s.ops" % (seed, workers, tag)
            with open(path, "w") as f:
                for name, cfg, setup, burst in scens:
                    f.write("seq %s\n" % name)
                    for l in cfg:
                        f.write(l + "\n")
                    f.write("begin\nsetup\n")
                    for o in setup:
                        f.write(o + "\n")
                    f.write("burst\n")
                    for c in sorted(burst):
                        for o in burst[c]:
                            f.write(o + "\n")
                    f.write("endburst\nend\n")
            ri = runner.sh([runner.HARNESS, "conc", path], timeout=3000, env={"VERIF_WORKERS": str(workers)})
            if ri.returncode != 0:
                raise runner.BuildError("conc mode failed: " + ri.stderr[-800:])
            return parse_conc_impl(ri.stdout)
        impl = impl_run(scenarios)
        # model: every interleaving of every scenario, one orchestrated sequence each
        mpath = runner.WORK + "/conc-model-%d.ops" % seed
        index = []
        with open(mpath, "w") as f:
            for name, cfg, setup, burst in scenarios:
                blocks = [burst[c] for c in sorted(burst)]
                ils, exhaustive = interleavings(blocks, 1500 if tier == "quick" else 6000, r)
                if workers == worker_sets[0]:
                    n_inter += len(ils)
                    n_exh += 1 if exhaustive else 0
                for k, il in enumerate(ils):
                    f.write("seq %s#%d\n" % (name, k))
                    for l in cfg:
                        f.write(l + "\n")
                    f.write("begin\n")
                    for o in setup + il:
                        if o.startswith(("mute ", "sleep ", "gorder ")):
                            continue  # harness-only: which sockets are not read before the burst ends
                        if o.startswith("send "):
                            o = "line " + o[5:]
                        f.write(o.replace("connect-small ", "connect ") + "\n")
                    f.write("end\n")
                    index.append((name, k, len([o for o in setup if not o.startswith(("mute ", "sleep ", "gorder "))]), il))
        rm = runner.sh([runner.MODEL, "run", mpath], timeout=3000)
        if rm.returncode != 0:
            raise runner.BuildError("model run failed: " + rm.stderr[-800:])
        mseqs = canon.parse_transcript(rm.stdout)
        by_name = collections.defaultdict(list)
        for (name, k, nsetup, il), ms in zip(index, mseqs):
            outs = collections.defaultdict(list)
            for op in ms.ops[nsetup + 1:]:
                for c, ls in op.outs.items():
                    outs[c] += ls
            final = conc_state(ms.ops[-1].st) if ms.ops else []
            by_name[name].append((il, {c: conc_canon_lines(v) for c, v in outs.items() if v}, final))
        def judge(name, cfg, setup, burst, im):
            """None if the observed run is explained by some interleaving, else (signature, detail)"""
            if any("timeout" in l for ls in im["outs"].values() for l in ls) or im["events"]:
                return ("conc:server-stalled",
                        {"what": "a live connection was not answered after the burst", "cfg": cfg,
                         "setup": runner.render_ops(setup), "events": im["events"],
                         "burst": {str(c): runner.render_ops(v) for c, v in burst.items()},
                         "impl_out": {str(c): v[-5:] for c, v in im["outs"].items()}, "workers": workers})
            iouts = {c: conc_canon_lines(v) for c, v in im["outs"].items() if v}
            ifinal = conc_state(im["final"])
            # a connection that ends during the burst loses whatever was still queued for it
            ending = {c for c, v in iouts.items() if any(" ERROR" in l for l in v)}
            ending |= {c for c, cmds in burst.items() if any(unesc(o.split(" ", 2)[2]).upper().startswith("QUIT") for o in cmds)}

            muted = {int(o.split(" ")[1]) for o in setup if o.startswith("mute ")}

            def explains(o):
                for c in set(o) | set(iouts):
                    if c in muted:
                        continue  # not read before the burst ended: its transcript mixes both phases
                    a, b = iouts.get(c, []), o.get(c, [])
                    if c in ending or any(" ERROR" in l for l in b):
                        cb = collections.Counter(b)
                        ca = collections.Counter(a)
                        if any(ca[k] > cb[k] for k in ca):
                            return False
                    elif a != b:
                        return False
                return True
            if any(explains(o) and fs == ifinal for (_, o, fs) in by_name[name]):
                return None
            state_ok = any(fs == ifinal for (_, o, fs) in by_name[name])
            best = min(by_name[name], key=lambda t: sum(
                sum((collections.Counter(iouts.get(c, [])) - collections.Counter(t[1].get(c, []))).values()) +
                sum((collections.Counter(t[1].get(c, [])) - collections.Counter(iouts.get(c, []))).values())
                for c in set(iouts) | set(t[1])))
            delta = {}
            for c in (set(iouts) | set(best[1])) - muted:
                a, b = collections.Counter(iouts.get(c, [])), collections.Counter(best[1].get(c, []))
                if a != b:
                    delta[str(c)] = {"only_impl": list((a - b).elements())[:6], "only_model": list((b - a).elements())[:6]}
            return ("conc:not-linearizable", {
                "what": "no order of the concurrently issued commands (respecting each connection's own order) explains the observed replies and final state",
                "cfg": cfg, "setup": runner.render_ops(setup),
                "burst": {str(c): runner.render_ops(v) for c, v in burst.items()},
                "impl_out": {str(c): v for c, v in iouts.items() if c not in muted}, "impl_final_state": ifinal,
                "closest_model_out": {str(c): v for c, v in best[1].items() if c not in muted}, "difference_to_closest": delta,
                "final_state_explained": state_ok, "interleavings_tried": len(by_name[name]), "workers": workers})

        for name, cfg, setup, burst in scenarios:
            runs += 1
            im = impl.get(name)
            if im is None:
                continue
            bad = judge(name, cfg, setup, burst, im)
            if bad is not None:
                # scheduling on a loaded machine can starve the harness itself: a failure counts
                # only if the same scenario fails again when re-run on its own (up to 4 re-runs)
                again = 0
                for k in range(4):
                    im2 = impl_run([(name, cfg, setup, burst)], tag="-re").get(name)
                    if im2 is not None and judge(name, cfg, setup, burst, im2) is not None:
                        again += 1
                        break
                retried.append({"scenario": name, "signature": bad[0], "reproduced": bool(again),
                                "detail": bad[1].get("difference_to_closest") or bad[1].get("impl_out")})
                if again and bad[0] not in seen:
                    seen.add(bad[0])
                    bad[1]["reproduced_on_rerun"] = True
                    violations.append(bad)
            if len(samples) < 1:
                samples.append({"scenario": name, "setup": runner.render_ops(setup)[:8],
                                "burst": {str(c): runner.render_ops(v) for c, v in burst.items()}})
    cov = {"evaluations": runs, "conc_scenarios": len(scenarios), "interleavings_modelled": n_inter,
           "scenarios_exhaustively_interleaved": n_exh, "worker_thread_settings": worker_sets,
           "distinct_nontrivial": len({(tuple(sorted((c, tuple(v)) for c, v in b.items()))) for _, _, _, b in scenarios}),
           "first_run_failures_rechecked": retried,
           "rule": "real run_server on a multi-thread runtime; a case is one burst of simultaneously issued commands; it passes if SOME interleaving of the burst (all of them enumerated when <= cap) run sequentially on the Lean model yields the observed per-connection reply multisets and final shared state"}
    return {"coverage": cov, "samples": samples, "violations": violations}


# --------------------------------------------------------------------------- the real binary (C20, C11)

def _free_port():
    import socket
    s = socket.socket()
    s.bind(("127.0.0.1", 0))
    p = s.getsockname()[1]
    s.close()
    return p


BASE_TOML = """name = "{name}"
admin_info = "adm"
info = "inf"
listen = "127.0.0.1"
port = {port}
network = "BinNet"
{password}
max_joins = 2
ping_timeout = 100
pong_timeout = 30
motd = "binary motd"
dns_lookup = false
log_level = "ERROR"
[default_user_modes]
invisible = false
oper = false
local_oper = false
registered = false
wallops = true
[[operators]]
name = "root"
password = "{operhash}"
{extra}
"""


def run_binary(tier, seed, log, want_die=True):
    """build /repo's own binary (no hooks) and run it: start-up validation, -g, welcome burst, DIE"""
    import socket, subprocess, time, tempfile
    res = {"coverage": {}, "samples": [], "violations": []}
    tdir = runner.WORK + "/bin-target"
    r = runner.sh(["cargo", "build", "--offline", "--target-dir", tdir], cwd=runner.REPO, timeout=1800)
    if r.returncode != 0:
        raise runner.BuildError("cargo build of /repo failed: " + r.stderr[-2000:])
    exe = tdir + "/debug/simple-irc-server"
    checks = 0

    def viol(sig, what, **kw):
        kw["what"] = what
        res["violations"].append(("binary:" + sig, kw))

    # -g prints a hash
    g = subprocess.run([exe, "-g", "-P", "binpw"], capture_output=True, text=True, timeout=60)
    m = re.search(r"Password Hash: (\S+)", g.stdout)
    checks += 1
    if not m:
        viol("gen-hash", "'-g -P pw' did not print a hash", stdout=g.stdout[-300:], stderr=g.stderr[-300:])
        return res
    srvhash = m.group(1)
    operhash = re.search(r"Password Hash: (\S+)", subprocess.run([exe, "-g", "-P", "rootpw"], capture_output=True,
                                                                  text=True, timeout=60).stdout).group(1)

    def write_cfg(**kw):
        d = dict(name="bin.test", port=_free_port(), password='password = "%s"' % srvhash, operhash=operhash, extra="")
        d.update(kw)
        f = tempfile.NamedTemporaryFile("w", suffix=".toml", dir=runner.WORK, delete=False)
        f.write(BASE_TOML.format(**d))
        f.close()
        return f.name, d["port"]

    # invalid configurations must exit with an error instead of serving
    bad = [("name-without-dot", dict(name="nodot"), []),
           ("bad-password-hash", dict(password='password = "tooshort"'), []),
           ("bad-operator-hash", dict(operhash="xx"), []),
           ("bad-channel-name", dict(extra='[[channels]]\nname = "nochan"\n[channels.modes]\ninvite_only = false\nmoderated = false\nsecret = false\nprotected_topic = false\nno_external_messages = false'), []),
           ("bad-user-name", dict(extra='[[users]]\nname = "a.b"\nnick = "ab"'), []),
           ("cli-name-without-dot", dict(), ["-n", "clinodot"]),
           ("tls-cert-without-key", dict(), ["-C", "cert.pem"])]
    for sig, kw, args in bad:
        path, port = write_cfg(**kw)
        checks += 1
        try:
            pr = subprocess.run([exe, "-c", path] + args, capture_output=True, text=True, timeout=20)
            if pr.returncode == 0:
                viol("invalid-config-accepted:" + sig, "the server exited 0 on an invalid configuration", config=open(path).read())
        except subprocess.TimeoutExpired:
            viol("invalid-config-served:" + sig, "the server kept running on an invalid configuration (%s)" % sig,
                 config=open(path).read(), args=args)
        os.remove(path)

    # a valid configuration serves; the -g hash accepts exactly its password; documented settings govern
    path, port = write_cfg()
    srv = subprocess.Popen([exe, "-c", path, "-N", "CliNet"], stdout=subprocess.PIPE, stderr=subprocess.PIPE)
    try:
        def connect():
            for _ in range(100):
                try:
                    return socket.create_connection(("127.0.0.1", port), timeout=5)
                except OSError:
                    time.sleep(0.05)
            return None

        def talk(lines, until, timeout=40):
            c = connect()
            if c is None:
                return None, ""
            c.sendall(("\r\n".join(lines) + "\r\n").encode())
            buf = b""
            c.settimeout(timeout)
            try:
                while until.encode() not in buf:
                    d = c.recv(65536)
                    if not d:
                        break
                    buf += d
            except OSError:
                pass
            return c, buf.decode("utf-8", "replace")
        checks += 1
        c1, out = talk(["PASS binpw", "NICK alpha", "USER a 0 * :A"], " 221 ")
        if c1 is None:
            viol("valid-config-not-served", "the server does not accept connections with a valid configuration", config=open(path).read())
            return res
        if " 001 alpha :Welcome to the CliNet Network" not in out:
            viol("welcome-network", "001 does not carry the network name given with -N (CLI overrides file)", got=out[:400])
        if "Your host is bin.test" not in out or " 372 alpha :binary motd" not in out:
            viol("welcome-name-motd", "welcome burst does not carry the configured name / MOTD", got=out[:800])
        if "MAXCHANNELS=2" not in out or " 221 alpha +w" not in out:
            viol("welcome-maxjoins-modes", "ISUPPORT / 221 do not reflect max_joins / default_user_modes", got=out[-600:])
        checks += 1
        c2, out2 = talk(["PASS wrongpw", "NICK beta", "USER b 0 * :B"], " 464 ", timeout=40)
        if " 464 " not in out2 or " 001 " in out2:
            viol("wrong-password-accepted", "a password other than the one the -g hash was generated from was not refused", got=out2[:400])
        # max_joins governs
        checks += 1
        c1.sendall(b"JOIN #a\r\nJOIN #b\r\nJOIN #c\r\nPING done\r\n")
        buf = b""
        c1.settimeout(40)
        try:
            while b"PONG" not in buf:
                buf += c1.recv(65536)
        except OSError:
            pass
        if b" 405 alpha #c " not in buf:
            viol("max-joins", "the third JOIN was not refused with 405 under max_joins = 2", got=buf.decode("utf-8", "replace")[-400:])
        if want_die:
            # OPER + DIE stop the server process
            checks += 1
            c1.sendall(b"OPER root rootpw\r\nDIE :bye\r\n")
            try:
                srv.wait(timeout=40)
            except subprocess.TimeoutExpired:
                viol("die-does-not-stop", "the server process keeps running after DIE from an operator")
        for c in (c1, c2):
            try:
                c and c.close()
            except OSError:
                pass
    finally:
        if srv.poll() is None:
            srv.kill()
        try:
            os.remove(path)
        except OSError:
            pass
    res["coverage"] = {"binary_checks": checks}
    return res


def run_extractor(script, sig, what):
    r = runner.sh(["python3", runner.V + "/tools/" + script], timeout=120)
    try:
        info = json.loads(r.stdout.strip().split("\n")[-1])
    except Exception:
        info = {"differences": ["extractor failed: " + (r.stdout + r.stderr)[-400:]]}
    viol = []
    if info.get("differences"):
        viol.append((sig, {"what": what, "broken": "source-structure extractor tools/%s vs /verif/tables" % script,
                           "differences": info["differences"][:20], "suffix": "no-failing-input-found"}))
    return info, viol


def run(pid, tier, seed, log):
    out = {"coverage": {}, "samples": [], "violations": []}
    if pid == "C17":
        out = run_timer(tier, seed, log)
        o2 = run_live(tier, seed, log)
        out["coverage"].update(o2["coverage"])
        out["violations"] += o2["violations"]
    if pid == "C18":
        out = run_conc(tier, seed, log)
        # lock-queue schedules (hook verif_hold_state): deterministic exposure of handlers that are not one
        # lock section
        o2 = run_conc(tier, seed + 7, log, kinds=["gated"], n_override=(24 if tier == "quick" else 400))
        out["coverage"].update({"gated_" + k: v for k, v in o2["coverage"].items() if k not in ("rule",)})
        out["violations"] += o2["violations"]
        info, viol = run_extractor("lock_map.py", "lock-structure-changed",
                                   "the lock/await structure of a handler (or the gate/dispatch table) differs from the one the atomic sections of Irc/Conc.lean were written from")
        out["coverage"]["lock_map"] = info
        out["violations"] += viol
        o4 = run_order(tier, seed, log)
        out["coverage"].update(o4["coverage"])
        out["violations"] += o4["violations"]
    if pid == "C01":
        # delivery layer under backlog: real server, pipelined floods; every copy must arrive exactly once
        out = run_conc(tier, seed, log, kinds=["flood"], n_override=(4 if tier == "quick" else 40))
        out["coverage"] = {"conc_" + k: v for k, v in out["coverage"].items() if k not in ("rule",)}
    if pid == "C02":
        # registration races: real server, simultaneous claims to one nickname
        out = run_conc(tier, seed, log, kinds=["nickrace", "nickrace", "killrace"])
        out["coverage"] = {"conc_" + k: v for k, v in out["coverage"].items() if k not in ("rule",)}
        # a killed session that is slow to end (its client stopped reading) while its nick is claimed again
        o2 = run_conc(tier, seed, log, kinds=["killstall"], n_override=(1 if tier == "quick" else 6))
        out["coverage"].update({"killstall_" + k: v for k, v in o2["coverage"].items() if k not in ("rule",)})
        out["violations"] += o2["violations"]
        info, viol = run_extractor("lock_map.py", "lock-structure-changed",
                                   "the lock/await structure of a registration handler differs from the one the model assumes (check and insert of a nickname in one write-lock section)")
        reg_handlers = ("authenticate", "process_nick", "process_user", "process_pass", "process_cap", "remove_user")
        if viol:
            d = [x for x in info.get("differences", []) if any(h in x for h in reg_handlers)]
            if d:
                viol[0][1]["differences"] = d
                out["violations"] += viol
    if pid == "C06":
        # session ends on the real server: KILL racing a new claim to the nick, and a killed session whose
        # teardown is delayed (client stopped reading) - teardown must remove exactly the ended session's state
        out = run_conc(tier, seed, log, kinds=["killrace"], n_override=(6 if tier == "quick" else 60))
        out["coverage"] = {"conc_" + k: v for k, v in out["coverage"].items() if k not in ("rule",)}
        o2 = run_conc(tier, seed + 1, log, kinds=["killstall"], n_override=(1 if tier == "quick" else 4))
        out["coverage"].update({"killstall_" + k: v for k, v in o2["coverage"].items() if k not in ("rule",)})
        out["violations"] += o2["violations"]
    if pid == "C20":
        b = run_binary(tier, seed, log)
        out["coverage"].update(b["coverage"])
        out["violations"] += b["violations"]
    if pid == "C11":
        # "DIE ends all sessions and stops the server": observed on the real binary
        b = run_binary(tier, seed, log)
        out["coverage"].update(b["coverage"])
        out["violations"] += [v for v in b["violations"] if v[0].startswith("binary:die")]
    if pid == "C05":
        info, viol = run_extractor("panic_sites.py", "new-panic-site",
                                   "a handler contains an unwrap/expect/panic!/checked-subtraction/slice site that the model does not represent")
        out["coverage"]["panic_sites"] = info
        out["violations"] += viol
    # every property whose theorems speak about a mutating handler as ONE atomic step: the lock structure of the
    # handlers in its footprint is part of the correspondence (model handler = one write-lock section), and a few
    # lock-queue schedules (hook H2) around exactly these commands look for a concrete failing schedule
    if pid in LOCK_FOOTPRINT:
        verbs = LOCK_FOOTPRINT[pid]
        info, viol = run_extractor("lock_map.py", "lock-structure-changed",
                                   "the lock/await structure of a handler in this property's footprint differs from the one-section handler the theorems are about")
        try:
            table = json.load(open(runner.V + "/tables/lock_map.json"))
            hs = {h for v, h in table["dispatch"] if v in verbs} | {"remove_user" if "QUIT" in verbs else "-"}
        except Exception:
            hs = set()
        if viol:
            d = [x for x in info.get("differences", []) if any(("::" + h + ":") in x or x.split(":")[0].endswith(h) or (h + ":") in x for h in hs)]
            if d and not any(v[0] == "lock-structure-changed" for v in out["violations"]):
                viol[0][1]["differences"] = d
                out["violations"] += viol
        out["coverage"]["lock_map_footprint"] = {"handlers": sorted(hs), "differences": info.get("differences", [])[:5]}
        o3 = run_conc(tier, seed + 11, log, kinds=["gated"], n_override=(10 if tier == "quick" else 200), focus=verbs)
        out["coverage"].update({"gatedfp_" + k: v for k, v in o3["coverage"].items() if k not in ("rule",)})
        out["violations"] += o3["violations"]
    # reply formats are regenerated from reply.rs, so a changed format is invisible to the differential run: the
    # machine-readable skeleton of the replies this property speaks about is compared with the recorded one
    if pid in REPLY_PROPS:
        info, viol = run_extractor("reply_skeletons.py", "reply-skeleton-changed",
                                   "the numeric, the middle parameters or the order of the fields of a reply this property relies on changed in src/reply.rs (the wording of the trailing text may change freely)")
        if viol:
            d = [x for x in info.get("differences", [])
                 if (re.match(r"reply \w+?(\d{3}):", x) and re.match(r"reply \w+?(\d{3}):", x).group(1) in REPLY_PROPS[pid])
                 or not x.startswith("reply ")]
            if d:
                viol[0][1]["differences"] = d
                out["violations"] += viol
        out["coverage"]["reply_skeletons"] = {"replies": info.get("replies"), "watched": sorted(REPLY_PROPS[pid]),
                                              "differences": info.get("differences", [])[:5]}
    os.makedirs(runner.WORK, exist_ok=True)
    out["violations"] += run_directed(pid, log)
    return out


REPLY_PROPS = {
    "C02": {"433"}, "C03": {"451", "464", "433"},
    "C04": {"353", "366", "352", "315", "319", "318", "311"},
    "C06": {"314", "369", "312", "406"},
    "C07": {"471", "473", "474", "475", "405", "332", "333", "353", "366"},
    "C08": {"324", "329", "367", "368", "348", "349", "346", "347", "482", "442", "441", "472", "696"},
    "C09": {"332", "333", "331", "341", "443", "482", "442", "441", "403", "322"},
    "C10": {"404", "301", "401", "403"},
    "C11": {"381", "481", "483", "491", "502", "501", "221", "464"},
    "C12": {"322", "321", "323", "353", "366", "352", "315", "319", "311", "318", "401", "403"},
    "C13": {"421", "461", "417", "472", "501", "696", "400"},
    "C15": {"433", "432"}, "C16": {"332", "353", "366"},
    "C19": {"251", "252", "253", "254", "255", "265", "266", "302", "303"},
    "C20": {"001", "002", "003", "004", "005", "375", "372", "376", "221", "405", "464"},
}

LOCK_FOOTPRINT = {
    "C02": {"NICK"},
    "C04": {"JOIN", "PART", "KICK", "NICK", "QUIT"},
    "C07": {"JOIN"},
    "C08": {"MODE"},
    "C09": {"KICK", "TOPIC", "INVITE"},
    "C10": {"PRIVMSG", "NOTICE"},
    "C11": {"OPER", "MODE", "KILL", "WALLOPS"},
    "C15": {"NICK"},
    "C16": {"JOIN", "PART", "KICK", "QUIT"},
    "C19": {"MODE", "OPER", "NICK", "QUIT"},
}
