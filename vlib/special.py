"""special engines: timer (C17), concurrency (C18), configuration (C20)"""

def run(pid, tier, seed, log):
    return {"coverage": {}, "samples": [], "violations": []}
