"""special engines: timer (C17), directed scenarios, configuration (C20), concurrency (C18)"""
import os, random, re, collections, json
from . import runner
from .canon import esc, unesc


# --------------------------------------------------------------------------- C17 timer

def gen_timer_seqs(seed, n):
    r = random.Random(seed * 31 + 7)
    seqs = []
    for i in range(n):
        P = r.choice([1, 1, 2, 2, 3, 4])
        T = r.choice([1, 2, 2, 3, 4, 5])
        pattern = r.choice(["always", "never", "late", "stops", "token", "unsolicited", "pingcmd"])
        ops = ["connect 1 127.0.0.1", "line 1 " + esc("NICK a"), "line 1 " + esc("USER u 0 * :r")]
        t = 0
        horizon = r.choice([6, 9, 12, 16]) * 1000
        k_stop = r.choice([1, 2, 3])
        answered = 0
        if r.random() < 0.3:
            d = r.choice([100, 300, 700])
            ops.append("advance %d" % d)
            t += d
        reg = 0
        while t < horizon:
            # advance to just after the next ping, then maybe answer
            nxt = ((t - reg) // (P * 1000) + 1) * P * 1000 + reg
            delay = r.choice([100, 200, 500, 900]) if pattern != "late" else T * 1000 + r.choice([100, 500])
            if pattern in ("always", "token", "late", "pingcmd") or (pattern == "stops" and answered < k_stop):
                d = nxt + delay - t
                ops.append("advance %d" % d)
                t += d
                tok = r.choice(["x", ":LALAL", "12345", ":some thing"]) if pattern == "token" else ":LALAL"
                ops.append("line 1 " + esc("PONG " + tok))
                answered += 1
                if pattern == "pingcmd" and r.random() < 0.5:
                    ops.append("line 1 " + esc("PING tok%d" % answered))
            elif pattern == "unsolicited":
                d = r.choice([300, 600, 1300])
                ops.append("advance %d" % d)
                t += d
                ops.append("line 1 " + esc("PONG early"))
            else:
                d = r.choice([500, 1000, 2500, 4000])
                ops.append("advance %d" % d)
                t += d
                if r.random() < 0.2:
                    ops.append("line 1 " + esc(r.choice(["LUSERS", "PING keep", "JOIN #a", "PRIVMSG a :hi"])))
        cfg = ["cfg name irc.test", "cfg ping_timeout %d" % P, "cfg pong_timeout %d" % T]
        seqs.append(("timer-%d-%d-P%d-T%d-%s" % (seed, i, P, T, pattern), cfg, ops, (P, T, pattern)))
    return seqs


def parse_timer_impl(text):
    """impl transcript -> {seq: [[(conn, ms, kind)] per op]}"""
    res = collections.OrderedDict()
    cur = None
    op = None
    for line in text.split("\n"):
        if line.startswith("seq "):
            cur = []
            res[line[4:]] = cur
        elif line.startswith("op "):
            op = []
            cur.append(op)
        elif line.startswith("out "):
            _, c, at, l = line.split(" ", 3)
            l = unesc(l)
            ms = int(at[1:])
            if re.match(r"^:\S+ PING :LALAL$", l):
                op.append((int(c), ms, "PING"))
            elif re.match(r"^:\S+ ERROR :Pong timeout", l):
                op.append((int(c), ms, "ERROR"))
            else:
                m = re.match(r"^:\S+ PONG \S+ :(.*)$", l)
                if m:
                    op.append((int(c), ms, "PONG " + m.group(1)))
        elif line.startswith("ev closed "):
            pass
        elif line.startswith("ev panic") or line.startswith("ev readtimeout"):
            op.append((0, 0, "BROKEN " + line))
    return res


def parse_timer_model(text):
    res = collections.OrderedDict()
    cur = None
    op = None
    for line in text.split("\n"):
        if line.startswith("seq "):
            cur = []
            res[line[4:]] = cur
        elif line.startswith("op "):
            op = []
            cur.append(op)
        elif line.startswith("tev "):
            _, c, at, rest = line.split(" ", 3)
            op.append((int(c), int(at[1:]), rest))
    return res


def timer_oracle(ops, P, T, events):
    """independent check of the statement on the implementation trace:
    a client silent from some PING on must get ERROR no later than T (+0.2 s slack) after the
    first PING it failed to answer; a client that answered every PING within min(P,T) is never
    sent ERROR."""
    t = 0
    pong_times = []
    for o in ops:
        w = o.split(" ")
        if w[0] == "advance":
            t += int(w[1])
        elif w[0] == "line" and unesc(w[2]).upper().startswith("PONG"):
            pong_times.append(t)
    end = t
    pings = [ms for (c, ms, k) in events if k == "PING"]
    errs = [ms for (c, ms, k) in events if k == "ERROR"]
    for p in pings:
        answered = any(p <= q < p + T * 1000 for q in pong_times)
        later_pong = any(q >= p for q in pong_times)
        if not later_pong:
            # silent from this ping on
            if end >= p + T * 1000 + 200 and not any(e <= p + T * 1000 + 200 for e in errs):
                return "silent-client-not-dropped"
            break
    if errs:
        e = errs[0]
        # was every ping before e answered in time?
        ok_all = all(any(p <= q < min(p + T * 1000, p + P * 1000) for q in pong_times) for p in pings if p < e)
        if ok_all and pings:
            return "live-client-dropped"
    return None


def run_timer(tier, seed, log):
    os.makedirs(runner.WORK, exist_ok=True)
    n = 60 if tier == "quick" else 1500
    seqs = gen_timer_seqs(seed, n)
    path = runner.WORK + "/timer-%d.ops" % seed
    runner.write_seq_file(path, [(a, b, c) for a, b, c, _ in seqs])
    ri = runner.sh([runner.HARNESS, "timer", path], timeout=3000)
    rm = runner.sh([runner.MODEL, "timer", path], timeout=600)
    if ri.returncode != 0 or rm.returncode != 0:
        raise runner.BuildError("timer mode failed: %s %s" % (ri.stderr[-800:], rm.stderr[-800:]))
    A, B = parse_timer_impl(ri.stdout), parse_timer_model(rm.stdout)
    violations = []
    n_events = 0
    combos = set()
    seen = set()
    for name, cfg, ops, (P, T, pattern) in seqs:
        a, b = A.get(name, []), B.get(name, [])
        combos.add((P, T, pattern))
        flat = [e for op in a for e in op]
        n_events += len(flat)
        verdict = timer_oracle(ops, P, T, flat)
        if verdict and ("oracle:" + verdict) not in seen:
            seen.add("oracle:" + verdict)
            violations.append(("timer:" + verdict, {
                "what": "keep-alive statement violated on an implementation trace (virtual time)",
                "verdict": verdict, "ping_timeout": P, "pong_timeout": T, "pattern": pattern,
                "cfg": cfg, "ops": ops, "ops_readable": runner.render_ops(ops), "impl_events": flat[:40],
                "model_events": [e for op in b for e in op][:40], "timer": True}))
        def norm(opsl):
            # a PING due at the very instant of the timeout is a race in the real system
            # (timer task vs. waker task); it is dropped from both sides before comparing
            errs = {(c, ms) for op in opsl for (c, ms, k) in op if k == "ERROR"}
            return [[e for e in op if not (e[2] == "PING" and (e[0], e[1]) in errs)] for op in opsl]
        a, b = norm(a), norm(b)
        if a != b:
            for k, (x, y) in enumerate(zip(a, b)):
                if x != y:
                    sig = "timer:divergence"
                    if sig not in seen:
                        seen.add(sig)
                        violations.append((sig, {
                            "what": "timer model and implementation differ", "op": k + 1, "impl": x, "model": y,
                            "ping_timeout": P, "pong_timeout": T, "pattern": pattern, "cfg": cfg, "ops": ops,
                            "ops_readable": runner.render_ops(ops), "timer": True,
                            "suffix": "" if verdict else "no-failing-input-found"}))
                    break
    cov = {"evaluations": n_events, "timer_sequences": len(seqs), "distinct_nontrivial": len(combos),
           "rule": "virtual-time runs of the real event loop; a case is one (ping_timeout, pong_timeout, client response pattern) combination; events are PING / ERROR / PONG observations compared with the Lean timer model to the 100 ms step",
           "traces_validated_against_impl": len(seqs)}
    samples = [{"sequence": seqs[0][0], "ops": runner.render_ops(seqs[0][2])[:12]}]
    return {"coverage": cov, "samples": samples, "violations": violations}


# --------------------------------------------------------------------------- directed scenarios

def L(c, s):
    return "line %d %s" % (c, esc(s))


def reg(c, nick):
    return ["connect %d 127.0.0.1" % c, L(c, "NICK " + nick), L(c, "USER u%s 0 * :r" % nick)]


DIRECTED = {
    # property -> list of (signature, cfg, ops, predicate(impl_seq) -> bool "defect present")
    "C07": [
        ("join-duplicate-quota", ["cfg name irc.test", "cfg max_joins 2"],
         reg(1, "alice") + [L(1, "JOIN #a,#a,#b")],
         lambda s: any(re.match(r"^:\S+ 405 \S+ #b ", l) for l in s.ops[-1].outs.get(1, []))),
    ],
    "C13": [
        ("relay-cr", ["cfg name irc.test"],
         reg(1, "alice") + reg(2, "bob") + [L(1, "JOIN #a"), L(2, "JOIN #a"), L(1, "TOPIC #a :x\ry")],
         lambda s: any(re.match(r"^:\S+ TOPIC #a x\ry$", l) for l in s.ops[-1].outs.get(2, []))),
    ],
}


def run_directed(pid, log):
    from . import canon
    res = []
    for sig, cfg, ops, pred in DIRECTED.get(pid, []):
        path = runner.WORK + "/directed-%s-%s.ops" % (pid, sig)
        runner.write_seq_file(path, [(sig, cfg, ops)])
        r = runner.sh([runner.HARNESS, "run", path], timeout=300)
        seqs = canon.parse_transcript(r.stdout)
        if seqs and pred(seqs[0]):
            res.append((sig, {"what": "directed scenario shows the defect", "cfg": cfg, "ops": ops,
                              "ops_readable": runner.render_ops(ops)}))
    return res


def run_extractor(script, sig, what):
    r = runner.sh(["python3", runner.V + "/tools/" + script], timeout=120)
    try:
        info = json.loads(r.stdout.strip().split("\n")[-1])
    except Exception:
        info = {"differences": ["extractor failed: " + (r.stdout + r.stderr)[-400:]]}
    viol = []
    if info.get("differences"):
        viol.append((sig, {"what": what, "broken": "source-structure extractor tools/%s vs /verif/tables" % script,
                           "differences": info["differences"][:20], "suffix": "no-failing-input-found"}))
    return info, viol


def run(pid, tier, seed, log):
    out = {"coverage": {}, "samples": [], "violations": []}
    if pid == "C17":
        out = run_timer(tier, seed, log)
    if pid == "C18":
        info, viol = run_extractor("lock_map.py", "lock-structure-changed",
                                   "the lock/await structure of a handler (or the gate/dispatch table) differs from the one the atomic sections of Irc/Conc.lean were written from")
        out["coverage"]["lock_map"] = info
        out["violations"] += viol
    if pid == "C05":
        info, viol = run_extractor("panic_sites.py", "new-panic-site",
                                   "a handler contains an unwrap/expect/panic!/checked-subtraction/slice site that the model does not represent")
        out["coverage"]["panic_sites"] = info
        out["violations"] += viol
    os.makedirs(runner.WORK, exist_ok=True)
    out["violations"] += run_directed(pid, log)
    return out
