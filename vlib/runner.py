"""Running the implementation harness and the Lean model on operation files, diffing,
attributing divergences to property footprints, shrinking (DESIGN.md 4, 5)."""
import os, subprocess, json, time, fcntl, re, hashlib
from concurrent.futures import ThreadPoolExecutor
from . import canon, gen
from .props import P

V = os.path.dirname(os.path.dirname(os.path.abspath(__file__)))
HARNESS = V + "/harness/target/debug/irc-harness"
MODEL = V + "/lean/.lake/build/bin/ircmodel"
WORK = V + "/work"
REPO = "/repo"


def sh(cmd, cwd=None, timeout=3600, env=None):
    e = dict(os.environ)
    e["CARGO_NET_OFFLINE"] = "true"
    if env:
        e.update(env)
    r = subprocess.run(cmd, cwd=cwd, shell=isinstance(cmd, str), capture_output=True, text=True,
                       timeout=timeout, env=e)
    return r


class BuildError(Exception):
    pass


# remarks of the last build that belong into the evidence file (e.g. a regenerated table that fell back to the committed one)
NOTES = []


def build(modules=(), log=print):
    """(re)build everything a check needs from /repo's current working tree. Serialised."""
    os.makedirs(WORK, exist_ok=True)
    with open(V + "/.build.lock", "w") as lk:
        fcntl.flock(lk, fcntl.LOCK_EX)
        t0 = time.time()
        del NOTES[:]
        r = sh(["python3", V + "/tools/gen_replies.py"])
        if r.returncode != 0:
            # reply.rs uses a construct the translator does not know.  That is not a violation by itself: fall back to
            # the hand-model route for this file - keep the last Reply.lean that was generated and committed - and let the
            # differential run (every reply a handler emits is rendered by both sides and compared byte for byte) be the tie.
            sh(["git", "-C", V, "checkout", "--", "lean/Irc/Reply.lean"])
            msg = ("src/reply.rs is not translatable by tools/gen_replies.py (%s); the committed lean/Irc/Reply.lean is used as a "
                   "hand-written model of it and is tied to the code by the differential run only"
                   % (r.stdout + r.stderr).strip().split("\n")[-1][:200])
            NOTES.append(msg)
            log("note: " + msg)
        r = sh(["python3", V + "/tools/gen_help.py"])
        if r.returncode != 0:
            sh(["git", "-C", V, "checkout", "--", "lean/Irc/Help.lean"])
            msg = "src/help.rs is not translatable by tools/gen_help.py; the committed lean/Irc/Help.lean is used (tied by the differential run only)"
            NOTES.append(msg)
            log("note: " + msg)
        r = sh(["cargo", "build"], cwd=V + "/harness")
        if r.returncode != 0:
            raise BuildError("harness build failed (does /repo still compile?):\n" + r.stderr[-4000:])
        targets = ["ircmodel"] + list(modules)
        r = sh(["lake", "build"] + targets, cwd=V + "/lean")
        if r.returncode != 0:
            raise BuildError("lake build failed:\n" + (r.stdout + r.stderr)[-6000:])
        log("build ok in %.1fs" % (time.time() - t0))


def run_pair(ops_path):
    """returns (impl_seqs, model_seqs)"""
    with ThreadPoolExecutor(2) as ex:
        fi = ex.submit(lambda: sh([HARNESS, "run", ops_path], timeout=1800))
        fm = ex.submit(lambda: sh([MODEL, "run", ops_path], timeout=1800))
        ri, rm = fi.result(), fm.result()
    if ri.returncode != 0:
        raise BuildError("harness run failed rc=%d: %s" % (ri.returncode, ri.stderr[-2000:]))
    if rm.returncode != 0:
        raise BuildError("model run failed rc=%d: %s" % (rm.returncode, rm.stderr[-2000:]))
    try:  # the implementation's transcript is kept for the model's `inv` / `stepfrom` modes
        open(ops_path + ".impl", "w").write(ri.stdout)
    except Exception:
        pass
    return canon.parse_transcript(ri.stdout), canon.parse_transcript(rm.stdout)


def model_has_load_modes():
    """does the compiled driver know `inv` and `stepfrom` (Irc/Load.lean)?"""
    if not hasattr(model_has_load_modes, "v"):
        try:
            r = sh([MODEL, "inv", "/dev/null"], timeout=30)
            model_has_load_modes.v = (r.returncode == 0 and "unknown" not in (r.stdout + r.stderr).lower())
        except Exception:
            model_has_load_modes.v = False
    return model_has_load_modes.v


def run_inv(ops_path):
    """the Lean invariant's executable twin (`invCheck`) evaluated on the IMPLEMENTATION's dumped states:
    {sequence name: [(op index, [violated clauses])]}"""
    r = sh([MODEL, "inv", ops_path + ".impl"], timeout=1800)
    if r.returncode != 0:
        raise BuildError("model inv failed rc=%d: %s" % (r.returncode, r.stderr[-1000:]))
    res, n = {}, 0
    for l in r.stdout.split("\n"):
        t = l.split(" ")
        if len(t) >= 4 and t[0] == "inv":
            n += 1
            if t[3] == "FAIL":
                res.setdefault(t[1], []).append((int(t[2]), t[4:]))
    return res, n


def run_stepfrom(ops_path):
    """every operation recomputed by the model FROM THE IMPLEMENTATION'S previous state (no cut at the first divergence)"""
    r = sh([MODEL, "stepfrom", ops_path, ops_path + ".impl"], timeout=1800)
    if r.returncode != 0:
        raise BuildError("model stepfrom failed rc=%d: %s" % (r.returncode, r.stderr[-1000:]))
    return canon.parse_transcript(r.stdout)


def compare_steps(pid, si, ss, start):
    """operations after `start`: first one whose implementation outcome differs, inside the footprint of `pid`, from the
    model's step taken from the implementation's own previous state; returns (op index, diffs) or None"""
    prev = None
    sops = {o.k: o for o in ss.ops}
    for oi in si.ops:
        if oi.k <= start:
            prev = oi
            continue
        om = sops.get(oi.k)
        if om is None:
            break
        if canon.diff_ops(oi, om):
            if in_footprint(pid, oi, prev):
                pd = projected_diff(pid, oi, om)
                if pd:
                    return oi.k, pd
            if P[pid].get("st_any"):
                ci, cm = canon.canon_op(oi), canon.canon_op(om)
                a, b = P[pid]["st_any"](ci[2]), P[pid]["st_any"](cm[2])
                if a != b:
                    return oi.k, [("state", sorted(set(a) - set(b)), sorted(set(b) - set(a)))]
        prev = oi
    return None


def op_kind(optext):
    """verb of a line op, or @connect/@eof/... for the others"""
    p = optext.split(" ")
    if p[0] == "line":
        return canon.op_verb(optext) or "@blank"
    return "@" + p[0]


def conn_of(optext):
    p = optext.split(" ")
    try:
        return int(p[1])
    except Exception:
        return None


def conn_authenticated(prev_op, c):
    if prev_op is None:
        return False
    for l in prev_op.st:
        t = l.split(" ")
        if t[1] == "conn" and t[2] == str(c):
            return t[9] == "1"
    return False


def in_footprint(pid, op, prev_op):
    cfg = P[pid]
    kind = op_kind(op.text)
    verbs = cfg["verbs"]
    if verbs is not None and kind not in verbs:
        return False
    c = conn_of(op.text)
    if cfg.get("unregistered_only") and conn_authenticated(prev_op, c):
        return False
    if cfg.get("registered_only") and not conn_authenticated(prev_op, c):
        return False
    if kind == "MODE":
        w = canon.unesc(op.text.split(" ", 2)[2]).split()
        tgt = ""
        for i, x in enumerate(w):
            if x.upper() == "MODE" and i + 1 < len(w):
                tgt = w[i + 1]
                break
        is_chan = tgt[:1] in "#&"
        if cfg.get("channel_target") and not is_chan:
            return False
        if cfg.get("user_target") and is_chan:
            return False
    return True


def projected_diff(pid, oi, om):
    cfg = P[pid]
    ci, cm = canon.canon_op(oi), canon.canon_op(om)
    diffs = []
    if cfg["events"] and ci[0] != cm[0]:
        diffs.append(("events", ci[0], cm[0]))
    for c in sorted(set(ci[1]) | set(cm[1])):
        a, b = cfg["outs"](ci[1].get(c, [])), cfg["outs"](cm[1].get(c, []))
        if a != b:
            diffs.append(("out %d" % c, a, b))
    a, b = cfg["st"](ci[2]), cfg["st"](cm[2])
    if a != b:
        sa, sb = set(a), set(b)
        diffs.append(("state", sorted(sa - sb), sorted(sb - sa)))
    return diffs


class SeqResult:
    __slots__ = ("name", "n_ops", "validated", "first_div", "in_fp", "diffs", "impl", "model", "aborted")


def compare_seq(pid, si, sm):
    """first divergence (unprojected) of one sequence, and whether it is inside the footprint"""
    r = SeqResult()
    r.name = si.name
    r.n_ops = len(si.ops)
    r.validated = 0
    r.first_div = None
    r.in_fp = False
    r.diffs = []
    r.impl, r.model = si, sm
    r.aborted = si.aborted
    prev = None
    for oi, om in zip(si.ops, sm.ops):
        d = canon.diff_ops(oi, om)
        if d:
            r.first_div = oi.k
            if pid is not None and in_footprint(pid, oi, prev):
                pd = projected_diff(pid, oi, om)
                if pd:
                    r.in_fp = True
                    r.diffs = pd
            if not r.in_fp and pid is not None and P[pid].get("st_any"):
                # state that belongs to the property whatever command touched it
                ci, cm = canon.canon_op(oi), canon.canon_op(om)
                a, b = P[pid]["st_any"](ci[2]), P[pid]["st_any"](cm[2])
                if a != b:
                    sa, sb = set(a), set(b)
                    r.in_fp = True
                    r.diffs = [("state", sorted(sa - sb), sorted(sb - sa))]
            if not r.in_fp:
                r.diffs = d
            return r
        r.validated += 1
        prev = oi
    if len(si.ops) != len(sm.ops):
        r.first_div = min(len(si.ops), len(sm.ops))
        r.diffs = [("length", [str(len(si.ops))], [str(len(sm.ops))])]
        r.in_fp = pid is not None and P[pid]["events"]
    return r


# ------------------------------------------------------------------ ops files

def read_ops_file(path):
    """returns list of (name, cfg_lines, ops)"""
    seqs = []
    name, cfg, ops, inseq = None, [], [], False
    for line in open(path):
        line = line.rstrip("\n")
        if line.startswith("seq "):
            name, cfg, ops, inseq = line[4:], [], [], False
        elif line.startswith("cfg "):
            cfg.append(line)
        elif line == "begin":
            inseq = True
        elif line == "end":
            seqs.append((name, cfg, ops))
            inseq = False
        elif inseq and line:
            ops.append(line)
    return seqs


def write_seq_file(path, seqs):
    with open(path, "w") as f:
        for name, cfg, ops in seqs:
            f.write("seq %s\n" % name)
            for l in cfg:
                f.write(l + "\n")
            f.write("begin\n")
            for o in ops:
                f.write(o + "\n")
            f.write("end\n")


def shrink(pid, name, cfg, ops, pred, tag, max_trials=200):
    """ddmin on the op list; pred(result_of_compare or transcripts) -> bool 'still failing'."""
    os.makedirs(WORK, exist_ok=True)
    path = WORK + "/shrink-%s-%s.ops" % (pid or "x", tag)
    trials = [0]

    def fails(cand):
        trials[0] += 1
        write_seq_file(path, [(name, cfg, cand)])
        try:
            a, b = run_pair(path)
        except BuildError:
            return False
        if not a or not b:
            return False
        return pred(a[0], b[0])

    cur = list(ops)
    n = 2
    while len(cur) >= 2 and trials[0] < max_trials:
        chunk = max(1, len(cur) // n)
        reduced = False
        for i in range(0, len(cur), chunk):
            cand = cur[:i] + cur[i + chunk:]
            if cand and fails(cand):
                cur = cand
                n = max(n - 1, 2)
                reduced = True
                break
        if not reduced:
            if chunk == 1:
                break
            n = min(len(cur), n * 2)
    # also try dropping cfg lines
    ccur = list(cfg)
    for l in list(ccur):
        if trials[0] >= max_trials + 40:
            break
        if l.startswith("cfg name"):
            continue
        cand_cfg = [x for x in ccur if x != l]
        write_seq_file(path, [(name, cand_cfg, cur)])
        trials[0] += 1
        try:
            a, b = run_pair(path)
            if a and b and pred(a[0], b[0]):
                ccur = cand_cfg
        except BuildError:
            pass
    try:
        os.remove(path)
    except OSError:
        pass
    return ccur, cur, trials[0]


def render_ops(ops):
    out = []
    for o in ops:
        p = o.split(" ", 2)
        if p[0] == "line":
            out.append("%s: %s" % (p[1], canon.unesc(p[2])))
        else:
            out.append(o)
    return out
