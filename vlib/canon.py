"""Transcript parsing and canonicalisation (DESIGN.md 4.4).

Both the implementation transcript (irc-harness run) and the model transcript (ircmodel run)
go through exactly the same functions.  Only what is nondeterministic by construction is
touched: HashMap/HashSet iteration order and clock readings.
"""
import re


def esc(s):
    if s == "":
        return "%e"
    out = []
    for ch in s:
        n = ord(ch)
        if n < 0x21 or n > 0x7E or ch in "%,":
            out.append("%%%x;" % n)
        else:
            out.append(ch)
    return "".join(out)


_UNESC = re.compile(r"%([0-9a-f]+);")


def unesc(s):
    if s == "%e":
        return ""
    return _UNESC.sub(lambda m: chr(int(m.group(1), 16)), s)


def esc_list(xs):
    return "%n" if not xs else ",".join(esc(x) for x in xs)


def unesc_list(s):
    return [] if s == "%n" else [unesc(x) for x in s.split(",")]


class Op:
    __slots__ = ("k", "text", "events", "outs", "st", "aborted")

    def __init__(self, k, text):
        self.k = k
        self.text = text
        self.events = []
        self.outs = {}  # conn -> [line]
        self.st = []
        self.aborted = False


class Seq:
    __slots__ = ("name", "ops", "aborted")

    def __init__(self, name):
        self.name = name
        self.ops = []
        self.aborted = False


def parse_transcript(text):
    seqs = []
    cur = None
    op = None
    for line in text.split("\n"):
        if not line:
            continue
        if line.startswith("seq "):
            cur = Seq(line[4:])
            seqs.append(cur)
        elif line.startswith("op "):
            _, k, rest = line.split(" ", 2)
            op = Op(int(k), rest)
            cur.ops.append(op)
        elif line.startswith("ev "):
            op.events.append(line[3:])
        elif line.startswith("out "):
            _, c, l = line.split(" ", 2)
            op.outs.setdefault(int(c), []).append(unesc(l))
        elif line.startswith("st "):
            op.st.append(line)
        elif line == "aborted":
            cur.aborted = True
    return seqs


# --------------------------------------------------------------------------- line masks

_NUM = re.compile(r"^:(\S+) (\d\d\d) (\S+) ?(.*)$", re.S)


def _sort_words(s):
    return " ".join(sorted(s.split(" ")))


def canon_line(line):
    m = _NUM.match(line)
    if not m:
        return line
    srv, num, client, rest = m.groups()
    head = ":%s %s %s " % (srv, num, client)
    if num == "003":
        return head + ":This server was created <date>"
    if num == "317":
        p = rest.split(" ")
        if len(p) >= 3:
            p[1] = "<secs>"
            p[2] = "<signon>"
        return head + " ".join(p)
    if num == "329":
        p = rest.split(" ")
        p[-1] = "<ts>"
        return head + " ".join(p)
    if num == "333":
        p = rest.split(" ")
        p[-1] = "<ts>"
        return head + " ".join(p)
    if num == "367":
        p = rest.split(" ")
        p[-1] = "<ts>"
        return head + " ".join(p)
    if num == "391":
        return head + "<time>"
    if num == "242":
        return head + "<uptime>"
    if num == "312" and ":Logged in at " in rest:
        return head + rest.split(":Logged in at ")[0] + ":Logged in at <date>"
    if num == "353":
        # "= #chan :names"
        i = rest.find(" :")
        if i >= 0:
            return head + rest[:i] + " :" + _sort_words(rest[i + 2:])
    if num == "319":
        i = rest.find(" :")
        if i >= 0:
            return head + rest[:i] + " :" + _sort_words(rest[i + 2:])
    if num == "324":
        # "#chan +flags [key] [limit] +b x +e y ..." : sort the " +X arg" pairs
        toks = rest.split(" ")
        j = None
        for idx in range(2, len(toks)):
            if re.fullmatch(r"\+[beIqaohv]", toks[idx]):
                j = idx
                break
        if j is not None:
            tail = toks[j:]
            pairs = [" ".join(tail[i:i + 2]) for i in range(0, len(tail), 2)]
            return head + " ".join(toks[:j] + sorted(pairs))
    return line


def merge_353(lines):
    """names of one channel arrive in chunks of 20 in HashMap order: merge the chunks of
    one channel (consecutive or not) into a single canonical line, keep the count."""
    out = []
    acc = {}
    nlines = {}
    for l in lines:
        m = _NUM.match(l)
        if m and m.group(2) in ("353", "319"):
            # 319: the channels of one WHOIS answer arrive in chunks of 30 in HashSet order - same treatment
            rest = m.group(4)
            i = rest.find(" :")
            key = (m.group(2), m.group(1), m.group(3), rest[:i])
            names = [x for x in rest[i + 2:].split(" ") if x] if i >= 0 else []
            if key not in acc:
                acc[key] = []
                nlines[key] = 0
                out.append(("chunked", key))
            acc[key].extend(names)
            nlines[key] += 1
        else:
            out.append(l)
    res = []
    for l in out:
        if isinstance(l, tuple):
            key = l[1]
            names = sorted(acc[key])
            if key[0] == "353":
                res.append(":%s 353 %s %s :%s #names=%d" % (key[1], key[2], key[3], " ".join(names), len(names)))
            else:
                res.append(":%s 319 %s %s :%s #chans=%d #lines=%d" % (key[1], key[2], key[3], " ".join(names), len(names),
                                                                       nlines[key]))
        else:
            res.append(l)
    return res


# verbs whose reply/fan-out order depends on HashMap/HashSet iteration
ORDER_FREE = {"PRIVMSG", "NOTICE", "NAMES", "LIST", "WHO", "WHOIS", "MODE"}


def op_verb(optext):
    p = optext.split(" ")
    if p[0] != "line" or len(p) < 3:
        return None
    l = unesc(p[2]).lstrip()
    w = l.split()
    if not w:
        return None
    if w[0].startswith(":") and len(w) > 1:
        return w[1].upper()
    return w[0].upper()


def canon_op(op):
    """returns a comparable structure: (events, {conn: lines}, st-lines)"""
    verb = op_verb(op.text)
    outs = {}
    for c, lines in op.outs.items():
        ls = [canon_line(l) for l in lines]
        ls = merge_353(ls)
        if verb in ORDER_FREE:
            ls = sorted(ls)
        outs[c] = ls
    return (sorted(op.events), outs, sorted(op.st))


def diff_ops(a, b):
    """a, b: Op (implementation, model). Returns list of human-readable differences."""
    ca, cb = canon_op(a), canon_op(b)
    diffs = []
    if ca[0] != cb[0]:
        diffs.append(("events", ca[0], cb[0]))
    for c in sorted(set(ca[1]) | set(cb[1])):
        la, lb = ca[1].get(c, []), cb[1].get(c, [])
        if la != lb:
            diffs.append(("out %d" % c, la, lb))
    if ca[2] != cb[2]:
        sa, sb = set(ca[2]), set(cb[2])
        diffs.append(("state", sorted(sa - sb), sorted(sb - sa)))
    return diffs
