// live mode (C17): the REAL server (`run_server`: real accept loop, real `user_state_process` task, real
// ping waker and pong timeout tasks) on the WALL clock.  One client per scenario with a scripted
// keep-alive behaviour; every scenario has its own server on its own port and all scenarios of a file
// run concurrently, so a file takes as long as its longest scenario.
//
//   live <pre_reg_delay_ms> <policy> <k> <answer_delay_ms> <duration_ms>
//      policy = always | never | stops        (stops: answer the first k PINGs, then stay silent)
//
// The client connects, waits pre_reg_delay (answering whatever PING arrives meanwhile, as a well-behaved
// client does), registers, and then answers PINGs per policy `answer_delay` ms after each arrives.
// Output per scenario: `lev <ms since connect> <kind> <line>` for the 001, every PING, PONG sent by the client
// (kind SENT), ERROR, 451; `closed <ms>` when the server closes the socket; `final <0|1>` = is the nick still
// registered when the scenario ends.  The Python side judges the statement of C17 on these timestamps.
use crate::orch::build_config;
use crate::*;
use std::io::Write;
use std::time::{Duration, Instant};
use tokio::io::{AsyncReadExt, AsyncWriteExt};
use tokio::net::TcpStream;

async fn run_one(cfg_lines: Vec<Vec<String>>, op: String, idx: usize) -> String {
    let mut out = String::new();
    let toks: Vec<&str> = op.split(' ').collect();
    if toks.len() < 6 || toks[0] != "live" {
        return format!("ev bad-live-op {}\n", esc(&op));
    }
    let pre: u64 = toks[1].parse().unwrap_or(0);
    let policy = toks[2].to_string();
    let k: usize = toks[3].parse().unwrap_or(0);
    let adelay: u64 = toks[4].parse().unwrap_or(0);
    let duration: u64 = toks[5].parse().unwrap_or(3000);
    let mut started = None;
    for _ in 0..20 {
        let mut cfg = build_config(&cfg_lines);
        let port = {
            let l = std::net::TcpListener::bind("127.0.0.1:0").unwrap();
            l.local_addr().unwrap().port()
        };
        cfg.port = port;
        cfg.listen = "127.0.0.1".parse().unwrap();
        let r = run_server(cfg).await.ok();
        if let Some(x) = r {
            started = Some((x, port));
            break;
        }
        tokio::time::sleep(Duration::from_millis(20)).await;
    }
    let ((ms, handle), port) = match started {
        Some(x) => x,
        None => return "ev server-start-failed\n".to_string(),
    };
    let mut stream = match TcpStream::connect(("127.0.0.1", port)).await {
        Ok(s) => s,
        Err(_) => {
            handle.abort();
            return "ev connect-failed\n".to_string();
        }
    };
    stream.set_nodelay(true).ok();
    stream.set_linger(Some(Duration::from_secs(0))).ok();
    let t0 = Instant::now();
    let nick = format!("live{}", idx);
    let mut registered_sent = false;
    let mut answered = 0usize;
    let mut buf: Vec<u8> = vec![];
    let mut tmp = [0u8; 8192];
    // PONGs waiting to be sent: (due instant, token)
    let mut due: Vec<(Instant, String)> = vec![];
    let mut closed = false;
    loop {
        let now = Instant::now();
        let el = now.duration_since(t0).as_millis() as u64;
        if el >= duration {
            break;
        }
        if !registered_sent && el >= pre {
            registered_sent = true;
            let data = format!("NICK {}\r\nUSER u 0 * :r\r\n", nick);
            stream.write_all(data.as_bytes()).await.ok();
            out.push_str(&format!("lev {} REGSENT -\n", t0.elapsed().as_millis()));
        }
        // send what is due
        let mut i = 0;
        while i < due.len() {
            if due[i].0 <= Instant::now() {
                let (_, tok) = due.remove(i);
                let data = format!("PONG :{}\r\n", tok);
                stream.write_all(data.as_bytes()).await.ok();
                out.push_str(&format!("lev {} SENT {}\n", t0.elapsed().as_millis(), esc(data.trim_end())));
            } else {
                i += 1;
            }
        }
        // next wake-up: next due PONG, registration time, end of scenario; at most 20 ms
        let mut wait = Duration::from_millis(20);
        let rem = Duration::from_millis(duration.saturating_sub(el));
        if rem < wait {
            wait = rem;
        }
        if closed {
            tokio::time::sleep(wait).await;
            continue;
        }
        match tokio::time::timeout(wait, stream.read(&mut tmp)).await {
            Err(_) => {}
            Ok(Ok(0)) | Ok(Err(_)) => {
                closed = true;
                out.push_str(&format!("closed {}\n", t0.elapsed().as_millis()));
            }
            Ok(Ok(n)) => {
                buf.extend_from_slice(&tmp[..n]);
                while let Some(p) = buf.iter().position(|b| *b == b'\n') {
                    let mut l: Vec<u8> = buf.drain(..=p).collect();
                    l.pop();
                    if l.last() == Some(&b'\r') {
                        l.pop();
                    }
                    let s = String::from_utf8_lossy(&l).to_string();
                    let at = t0.elapsed().as_millis();
                    let words: Vec<&str> = s.split(' ').collect();
                    let kind = if words.len() > 1 { words[1] } else { "" };
                    match kind {
                        "PING" => {
                            out.push_str(&format!("lev {} PING {}\n", at, esc(&s)));
                            let tok = s.splitn(2, " :").nth(1).unwrap_or("").to_string();
                            let answer = match policy.as_str() {
                                "always" => true,
                                "stops" => answered < k,
                                _ => false,
                            };
                            if answer {
                                answered += 1;
                                due.push((Instant::now() + Duration::from_millis(adelay), tok));
                            }
                        }
                        "ERROR" | "001" | "451" | "PONG" => {
                            out.push_str(&format!("lev {} {} {}\n", at, kind, esc(&s)));
                        }
                        _ => {}
                    }
                }
            }
        }
    }
    let dump = ms.verif_dump().await;
    let present = dump
        .lines()
        .any(|l| l.starts_with(&format!("st user {} ", esc(&nick))));
    out.push_str(&format!("final {}\n", if present { 1 } else { 0 }));
    drop(stream);
    handle.abort();
    out
}

pub(crate) fn run_file<W: Write>(input: &str, out: &mut W) {
    let mut scen: Vec<(String, Vec<Vec<String>>, String)> = vec![];
    let mut cfg_lines: Vec<Vec<String>> = vec![];
    let mut name = String::new();
    let mut op = String::new();
    let mut in_seq = false;
    for line in input.lines() {
        if line.is_empty() || line.starts_with('#') {
            continue;
        }
        if line.starts_with("seq ") {
            cfg_lines.clear();
            op.clear();
            in_seq = false;
            name = line.to_string();
        } else if line.starts_with("cfg ") {
            cfg_lines.push(line.split(' ').map(|s| s.to_string()).collect());
        } else if line == "begin" {
            in_seq = true;
        } else if line == "end" {
            scen.push((name.clone(), cfg_lines.clone(), op.clone()));
            in_seq = false;
        } else if in_seq && line.starts_with("live ") {
            op = line.to_string();
        }
    }
    let rt = tokio::runtime::Builder::new_multi_thread()
        .worker_threads(8)
        .enable_all()
        .build()
        .unwrap();
    let results: Vec<(String, String)> = rt.block_on(async {
        let mut tasks = vec![];
        for (i, (name, cfg, op)) in scen.into_iter().enumerate() {
            tasks.push((name, tokio::spawn(run_one(cfg, op, i))));
        }
        let mut res = vec![];
        for (name, t) in tasks {
            let r = t.await.unwrap_or_else(|_| "ev scenario-panicked\n".to_string());
            res.push((name, r));
        }
        res
    });
    rt.shutdown_background();
    for (name, r) in results {
        writeln!(out, "{}", name).unwrap();
        write!(out, "{}", r).unwrap();
        writeln!(out, "endseq").unwrap();
    }
}
