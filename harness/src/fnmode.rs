// pure-function mode: one call per input line, one result per output line.
use crate::*;
use bytes::BytesMut;
use std::io::Write;
use std::panic::catch_unwind;
use tokio_util::codec::Decoder;

fn b(x: bool) -> String {
    (if x { "true" } else { "false" }).to_string()
}

fn msg_str(line: &str) -> String {
    match Message::from_shared_str(line) {
        Ok(m) => {
            // Message fields are private: use Debug rendering is not stable enough, so
            // re-render through to_string_with_source with a marker source and Debug.
            format!("Ok {}", esc(&format!("{:?}", m)))
        }
        Err(e) => format!("Err {:?}", e),
    }
}

fn call(toks: &[&str]) -> String {
    let a = |i: usize| unesc(toks[i]);
    match toks[0] {
        "mw" => b(match_wildcard(&a(1), &a(2))),
        "norm" => esc(&normalize_sourcemask(&a(1))),
        "vsrc" => b(validate_source(&a(1))),
        "vuser" => b(validate_username(&a(1)).is_ok()),
        "vchan" => b(validate_channel(&a(1)).is_ok()),
        "vsrv" => b(validate_server(&a(1), MessageError::Empty).is_ok()),
        "vsrvmask" => b(validate_server_mask(&a(1), MessageError::Empty).is_ok()),
        "vpchan" => b(validate_prefixed_channel(&a(1), MessageError::Empty).is_ok()),
        "msg" => msg_str(&a(1)),
        "render" => {
            let line = a(1);
            match Message::from_shared_str(&line) {
                Ok(m) => format!("Ok {}", esc(&m.to_string_with_source(&a(2)))),
                Err(e) => format!("Err {:?}", e),
            }
        }
        "cmd" => {
            let line = a(1);
            match Message::from_shared_str(&line) {
                Ok(m) => match Command::from_message(&m) {
                    Ok(c) => format!("Ok {}", esc(&format!("{:?}", c))),
                    Err(e) => format!("CmdErr {}", esc(&e.to_string())),
                },
                Err(e) => format!("Err {:?}", e),
            }
        }
        "tt" => {
            let (bits, s) = verif_privmsg_target_type(&a(1));
            format!("{} {}", bits, esc(&s))
        }
        "chum" => esc(&verif_chum_to_string(
            toks[1].parse().unwrap(),
            toks[2] == "1",
        )),
        "codec" => {
            // codec <max> <hexchunk> <hexchunk> ... : feed chunks, then eof
            let mut codec = IRCLinesCodec::new_with_max_length(toks[1].parse().unwrap());
            let mut buf = BytesMut::new();
            let mut res = vec![];
            let mut failed = false;
            for ch in &toks[2..] {
                if failed {
                    break;
                }
                let bytes: Vec<u8> = if *ch == "-" {
                    vec![]
                } else {
                    (0..ch.len() / 2)
                        .map(|i| u8::from_str_radix(&ch[2 * i..2 * i + 2], 16).unwrap())
                        .collect()
                };
                buf.extend_from_slice(&bytes);
                loop {
                    match codec.decode(&mut buf) {
                        Ok(Some(l)) => res.push(format!("L:{}", esc(&l))),
                        Ok(None) => break,
                        Err(e) => {
                            // Framed ends the stream after an error
                            res.push(format!("E:{}", esc(&e.to_string())));
                            failed = true;
                            break;
                        }
                    }
                }
            }
            if !failed {
                loop {
                    match codec.decode_eof(&mut buf) {
                        Ok(Some(l)) => res.push(format!("L:{}", esc(&l))),
                        Ok(None) => break,
                        Err(e) => {
                            res.push(format!("E:{}", esc(&e.to_string())));
                            break;
                        }
                    }
                }
            }
            if res.is_empty() {
                "none".to_string()
            } else {
                res.join(" ")
            }
        }
        "umodes" => {
            let m = a(1);
            esc(&UserModes {
                invisible: m.contains('i'),
                oper: m.contains('o'),
                local_oper: m.contains('O'),
                registered: m.contains('r'),
                wallops: m.contains('w'),
            }
            .to_string())
        }
        "banned" => {
            // banned <ban list> <exception list> <source>
            let set = |x: &str| -> Option<std::collections::HashSet<String>> {
                let v = unesc_list(x);
                if v.is_empty() {
                    None
                } else {
                    Some(v.into_iter().collect())
                }
            };
            let m = ChannelModes {
                ban: set(toks[1]),
                exception: set(toks[2]),
                ..ChannelModes::default()
            };
            b(m.banned(&a(3)))
        }
        "hash" => esc(&argon2_hash_password(&a(1))),
        "verify" => b(argon2_verify_password(&a(1), &a(2)).is_ok()),
        "vhash" => b(validate_password_hash(&a(1)).is_ok()),
        "config" => {
            // config <esc toml> <cli args...>
            use clap::Parser;
            let path = format!("/tmp/irc-harness-cfg-{}.toml", std::process::id());
            std::fs::write(&path, a(1)).unwrap();
            let mut args = vec!["simple-irc-server".to_string(), "-c".to_string(), path.clone()];
            for t in &toks[2..] {
                args.push(unesc(t));
            }
            let r = match Cli::try_parse_from(args) {
                Ok(cli) => match MainConfig::new(cli) {
                    Ok(c) => format!(
                        "Ok {} {} {} {} {} {}",
                        esc(&c.name),
                        esc(&c.network),
                        c.port,
                        esc(&c.listen.to_string()),
                        c.dns_lookup,
                        c.tls.is_some()
                    ),
                    Err(_) => "Err".to_string(),
                },
                Err(_) => "CliErr".to_string(),
            };
            std::fs::remove_file(&path).ok();
            r
        }
        other => format!("unknown-fn {}", other),
    }
}

pub(crate) fn run_file<W: Write>(input: &str, out: &mut W) {
    for line in input.lines() {
        if line.is_empty() || line.starts_with('#') {
            continue;
        }
        let toks: Vec<&str> = line.split(' ').collect();
        let r = catch_unwind(|| call(&toks));
        match r {
            Ok(s) => writeln!(out, "{}", s).unwrap(),
            Err(_) => writeln!(out, "PANIC").unwrap(),
        }
    }
}
