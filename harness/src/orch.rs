// orchestrated mode: the harness owns the sockets and decides which connection is polled,
// so every run is deterministic (up to HashMap iteration order, which the comparator
// canonicalises).  Everything that is executed is the real code of /repo.
use crate::*;
use futures::FutureExt;
use std::collections::{BTreeMap, HashMap, HashSet};
use std::io::Write;
use std::net::IpAddr;
use std::panic::AssertUnwindSafe;
use std::sync::Mutex;
use std::time::Duration;
use tokio::io::{AsyncReadExt, AsyncWriteExt};
use tokio::net::{TcpListener, TcpStream};
use tokio_util::codec::Framed;

pub(crate) static LAST_PANIC: Mutex<String> = Mutex::new(String::new());

lazy_static::lazy_static! {
    static ref HASHES: Mutex<HashMap<String, String>> = Mutex::new(HashMap::new());
}

pub(crate) fn hash_pw(pw: &str) -> String {
    let mut h = HASHES.lock().unwrap();
    if let Some(x) = h.get(pw) {
        return x.clone();
    }
    let x = argon2_hash_password(pw);
    h.insert(pw.to_string(), x.clone());
    x
}

fn optset(s: &str) -> Option<HashSet<String>> {
    let v = unesc_list(s);
    if v.is_empty() {
        None
    } else {
        Some(v.into_iter().collect())
    }
}

// Build the real MainConfig from `cfg` lines (tokens are escaped).
pub(crate) fn build_config(lines: &[Vec<String>]) -> MainConfig {
    let mut c = MainConfig::default();
    c.ping_timeout = 1_000_000;
    c.pong_timeout = 1_000_000;
    for l in lines {
        let a = |i: usize| unesc(&l[i]);
        match l[1].as_str() {
            "name" => c.name = a(2),
            "network" => c.network = a(2),
            "info" => c.info = a(2),
            "admin_info" => c.admin_info = a(2),
            "admin_info2" => c.admin_info2 = Some(a(2)),
            "admin_email" => c.admin_email = Some(a(2)),
            "motd" => c.motd = a(2),
            "password" => c.password = Some(hash_pw(&a(2))),
            "max_connections" => c.max_connections = Some(l[2].parse().unwrap()),
            "max_joins" => c.max_joins = Some(l[2].parse().unwrap()),
            "ping_timeout" => c.ping_timeout = l[2].parse().unwrap(),
            "pong_timeout" => c.pong_timeout = l[2].parse().unwrap(),
            "dum" => {
                let m = a(2);
                c.default_user_modes = UserModes {
                    invisible: m.contains('i'),
                    oper: m.contains('o'),
                    local_oper: m.contains('O'),
                    registered: m.contains('r'),
                    wallops: m.contains('w'),
                };
            }
            "oper" => {
                let mut v = c.operators.take().unwrap_or_default();
                v.push(OperatorConfig {
                    name: a(2),
                    password: hash_pw(&a(3)),
                    mask: unesc_opt(&l[4]),
                });
                c.operators = Some(v);
            }
            "user" => {
                let mut v = c.users.take().unwrap_or_default();
                v.push(UserConfig {
                    name: a(2),
                    nick: a(3),
                    password: unesc_opt(&l[4]).map(|p| hash_pw(&p)),
                    mask: unesc_opt(&l[5]),
                });
                c.users = Some(v);
            }
            "chan" => {
                // cfg chan NAME TOPIC FLAGS KEY LIMIT BAN EXC INVEX Q A O H V
                let mut v = c.channels.take().unwrap_or_default();
                let flags = a(4);
                v.push(ChannelConfig {
                    name: a(2),
                    topic: unesc_opt(&l[3]),
                    modes: ChannelModes {
                        ban: optset(&l[7]),
                        exception: optset(&l[8]),
                        client_limit: if l[6] == "-" {
                            None
                        } else {
                            Some(l[6][1..].parse().unwrap())
                        },
                        invite_exception: optset(&l[9]),
                        key: unesc_opt(&l[5]),
                        founders: optset(&l[10]),
                        protecteds: optset(&l[11]),
                        operators: optset(&l[12]),
                        half_operators: optset(&l[13]),
                        voices: optset(&l[14]),
                        invite_only: flags.contains('i'),
                        moderated: flags.contains('m'),
                        secret: flags.contains('s'),
                        protected_topic: flags.contains('t'),
                        no_external_messages: flags.contains('n'),
                    },
                });
                c.channels = Some(v);
            }
            other => panic!("unknown cfg key {}", other),
        }
    }
    c
}

struct Client {
    stream: TcpStream,
    buf: Vec<u8>,
}

struct Slot {
    cs: Option<ConnState>,
    client: Option<Client>,
}

const IO_TIMEOUT: Duration = Duration::from_secs(20);

enum Polled {
    Pending,
    Done,
    Panicked,
}

struct Exec<'a, W: Write> {
    ms: MainState,
    listener: TcpListener,
    slots: BTreeMap<usize, Slot>,
    out: &'a mut W,
    events: Vec<String>,
    closed_now: Vec<usize>,
    aborted: bool,
    fence_no: usize,
}

impl<'a, W: Write> Exec<'a, W> {
    async fn process_wait(&mut self, c: usize) -> Polled {
        let slot = self.slots.get_mut(&c).unwrap();
        let cs = slot.cs.as_mut().unwrap();
        let fut = AssertUnwindSafe(self.ms.process(cs)).catch_unwind();
        match tokio::time::timeout(IO_TIMEOUT, fut).await {
            Err(_) => {
                self.events.push(format!("hang {}", c));
                self.aborted = true;
                Polled::Pending
            }
            Ok(Err(_)) => Polled::Panicked,
            Ok(Ok(_)) => Polled::Done,
        }
    }

    fn process_now(&mut self, c: usize) -> Polled {
        let slot = self.slots.get_mut(&c).unwrap();
        let cs = slot.cs.as_mut().unwrap();
        let fut = AssertUnwindSafe(self.ms.process(cs)).catch_unwind();
        match fut.now_or_never() {
            None => Polled::Pending,
            Some(Err(_)) => Polled::Panicked,
            Some(Ok(_)) => Polled::Done,
        }
    }

    fn on_panic(&mut self, c: usize) {
        let msg = LAST_PANIC.lock().unwrap().clone();
        self.events.push(format!("panic {} {}", c, esc(&msg)));
        // unwinding of the connection task: ConnState is dropped, remove_user is skipped.
        let slot = self.slots.get_mut(&c).unwrap();
        slot.cs = None;
        self.closed_now.push(c);
        self.aborted = true;
    }

    // what user_state_process does when the loop ends.
    async fn teardown_if_quit(&mut self, c: usize) {
        let quit = self
            .slots
            .get(&c)
            .and_then(|s| s.cs.as_ref())
            .map_or(false, |cs| cs.is_quit());
        if quit {
            let cs = self.slots.get_mut(&c).unwrap().cs.take().unwrap();
            let r = AssertUnwindSafe(self.ms.remove_user(&cs))
                .catch_unwind()
                .await;
            drop(cs);
            self.closed_now.push(c);
            if r.is_err() {
                let msg = LAST_PANIC.lock().unwrap().clone();
                self.events
                    .push(format!("panic {} {}", c, esc(&format!("teardown {}", msg))));
                self.aborted = true;
            } else {
                self.events.push(format!("closed {}", c));
            }
        }
    }

    // poll every live connection until nothing is ready any more.
    async fn settle(&mut self) {
        let mut rounds = 0;
        loop {
            let mut progress = false;
            let ids: Vec<usize> = self
                .slots
                .iter()
                .filter(|(_, s)| s.cs.is_some())
                .map(|(i, _)| *i)
                .collect();
            for c in ids {
                let mut n = 0;
                loop {
                    if self.slots[&c].cs.is_none() {
                        break;
                    }
                    if self.slots[&c].cs.as_ref().unwrap().is_quit() {
                        self.teardown_if_quit(c).await;
                        progress = true;
                        break;
                    }
                    match self.process_now(c) {
                        Polled::Pending => break,
                        Polled::Done => {
                            progress = true;
                        }
                        Polled::Panicked => {
                            self.on_panic(c);
                            progress = true;
                            break;
                        }
                    }
                    n += 1;
                    if n > 10000 {
                        self.events.push(format!("livelock {}", c));
                        self.aborted = true;
                        return;
                    }
                }
            }
            rounds += 1;
            if !progress || rounds > 1000 {
                break;
            }
        }
    }

    async fn exec_op(&mut self, toks: &[&str]) {
        match toks[0] {
            "connect" => {
                let c: usize = toks[1].parse().unwrap();
                let ip: IpAddr = toks[2].parse().unwrap();
                let addr = self.listener.local_addr().unwrap();
                let client = connect_retry(addr).await;
                let (server, _) = self.listener.accept().await.unwrap();
                server.set_nodelay(true).ok();
                client.set_nodelay(true).ok();
                // abortive close of the client end: tens of thousands of short-lived loopback connections
                // must not pile up in TIME_WAIT (the `eof` operation still sends a proper FIN by shutdown)
                client.set_linger(Some(Duration::from_secs(0))).ok();
                let framed = Framed::new(
                    DualTcpStream::PlainStream(server),
                    IRCLinesCodec::new_with_max_length(2000),
                );
                match self.ms.register_conn_state(ip, framed) {
                    Some(cs) => {
                        self.slots.insert(
                            c,
                            Slot {
                                cs: Some(cs),
                                client: Some(Client {
                                    stream: client,
                                    buf: vec![],
                                }),
                            },
                        );
                    }
                    None => {
                        self.events.push(format!("refused {}", c));
                    }
                }
            }
            "line" | "toolong" | "badutf8" | "partial" | "raw" => {
                let c: usize = toks[1].parse().unwrap();
                let live = self.slots.get(&c).map_or(false, |s| s.cs.is_some());
                if !live {
                    self.events.push(format!("dead {}", c));
                    return;
                }
                let mut bytes: Vec<u8> = match toks[0] {
                    "line" | "partial" => unesc(toks[2]).into_bytes(),
                    "toolong" => vec![b'x'; toks[2].parse().unwrap()],
                    "badutf8" => vec![b'P', b'I', b'N', b'G', b' ', 0xff, 0xfe],
                    _ => (0..toks[2].len() / 2)
                        .map(|i| u8::from_str_radix(&toks[2][2 * i..2 * i + 2], 16).unwrap())
                        .collect(),
                };
                if toks[0] != "partial" && toks[0] != "raw" {
                    bytes.extend_from_slice(b"\r\n");
                }
                {
                    let cl = self.slots.get_mut(&c).unwrap().client.as_mut().unwrap();
                    if cl.stream.write_all(&bytes).await.is_err() {
                        self.events.push(format!("writefail {}", c));
                        return;
                    }
                    cl.stream.flush().await.ok();
                }
                if toks[0] != "partial" && toks[0] != "raw" {
                    if let Polled::Panicked = self.process_wait(c).await {
                        self.on_panic(c);
                    }
                }
            }
            "eof" | "reset" => {
                let c: usize = toks[1].parse().unwrap();
                let live = self.slots.get(&c).map_or(false, |s| s.cs.is_some());
                if !live {
                    self.events.push(format!("dead {}", c));
                    return;
                }
                if toks[0] == "eof" {
                    let cl = self.slots.get_mut(&c).unwrap().client.as_mut().unwrap();
                    cl.stream.shutdown().await.ok();
                } else {
                    let cl = self.slots.get_mut(&c).unwrap().client.take().unwrap();
                    cl.stream.set_linger(Some(Duration::from_secs(0))).ok();
                    drop(cl);
                }
                if let Polled::Panicked = self.process_wait(c).await {
                    self.on_panic(c);
                }
            }
            other => panic!("unknown op {}", other),
        }
    }

    // read what every client got during this op.  Live connections get a fence line
    // written straight to their socket; closed ones are read until EOF.
    async fn collect_outputs(&mut self) -> Vec<(usize, String)> {
        let mut res = vec![];
        self.fence_no += 1;
        let fence = format!("FENCE {}", self.fence_no);
        let ids: Vec<usize> = self.slots.keys().copied().collect();
        for c in ids {
            let slot = self.slots.get_mut(&c).unwrap();
            if slot.client.is_none() {
                continue;
            }
            let live = slot.cs.is_some();
            if live {
                let ok = slot.cs.as_mut().unwrap().verif_fence(fence.clone()).await;
                if !ok {
                    self.events.push(format!("fencefail {}", c));
                    continue;
                }
            }
            let cl = slot.client.as_mut().unwrap();
            let mut lines: Vec<String> = vec![];
            let mut done = false;
            let mut bad_eol = false;
            let mut tmp = [0u8; 65536];
            while !done {
                // extract complete lines
                while let Some(p) = cl.buf.iter().position(|b| *b == b'\n') {
                    let mut l: Vec<u8> = cl.buf.drain(..=p).collect();
                    l.pop();
                    if l.last() == Some(&b'\r') {
                        l.pop();
                    } else if !bad_eol {
                        // every emitted message must be CRLF terminated
                        bad_eol = true;
                        self.events.push(format!("lf-without-cr {}", c));
                    }
                    let s = String::from_utf8_lossy(&l).to_string();
                    if live && s == fence {
                        done = true;
                        break;
                    }
                    lines.push(s);
                }
                if done {
                    break;
                }
                match tokio::time::timeout(IO_TIMEOUT, cl.stream.read(&mut tmp)).await {
                    Err(_) => {
                        self.events.push(format!("readtimeout {}", c));
                        self.aborted = true;
                        done = true;
                    }
                    Ok(Ok(0)) | Ok(Err(_)) => {
                        if !cl.buf.is_empty() {
                            let s = String::from_utf8_lossy(&cl.buf).to_string();
                            lines.push(format!("{}<noeol>", s));
                            cl.buf.clear();
                        }
                        if live {
                            self.events.push(format!("clienteof {}", c));
                        }
                        done = true;
                    }
                    Ok(Ok(n)) => cl.buf.extend_from_slice(&tmp[..n]),
                }
            }
            for l in lines {
                res.push((c, l));
            }
            if !live {
                slot.client = None;
            }
        }
        res
    }

    async fn dump(&mut self) -> String {
        let mut s = self.ms.verif_dump().await;
        for (c, slot) in &self.slots {
            if let Some(cs) = &slot.cs {
                s += &cs.verif_dump(*c);
            }
        }
        s
    }
}

// connect / bind with patience: under heavy parallel use the ephemeral port range can be exhausted for a moment
pub(crate) async fn connect_retry(addr: std::net::SocketAddr) -> TcpStream {
    let mut n = 0;
    loop {
        match TcpStream::connect(addr).await {
            Ok(s) => return s,
            Err(e) => {
                n += 1;
                if n > 300 {
                    panic!("connect {}: {}", addr, e);
                }
                tokio::time::sleep(Duration::from_millis(200)).await;
            }
        }
    }
}

pub(crate) async fn bind_retry() -> TcpListener {
    let mut n = 0;
    loop {
        match TcpListener::bind("127.0.0.1:0").await {
            Ok(l) => return l,
            Err(e) => {
                n += 1;
                if n > 300 {
                    panic!("bind: {}", e);
                }
                tokio::time::sleep(Duration::from_millis(200)).await;
            }
        }
    }
}

async fn run_seq<W: Write>(cfg: MainConfig, ops: &[&str], out: &mut W) {
    let listener = bind_retry().await;
    let mut ex = Exec {
        ms: MainState::new_from_config(cfg),
        listener,
        slots: BTreeMap::new(),
        out,
        events: vec![],
        closed_now: vec![],
        aborted: false,
        fence_no: 0,
    };
    // initial state
    let d = ex.dump().await;
    writeln!(ex.out, "op 0 init").unwrap();
    write!(ex.out, "{}", d).unwrap();
    writeln!(ex.out, "endop").unwrap();
    for (k, op) in ops.iter().enumerate() {
        let toks: Vec<&str> = op.split(' ').collect();
        ex.events.clear();
        ex.closed_now.clear();
        ex.exec_op(&toks).await;
        if !ex.aborted {
            ex.settle().await;
        }
        let outs = ex.collect_outputs().await;
        let d = ex.dump().await;
        writeln!(ex.out, "op {} {}", k + 1, op).unwrap();
        for e in &ex.events {
            writeln!(ex.out, "ev {}", e).unwrap();
        }
        for (c, l) in outs {
            writeln!(ex.out, "out {} {}", c, esc(&l)).unwrap();
        }
        write!(ex.out, "{}", d).unwrap();
        writeln!(ex.out, "endop").unwrap();
        if ex.aborted {
            writeln!(ex.out, "aborted").unwrap();
            break;
        }
    }
}

pub(crate) fn run_file<W: Write>(input: &str, out: &mut W) {
    let mut cfg_lines: Vec<Vec<String>> = vec![];
    let mut ops: Vec<&str> = vec![];
    let mut in_seq = false;
    for line in input.lines() {
        let line = line.trim_end_matches('\r');
        if line.is_empty() || line.starts_with('#') {
            continue;
        }
        if line.starts_with("seq ") {
            cfg_lines.clear();
            ops.clear();
            in_seq = false;
            writeln!(out, "{}", line).unwrap();
        } else if line.starts_with("cfg ") {
            cfg_lines.push(line.split(' ').map(|s| s.to_string()).collect());
        } else if line == "begin" {
            in_seq = true;
        } else if line == "end" {
            let cfg = build_config(&cfg_lines);
            let rt = tokio::runtime::Builder::new_current_thread()
                .enable_all()
                .build()
                .unwrap();
            rt.block_on(run_seq(cfg, &ops, out));
            rt.shutdown_background();
            writeln!(out, "endseq").unwrap();
            in_seq = false;
        } else if in_seq {
            ops.push(line);
        }
    }
}
