// timer mode (virtual time, C17) - filled in later
use std::io::Write;
pub(crate) fn run_file<W: Write>(_input: &str, out: &mut W) {
    writeln!(out, "timer mode not implemented").unwrap();
}
