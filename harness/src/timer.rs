// timer mode (C17): the real event loop (`MainState::process`, real ping waker / pong timeout
// tasks) on tokio's PAUSED clock.  Virtual time only moves through `advance <ms>` operations
// (in steps of STEP_MS); nothing here awaits I/O or timers in a way that parks the runtime, so
// the clock never auto-advances.  Every line a client receives is tagged with the virtual
// millisecond at which it was observed.
use crate::orch::{build_config, LAST_PANIC};
use crate::*;
use futures::FutureExt;
use std::collections::BTreeMap;
use std::io::Write;
use std::net::IpAddr;
use std::panic::AssertUnwindSafe;
use std::time::Duration;
use tokio::net::{TcpListener, TcpStream};
use tokio_util::codec::Framed;

const STEP_MS: u64 = 100;

struct Slot {
    cs: Option<ConnState>,
    client: TcpStream,
    buf: Vec<u8>,
}

async fn spin(n: usize) {
    for _ in 0..n {
        tokio::task::yield_now().await;
    }
}

struct T<'a, W: Write> {
    ms: MainState,
    slots: BTreeMap<usize, Slot>,
    out: &'a mut W,
    start: tokio::time::Instant,
    fence_no: usize,
    sync_no: usize,
    lines: Vec<String>,
}

impl<'a, W: Write> T<'a, W> {
    fn now_ms(&self) -> u128 {
        self.start.elapsed().as_millis()
    }

    // poll every live connection until nothing is ready; tear down the ones that quit.
    async fn settle(&mut self) {
        for _round in 0..50 {
            let mut progress = false;
            let ids: Vec<usize> = self.slots.keys().copied().collect();
            for c in ids {
                for _ in 0..1000 {
                    let slot = self.slots.get_mut(&c).unwrap();
                    if slot.cs.is_none() {
                        break;
                    }
                    if slot.cs.as_ref().unwrap().is_quit() {
                        let cs = slot.cs.take().unwrap();
                        self.ms.remove_user(&cs).await;
                        drop(cs);
                        let t = self.now_ms();
                        self.lines.push(format!("ev closed {} @{}", c, t));
                        progress = true;
                        break;
                    }
                    let cs = slot.cs.as_mut().unwrap();
                    let r = AssertUnwindSafe(self.ms.process(cs)).catch_unwind().now_or_never();
                    match r {
                        None => break,
                        Some(Ok(_)) => progress = true,
                        Some(Err(_)) => {
                            let msg = LAST_PANIC.lock().unwrap().clone();
                            self.lines.push(format!("ev panic {} {}", c, esc(&msg)));
                            slot.cs = None;
                            progress = true;
                            break;
                        }
                    }
                }
            }
            if !progress {
                break;
            }
            spin(3).await;
        }
    }

    // read everything the clients have received so far (delimited by a fence written straight
    // to each live connection's socket).
    async fn collect(&mut self) {
        self.fence_no += 1;
        let fence = format!("FENCE {}", self.fence_no);
        let t = self.now_ms();
        let ids: Vec<usize> = self.slots.keys().copied().collect();
        for c in ids {
            let slot = self.slots.get_mut(&c).unwrap();
            let live = slot.cs.is_some();
            if live && !slot.cs.as_mut().unwrap().verif_fence(fence.clone()).await {
                continue;
            }
            let mut done = false;
            let mut tries = 0;
            let mut tmp = [0u8; 65536];
            while !done {
                while let Some(p) = slot.buf.iter().position(|b| *b == b'\n') {
                    let mut l: Vec<u8> = slot.buf.drain(..=p).collect();
                    l.pop();
                    if l.last() == Some(&b'\r') {
                        l.pop();
                    }
                    let s = String::from_utf8_lossy(&l).to_string();
                    if live && s == fence {
                        done = true;
                        break;
                    }
                    if s.contains(" 421 ") && s.contains(" SYNC") {
                        continue; // barrier reply
                    }
                    self.lines.push(format!("out {} @{} {}", c, t, esc(&s)));
                }
                if done {
                    break;
                }
                match slot.client.try_read(&mut tmp) {
                    Ok(0) => done = true,
                    Ok(n) => slot.buf.extend_from_slice(&tmp[..n]),
                    Err(ref e) if e.kind() == std::io::ErrorKind::WouldBlock => {
                        if !live {
                            // closed connection: give the kernel a moment, then stop
                            tries += 1;
                            if tries > 50 {
                                done = true;
                            }
                        } else {
                            tries += 1;
                            if tries > 20000 {
                                self.lines.push(format!("ev readtimeout {}", c));
                                done = true;
                            }
                        }
                        std::thread::sleep(Duration::from_micros(50));
                        spin(2).await;
                    }
                    Err(_) => done = true,
                }
            }
        }
    }

    async fn send_line_and_sync(&mut self, c: usize, text: &str) {
        self.sync_no += 1;
        let token = format!("SYNC{}", self.sync_no);
        let data = format!("{}\r\n{}\r\n", text, token);
        {
            let slot = self.slots.get_mut(&c).unwrap();
            let mut off = 0;
            let bytes = data.as_bytes();
            while off < bytes.len() {
                match slot.client.try_write(&bytes[off..]) {
                    Ok(n) => off += n,
                    Err(_) => {
                        std::thread::sleep(Duration::from_micros(50));
                        spin(2).await;
                    }
                }
            }
        }
        // poll until the barrier's 421 reply has been produced (per-connection FIFO)
        let needle = format!(" {} ", token);
        for _ in 0..20000 {
            self.settle().await;
            let slot = self.slots.get_mut(&c).unwrap();
            if slot.cs.is_none() {
                break;
            }
            let mut tmp = [0u8; 65536];
            match slot.client.try_read(&mut tmp) {
                Ok(n) if n > 0 => slot.buf.extend_from_slice(&tmp[..n]),
                _ => {}
            }
            if String::from_utf8_lossy(&slot.buf).contains(&needle) {
                break;
            }
            std::thread::sleep(Duration::from_micros(50));
            spin(2).await;
        }
    }
}

async fn run_seq<W: Write>(cfg: MainConfig, ops: &[&str], out: &mut W) {
    let listener = TcpListener::bind("127.0.0.1:0").await.unwrap();
    let mut t = T {
        ms: MainState::new_from_config(cfg),
        slots: BTreeMap::new(),
        out,
        start: tokio::time::Instant::now(),
        fence_no: 0,
        sync_no: 0,
        lines: vec![],
    };
    for (k, op) in ops.iter().enumerate() {
        let toks: Vec<&str> = op.split(' ').collect();
        t.lines.clear();
        match toks[0] {
            "connect" => {
                let c: usize = toks[1].parse().unwrap();
                let ip: IpAddr = toks[2].parse().unwrap();
                let addr = listener.local_addr().unwrap();
                // non-parking connect/accept
                let mut cf = Box::pin(TcpStream::connect(addr));
                let mut af = Box::pin(listener.accept());
                let (mut client, mut server) = (None, None);
                for _ in 0..100000 {
                    if client.is_none() {
                        if let Some(r) = (&mut cf).now_or_never() {
                            client = Some(r.unwrap());
                        }
                    }
                    if server.is_none() {
                        if let Some(r) = (&mut af).now_or_never() {
                            server = Some(r.unwrap().0);
                        }
                    }
                    if client.is_some() && server.is_some() {
                        break;
                    }
                    std::thread::sleep(Duration::from_micros(50));
                    spin(2).await;
                }
                let (client, server) = (client.unwrap(), server.unwrap());
                server.set_nodelay(true).ok();
                client.set_nodelay(true).ok();
                let framed = Framed::new(
                    DualTcpStream::PlainStream(server),
                    IRCLinesCodec::new_with_max_length(2000),
                );
                if let Some(cs) = t.ms.register_conn_state(ip, framed) {
                    t.slots.insert(
                        c,
                        Slot {
                            cs: Some(cs),
                            client,
                            buf: vec![],
                        },
                    );
                }
            }
            "line" => {
                let c: usize = toks[1].parse().unwrap();
                if t.slots.get(&c).map_or(false, |s| s.cs.is_some()) {
                    let text = unesc(toks[2]);
                    t.send_line_and_sync(c, &text).await;
                } else {
                    t.lines.push(format!("ev dead {}", c));
                }
                t.settle().await;
                t.collect().await;
            }
            "advance" => {
                let ms: u64 = toks[1].parse().unwrap();
                let mut left = ms;
                while left > 0 {
                    let d = left.min(STEP_MS);
                    tokio::time::advance(Duration::from_millis(d)).await;
                    left -= d;
                    spin(8).await;
                    t.settle().await;
                    t.collect().await;
                }
            }
            other => panic!("unknown timer op {}", other),
        }
        writeln!(t.out, "op {} {}", k + 1, op).unwrap();
        for l in &t.lines {
            writeln!(t.out, "{}", l).unwrap();
        }
        writeln!(t.out, "endop").unwrap();
    }
}

pub(crate) fn run_file<W: Write>(input: &str, out: &mut W) {
    let mut cfg_lines: Vec<Vec<String>> = vec![];
    let mut ops: Vec<&str> = vec![];
    let mut in_seq = false;
    for line in input.lines() {
        if line.is_empty() || line.starts_with('#') {
            continue;
        }
        if line.starts_with("seq ") {
            cfg_lines.clear();
            ops.clear();
            in_seq = false;
            writeln!(out, "{}", line).unwrap();
        } else if line.starts_with("cfg ") {
            cfg_lines.push(line.split(' ').map(|s| s.to_string()).collect());
        } else if line == "begin" {
            in_seq = true;
        } else if line == "end" {
            let cfg = build_config(&cfg_lines);
            let rt = tokio::runtime::Builder::new_current_thread()
                .enable_all()
                .start_paused(true)
                .build()
                .unwrap();
            rt.block_on(run_seq(cfg, &ops, out));
            rt.shutdown_background();
            writeln!(out, "endseq").unwrap();
            in_seq = false;
        } else if in_seq {
            ops.push(line);
        }
    }
}
