// conc mode (C18): the REAL server (`run_server`: real accept loop, real `user_state_process`
// tasks) on a multi-thread runtime.  A sequential set-up phase (each line followed by a barrier)
// is followed by a burst in which every connection fires its commands back to back, all
// connections at once.  Afterwards every connection is synchronised twice, all output is read
// and the shared state is dumped.  The Python side searches a sequential model run
// (an interleaving of the burst commands) that explains the observed outcome.
use crate::orch::build_config;
use crate::*;
use std::collections::BTreeMap;
use std::io::Write;
use std::sync::Arc;
use std::time::Duration;
use tokio::io::{AsyncReadExt, AsyncWriteExt};
use tokio::net::TcpStream;

struct Cl {
    stream: TcpStream,
    buf: Vec<u8>,
    eof: bool,
}

const TMO: Duration = Duration::from_secs(15);

impl Cl {
    // read lines until one contains `needle` (returned lines exclude it); None on EOF/timeout
    async fn read_until(&mut self, needle: &str, out: &mut Vec<String>) -> bool {
        let mut tmp = [0u8; 65536];
        loop {
            while let Some(p) = self.buf.iter().position(|b| *b == b'\n') {
                let mut l: Vec<u8> = self.buf.drain(..=p).collect();
                l.pop();
                if l.last() == Some(&b'\r') {
                    l.pop();
                }
                let s = String::from_utf8_lossy(&l).to_string();
                if s.contains(needle) {
                    return true;
                }
                if s.contains(" 421 ") && s.contains(" SYNC") {
                    continue;
                }
                out.push(s);
            }
            if self.eof {
                return false;
            }
            match tokio::time::timeout(TMO, self.stream.read(&mut tmp)).await {
                Err(_) => {
                    out.push("<<timeout>>".to_string());
                    return false;
                }
                Ok(Ok(0)) | Ok(Err(_)) => {
                    self.eof = true;
                }
                Ok(Ok(n)) => self.buf.extend_from_slice(&tmp[..n]),
            }
        }
    }
}

// Synchronise every connection until nothing new arrives.  The per-connection select! of the
// server picks at random between its queue of relayed messages and its socket, so a SYNC line
// can overtake relays that are already queued: one barrier is not enough.  Rounds (each: SYNC to
// every connection, read up to its 421) are repeated, 10 ms apart, until `quiet_needed`
// consecutive rounds brought no line at all.
async fn quiesce(
    clients: &mut BTreeMap<usize, Cl>,
    seqno: usize,
    sync_no: &mut usize,
    outs: &mut BTreeMap<usize, Vec<String>>,
    quiet_needed: usize,
    skip: &std::collections::BTreeSet<usize>,
) {
    let mut quiet = 0;
    let mut round = 0;
    let mut stalled = false;
    while round < 2 || (quiet < quiet_needed && round < 80 && !stalled) {
        if round >= 1 {
            tokio::time::sleep(Duration::from_millis(10)).await;
        }
        round += 1;
        let mut fresh = 0usize;
        for (c, cl) in clients.iter_mut() {
            if skip.contains(c) {
                continue;
            }
            *sync_no += 1;
            let tok = format!("SYNC{}X{}", seqno, *sync_no);
            if !cl.eof {
                cl.stream.write_all(format!("{}\r\n", tok).as_bytes()).await.ok();
            }
            let v = outs.entry(*c).or_default();
            let before = v.len();
            cl.read_until(&format!(" {} ", tok), v).await;
            fresh += v.len() - before;
            if v.last().map(|x| x == "<<timeout>>").unwrap_or(false) {
                stalled = true; // do not wait another 80 x 15 s
            }
        }
        if fresh == 0 {
            quiet += 1;
        } else {
            quiet = 0;
        }
    }
}

async fn run_seq<W: Write>(mut cfg: MainConfig, ops: &[&str], out: &mut W, seqno: usize) {
    // pick a free port
    let port = {
        let l = std::net::TcpListener::bind("127.0.0.1:0").unwrap();
        l.local_addr().unwrap().port()
    };
    cfg.port = port;
    cfg.listen = "127.0.0.1".parse().unwrap();
    let (ms, handle) = match run_server(cfg).await {
        Ok(x) => x,
        Err(e) => {
            writeln!(out, "ev server-start-failed {}", esc(&e.to_string())).unwrap();
            return;
        }
    };
    let mut clients: BTreeMap<usize, Cl> = BTreeMap::new();
    let mut sync_no = 0usize;
    let mut phase = "setup";
    let mut burst: BTreeMap<usize, Vec<String>> = BTreeMap::new();
    // connections the harness does not read before the burst is over (a client that stopped reading)
    let mut muted: std::collections::BTreeSet<usize> = Default::default();
    let mut gorder: Vec<usize> = vec![];
    for op in ops {
        let toks: Vec<&str> = op.split(' ').collect();
        match toks[0] {
            "setup" => phase = "setup",
            "burst" => phase = "burst",
            "connect" => {
                let c: usize = toks[1].parse().unwrap();
                match tokio::time::timeout(TMO, TcpStream::connect(("127.0.0.1", port))).await {
                    Ok(Ok(s)) => {
                        s.set_nodelay(true).ok();
                        s.set_linger(Some(Duration::from_secs(0))).ok(); // no TIME_WAIT pile-up
                        clients.insert(
                            c,
                            Cl {
                                stream: s,
                                buf: vec![],
                                eof: false,
                            },
                        );
                    }
                    _ => writeln!(out, "ev connect-failed {}", c).unwrap(),
                }
            }
            "connect-small" => {
                // a client with a tiny receive buffer: the server's writes to it block early
                let c: usize = toks[1].parse().unwrap();
                let sock = tokio::net::TcpSocket::new_v4().unwrap();
                sock.set_recv_buffer_size(2048).ok();
                let addr: std::net::SocketAddr = format!("127.0.0.1:{}", port).parse().unwrap();
                match tokio::time::timeout(TMO, sock.connect(addr)).await {
                    Ok(Ok(s)) => {
                        s.set_nodelay(true).ok();
                        s.set_linger(Some(Duration::from_secs(0))).ok(); // no TIME_WAIT pile-up
                        clients.insert(
                            c,
                            Cl {
                                stream: s,
                                buf: vec![],
                                eof: false,
                            },
                        );
                    }
                    _ => writeln!(out, "ev connect-failed {}", c).unwrap(),
                }
            }
            "send" => {
                // write a line without waiting for (or reading) any answer
                let c: usize = toks[1].parse().unwrap();
                if let Some(cl) = clients.get_mut(&c) {
                    let data = format!("{}\r\n", unesc(toks[2]));
                    cl.stream.write_all(data.as_bytes()).await.ok();
                }
            }
            "sleep" => {
                let ms: u64 = toks[1].parse().unwrap();
                tokio::time::sleep(Duration::from_millis(ms)).await;
            }
            "gorder" => {
                // gated burst: the connections fire one after the other (in this order) while the harness
                // holds the state write lock, so that their handlers queue on the lock in this order
                gorder = toks[1..].iter().map(|x| x.parse().unwrap()).collect();
            }
            "mute" => {
                muted.insert(toks[1].parse().unwrap());
            }
            "line" => {
                let c: usize = toks[1].parse().unwrap();
                let text = unesc(toks[2]);
                if phase == "setup" {
                    if let Some(cl) = clients.get_mut(&c) {
                        sync_no += 1;
                        let tok = format!("SYNC{}X{}", seqno, sync_no);
                        let data = format!("{}\r\n{}\r\n", text, tok);
                        cl.stream.write_all(data.as_bytes()).await.ok();
                        let mut sink = vec![];
                        cl.read_until(&format!(" {} ", tok), &mut sink).await;
                    }
                } else {
                    burst.entry(c).or_default().push(text);
                }
            }
            "endburst" => {
                // state after set-up (give relays of the set-up phase a moment: sync everyone)
                let mut sink: BTreeMap<usize, Vec<String>> = BTreeMap::new();
                quiesce(&mut clients, seqno, &mut sync_no, &mut sink, 4, &muted).await;
                if sink.values().any(|v| v.iter().any(|x| x == "<<timeout>>")) {
                    writeln!(out, "ev setup-sync-timeout").unwrap();
                }
                let d0 = ms.verif_dump().await;
                writeln!(out, "setupstate").unwrap();
                write!(out, "{}", d0).unwrap();
                if !gorder.is_empty() {
                    let guard = ms.verif_hold_state().await;
                    for c in gorder.iter() {
                        if let (Some(cl), Some(lines)) = (clients.get_mut(c), burst.get(c)) {
                            let data: String = lines.iter().map(|l| format!("{}\r\n", l)).collect();
                            cl.stream.write_all(data.as_bytes()).await.ok();
                        }
                        // let the connection's task read the line and park on the lock
                        tokio::time::sleep(Duration::from_millis(25)).await;
                    }
                    drop(guard);
                    burst.clear();
                }
                // the burst: all connections at once, each its lines back to back
                let barrier = Arc::new(tokio::sync::Barrier::new(burst.len().max(1)));
                let mut tasks = vec![];
                let mut taken: BTreeMap<usize, Cl> = BTreeMap::new();
                for (c, _) in burst.iter() {
                    if let Some(cl) = clients.remove(c) {
                        taken.insert(*c, cl);
                    }
                }
                for (c, mut cl) in taken {
                    let lines = burst.get(&c).cloned().unwrap_or_default();
                    let b = barrier.clone();
                    tasks.push(tokio::spawn(async move {
                        let data: String = lines.iter().map(|l| format!("{}\r\n", l)).collect();
                        b.wait().await;
                        cl.stream.write_all(data.as_bytes()).await.ok();
                        (c, cl)
                    }));
                }
                for t in tasks {
                    if let Ok((c, cl)) = t.await {
                        clients.insert(c, cl);
                    }
                }
                // two synchronisation rounds over every connection, collecting what arrived
                let mut outs: BTreeMap<usize, Vec<String>> = BTreeMap::new();
                quiesce(&mut clients, seqno, &mut sync_no, &mut outs, 6, &Default::default()).await;
                for (c, ls) in outs {
                    for l in ls {
                        writeln!(out, "burstout {} {}", c, esc(&l)).unwrap();
                    }
                }
                let d1 = ms.verif_dump().await;
                writeln!(out, "finalstate").unwrap();
                write!(out, "{}", d1).unwrap();
            }
            other => panic!("unknown conc op {}", other),
        }
    }
    drop(clients);
    handle.abort();
}

pub(crate) fn run_file<W: Write>(input: &str, out: &mut W) {
    let workers: usize = std::env::var("VERIF_WORKERS")
        .ok()
        .and_then(|x| x.parse().ok())
        .unwrap_or(4);
    let mut cfg_lines: Vec<Vec<String>> = vec![];
    let mut ops: Vec<&str> = vec![];
    let mut in_seq = false;
    let mut seqno = 0;
    for line in input.lines() {
        if line.is_empty() || line.starts_with('#') {
            continue;
        }
        if line.starts_with("seq ") {
            cfg_lines.clear();
            ops.clear();
            in_seq = false;
            seqno += 1;
            writeln!(out, "{}", line).unwrap();
        } else if line.starts_with("cfg ") {
            cfg_lines.push(line.split(' ').map(|s| s.to_string()).collect());
        } else if line == "begin" {
            in_seq = true;
        } else if line == "end" {
            let cfg = build_config(&cfg_lines);
            let rt = tokio::runtime::Builder::new_multi_thread()
                .worker_threads(workers)
                .enable_all()
                .build()
                .unwrap();
            rt.block_on(run_seq(cfg, &ops, out, seqno));
            rt.shutdown_background();
            writeln!(out, "endseq").unwrap();
            in_seq = false;
        } else if in_seq {
            ops.push(line);
        }
    }
}
