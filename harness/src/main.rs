// irc-harness: drives the REAL sources of /repo (compiled in through #[path]) and prints
// canonical transcripts that are compared with the Lean model (see /verif/DESIGN.md 4).
//
//   irc-harness run  <ops-file>      orchestrated mode: real MainState, real codec,
//                                    real process()/remove_user(), loopback sockets
//   irc-harness fn   <calls-file>    pure-function mode
#![allow(dead_code, unused_imports, unused_variables, clippy::all)]

#[path = "/repo/src/command.rs"]
mod command;
#[path = "/repo/src/config.rs"]
mod config;
#[path = "/repo/src/help.rs"]
mod help;
#[path = "/repo/src/reply.rs"]
mod reply;
#[path = "/repo/src/state/mod.rs"]
mod state;
#[path = "/repo/src/utils.rs"]
mod utils;

use command::*;
use config::*;
use state::*;
use utils::*;

mod conc;
mod fnmode;
mod live;
mod orch;
mod timer;

use std::io::Write;

// ---------------------------------------------------------------- escaping

pub(crate) fn esc(s: &str) -> String {
    verif_esc(s)
}

pub(crate) fn unesc(s: &str) -> String {
    if s == "%e" {
        return String::new();
    }
    let mut out = String::new();
    let mut it = s.chars().peekable();
    while let Some(c) = it.next() {
        if c == '%' {
            let mut v: u32 = 0;
            for h in it.by_ref() {
                if h == ';' {
                    break;
                }
                v = v * 16 + h.to_digit(16).unwrap_or(0);
            }
            out.push(char::from_u32(v).unwrap_or('\u{fffd}'));
        } else {
            out.push(c);
        }
    }
    out
}

pub(crate) fn unesc_list(s: &str) -> Vec<String> {
    if s == "%n" {
        vec![]
    } else {
        s.split(',').map(unesc).collect()
    }
}

pub(crate) fn unesc_opt(s: &str) -> Option<String> {
    if s == "-" {
        None
    } else {
        Some(unesc(&s[1..]))
    }
}

fn main() {
    let args: Vec<String> = std::env::args().collect();
    if args.len() < 3 {
        eprintln!("usage: irc-harness run|fn|timer <file>");
        std::process::exit(2);
    }
    // silence panic messages of caught panics; remember the last one.
    std::panic::set_hook(Box::new(|info| {
        let loc = info
            .location()
            .map(|l| format!("{}:{}", l.file(), l.line()))
            .unwrap_or_default();
        let msg = if let Some(s) = info.payload().downcast_ref::<&str>() {
            s.to_string()
        } else if let Some(s) = info.payload().downcast_ref::<String>() {
            s.clone()
        } else {
            "?".to_string()
        };
        eprintln!("panic: {} {}", loc, msg); // stderr is shown only when the harness itself fails
        *orch::LAST_PANIC.lock().unwrap() = format!("{} {}", loc, msg);
    }));
    let input = std::fs::read_to_string(&args[2]).expect("cannot read input file");
    let stdout = std::io::stdout();
    let mut out = std::io::BufWriter::new(stdout.lock());
    match args[1].as_str() {
        "run" => orch::run_file(&input, &mut out),
        "timer" => timer::run_file(&input, &mut out),
        "conc" => conc::run_file(&input, &mut out),
        "live" => live::run_file(&input, &mut out),
        "fn" => fnmode::run_file(&input, &mut out),
        _ => {
            eprintln!("unknown mode");
            std::process::exit(2);
        }
    }
    out.flush().unwrap();
}
