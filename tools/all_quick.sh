#!/bin/sh
# run all twenty quick checks on /repo's current tree (holding the working-tree lock that
# tools/seeded_run.py and tools/harmless_run.py use), four at a time; prints one line each
cd "$(dirname "$0")/.."
mkdir -p work
exec 9> work/repo.lock
flock 9
if [ -n "$(git -C /repo status --porcelain)" ]; then echo "/repo is not clean"; exit 2; fi
(cd harness && cargo build 2>&1 | tail -1)
for p in 01 02 03 04 05 06 07 08 09 10 11 12 13 14 15 16 17 18 19 20; do echo C$p; done | \
  xargs -P 4 -I{} sh -c './check {} --${VERIF_TIER:-quick} > work/allq-{}.log 2>&1; echo "{} rc=$? $(tail -1 work/allq-{}.log)"'
