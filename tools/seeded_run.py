#!/usr/bin/env python3
"""apply every seeded change under /verif/seeded/<id>/ to /repo, run the quick check of the
property it breaks, undo; write seeded/RESULTS.md.  Never leaves /repo modified."""
import os, sys, json, subprocess, glob
V = os.path.dirname(os.path.dirname(os.path.abspath(__file__)))
only = sys.argv[1:]
import fcntl
os.makedirs(V + "/work", exist_ok=True)
_lk = open(V + "/work/repo.lock", "w")
fcntl.flock(_lk, fcntl.LOCK_EX)  # one user of /repo's working tree at a time (see also thorough loops)
rows = []
for d in sorted(glob.glob(V + "/seeded/*/")):
    name = os.path.basename(d.rstrip("/"))
    if (only and name not in only) or not os.path.exists(d + "patch.diff"):
        continue
    pid = name.split("-")[0]
    st = subprocess.run(["git", "-C", "/repo", "status", "--porcelain"], capture_output=True, text=True).stdout
    if st.strip():
        sys.exit("/repo is not clean")
    r = subprocess.run(["git", "-C", "/repo", "apply", d + "patch.diff"], capture_output=True, text=True)
    if r.returncode != 0:
        rows.append((name, pid, "patch does not apply", ""))
        continue
    try:
        out = subprocess.run([V + "/check", pid, "--quick"], capture_output=True, text=True, cwd=V).stdout
    finally:
        subprocess.run(["git", "-C", "/repo", "checkout", "--", "."])
    v = [l for l in out.split("\n") if l.startswith("VIOLATION")]
    verdict = "CAUGHT" if v else "MISSED"
    kinds = sorted({("concrete" if not l.endswith("no-failing-input-found") else "no-failing-input-found") + ":" +
                    l.split("replay=")[1].split("/")[-1].split("-")[1] for l in v})
    rows.append((name, pid, verdict, ", ".join(kinds)))
    print(name, verdict, kinds, flush=True)
with open(V + "/seeded/RESULTS.md", "a" if only else "w") as f:
    if not only:
        f.write("| seeded change | property | quick check | how |\n|---|---|---|---|\n")
    for r in rows:
        f.write("| %s | %s | %s | %s |\n" % r)
# leave the harness built from the clean tree again
subprocess.run(["cargo", "build"], cwd=V + "/harness", capture_output=True)
