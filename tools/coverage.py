#!/usr/bin/env python3
"""coverage.py [--lines]
How much of /repo's source the correspondence runs actually execute.  Builds the harness with
`-C instrument-coverage` (nightly toolchain, its own target directory under work/), replays the input files that the
last quick checks left in work/ (orchestrated sequences, pure-function calls, timer, real-server bursts, live keep-alive,
result-order pipelines) and prints llvm-cov's per-file summary; with --lines also the source lines never executed.
Writes tables/coverage_summary.json.  Development aid: it tells where the generators are blind; it is not a check."""
import os, sys, glob, json, subprocess, re
V = os.path.dirname(os.path.dirname(os.path.abspath(__file__)))
W = V + "/work"
LLVMB = None
for tc in glob.glob(os.path.expanduser("~/.rustup/toolchains/nightly-x86_64*/lib/rustlib/x86_64-unknown-linux-gnu/bin")):
    if os.path.exists(tc + "/llvm-cov"):
        LLVMB = tc
if LLVMB is None:
    sys.exit("no llvm-cov in a nightly toolchain")


def sh(cmd, **kw):
    return subprocess.run(cmd, shell=True, capture_output=True, text=True, **kw)


env = dict(os.environ)
env["RUSTFLAGS"] = "--cfg matszpk_simple_irc_server_verif -C instrument-coverage"
r = subprocess.run("cargo +nightly build --offline --target-dir %s/cov-target" % W, shell=True, cwd=V + "/harness",
                   env=env, capture_output=True, text=True)
if r.returncode != 0:
    sys.exit(r.stderr[-2000:])
H = W + "/cov-target/debug/irc-harness"
sh("rm -rf %s/cov-prof; mkdir -p %s/cov-prof" % (W, W))
jobs = []
for f in sorted(glob.glob(W + "/C[0-9][0-9]-*.ops")):
    jobs.append(("run", f))
for f in sorted(glob.glob(V + "/corpus/*/*.ops")):
    jobs.append(("run", f))
for f in sorted(glob.glob(W + "/fn-*.txt")):
    jobs.append(("fn", f))
for f in sorted(glob.glob(W + "/timer-*.ops")):
    jobs.append(("timer", f))
for f in sorted(glob.glob(W + "/conc-[0-9]*-w4.ops")) + sorted(glob.glob(W + "/order-*.ops")):
    jobs.append(("conc", f))
for f in sorted(glob.glob(W + "/live-[0-9]*.ops")):
    if not f.endswith("-re.ops"):
        jobs.append(("live", f))
from concurrent.futures import ThreadPoolExecutor


def run(j):
    i, (mode, f) = j
    e = dict(os.environ)
    e["LLVM_PROFILE_FILE"] = "%s/cov-prof/p%d.profraw" % (W, i)
    e["VERIF_WORKERS"] = "4"
    subprocess.run([H, mode, f], stdout=subprocess.DEVNULL, stderr=subprocess.DEVNULL, env=e, timeout=3000)


with ThreadPoolExecutor(8) as ex:
    list(ex.map(run, enumerate(jobs)))
sh("%s/llvm-profdata merge -sparse %s/cov-prof/*.profraw -o %s/cov.profdata" % (LLVMB, W, W))
rep = sh("%s/llvm-cov report %s -instr-profile=%s/cov.profdata /repo/src" % (LLVMB, H, W)).stdout
print(rep)
summary = {"inputs": {m: sum(1 for x in jobs if x[0] == m) for m in ("run", "fn", "timer", "conc", "live")}, "files": {}}
for l in rep.split("\n"):
    t = l.split()
    if len(t) >= 10 and t[0].endswith(".rs"):
        summary["files"][t[0]] = {"lines": int(t[7]), "missed_lines": int(t[8]), "line_cover": t[9]}
    if t and t[0] == "TOTAL":
        summary["total"] = {"lines": int(t[7]), "missed_lines": int(t[8]), "line_cover": t[9]}
json.dump(summary, open(V + "/tables/coverage_summary.json", "w"), indent=1)
if "--lines" in sys.argv:
    for f in ["state/channel_cmds.rs", "state/conn_cmds.rs", "state/srv_query_cmds.rs", "state/rest_cmds.rs",
              "state/structs.rs", "state/mod.rs", "command.rs", "utils.rs", "config.rs", "reply.rs"]:
        out = sh("%s/llvm-cov show %s -instr-profile=%s/cov.profdata /repo/src/%s" % (LLVMB, H, W, f)).stdout
        miss = [l for l in out.split("\n") if re.match(r"^ +\d+\| +0\|", l)]
        print("==", f, len(miss), "lines never executed")
        for l in miss:
            print(l[:140])
