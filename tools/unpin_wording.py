#!/usr/bin/env python3
"""unpin_wording.py [--apply]
The non-vacuity `example`s in lean/Irc/Props/*.lean quoted numeric replies as string literals
(`str ":irc.irc 433 alice bob :Nickname is already in use"`).  The reply texts are REGENERATED from /repo/src/reply.rs, so a
harmless re-wording of a human-readable trailing text made those examples (and with them the build of the property module)
fail.  This tool rewrites such a literal into a call of the generated reply function with the same arguments,
`(str ":irc.irc " ++ Reply.ErrNicknameInUse433 (client := str "alice") (nick := str "bob"))`, whenever the literal unifies
with the current format of exactly one reply; literals that do not unify (list-valued replies, relayed commands) stay.
One-off maintenance tool; kept for the record and for future examples."""
import re, sys, os, glob
V = os.path.dirname(os.path.dirname(os.path.abspath(__file__)))
reply = open(V + "/lean/Irc/Reply.lean").read()

# name -> (format variants, [(param, type)])
defs = {}
for m in re.finditer(r"/-- (`.*?`) -/\ndef ((?:Rpl|Err)\w+)(.*?):\s*Str\s*:=\n(.*?)(?=\n\n|\Z)", reply, re.S):
    fmts, name, args, body = m.group(1), m.group(2), m.group(3), m.group(4)
    params = []
    depth, cur = 0, ""
    for ch in args:
        if ch == "(":
            depth += 1
            if depth == 1:
                cur = ""
                continue
        if ch == ")":
            depth -= 1
            if depth == 0:
                names, ty = cur.split(":", 1)
                for n in names.split():
                    params.append((n, ty.strip()))
                continue
        if depth >= 1:
            cur += ch
    if any(t not in ("Str", "Nat") for _, t in params):
        continue
    if "let " in body or "if " in body or "match " in body:
        continue
    # wire order of the parameters = order of identifiers in the body
    order = [x for x in re.findall(r'"(?:[^"\\]|\\.)*"|([A-Za-z_]\w*)', body) if x and x in dict(params)]
    variants = [f.strip("` ") for f in fmts.split("|")]
    if len(variants) != 1:
        continue
    fmt = variants[0]
    if fmt.count("{}") != len(order):
        continue
    defs[name] = (fmt, order, dict(params))


def unify(text):
    """text = reply without the ':server ' prefix; returns Lean call or None"""
    hits = []
    for name, (fmt, order, types) in defs.items():
        parts = fmt.split("{}")
        rx = "^" + "(.*?)".join(re.escape(p) for p in parts) + "$"
        # middle parameters contain no blank; the last placeholder (if it ends the format) may
        m = re.match(rx, text, re.S)
        if not m:
            continue
        vals = list(m.groups())
        ok = True
        for i, (v, p) in enumerate(zip(vals, order)):
            last_trailing = (i == len(vals) - 1 and fmt.endswith("{}") and " :" in fmt)
            if types[p] == "Nat":
                if not re.match(r"^\d+$", v):
                    ok = False
            elif not last_trailing and not (" :" in fmt and fmt.index(" :") < len("{}".join(parts[:i + 1]))) and (" " in v or v == ""):
                ok = False
        if ok:
            hits.append((name, vals, order, types))
    if len(hits) != 1:
        return None
    name, vals, order, types = hits[0]
    args = []
    for v, p in zip(vals, order):
        if types[p] == "Nat":
            args.append("(%s := %s)" % (p, v))
        else:
            args.append('(%s := str "%s")' % (p, v))
    return "Reply.%s %s" % (name, " ".join(args))


def rewrite(src):
    n = 0

    def sub(m):
        nonlocal n
        lit = m.group(1)
        mm = re.match(r"^(:[^ ]+ )(\d{3} .*)$", lit, re.S)
        if mm:
            pre, body = mm.group(1), mm.group(2)
        else:
            mm = re.match(r"^(\d{3} .*)$", lit, re.S)
            if not mm:
                return m.group(0)
            pre, body = "", mm.group(1)
        if "\\" in body:
            return m.group(0)
        call = unify(body)
        if call is None:
            return m.group(0)
        n += 1
        if pre:
            return '(str "%s" ++ %s)' % (pre, call)
        return "(%s)" % call
    out = re.sub(r'str "((?:[^"\\]|\\.)*)"', sub, src)
    return out, n


def main():
    apply = "--apply" in sys.argv
    total = 0
    for f in sorted(glob.glob(V + "/lean/Irc/Props/*.lean")):
        src = open(f).read()
        out, n = rewrite(src)
        if n:
            total += n
            print("%-40s %d literals" % (os.path.basename(f), n))
            if apply:
                open(f, "w").write(out)
    print("total", total, "(applied)" if apply else "(dry run)")


if __name__ == "__main__":
    main()
