#!/usr/bin/env python3
"""apply each behaviour-preserving refactoring under /verif/seeded/harmless/h*.diff to /repo, run
ALL quick checks, undo; any VIOLATION is a false alarm.  Writes seeded/HARMLESS_RESULTS.md."""
import os, sys, glob, subprocess, json
from concurrent.futures import ThreadPoolExecutor
V = os.path.dirname(os.path.dirname(os.path.abspath(__file__)))
PIDS = ["C%02d" % i for i in range(1, 21)]
rows = []
import fcntl
os.makedirs(V + "/work", exist_ok=True)
_lk = open(V + "/work/repo.lock", "w")
fcntl.flock(_lk, fcntl.LOCK_EX)  # one user of /repo's working tree at a time
only = sys.argv[1:]
for d in sorted(glob.glob(V + "/seeded/harmless/h*.diff")):
    name = os.path.basename(d)
    if only and name.split(".")[0] not in only:
        continue
    if subprocess.run(["git", "-C", "/repo", "status", "--porcelain"], capture_output=True, text=True).stdout.strip():
        sys.exit("/repo is not clean")
    if subprocess.run(["git", "-C", "/repo", "apply", d]).returncode != 0:
        rows.append((name, "patch does not apply", ""))
        continue
    try:
        subprocess.run(["cargo", "build"], cwd=V + "/harness", capture_output=True)
        def one(pid):
            out = subprocess.run([V + "/check", pid, "--quick"], capture_output=True, text=True, cwd=V).stdout
            return pid, [l for l in out.split("\n") if l.startswith("VIOLATION")]
        with ThreadPoolExecutor(8) as ex:
            res = list(ex.map(one, PIDS))
    finally:
        subprocess.run(["git", "-C", "/repo", "checkout", "--", "."])
    bad = [(p, v) for p, v in res if v]
    rows.append((name, "no alarm" if not bad else "FALSE ALARM", "; ".join("%s: %s" % (p, v[0][:160]) for p, v in bad)))
    print(rows[-1], flush=True)
with open(V + "/seeded/HARMLESS_RESULTS.md", "w") as f:
    f.write("| refactoring | all 20 quick checks | detail |\n|---|---|---|\n")
    for r in rows:
        f.write("| %s | %s | %s |\n" % r)
subprocess.run(["cargo", "build"], cwd=V + "/harness", capture_output=True)
