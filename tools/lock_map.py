#!/usr/bin/env python3
"""Source-structure extractor (DESIGN.md 4.6): for every handler of MainState the sequence of
state-lock acquisitions and the `.await` points while a lock guard is live, plus the dispatch
and gate tables of process_internal.  Compared with /verif/tables/lock_map.json, which is what
the atomic sections declared in Irc/Conc.lean and the gate in Irc/Step.lean were written from.
  lock_map.py            compare, exit 1 on difference (prints the differences)
  lock_map.py --write    regenerate the table (only when the model has been updated to match)
"""
import re, sys, json, os
SRC = ["/repo/src/state/mod.rs", "/repo/src/state/conn_cmds.rs", "/repo/src/state/channel_cmds.rs",
       "/repo/src/state/rest_cmds.rs", "/repo/src/state/srv_query_cmds.rs"]
TABLE = os.path.join(os.path.dirname(os.path.dirname(os.path.abspath(__file__))), "tables", "lock_map.json")


def strip_tests(s):
    i = s.find("#[cfg(test)]")
    s = s if i < 0 else s[:i]
    s = re.sub(r'"(?:[^"\\\n]|\\.)*"', '""', s)  # string literals
    s = re.sub(r"//[^\n]*", "", s)               # comments mention function names too
    s = re.sub(r"/\*.*?\*/", "", s, flags=re.S)
    return s


def functions(s):
    """yield (name, body) of every fn (brace matching)"""
    for m in re.finditer(r"\bfn\s+(\w+)\s*(<[^>]*>)?\s*\(", s):
        i = s.find("{", m.end())
        # skip to the body's opening brace (after the signature, which may contain '->' types)
        depth = 0
        j = i
        while j < len(s):
            if s[j] == "{":
                depth += 1
            elif s[j] == "}":
                depth -= 1
                if depth == 0:
                    break
            j += 1
        yield m.group(1), s[i:j + 1]


KEEP_CALL = re.compile(r"^(process_\w+|authenticate|send_isupport)$")


def lock_sequence(body, helpers=None, depth=0):
    """ordered list of lock events: 'R' / 'W' acquisitions, and 'A' for an await that is neither a lock
    acquisition nor an output feed (e.g. password verification) — position matters.  A call of a private
    helper (any other fn of these files) is replaced by the helper's own sequence, so that extracting or
    inlining a helper does not change the table."""
    helpers = helpers or {}
    ev = []
    for m in re.finditer(r"self\s*\.\s*state\s*\.\s*(read|write)\s*\(\s*\)\s*\.\s*await|argon2_verify_password_async|spawn_blocking|\.authenticate\(|self\s*\.\s*process_\w+\(|self\s*\.\s*send_isupport\(|(?<![\w.])(?:self\s*\.\s*|Self::)?(\w+)\s*\(", body):
        t = m.group(0)
        if m.group(1) == "read":
            ev.append("R")
        elif m.group(1) == "write":
            ev.append("W")
        elif m.group(2) is not None:
            h = m.group(2)
            if KEEP_CALL.match(h):
                if re.match(r"(self\s*\.|Self::)", t) or h == "authenticate":
                    ev.append("call:" + h)
            elif h in helpers and depth < 4:
                ev += lock_sequence(helpers[h], helpers, depth + 1)
        elif "argon2" in t or "spawn_blocking" in t:
            ev.append("PWVERIFY")
        elif ".authenticate(" in t:
            ev.append("call:authenticate")
        else:
            ev.append("call:" + re.sub(r"[^\w]", "", t.replace("self", "")))
    return ev


def extract():
    table = {"handlers": {}, "gate_allowed": [], "dispatch": []}
    helpers = {}
    for path in SRC:
        for name, body in functions(strip_tests(open(path).read())):
            helpers.setdefault(name, body[1:])  # without the opening brace; fn header is not part of it
    for path in SRC:
        s = strip_tests(open(path).read())
        for name, body in functions(s):
            if name == "process_internal":
                continue  # its arms are alternatives: covered by the (sorted) gate and dispatch tables below
            if name.startswith("process_") or name in ("authenticate", "remove_user", "send_isupport",
                                                       "send_names_from_channel", "send_who_info"):
                key = os.path.basename(path) + "::" + name
                table["handlers"][key] = lock_sequence(body, helpers)
        if path.endswith("mod.rs"):
            m = re.search(r"match cmd \{\s*((?:\s*\w+\s*\{[^}]*\}\s*\|?)+)\s*=>\s*\{\s*\}", s)
            if m:
                table["gate_allowed"] = sorted(re.findall(r"(\w+)\s*\{", m.group(1)))
            table["dispatch"] = sorted(set(re.findall(r"(\w+)\s*\{[^}]*\}\s*=>\s*self\s*\.\s*(process_\w+)", s)))
            table["dispatch"] = [list(x) for x in table["dispatch"]]
    return table


def main():
    t = extract()
    if "--write" in sys.argv:
        json.dump(t, open(TABLE, "w"), indent=1, sort_keys=True)
        print("lock_map: table written (%d handlers)" % len(t["handlers"]))
        return 0
    old = json.load(open(TABLE))
    diffs = []
    moved = {k.split("::")[1]: v for k, v in t["handlers"].items()}  # a handler may move to another file
    for k in sorted(set(old["handlers"])):
        if old["handlers"].get(k) != t["handlers"].get(k, moved.get(k.split("::")[1])):
            diffs.append("handler %s: table %s, source now %s" % (k, old["handlers"].get(k), t["handlers"].get(k)))
    if old["gate_allowed"] != t["gate_allowed"]:
        diffs.append("gate: table %s, source now %s" % (old["gate_allowed"], t["gate_allowed"]))
    if old["dispatch"] != t["dispatch"]:
        diffs.append("dispatch table changed")
    print(json.dumps({"handlers": len(t["handlers"]), "differences": diffs}))
    return 1 if diffs else 0


if __name__ == "__main__":
    sys.exit(main())
