#!/usr/bin/env python3
"""reply_skeletons.py [--write]
The reply formats (`impl Display for Reply` in /repo/src/reply.rs) are REGENERATED into lean/Irc/Reply.lean on every run,
so a changed format changes model and implementation together and no differential run can see it.  The wording of the
human-readable trailing text may change freely; what the property theorems and every client rely on is the machine-readable
SKELETON of each reply: its numeric, the literal text and placeholders of the middle parameters, and WHICH fields appear in
WHICH order in the trailing parameter.  This extractor recomputes the skeletons from the regenerated Lean definitions and
compares them with /verif/tables/reply_skeletons.json.  Output: one JSON line {"replies": n, "differences": [...]}.
"""
import re, sys, json, os
V = os.path.dirname(os.path.dirname(os.path.abspath(__file__)))
SRC = V + "/lean/Irc/Reply.lean"
TAB = V + "/tables/reply_skeletons.json"


def skeletons():
    text = open(SRC).read()
    out = {}
    # definitions: `def Name (args...) : Str :=` body up to the next blank line followed by `/--` or `def` or `end`
    for m in re.finditer(r"^def ((?:Rpl|Err)\w+)(.*?):\s*Str\s*:=\n?(.*?)(?=^\s*$|\Z)", text, re.M | re.S):
        name, args, body = m.group(1), m.group(2), m.group(3)
        params = []
        depth, cur = 0, ""
        for ch in args:  # top-level parenthesised binder groups
            if ch == "(":
                depth += 1
                if depth == 1:
                    cur = ""
                    continue
            if ch == ")":
                depth -= 1
                if depth == 0:
                    params += cur.split(":")[0].split()
                    continue
            if depth >= 1:
                cur += ch
        toks = re.findall(r'str "((?:[^"\\]|\\.)*)"|([A-Za-z_][A-Za-z_0-9\.]*)', body)
        sk = ""
        trailing = False
        for lit, ident in toks:
            if ident:
                base = ident.split(".")[0]
                if base in params or re.match(r"^[a-z]\.\d$", ident):
                    sk += "{%s}" % ident
                continue
            if trailing:
                # wording may change; separators (no letters) are part of the machine-readable structure
                if lit and not re.search(r"[A-Za-z]", lit):
                    sk += lit
                continue
            if " :" in lit or lit.startswith(":"):
                i = lit.index(" :") + 2 if " :" in lit else 1
                sk += lit[:i] + "\u2026"
                rest = lit[i:]
                if rest and not re.search(r"[A-Za-z]", rest):
                    sk += rest
                trailing = True
            else:
                sk += lit
        out[name] = sk
    return out


def main():
    cur = skeletons()
    if "--write" in sys.argv:
        json.dump(cur, open(TAB, "w"), indent=1, ensure_ascii=False, sort_keys=True)
        print(json.dumps({"replies": len(cur), "differences": [], "written": TAB}))
        return
    try:
        tab = json.load(open(TAB))
    except Exception as e:
        print(json.dumps({"replies": len(cur), "differences": ["table missing: %s" % e]}))
        return
    diffs = []
    for k in sorted(set(cur) | set(tab)):
        if cur.get(k) != tab.get(k):
            diffs.append("reply %s: table %r, source now %r" % (k, tab.get(k), cur.get(k)))
    print(json.dumps({"replies": len(cur), "differences": diffs}, ensure_ascii=False))


if __name__ == "__main__":
    main()
