#!/usr/bin/env python3
"""development aid: generate sequences, run implementation harness and model, diff."""
import sys, os, subprocess, time
sys.path.insert(0, os.path.dirname(os.path.dirname(os.path.abspath(__file__))))
from vlib import gen, canon

V = os.path.dirname(os.path.dirname(os.path.abspath(__file__)))
HARNESS = V + "/harness/target/debug/irc-harness"
MODEL = V + "/lean/.lake/build/bin/ircmodel"

def main():
    profile = sys.argv[1]; seed = int(sys.argv[2]); nseq = int(sys.argv[3]); length = int(sys.argv[4])
    os.makedirs(V + "/work", exist_ok=True)
    ops = V + "/work/corr-%s-%d.ops" % (profile, seed)
    gen.write_ops_file(ops, profile, seed, nseq, length)
    t0 = time.time()
    impl = subprocess.run([HARNESS, "run", ops], capture_output=True, text=True)
    t1 = time.time()
    model = subprocess.run([MODEL, "run", ops], capture_output=True, text=True)
    t2 = time.time()
    if impl.returncode != 0 or model.returncode != 0:
        print("harness rc", impl.returncode, impl.stderr[-2000:]); print("model rc", model.returncode, model.stderr[-2000:])
    a = canon.parse_transcript(impl.stdout); b = canon.parse_transcript(model.stdout)
    print("impl %.2fs model %.2fs seqs %d/%d" % (t1 - t0, t2 - t1, len(a), len(b)))
    nd = 0; nops = 0; aborted = 0
    for sa, sb in zip(a, b):
        if sa.aborted: aborted += 1
        for oa, ob in zip(sa.ops, sb.ops):
            nops += 1
            d = canon.diff_ops(oa, ob)
            if d:
                nd += 1
                if nd <= int(os.environ.get("SHOW", "3")):
                    print("== %s op %d: %s" % (sa.name, oa.k, canon.unesc(oa.text.split(' ',2)[2]) if oa.text.startswith('line') else oa.text))
                    for what, x, y in d:
                        print("  --", what)
                        for l in x[:8]: print("     impl :", l[:300])
                        for l in y[:8]: print("     model:", l[:300])
                break
        if len(sa.ops) != len(sb.ops) and not sa.aborted:
            print("length mismatch", sa.name, len(sa.ops), len(sb.ops))
    print("ops %d, sequences with divergence %d, aborted(impl panic) %d" % (nops, nd, aborted))

main()
