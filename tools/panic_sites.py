#!/usr/bin/env python3
"""Source-structure extractor (DESIGN.md 4.6): inventory of the explicit panic sites
(`unwrap()`, `expect(`, `panic!`, `unreachable!`, `-= `, slice/index expressions with a
computed bound - `x[a..]`, `x[..b]`, `x[a..b]`; the full range `x[..]` and slice PATTERNS `[a, b, ..]` cannot panic and
are not counted) of the non-test handler code, per function.  Compared with
/verif/tables/panic_sites.json: every site in that table is represented in the Lean model by a
branch that sets `World.panicked` (proved unreachable under Inv) or is argued unreachable in
DESIGN.md.  A new or moved site is a panic the model does not know about.
  panic_sites.py            compare, exit 1 on difference
  panic_sites.py --write    regenerate the table"""
import re, sys, json, os
SRC = ["/repo/src/state/mod.rs", "/repo/src/state/structs.rs", "/repo/src/state/conn_cmds.rs",
       "/repo/src/state/channel_cmds.rs", "/repo/src/state/rest_cmds.rs", "/repo/src/state/srv_query_cmds.rs",
       "/repo/src/command.rs", "/repo/src/utils.rs", "/repo/src/config.rs"]
TABLE = os.path.join(os.path.dirname(os.path.dirname(os.path.abspath(__file__))), "tables", "panic_sites.json")
PATS = [("unwrap", r"\.unwrap\(\)"), ("expect", r"\.expect\("), ("panic", r"\bpanic!"), ("unreachable", r"\bunreachable!"),
        ("sub_assign", r"-=\s"), ("slice", r"(?<=[\w\)\]])\[(?!\.\.\])[^\]\n]*\.\.[^\]\n]*\]"), ("index", r"\w\[[a-z_]\w*( [-+] \w+)?\]")]


def strip(s):
    i = s.find("#[cfg(test)]")
    s = s if i < 0 else s[:i]
    s = re.sub(r"//[^\n]*", "", s)
    s = re.sub(r'"(?:[^"\\]|\\.)*"', '""', s)
    return s


def functions(s):
    for m in re.finditer(r"\bfn\s+(\w+)\s*(<[^>]*>)?\s*\(", s):
        i = s.find("{", m.end())
        depth, j = 0, i
        while j < len(s):
            if s[j] == "{":
                depth += 1
            elif s[j] == "}":
                depth -= 1
                if depth == 0:
                    break
            j += 1
        yield m.group(1), s[i:j + 1]


def extract():
    t = {}
    for path in SRC:
        s = strip(open(path).read())
        for name, body in functions(s):
            d = {k: len(re.findall(p, body)) for k, p in PATS}
            d = {k: v for k, v in d.items() if v}
            if d:
                key = os.path.basename(path) + "::" + name
                if key in t:
                    for k, v in d.items():
                        t[key][k] = t[key].get(k, 0) + v
                else:
                    t[key] = d
    return t


def main():
    t = extract()
    if "--write" in sys.argv:
        json.dump(t, open(TABLE, "w"), indent=1, sort_keys=True)
        print("panic_sites: %d functions, %d sites" % (len(t), sum(sum(v.values()) for v in t.values())))
        return 0
    old = json.load(open(TABLE))
    diffs = []

    # Harmless rewrites must not alarm: `.unwrap()` <-> `.expect(..)` <-> indexing are one category
    # ("this lookup must succeed"), code may move between functions and files.  So the comparison is on the
    # number of sites per CATEGORY over all files, and only an INCREASE matters (a removed site cannot
    # introduce a panic).
    CAT = {"unwrap": "lookup", "expect": "lookup", "index": "lookup", "panic": "explicit", "unreachable": "explicit",
           "sub_assign": "arith", "slice": "slice"}

    def per_cat(tab):
        agg = {}
        for k, d in tab.items():
            for kind, n in d.items():
                agg[CAT[kind]] = agg.get(CAT[kind], 0) + n
        return agg
    a, b = per_cat(old), per_cat(t)
    for cat in sorted(b):
        if b[cat] > a.get(cat, 0):
            kinds = [k for k, c in CAT.items() if c == cat]
            funcs = [k for k in t if sum(t[k].get(x, 0) for x in kinds) > sum(old.get(k, {}).get(x, 0) for x in kinds)]
            diffs.append("%d -> %d '%s' sites (functions with more than before: %s)" % (a.get(cat, 0), b[cat], cat, ", ".join(funcs)))
    print(json.dumps({"functions": len(t), "sites": sum(sum(v.values()) for v in t.values()), "differences": diffs}))
    return 1 if diffs else 0


if __name__ == "__main__":
    sys.exit(main())
