#!/usr/bin/env python3
"""Source-structure extractor (DESIGN.md 4.6): inventory of the explicit panic sites
(`unwrap()`, `expect(`, `panic!`, `unreachable!`, `-= `, slice/index expressions with a
computed bound) of the non-test handler code, per function.  Compared with
/verif/tables/panic_sites.json: every site in that table is represented in the Lean model by a
branch that sets `World.panicked` (proved unreachable under Inv) or is argued unreachable in
DESIGN.md.  A new or moved site is a panic the model does not know about.
  panic_sites.py            compare, exit 1 on difference
  panic_sites.py --write    regenerate the table"""
import re, sys, json, os
SRC = ["/repo/src/state/mod.rs", "/repo/src/state/structs.rs", "/repo/src/state/conn_cmds.rs",
       "/repo/src/state/channel_cmds.rs", "/repo/src/state/rest_cmds.rs", "/repo/src/state/srv_query_cmds.rs",
       "/repo/src/command.rs", "/repo/src/utils.rs", "/repo/src/config.rs"]
TABLE = os.path.join(os.path.dirname(os.path.dirname(os.path.abspath(__file__))), "tables", "panic_sites.json")
PATS = [("unwrap", r"\.unwrap\(\)"), ("expect", r"\.expect\("), ("panic", r"\bpanic!"), ("unreachable", r"\bunreachable!"),
        ("sub_assign", r"-=\s"), ("slice", r"\[[^\]\n]*\.\.[^\]\n]*\]"), ("index", r"\w\[[a-z_]\w*( [-+] \w+)?\]")]


def strip(s):
    i = s.find("#[cfg(test)]")
    s = s if i < 0 else s[:i]
    s = re.sub(r"//[^\n]*", "", s)
    s = re.sub(r'"(?:[^"\\]|\\.)*"', '""', s)
    return s


def functions(s):
    for m in re.finditer(r"\bfn\s+(\w+)\s*(<[^>]*>)?\s*\(", s):
        i = s.find("{", m.end())
        depth, j = 0, i
        while j < len(s):
            if s[j] == "{":
                depth += 1
            elif s[j] == "}":
                depth -= 1
                if depth == 0:
                    break
            j += 1
        yield m.group(1), s[i:j + 1]


def extract():
    t = {}
    for path in SRC:
        s = strip(open(path).read())
        for name, body in functions(s):
            d = {k: len(re.findall(p, body)) for k, p in PATS}
            d = {k: v for k, v in d.items() if v}
            if d:
                key = os.path.basename(path) + "::" + name
                if key in t:
                    for k, v in d.items():
                        t[key][k] = t[key].get(k, 0) + v
                else:
                    t[key] = d
    return t


def main():
    t = extract()
    if "--write" in sys.argv:
        json.dump(t, open(TABLE, "w"), indent=1, sort_keys=True)
        print("panic_sites: %d functions, %d sites" % (len(t), sum(sum(v.values()) for v in t.values())))
        return 0
    old = json.load(open(TABLE))
    diffs = []

    def per_file(tab):
        # code moved between functions of one file (a harmless refactoring) must not alarm:
        # compare the number of sites of each kind per source file; only an INCREASE matters
        # (a removed site cannot introduce a panic)
        agg = {}
        for k, d in tab.items():
            f = k.split("::")[0]
            for kind, n in d.items():
                agg[(f, kind)] = agg.get((f, kind), 0) + n
        return agg
    a, b = per_file(old), per_file(t)
    for key in sorted(b):
        if b[key] > a.get(key, 0):
            funcs = [k for k in t if k.startswith(key[0] + "::") and t[k].get(key[1], 0) > old.get(k, {}).get(key[1], 0)]
            diffs.append("%s: %d -> %d '%s' sites (functions: %s)" % (key[0], a.get(key, 0), b[key], key[1], ", ".join(funcs)))
    print(json.dumps({"functions": len(t), "sites": sum(sum(v.values()) for v in t.values()), "differences": diffs}))
    return 1 if diffs else 0


if __name__ == "__main__":
    sys.exit(main())
