#!/usr/bin/env python3
"""ingest_seed.py <worktree> <seed-id> [<file to paste the demo into>]
Confirms a seeded change produced by a sub-agent in a scratch worktree of /repo:
  1. MUTANT/patch.diff is exactly the worktree's diff of src/
  2. with the change the whole local suite passes (own network namespace: no port collisions)
  3. the demonstration fails with the change and passes without it
then copies it to /verif/seeded/<id>/ (meta.json gets a 'confirmed' record) and removes the worktree."""
import sys, os, re, json, subprocess, shutil
V = os.path.dirname(os.path.dirname(os.path.abspath(__file__)))
wt, sid = sys.argv[1], sys.argv[2]
M = wt + "/MUTANT"
def sh(cmd, **kw):
    return subprocess.run(cmd, shell=True, cwd=wt, capture_output=True, text=True, **kw)
NS = "unshare -rn sh -c 'ip link set lo up; TMPDIR=$(mktemp -d) %s'"
def tests(filt=""):
    r = sh(NS % ("cargo test --offline %s 2>&1" % filt))
    out = r.stdout
    m = re.findall(r"test result: (\w+)\. (\d+) passed; (\d+) failed", out)
    return m, out
rec = {}
patch = open(M + "/patch.diff").read()
sh("git checkout -- . ")
r = sh("git apply MUTANT/patch.diff")
assert r.returncode == 0, "patch does not apply: " + r.stderr
d = sh("git diff -- src").stdout
files = re.findall(r"^\+\+\+ b/(\S+)", patch, re.M)
rec["patch_files"] = files
assert all(f.startswith("src/") for f in files), files
# 2. suite with the change
m, out = tests()
rec["suite_with_change"] = m
if not (m and all(x[0] == "ok" for x in m)):
    # re-run failing tests alone (flaky socket tests)
    failed = re.findall(r"^test (\S+) \.\.\. FAILED", out, re.M)
    still = []
    for t in failed:
        mm, o2 = tests(t.split("::")[-1])
        if not (mm and all(x[0] == "ok" for x in mm)):
            still.append(t)
    rec["suite_failed_then_rerun_alone"] = {"failed": failed, "still_failing": still}
    assert not still, ("suite fails with the change", still)
# 3. demo
demo = open(M + "/demo_test.rs").read()
names = re.findall(r"fn\s+(\w+)\s*\(", demo)
tnames = [n for n in re.findall(r"#\[(?:tokio::)?test[^\]]*\]\s*(?:async\s+)?fn\s+(\w+)", demo)]
target = sys.argv[3] if len(sys.argv) > 3 else None
if target is None:
    howto = open(M + "/HOWTO.txt").read() if os.path.exists(M + "/HOWTO.txt") else ""
    hl = howto.split("\n")
    c = [m for i, l in enumerate(hl) if re.search(r"[Pp]aste|[Aa]ppend|[Ii]nsert|[Pp]ut ", l)
         for m in re.findall(r"src/[\w/]+\.rs", " ".join(hl[i:i + 3]))]
    c = c or re.findall(r"src/[\w/]+\.rs", howto)
    target = c[0] if c else files[0]
rec["demo_pasted_into"] = target
rec["demo_tests"] = tnames
def paste():
    src = open(wt + "/" + target).read()
    i = src.rstrip().rfind("}")
    open(wt + "/" + target, "w").write(src[:i] + "\n" + demo + "\n}\n")
def demo_run():
    res = {}
    for t in tnames:
        mm, o = tests(t)
        res[t] = "pass" if (mm and all(x[0] == "ok" for x in mm) and any(int(x[1]) > 0 for x in mm)) else "FAIL"
        if "error[" in o or "could not compile" in o:
            res[t] = "COMPILE-ERROR"
            print(o[-3000:])
    return res
paste()
with_change = demo_run()
sh("git checkout -- .")
paste()
without = demo_run()
sh("git checkout -- .")
rec["demo_with_change"] = with_change
rec["demo_without_change"] = without
ok = tnames and any(v == "FAIL" for v in with_change.values()) and all(v == "pass" for v in without.values())
print(json.dumps(rec, indent=1))
if not ok:
    sys.exit("NOT CONFIRMED")
dst = V + "/seeded/" + sid
os.makedirs(dst, exist_ok=True)
for f in os.listdir(M):
    shutil.copy(M + "/" + f, dst + "/" + f)
try:
    meta = json.load(open(dst + "/meta.json"))
except Exception:
    meta = {}
meta["property"] = sid.split("-")[0]
meta["confirmed"] = rec
meta["confirmed_how"] = ("tools/ingest_seed.py in a scratch worktree: patch applies to HEAD of /repo, `cargo test --offline` (whole suite, own "
                         "network namespace) passes with the change, the demonstration fails with the change and passes without it")
json.dump(meta, open(dst + "/meta.json", "w"), indent=1, ensure_ascii=False)
subprocess.run(["git", "-C", "/repo", "worktree", "remove", "--force", wt])
print("CONFIRMED", sid)
