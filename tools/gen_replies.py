#!/usr/bin/env python3
"""gen_replies.py - regenerate lean/Irc/Reply.lean from /repo/src/reply.rs.

Reads the Rust source of `enum Reply<'a>` and of `impl fmt::Display for Reply`
and emits a Lean 4 model: one definition per enum variant (same name, fields as
explicit arguments in *declaration* order) returning the formatted reply as
`Str` (= `List Char`, see Irc/Basic.lean).

The match arms are really parsed and translated (a small Rust-expression subset:
`write!`/`format!` with `{}` / `{:0N}` placeholders, `let`, `if let Some(x) = o
{..} else {..}`, `xs.iter().map(|x| ..).collect::<Vec<_>>().join("..")`,
`.to_string()`, struct field access, String `+`, integer `+ - * / %`).
Anything outside that subset makes the generator FAIL (exit code 2) with a
message pointing at the offending source line; it never guesses.

Two snapshot tables guard what cannot be checked mechanically:

  AUDITED_ARITH   arms that use integer `+`, `-`, `*` on non-constant operands.
                  Rust integers overflow/underflow (panic or wrap), Lean `Nat`
                  does not, so a human has to check that the arm stays in range.
                  The audited source text of the arm is stored; if the arm
                  changes the generator refuses to run until re-audited.
  SPECIAL_CASES   escape hatch: hand-written Lean for an arm the translator
                  cannot handle, keyed by variant name, again with a snapshot of
                  the Rust arm it was written for.  Empty at the moment.

`--print-arm VARIANT` prints the normalised source text of an arm (the form
stored in the snapshots).

CLI:
  gen_replies.py [--src /repo/src/reply.rs] [--out /verif/lean/Irc/Reply.lean]
                 [--check] [--print-arm VARIANT]
Exit codes: 0 ok, 1 --check found a difference, 2 generator error.
"""

import argparse
import os
import re
import sys
from collections import namedtuple

DEFAULT_SRC = "/repo/src/reply.rs"
DEFAULT_OUT = os.path.normpath(
    os.path.join(os.path.dirname(os.path.abspath(__file__)), "..", "lean", "Irc", "Reply.lean")
)

# ---------------------------------------------------------------------------
# snapshot tables (normalised arm text = arm tokens joined by one blank,
# comments dropped; get it with --print-arm)
# ---------------------------------------------------------------------------

AUDITED_ARITH = {
    # day_time < 86400, hour = day_time / 3600 <= 23, hour * 3600 <= day_time
    # (so the subtraction cannot underflow and the product cannot overflow).
    "RplStatsUptime242": (
        'RplStatsUptime242 { client , seconds } => { '
        'let day_time = seconds % ( 24 * 3600 ) ; '
        'let hour = day_time / 3600 ; '
        'let minute = ( day_time - hour * 3600 ) / 60 ; '
        'let second = day_time % 60 ; '
        'write ! ( f , "242 {} :Server Up {} days {}:{:02}:{:02}" , client , '
        'seconds / ( 24 * 3600 ) , hour , minute , second ) }'
    ),
}

# variant -> {"snapshot": normalised Rust arm, "lean": body text after ':='
#             (lines, indented by two blanks), "doc": docstring text}
SPECIAL_CASES = {}


class GenError(Exception):
    pass


# ---------------------------------------------------------------------------
# tokenizer
# ---------------------------------------------------------------------------

Token = namedtuple("Token", "kind text value line")
# kinds: ident int str char lifetime punct eof

INT_SUFFIXES = ("u8", "u16", "u32", "u64", "u128", "usize",
                "i8", "i16", "i32", "i64", "i128", "isize")
PUNCT2 = ("::", "=>", "->", "==", "!=", "<=", ">=", "..", "+=", "-=", "*=", "/=", "%=")
PUNCT1 = "{}()[]<>,;.=|:!+-*/%&?#@^~$_"

SIMPLE_ESC = {"n": "\n", "r": "\r", "t": "\t", "\\": "\\", "0": "\0", "'": "'", '"': '"'}


def _err_at(src_name, line, msg):
    raise GenError("%s:%d: %s" % (src_name, line, msg))


def tokenize(text, src_name):
    toks = []
    i, n, line = 0, len(text), 1

    def err(msg):
        _err_at(src_name, line, msg)

    def unescape(body_start):
        """parse an escape starting after the backslash at text[body_start];
        returns (string, new index)."""
        c = text[body_start]
        if c in SIMPLE_ESC:
            return SIMPLE_ESC[c], body_start + 1
        if c == "x":
            hx = text[body_start + 1:body_start + 3]
            if not re.fullmatch(r"[0-7][0-9a-fA-F]", hx):
                err("bad \\x escape in literal")
            return chr(int(hx, 16)), body_start + 3
        if c == "u":
            m = re.compile(r"u\{([0-9a-fA-F_]{1,12})\}").match(text, body_start)
            if not m:
                err("bad \\u{..} escape in literal")
            return chr(int(m.group(1).replace("_", ""), 16)), m.end()
        err("unknown escape '\\%s' in literal" % c)

    while i < n:
        c = text[i]
        if c == "\n":
            line += 1
            i += 1
            continue
        if c in " \t\r":
            i += 1
            continue
        if text.startswith("//", i):
            j = text.find("\n", i)
            i = n if j < 0 else j
            continue
        if text.startswith("/*", i):
            depth, j = 1, i + 2
            while j < n and depth:
                if text.startswith("/*", j):
                    depth += 1
                    j += 2
                elif text.startswith("*/", j):
                    depth -= 1
                    j += 2
                else:
                    if text[j] == "\n":
                        line += 1
                    j += 1
            if depth:
                err("unterminated block comment")
            i = j
            continue
        # raw / byte strings
        m = re.compile(r'(br|rb|b)(["\'#])').match(text, i)
        if m and not (i > 0 and (text[i - 1].isalnum() or text[i - 1] == "_")):
            err("byte string/char literals are not supported")
        m = re.compile(r'r(#*)"').match(text, i)
        if m and not (i > 0 and (text[i - 1].isalnum() or text[i - 1] == "_")):
            close = '"' + m.group(1)
            j = text.find(close, m.end())
            if j < 0:
                err("unterminated raw string")
            val = text[m.end():j]
            raw = text[i:j + len(close)]
            toks.append(Token("str", raw, val, line))
            line += raw.count("\n")
            i = j + len(close)
            continue
        if c == '"':
            start_line = line
            j = i + 1
            out = []
            while True:
                if j >= n:
                    err("unterminated string literal")
                d = text[j]
                if d == '"':
                    j += 1
                    break
                if d == "\\":
                    if j + 1 >= n:
                        err("unterminated string literal")
                    e = text[j + 1]
                    if e == "\n" or (e == "\r" and text[j + 2:j + 3] == "\n"):
                        # line continuation: skip newline and leading whitespace
                        j += 1
                        while j < n and text[j] in " \t\r\n":
                            if text[j] == "\n":
                                line += 1
                            j += 1
                        continue
                    s, j = unescape(j + 1)
                    out.append(s)
                    continue
                if d == "\n":
                    line += 1
                out.append(d)
                j += 1
            toks.append(Token("str", text[i:j], "".join(out), start_line))
            i = j
            continue
        if c == "'":
            m = re.compile(r"'([^'\\\n])'").match(text, i)
            if m:
                toks.append(Token("char", m.group(0), m.group(1), line))
                i = m.end()
                continue
            if text.startswith("'\\", i):
                s, j = unescape(i + 2)
                if text[j:j + 1] != "'":
                    err("bad char literal")
                toks.append(Token("char", text[i:j + 1], s, line))
                i = j + 1
                continue
            m = re.compile(r"'[A-Za-z_][A-Za-z0-9_]*").match(text, i)
            if m:
                toks.append(Token("lifetime", m.group(0), None, line))
                i = m.end()
                continue
            err("stray single quote")
        if c.isdigit():
            m = re.compile(r"0[xob][0-9a-fA-F_]+|[0-9][0-9_]*").match(text, i)
            body = m.group(0)
            j = m.end()
            suffix = ""
            ms = re.compile(r"[A-Za-z_][A-Za-z0-9_]*").match(text, j)
            if ms:
                suffix = ms.group(0)
                if suffix not in INT_SUFFIXES:
                    err("unsupported numeric literal '%s%s'" % (body, suffix))
                j = ms.end()
            if text[j:j + 1] == "." and text[j + 1:j + 2].isdigit():
                err("floating point literals are not supported")
            b = body.replace("_", "")
            if b[:2] in ("0x", "0o", "0b"):
                val = int(b[2:], {"0x": 16, "0o": 8, "0b": 2}[b[:2]])
            else:
                val = int(b)
            toks.append(Token("int", text[i:j], (val, suffix), line))
            i = j
            continue
        if c.isalpha() or c == "_":
            m = re.compile(r"[^\W]+", re.UNICODE).match(text, i)
            word = m.group(0)
            if word == "_":
                toks.append(Token("punct", "_", None, line))
            else:
                if word == "r" and text[m.end():m.end() + 1] == "#":
                    err("raw identifiers (r#name) are not supported")
                toks.append(Token("ident", word, None, line))
            i = m.end()
            continue
        two = text[i:i + 2]
        if two in PUNCT2:
            toks.append(Token("punct", two, None, line))
            i += 2
            continue
        if c in PUNCT1:
            toks.append(Token("punct", c, None, line))
            i += 1
            continue
        err("unexpected character %r" % c)
    toks.append(Token("eof", "<end of file>", None, line))
    return toks


# ---------------------------------------------------------------------------
# types
# ---------------------------------------------------------------------------
# ('Str',) ('Nat', bits|None) ('Char',) ('Option', T) ('List', T) ('Struct', name)
# internal only: ('Iter', T)

T_STR = ("Str",)
T_CHAR = ("Char",)
UINT_BITS = {"u8": 8, "u16": 16, "u32": 32, "u64": 64, "u128": 128, "usize": 64}


def is_nat(t):
    return t[0] == "Nat"


class Model:
    """structs: name -> [(field, type)];  variants: [(name, [(field, type)])]"""

    def __init__(self):
        self.structs = {}
        self.bad_structs = {}
        self.raw_types = {}   # (struct or variant name, field) -> Rust type text without lifetimes
        self.variants = []

    def lean_type(self, t, top=True):
        k = t[0]
        if k in ("Str", "Nat", "Char"):
            return k
        if k == "Option":
            s = "Option " + self.lean_type(t[1], False)
        elif k == "List":
            s = "List " + self.lean_type(t[1], False)
        elif k == "Struct":
            s = " × ".join(self.lean_type(ft, ft[0] != "Struct") for _, ft in self.structs[t[1]])
        else:
            raise GenError("internal: no Lean type for %r" % (t,))
        return s if top else "(" + s + ")"


# ---------------------------------------------------------------------------
# AST
# ---------------------------------------------------------------------------

Var = namedtuple("Var", "name line")
FieldAcc = namedtuple("FieldAcc", "recv name line")
IntLit = namedtuple("IntLit", "value suffix line")
StrLit = namedtuple("StrLit", "value line")
CharLit = namedtuple("CharLit", "value line")
Bin = namedtuple("Bin", "op lhs rhs line")
Method = namedtuple("Method", "recv name turbofish args line")
Closure = namedtuple("Closure", "params body line")
IfLet = namedtuple("IfLet", "bind scrut then els line")
Block = namedtuple("Block", "lets tail line")          # lets: [(name, expr, line)]
FmtMacro = namedtuple("FmtMacro", "macro fmt args line")  # macro: write | format
Arm = namedtuple("Arm", "variant binds body norm line")  # binds: [(field, local)]


class Parser:
    def __init__(self, toks, src_name):
        self.t = toks
        self.i = 0
        self.src = src_name

    # -- helpers
    def peek(self, k=0):
        j = min(self.i + k, len(self.t) - 1)
        return self.t[j]

    def err(self, msg, tok=None):
        tok = tok or self.peek()
        _err_at(self.src, tok.line, msg)

    def at(self, text, k=0):
        t = self.peek(k)
        return t.kind in ("punct", "ident") and t.text == text

    def eat(self, text):
        if self.at(text):
            self.i += 1
            return True
        return False

    def expect(self, text, what=""):
        if not self.at(text):
            self.err("expected '%s'%s but found '%s'" % (text, (" " + what) if what else "", self.peek().text))
        tok = self.peek()
        self.i += 1
        return tok

    def ident(self, what="identifier"):
        t = self.peek()
        if t.kind != "ident":
            self.err("expected %s but found '%s'" % (what, t.text))
        self.i += 1
        return t

    def find_seq(self, texts, start=0):
        """all token indexes where the given ident/punct text sequence starts."""
        res = []
        for j in range(start, len(self.t) - len(texts)):
            if all(self.t[j + k].kind in ("ident", "punct") and self.t[j + k].text == x
                   for k, x in enumerate(texts)):
                res.append(j)
        return res

    def skip_generics(self):
        """skip an optional `<...>` (only lifetimes / idents expected)."""
        if self.at("<"):
            depth = 0
            while True:
                t = self.peek()
                if t.kind == "eof":
                    self.err("unterminated generics")
                if self.at("<"):
                    depth += 1
                elif self.at(">"):
                    depth -= 1
                self.i += 1
                if depth == 0:
                    return

    # -- declarations
    def parse_type(self, model):
        """parse a field type up to ',' or '}' at depth 0."""
        start_tok = self.peek()
        parts = []
        depth = 0
        while True:
            t = self.peek()
            if t.kind == "eof":
                self.err("unterminated type")
            if depth == 0 and (self.at(",") or self.at("}")):
                break
            if t.kind == "punct" and t.text in "<[(":
                depth += 1
            if t.kind == "punct" and t.text in ">])":
                depth -= 1
            if t.kind != "lifetime":
                parts.append(t.text)
            self.i += 1
        s = "".join(parts).replace("<>", "")
        return self.map_type(s, model, start_tok), s

    def map_type(self, s, model, tok):
        if s in ("&str", "String", "&String"):
            return T_STR
        if s in UINT_BITS or (s.startswith("&") and s[1:] in UINT_BITS):
            return ("Nat", UINT_BITS[s.lstrip("&")])
        if s == "char":
            return T_CHAR
        m = re.fullmatch(r"&?Option<(.+)>", s)
        if m:
            return ("Option", self.map_type(m.group(1), model, tok))
        m = re.fullmatch(r"&\[(.+)\]", s) or re.fullmatch(r"&?Vec<(.+)>", s)
        if m:
            return ("List", self.map_type(m.group(1), model, tok))
        if s in model.bad_structs:
            self.err("field type %s is a struct that could not be translated: %s"
                     % (s, model.bad_structs[s]), tok)
        if s in model.structs:
            if len(model.structs[s]) != 2:
                self.err("struct %s has %d fields; only 2-field structs (mapped to a Lean pair) "
                         "are supported" % (s, len(model.structs[s])), tok)
            return ("Struct", s)
        self.err("unsupported field type '%s' (supported: &str, String, unsigned ints, char, "
                 "Option<..>, &[..], Vec<..>, 2-field structs of this file)" % s, tok)

    def parse_fields(self, model, owner):
        """after '{': `vis? name: type,` ... '}'."""
        fields = []
        while not self.at("}"):
            if self.at("#"):
                self.err("attributes inside %s are not supported (conditional compilation would "
                         "make the model ambiguous)" % owner)
            if self.eat("pub"):
                if self.at("("):
                    while not self.eat(")"):
                        self.i += 1
            name = self.ident("field name in %s" % owner)
            self.expect(":", "after field name")
            ty, raw = self.parse_type(model)
            if any(name.text == f for f, _ in fields):
                self.err("duplicate field %s in %s" % (name.text, owner), name)
            fields.append((name.text, ty))
            model.raw_types[(owner.split()[-1], name.text)] = raw
            if not self.eat(","):
                break
        self.expect("}", "closing %s" % owner)
        return fields

    def parse_structs(self, model):
        for j in self.find_seq(["struct"]):
            self.i = j + 1
            name = self.ident("struct name")
            self.skip_generics()
            if not self.at("{"):
                continue  # tuple / unit struct: only an error if it is used as a field type
            self.i += 1
            try:
                model.structs[name.text] = self.parse_fields(model, "struct " + name.text)
            except GenError as ex:
                # only a problem if the struct is used as a field type of the enum
                model.bad_structs[name.text] = str(ex)

    def parse_enum(self, model, enum_name):
        locs = self.find_seq(["enum", enum_name])
        if len(locs) != 1:
            raise GenError("%s: expected exactly one `enum %s`, found %d" % (self.src, enum_name, len(locs)))
        self.i = locs[0] + 2
        self.skip_generics()
        self.expect("{", "opening the enum body")
        while not self.at("}"):
            if self.at("#"):
                self.err("attributes on enum variants are not supported")
            name = self.ident("variant name")
            if not self.at("{"):
                self.err("variant %s is not a struct-like variant `Name { field: type, .. }` "
                         "(unit/tuple variants are not supported)" % name.text, name)
            self.i += 1
            fields = self.parse_fields(model, "variant " + name.text)
            if any(name.text == v for v, _ in model.variants):
                self.err("duplicate variant " + name.text, name)
            model.variants.append((name.text, fields))
            if not self.eat(","):
                break
        self.expect("}", "closing the enum body")

    # -- Display impl
    def parse_display_impl(self, enum_name):
        locs = [j for j in self.find_seq(["Display", "for", enum_name])]
        if len(locs) != 1:
            raise GenError("%s: expected exactly one `impl .. Display for %s`, found %d"
                           % (self.src, enum_name, len(locs)))
        self.i = locs[0] + 3
        self.skip_generics()
        self.expect("{", "opening the impl body")
        self.expect("fn")
        if self.ident().text != "fmt":
            self.err("expected `fn fmt` as the first item of the Display impl")
        self.expect("(")
        self.expect("&")
        self.expect("self")
        self.expect(",")
        fname = self.ident("formatter parameter name").text
        depth = 1
        while depth:
            t = self.peek()
            if t.kind == "eof":
                self.err("unterminated fn signature")
            if self.at("("):
                depth += 1
            if self.at(")"):
                depth -= 1
            self.i += 1
        while not self.at("{"):
            if self.peek().kind == "eof":
                self.err("no fn body")
            self.i += 1
        self.expect("{")
        if not (self.at("match") and (self.at("self", 1) or (self.at("*", 1) and self.at("self", 2)))):
            self.err("the body of fmt() must be a single `match self { .. }` expression")
        self.i += 2 if self.at("self", 1) else 3
        self.expect("{", "after `match self`")
        arms = []
        while not self.at("}"):
            arms.append(self.parse_arm(enum_name, fname))
        self.expect("}")
        if not self.at("}"):
            self.err("unexpected code after `match self { .. }` in fmt()")
        return arms, fname

    def parse_arm(self, enum_name, fname):
        start = self.i
        first = self.peek()
        if self.at("_"):
            self.err("wildcard arm `_ =>` is not supported: every variant needs its own arm")
        if self.at("#"):
            self.err("attributes on match arms are not supported")
        name = self.ident("variant name in match arm")
        if name.text in (enum_name, "Self") and self.at("::"):
            self.i += 1
            name = self.ident("variant name in match arm")
        self.expect("{", "in pattern of arm %s (only `Variant { a, b, .. }` patterns are supported)" % name.text)
        binds = []
        while not self.at("}"):
            if self.eat(".."):
                break
            if self.at("ref") or self.at("mut"):
                self.err("`ref`/`mut` in arm pattern is not supported")
            f = self.ident("field name in pattern")
            local = f
            if self.eat(":"):
                if self.at("ref") or self.at("mut") or self.peek().kind != "ident":
                    self.err("only `field: name` renames are supported in patterns")
                local = self.ident()
                if self.at("{") or self.at("(") or self.at("::") or self.at("@"):
                    self.err("nested patterns are not supported")
            if self.at("@"):
                self.err("`@` patterns are not supported")
            binds.append((f.text, local.text))
            if not self.eat(","):
                break
        self.expect("}", "closing pattern of arm %s" % name.text)
        if self.at("|"):
            self.err("or-patterns are not supported")
        if self.at("if"):
            self.err("match guards are not supported")
        self.expect("=>")
        if self.at("{"):
            body = self.parse_block()
            self.eat(",")
            end = self.i
            if self.t[end - 1].text == ",":
                end -= 1
        else:
            body = self.parse_expr()
            end = self.i
            if not self.eat(",") and not self.at("}"):
                self.err("expected ',' after arm body but found '%s'" % self.peek().text)
        norm = " ".join(t.text for t in self.t[start:end])
        return Arm(name.text, binds, body, norm, first.line)

    # -- expressions
    def parse_block(self):
        open_tok = self.expect("{")
        lets = []
        while True:
            if self.at("let"):
                lt = self.peek()
                self.i += 1
                if self.at("mut"):
                    self.err("`let mut` is not supported")
                name = self.ident("name after let (patterns are not supported)")
                if self.eat(":"):
                    while not self.at("="):
                        if self.peek().kind == "eof" or self.at(";"):
                            self.err("malformed let")
                        self.i += 1
                self.expect("=", "in let (declarations without initialiser are not supported)")
                e = self.parse_expr()
                if self.at("else"):
                    self.err("let-else is not supported")
                self.expect(";", "after let")
                lets.append((name.text, e, lt.line))
                continue
            if self.at("}"):
                self.err("empty block / block ending in a statement is not supported")
            e = self.parse_expr()
            if self.at(";") or self.at("?"):
                self.err("statement expressions (`expr;` / `expr?;`, e.g. several write! calls in "
                         "sequence) are not supported")
            self.expect("}", "closing block (only `let ..;`* followed by one tail expression is supported)")
            return Block(lets, e, open_tok.line)

    BINOPS = {"*": 20, "/": 20, "%": 20, "+": 10, "-": 10}

    def parse_expr(self, min_prec=0):
        lhs = self.parse_unary()
        while True:
            t = self.peek()
            if t.kind == "punct" and t.text in self.BINOPS and self.BINOPS[t.text] >= min_prec:
                prec = self.BINOPS[t.text]
                self.i += 1
                rhs = self.parse_expr(prec + 1)
                lhs = Bin(t.text, lhs, rhs, t.line)
                continue
            if self.at("as"):
                self.err("`as` casts are not supported")
            if t.kind == "punct" and t.text in ("==", "!=", "<=", ">=", "<", ">", "&", "|", "^", "..",
                                                "+=", "-=", "*=", "/=", "%=", "="):
                # `|`/`&` can legitimately follow an expression only as operators here
                self.err("operator '%s' is not supported" % t.text)
            return lhs

    def parse_unary(self):
        if self.at("&"):
            self.i += 1
            if self.at("mut"):
                self.err("`&mut` is not supported")
            return self.parse_unary()
        if self.at("*"):
            self.i += 1
            return self.parse_unary()
        if self.at("-") or self.at("!"):
            self.err("unary '%s' is not supported" % self.peek().text)
        return self.parse_postfix(self.parse_primary())

    def parse_postfix(self, e):
        while True:
            if self.at("."):
                dot = self.peek()
                self.i += 1
                if self.peek().kind == "int":
                    self.err("tuple field access is not supported")
                if self.at("await"):
                    self.err(".await is not supported")
                name = self.ident("field or method name after '.'")
                turbofish = None
                if self.at("::"):
                    self.i += 1
                    self.expect("<", "after `::` (turbofish)")
                    depth, parts = 1, []
                    while depth:
                        t = self.peek()
                        if t.kind == "eof":
                            self.err("unterminated turbofish")
                        if self.at("<"):
                            depth += 1
                        if self.at(">"):
                            depth -= 1
                        if depth:
                            parts.append(t.text)
                        self.i += 1
                    turbofish = "".join(parts)
                if self.at("("):
                    self.i += 1
                    args = []
                    while not self.at(")"):
                        args.append(self.parse_expr())
                        if not self.eat(","):
                            break
                    self.expect(")", "closing arguments of .%s(..)" % name.text)
                    e = Method(e, name.text, turbofish, args, dot.line)
                else:
                    if turbofish is not None:
                        self.err("turbofish without call")
                    e = FieldAcc(e, name.text, dot.line)
                continue
            if self.at("?"):
                self.err("the `?` operator is not supported")
            if self.at("["):
                self.err("indexing is not supported")
            if self.at("("):
                self.err("function calls are not supported")
            return e

    def parse_primary(self):
        t = self.peek()
        if t.kind == "int":
            self.i += 1
            return IntLit(t.value[0], t.value[1], t.line)
        if t.kind == "str":
            self.i += 1
            return StrLit(t.value, t.line)
        if t.kind == "char":
            self.i += 1
            return CharLit(t.value, t.line)
        if self.at("("):
            self.i += 1
            e = self.parse_expr()
            if self.at(","):
                self.err("tuples are not supported")
            self.expect(")")
            return e
        if self.at("{"):
            return self.parse_block()
        if self.at("if"):
            self.i += 1
            if not self.eat("let"):
                self.err("plain `if` is not supported (only `if let Some(x) = opt {..} else {..}`)", t)
            self.expect("Some", "(only `if let Some(x) = ..` is supported)")
            self.expect("(")
            self.eat("ref")
            if self.at("mut"):
                self.err("`mut` binding is not supported")
            bind = self.ident("binding name in Some(..) (nested patterns are not supported)")
            self.expect(")", "(nested patterns are not supported)")
            self.expect("=")
            scrut = self.parse_expr()
            then = self.parse_block()
            if not self.eat("else"):
                self.err("`if let` without `else` is not supported", t)
            if self.at("if"):
                self.err("`else if` is not supported")
            els = self.parse_block()
            return IfLet(bind.text, scrut, then, els, t.line)
        if self.at("|"):
            self.i += 1
            params = []
            while not self.at("|"):
                if self.at("&") or self.at("(") or self.at("mut") or self.at("ref"):
                    self.err("only plain identifier closure parameters are supported")
                p = self.ident("closure parameter")
                if self.at(":"):
                    self.err("typed closure parameters are not supported")
                params.append(p.text)
                if not self.eat(","):
                    break
            self.expect("|", "closing closure parameters")
            body = self.parse_expr()
            return Closure(params, body, t.line)
        if self.at("match"):
            self.err("nested `match` is not supported")
        if self.at("move"):
            self.err("`move` closures are not supported")
        if t.kind == "ident":
            self.i += 1
            if self.at("!"):
                return self.parse_macro(t)
            if self.at("::"):
                self.err("paths (`%s::..`) are not supported in expressions" % t.text, t)
            if self.at("{") and t.text[:1].isupper():
                self.err("struct literals are not supported", t)
            return Var(t.text, t.line)
        self.err("unexpected '%s' in expression" % t.text)

    def parse_macro(self, name):
        self.expect("!")
        if name.text not in ("write", "format"):
            self.err("macro %s! is not supported (only write! and format!)" % name.text, name)
        close = {"(": ")", "[": "]", "{": "}"}.get(self.peek().text)
        if close is None:
            self.err("malformed macro call")
        self.i += 1
        if name.text == "write":
            dest = self.ident("formatter as first argument of write!")
            self.expect(",", "after the formatter in write!")
            macro = ("write", dest.text)
        else:
            macro = ("format", None)
        ft = self.peek()
        if ft.kind != "str":
            self.err("the format string of %s! must be a string literal" % name.text)
        self.i += 1
        args = []
        while self.eat(","):
            if self.at(close):
                break
            if self.peek().kind == "ident" and self.at("=", 1):
                self.err("named format arguments are not supported")
            args.append(self.parse_expr())
        self.expect(close, "closing %s!" % name.text)
        return FmtMacro(macro, ft.value, args, name.line)


# ---------------------------------------------------------------------------
# Rust format strings
# ---------------------------------------------------------------------------

def parse_format(fmt, src, line):
    """-> list of ('lit', text) | ('arg', pad) where pad is None or a zero-pad width."""
    out, lit, i, n = [], [], 0, len(fmt)

    def flush():
        if lit:
            out.append(("lit", "".join(lit)))
            del lit[:]

    while i < n:
        c = fmt[i]
        if c == "{":
            if fmt[i + 1:i + 2] == "{":
                lit.append("{")
                i += 2
                continue
            j = fmt.find("}", i)
            if j < 0:
                _err_at(src, line, "format string %r: unmatched '{'" % fmt)
            spec = fmt[i + 1:j]
            flush()
            if spec == "":
                out.append(("arg", None))
            else:
                m = re.fullmatch(r":0([1-9][0-9]*)", spec)
                if not m:
                    _err_at(src, line, "format string %r: placeholder '{%s}' is not supported "
                            "(only '{}' and '{:0N}'; no named/positional arguments, no {:?}, "
                            "no other width/alignment/precision)" % (fmt, spec))
                out.append(("arg", int(m.group(1))))
            i = j + 1
            continue
        if c == "}":
            if fmt[i + 1:i + 2] == "}":
                lit.append("}")
                i += 2
                continue
            _err_at(src, line, "format string %r: unmatched '}'" % fmt)
        lit.append(c)
        i += 1
    flush()
    return out


# ---------------------------------------------------------------------------
# Lean text helpers
# ---------------------------------------------------------------------------

LEAN_KEYWORDS = set("""
abbrev at attribute axiom by calc class deriving def do else end example export extends
finally for from fun have if import in inductive infix infixl infixr instance let local
macro macro_rules match mut mutual namespace nofun nomatch notation opaque open partial
postfix prefix private protected return section set_option show structure suffices syntax
then theorem try universe unless unsafe using variable where with catch elab forall exists
noncomputable nonrec initialize builtin_initialize omit include scoped public meta
Type Sort Prop this
""".split())

# names used unqualified by the generated code: a field with such a name would shadow them
RESERVED = {"str", "joinWith", "natToStr", "padZero", "some", "none"}


def lean_ident(name, src, line):
    if name in RESERVED:
        _err_at(src, line, "identifier '%s' clashes with a helper used by the generated Lean code" % name)
    if not re.fullmatch(r"[A-Za-z_][A-Za-z0-9_]*", name):
        _err_at(src, line, "identifier '%s' is not plain ASCII" % name)
    if name in LEAN_KEYWORDS:
        return "«" + name + "»"
    return name


def lean_char_body(c, quote):
    o = ord(c)
    if c == "\\":
        return "\\\\"
    if c == quote:
        return "\\" + quote
    if c == "\n":
        return "\\n"
    if c == "\t":
        return "\\t"
    if c == "\r":
        return "\\r"
    if o < 0x20 or o == 0x7F:
        return "\\x%02x" % o
    return c


def lean_string(s):
    return '"' + "".join(lean_char_body(c, '"') for c in s) + '"'


def lean_char(c):
    return "'" + lean_char_body(c, "'") + "'"


# "level" of a Lean term: ATOM (identifier, literal, parenthesised), APP (function
# application: may be an operand of `++`/arithmetic but not a function argument),
# OPEN (operators, match, let, fun: needs parentheses anywhere nested).
ATOM, APP, OPEN = 2, 1, 0


def paren(text, level, need=ATOM):
    return text if level >= need else "(" + text + ")"


# ---------------------------------------------------------------------------
# translation
# ---------------------------------------------------------------------------

class ArmCtx:
    def __init__(self, variant, fname):
        self.variant = variant
        self.fname = fname
        self.formats = []          # format strings in source order (for the docstring)
        self.arith = False         # uses + - * on non-constant integers
        self.shapes = set()        # constructs beyond a single write!
        self.uses_pad = False


class Translator:
    def __init__(self, model, src):
        self.m = model
        self.src = src

    def err(self, line, msg):
        _err_at(self.src, line, msg)

    # constant evaluation (integer literals and arithmetic on them)
    def const(self, e):
        if isinstance(e, IntLit):
            return e.value
        if isinstance(e, Bin):
            a, b = self.const(e.lhs), self.const(e.rhs)
            if a is None or b is None:
                return None
            if e.op == "+":
                return a + b
            if e.op == "*":
                return a * b
            if e.op == "-":
                return a - b if a >= b else None
            if e.op in "/%":
                if b == 0:
                    return None
                return a // b if e.op == "/" else a % b
        return None

    def display(self, text, ty, level, line):
        """Lean Str for Rust `Display` of a value -> (text, level)."""
        if ty == T_STR:
            return text, level
        if is_nat(ty):
            return "natToStr " + paren(text, level), APP
        if ty == T_CHAR:
            return "[" + text + "]", ATOM
        self.err(line, "a value of type %s has no Display translation" % (ty,))

    def tr(self, e, env, ctx):
        """-> (lean text, type, level)"""
        if isinstance(e, Var):
            if e.name == ctx.fname and e.name not in env:
                self.err(e.line, "direct use of the formatter '%s' (e.g. %s.write_str(..)) is not "
                         "supported, only write!(%s, ..)" % (e.name, e.name, e.name))
            if e.name not in env:
                self.err(e.line, "unknown name '%s' (not a field bound by the arm pattern, a let, "
                         "or a closure/if-let binding)" % e.name)
            return env[e.name][0], env[e.name][1], ATOM
        if isinstance(e, IntLit):
            if e.suffix and e.suffix not in UINT_BITS:
                self.err(e.line, "signed integer literal is not supported")
            if e.value >= 2 ** 64:
                self.err(e.line, "integer literal too large")
            return str(e.value), ("Nat", None), ATOM
        if isinstance(e, StrLit):
            if e.value == "":
                return "([] : Str)", T_STR, ATOM
            return "str " + lean_string(e.value), T_STR, APP
        if isinstance(e, CharLit):
            return lean_char(e.value), T_CHAR, ATOM
        if isinstance(e, FieldAcc):
            t, ty, at = self.tr(e.recv, env, ctx)
            if ty[0] != "Struct":
                self.err(e.line, "field access .%s on a value of type %s" % (e.name, ty,))
            fields = self.m.structs[ty[1]]
            for idx, (fn, ft) in enumerate(fields):
                if fn == e.name:
                    return "%s.%d" % (paren(t, at), idx + 1), ft, ATOM
            self.err(e.line, "struct %s has no field %s" % (ty[1], e.name))
        if isinstance(e, Bin):
            return self.tr_bin(e, env, ctx)
        if isinstance(e, Method):
            return self.tr_method(e, env, ctx)
        if isinstance(e, IfLet):
            ctx.shapes.add("if-let")
            st, sty, sat = self.tr(e.scrut, env, ctx)
            if sty[0] != "Option":
                self.err(e.line, "`if let Some(..)` on a value of type %s" % (sty,))
            b = lean_ident(e.bind, self.src, e.line)
            env2 = dict(env)
            env2[e.bind] = (b, sty[1])
            tt, tty, _ = self.tr(e.then, env2, ctx)
            et, ety, _ = self.tr(e.els, env, ctx)
            if not self.same(tty, ety):
                self.err(e.line, "branches of `if let` have different types %s / %s" % (tty, ety))
            return "match %s with | some %s => %s | none => %s" % (st, b, tt, et), tty, OPEN
        if isinstance(e, Block):
            if not e.lets:
                return self.tr(e.tail, env, ctx)
            ctx.shapes.add("let")
            env2 = dict(env)
            parts = []
            for name, ex, line in e.lets:
                t, ty, _ = self.tr(ex, env2, ctx)
                n = lean_ident(name, self.src, line)
                parts.append("let %s := %s; " % (n, t))
                env2[name] = (n, ty)
            t, ty, _ = self.tr(e.tail, env2, ctx)
            return "".join(parts) + t, ty, OPEN
        if isinstance(e, FmtMacro):
            return self.tr_fmt(e, env, ctx)
        if isinstance(e, Closure):
            self.err(e.line, "closure in unsupported position (only as argument of .map)")
        self.err(getattr(e, "line", 0), "internal: unhandled expression %r" % (e,))

    @staticmethod
    def same(a, b):
        if is_nat(a) and is_nat(b):
            return True
        return a == b

    def tr_bin(self, e, env, ctx):
        lt, lty, lat = self.tr(e.lhs, env, ctx)
        rt, rty, rat = self.tr(e.rhs, env, ctx)
        if lty == T_STR:
            if e.op != "+" or rty != T_STR:
                self.err(e.line, "operator '%s' on string and %s" % (e.op, rty,))
            ctx.shapes.add("string +")
            return "%s ++ %s" % (paren(lt, lat, APP), paren(rt, rat, APP)), T_STR, OPEN
        if not (is_nat(lty) and is_nat(rty)):
            self.err(e.line, "operator '%s' on %s and %s" % (e.op, lty, rty))
        bits = lty[1] or rty[1]
        if lty[1] and rty[1] and lty[1] != rty[1]:
            self.err(e.line, "integer operands of different widths")
        ctx.shapes.add("arithmetic")
        if e.op in "/%":
            d = self.const(e.rhs)
            if d is None or d == 0:
                self.err(e.line, "divisor of '%s' must be a non-zero integer constant (Rust panics "
                         "on division by zero, Lean returns 0)" % e.op)
        else:
            c = self.const(e)
            if c is None:
                if self.const(e.lhs) is not None and self.const(e.rhs) is not None:
                    self.err(e.line, "constant subtraction underflows")
                ctx.arith = True
            elif c >= 2 ** (bits or 32):
                self.err(e.line, "integer constant expression overflows")
        return "%s %s %s" % (paren(lt, lat, APP), e.op, paren(rt, rat, APP)), ("Nat", bits), OPEN

    def tr_method(self, e, env, ctx):
        name = e.name
        if e.turbofish is not None and name != "collect":
            self.err(e.line, "turbofish on .%s is not supported" % name)

        def noargs():
            if e.args:
                self.err(e.line, ".%s() takes no arguments" % name)

        # closure argument of map needs the receiver type first
        rt, rty, rat = self.tr(e.recv, env, ctx)
        if name == "to_string":
            noargs()
            t, at = self.display(rt, rty, rat, e.line)
            return t, T_STR, at
        if name in ("clone", "to_owned", "as_str", "as_ref") and rty == T_STR:
            noargs()
            return rt, rty, rat
        if name == "iter" and rty[0] == "List":
            noargs()
            ctx.shapes.add("iter/map/join")
            return rt, ("Iter", rty[1]), rat
        if name == "map" and rty[0] == "Iter":
            if len(e.args) != 1 or not isinstance(e.args[0], Closure) or len(e.args[0].params) != 1:
                self.err(e.line, ".map expects a one-parameter closure")
            cl = e.args[0]
            p = lean_ident(cl.params[0], self.src, cl.line)
            env2 = dict(env)
            env2[cl.params[0]] = (p, rty[1])
            bt, bty, _ = self.tr(cl.body, env2, ctx)
            text = "List.map (fun (%s : %s) => %s) %s" % (p, self.m.lean_type(rty[1]), bt, paren(rt, rat))
            return text, ("Iter", bty), APP
        if name == "collect" and rty[0] == "Iter":
            noargs()
            if e.turbofish not in ("Vec<_>", "Vec::<_>", "Vec<String>", "Vec::<String>"):
                self.err(e.line, ".collect needs an explicit `::<Vec<_>>` (found %r)" % (e.turbofish,))
            return rt, ("List", rty[1]), rat
        if name in ("join", "concat") and rty[0] == "List" and rty[1] == T_STR:
            if name == "concat":
                noargs()
                return "joinWith [] %s" % paren(rt, rat), T_STR, APP
            if len(e.args) != 1:
                self.err(e.line, ".join expects one argument")
            st, sty, sat = self.tr(e.args[0], env, ctx)
            if sty != T_STR:
                self.err(e.line, ".join separator must be a string")
            return "joinWith %s %s" % (paren(st, sat), paren(rt, rat)), T_STR, APP
        self.err(e.line, "method .%s on a value of type %s is not supported" % (name, rty,))

    def tr_fmt(self, e, env, ctx):
        kind, dest = e.macro
        if kind == "write" and dest != ctx.fname:
            self.err(e.line, "write! must write to the formatter '%s'" % ctx.fname)
        ctx.formats.append(e.fmt)
        pieces = parse_format(e.fmt, self.src, e.line)
        nargs = sum(1 for p in pieces if p[0] == "arg")
        if nargs != len(e.args):
            self.err(e.line, "format string %r has %d placeholders but %d arguments"
                     % (e.fmt, nargs, len(e.args)))
        out, ai = [], 0
        for kind_, v in pieces:
            if kind_ == "lit":
                out.append("str " + lean_string(v))
                continue
            a = e.args[ai]
            ai += 1
            t, ty, at = self.tr(a, env, ctx)
            if v is not None:
                if not is_nat(ty):
                    self.err(e.line, "'{:0%d}' is only supported for unsigned integers" % v)
                ctx.uses_pad = True
                ctx.shapes.add("{:0N}")
                out.append("padZero %d (natToStr %s)" % (v, paren(t, at)))
            else:
                d, dl = self.display(t, ty, at, e.line)
                out.append(paren(d, dl, APP))
        ty = ("Fmt",) if kind == "write" else T_STR
        if not out:
            return "([] : Str)", ty, ATOM
        if len(out) == 1:
            return out[0], ty, APP
        return " ++ ".join(out), ty, OPEN

    # -- top level (multi-line layout)
    def body_lines(self, e, env, ctx, indent, allow_match=True):
        pad = " " * indent
        if isinstance(e, Block):
            if e.lets:
                ctx.shapes.add("let")
            env2 = dict(env)
            lines = []
            for name, ex, line in e.lets:
                t, ty, _ = self.tr(ex, env2, ctx)
                n = lean_ident(name, self.src, line)
                lines.append("%slet %s := %s" % (pad, n, t))
                env2[name] = (n, ty)
            tl, ty = self.body_lines(e.tail, env2, ctx, indent, allow_match)
            return lines + tl, ty
        if isinstance(e, IfLet) and allow_match:
            ctx.shapes.add("if-let")
            st, sty, _ = self.tr(e.scrut, env, ctx)
            if sty[0] != "Option":
                self.err(e.line, "`if let Some(..)` on a value of type %s" % (sty,))
            b = lean_ident(e.bind, self.src, e.line)
            env2 = dict(env)
            env2[e.bind] = (b, sty[1])
            tl, tty = self.body_lines(e.then, env2, ctx, indent + 4, False)
            el, ety = self.body_lines(e.els, env, ctx, indent + 4, False)
            if not self.same(tty, ety):
                self.err(e.line, "branches of `if let` have different types")
            lines = ["%smatch %s with" % (pad, st), "%s| some %s =>" % (pad, b)] + tl
            lines += ["%s| none =>" % pad] + el
            return lines, tty
        t, ty, _ = self.tr(e, env, ctx)
        if isinstance(e, (IfLet, Block)) and not allow_match:
            t = "(" + t + ")"
        return wrap(t, indent), ty

    def arm(self, variant, fields, arm, fname):
        ctx = ArmCtx(variant, fname)
        env = {}
        fdict = dict(fields)
        seen = set()
        for f, local in arm.binds:
            if f not in fdict:
                self.err(arm.line, "arm %s binds unknown field '%s'" % (variant, f))
            if f in seen:
                self.err(arm.line, "arm %s binds field '%s' twice" % (variant, f))
            seen.add(f)
            env[local] = (lean_ident(f, self.src, arm.line), fdict[f])
        lines, ty = self.body_lines(arm.body, env, ctx, 2)
        if ty != ("Fmt",):
            self.err(arm.line, "arm %s does not end in write!(%s, ..)" % (variant, fname))
        return lines, ctx


def wrap(text, indent, width=100):
    """break a long `a ++ b ++ c` line at top-level ` ++ ` (outside strings/parens)."""
    pad = " " * indent
    if len(text) + indent <= width:
        return [pad + text]
    parts, depth, in_str, cur, i = [], 0, False, [], 0
    while i < len(text):
        c = text[i]
        if in_str:
            cur.append(c)
            if c == "\\":
                cur.append(text[i + 1])
                i += 1
            elif c == '"':
                in_str = False
        elif c == '"':
            in_str = True
            cur.append(c)
        elif c == "'" and text[i + 1:i + 2] == "\\":       # char literal '\x'
            j = text.index("'", i + 2)
            cur.append(text[i:j + 1])
            i = j
        elif c == "'" and text[i + 2:i + 3] == "'":        # char literal 'x'
            cur.append(text[i:i + 3])
            i += 2
        elif c in "([":
            depth += 1
            cur.append(c)
        elif c in ")]":
            depth -= 1
            cur.append(c)
        elif depth == 0 and text.startswith(" ++ ", i):
            parts.append("".join(cur))
            cur = []
            i += 4
            continue
        else:
            cur.append(c)
        i += 1
    parts.append("".join(cur))
    lines, line = [], pad + parts[0]
    for p in parts[1:]:
        if len(line) + 4 + len(p) > width:
            lines.append(line)
            line = pad + "  ++ " + p
        else:
            line += " ++ " + p
    lines.append(line)
    return lines


# ---------------------------------------------------------------------------
# generation
# ---------------------------------------------------------------------------

PAD_HELPER = """\
/-- Rust `{:0N}` for unsigned integers: left-pad the decimal rendering with `0`
    up to width `w` (longer renderings are left alone). -/
def padZero (w : Nat) (s : Str) : Str := List.replicate (w - s.length) '0' ++ s
"""


def binders(model, fields, src, line):
    groups = []
    for f, ty in fields:
        lt = model.lean_type(ty)
        n = lean_ident(f, src, line)
        if groups and groups[-1][1] == lt:
            groups[-1][0].append(n)
        else:
            groups.append(([n], lt))
    return "".join(" (%s : %s)" % (" ".join(ns), lt) for ns, lt in groups)


def doc_comment(formats):
    txt = " | ".join("`%s`" % f.replace("\n", "\\n").replace("\r", "\\r") for f in formats)
    return "/-- %s -/" % txt.replace("-/", "-\u2215")


def generate(src_path, print_arm=None):
    with open(src_path, encoding="utf-8") as fh:
        text = fh.read()
    toks = tokenize(text, src_path)
    p = Parser(toks, src_path)
    model = Model()
    p.parse_structs(model)
    p.parse_enum(model, "Reply")
    arms, fname = p.parse_display_impl("Reply")

    by_name = {}
    for a in arms:
        if a.variant in by_name:
            _err_at(src_path, a.line, "variant %s has more than one match arm" % a.variant)
        by_name[a.variant] = a
    vnames = [v for v, _ in model.variants]
    for a in arms:
        if a.variant not in vnames:
            _err_at(src_path, a.line, "match arm for unknown variant %s" % a.variant)
    missing = [v for v in vnames if v not in by_name]
    if missing:
        raise GenError("%s: no match arm in Display for variant(s): %s" % (src_path, ", ".join(missing)))
    for k in list(SPECIAL_CASES) + list(AUDITED_ARITH):
        if k not in vnames:
            raise GenError("snapshot table mentions variant %s which no longer exists in %s; "
                           "remove the stale entry from gen_replies.py" % (k, src_path))

    if print_arm is not None:
        if print_arm not in by_name:
            raise GenError("no such variant: " + print_arm)
        return by_name[print_arm].norm, None

    tr = Translator(model, src_path)
    defs, any_pad = [], False
    stats = {"plain": 0, "structured": 0, "special": 0, "audited": 0}
    structured = []
    for v, fields in model.variants:
        a = by_name[v]
        vn = lean_ident(v, src_path, a.line)
        head = "def %s%s : Str :=" % (vn, binders(model, fields, src_path, a.line))
        if v in SPECIAL_CASES:
            sc = SPECIAL_CASES[v]
            if sc["snapshot"] != a.norm:
                raise GenError(
                    "%s:%d: irregular arm %s changed, update the special case in gen_replies.py "
                    "(SPECIAL_CASES[%r]).\n  snapshot: %s\n  current : %s"
                    % (src_path, a.line, v, v, sc["snapshot"], a.norm))
            stats["special"] += 1
            defs.append("/-- %s (hand-written special case) -/\n%s\n%s"
                        % (sc.get("doc", v), head, sc["lean"].rstrip("\n")))
            continue
        lines, ctx = tr.arm(v, fields, a, fname)
        if ctx.arith:
            snap = AUDITED_ARITH.get(v)
            if snap != a.norm:
                raise GenError(
                    "%s:%d: arm %s uses integer +, - or * on non-constant operands. Rust integers "
                    "overflow/underflow, Lean Nat does not, so such an arm must be audited by hand: "
                    "check that it stays in range, then %s AUDITED_ARITH[%r] in gen_replies.py.\n"
                    "  current arm: %s%s"
                    % (src_path, a.line, v, "update" if snap else "add", v, a.norm,
                       ("\n  audited arm: " + snap) if snap else ""))
            stats["audited"] += 1
        elif v in AUDITED_ARITH and AUDITED_ARITH[v] != a.norm:
            raise GenError("%s:%d: arm %s changed and no longer needs AUDITED_ARITH[%r]; remove the "
                           "stale entry from gen_replies.py" % (src_path, a.line, v, v))
        any_pad = any_pad or ctx.uses_pad
        if ctx.shapes:
            stats["structured"] += 1
            structured.append("%s (%s)" % (v, ", ".join(sorted(ctx.shapes))))
        else:
            stats["plain"] += 1
        defs.append("%s\n%s\n%s" % (doc_comment(ctx.formats), head, "\n".join(lines)))

    out = []
    out.append("/-\n  GENERATED by tools/gen_replies.py from %s — do not edit\n\n"
               "  One definition per variant of the Rust `enum Reply`, arguments in the order of\n"
               "  the enum declaration, value = what `impl fmt::Display for Reply` writes.\n"
               "  Field types: &str ↦ Str, unsigned ints ↦ Nat, char ↦ Char, Option<&str> ↦ Option Str,\n"
               "  &[String] / &[&str] ↦ List Str, &[NameReplyStruct] ↦ List (Str × Str)  (prefix, nick),\n"
               "  &[WhoIsChannelStruct] ↦ List (Option Str × Str)  (prefix, channel).\n-/\n"
               % src_path)
    out.append("import Irc.Basic\n\nnamespace Irc\nnamespace Reply\n")
    if any_pad:
        out.append(PAD_HELPER)
    out.append("\n\n".join(defs) + "\n")
    names = ["  " + ", ".join('"%s"' % v for v in vnames[i:i + 4]) for i in range(0, len(vnames), 4)]
    out.append("/-- names of all variants, in declaration order (for tooling) -/\n"
               "def allNames : List String := [\n%s]\n" % ",\n".join(names))
    out.append("end Reply\nend Irc\n")
    content = "\n".join(out)
    summary = ("%d variants: %d plain write!, %d structured (translated), %d special-cased by snapshot"
               ", %d with audited arithmetic"
               % (len(vnames), stats["plain"], stats["structured"], stats["special"], stats["audited"]))
    return content, (summary, structured)


def main(argv=None):
    ap = argparse.ArgumentParser(description=__doc__.split("\n\n")[0])
    ap.add_argument("--src", default=DEFAULT_SRC)
    ap.add_argument("--out", default=DEFAULT_OUT)
    ap.add_argument("--check", action="store_true",
                    help="do not write; exit 1 if the file on disk differs from what would be generated")
    ap.add_argument("--print-arm", metavar="VARIANT",
                    help="print the normalised source text of one arm (for the snapshot tables)")
    ap.add_argument("--verbose", action="store_true", help="list the structured arms")
    args = ap.parse_args(argv)
    try:
        content, info = generate(args.src, args.print_arm)
    except GenError as ex:
        sys.stderr.write("gen_replies.py: ERROR: %s\n" % ex)
        return 2
    except (OSError, UnicodeDecodeError) as ex:
        sys.stderr.write("gen_replies.py: ERROR: cannot read %s: %s\n" % (args.src, ex))
        return 2
    if args.print_arm:
        print(content)
        return 0
    summary, structured = info
    try:
        with open(args.out, encoding="utf-8") as fh:
            old = fh.read()
    except FileNotFoundError:
        old = None
    if args.check:
        if old != content:
            print("gen_replies: %s is %s (%s)" % (args.out, "missing" if old is None else "OUT OF DATE", summary))
            return 1
        print("gen_replies: %s up to date (%s)" % (args.out, summary))
        return 0
    if old == content:
        state = "unchanged"
    else:
        os.makedirs(os.path.dirname(args.out), exist_ok=True)
        tmp = args.out + ".tmp"
        with open(tmp, "w", encoding="utf-8") as fh:
            fh.write(content)
        os.replace(tmp, args.out)
        state = "written"
    print("gen_replies: %s %s (%s)" % (args.out, state, summary))
    if args.verbose:
        for s in structured:
            print("  structured: " + s)
    return 0


if __name__ == "__main__":
    sys.exit(main())
