#!/usr/bin/env python3
"""development aid: run every monitor on implementation transcripts of every profile"""
import sys, os, subprocess, collections
sys.path.insert(0, os.path.dirname(os.path.dirname(os.path.abspath(__file__))))
from vlib import gen, canon, monitors, runner
seed = int(sys.argv[1]) if len(sys.argv) > 1 else 1
nseq = int(sys.argv[2]) if len(sys.argv) > 2 else 80
tot = collections.Counter()
for prof in ["general"] + list(gen.PROFILES.keys())[1:]:
    path = runner.WORK + "/mon-%s.ops" % prof
    os.makedirs(runner.WORK, exist_ok=True)
    gen.write_ops_file(path, prof, seed, nseq, 70)
    r = subprocess.run([runner.HARNESS, "run", path], capture_output=True, text=True)
    seqs = canon.parse_transcript(r.stdout)
    defs = runner.read_ops_file(path)
    for i, s in enumerate(seqs):
        for name, f in monitors.MON.items():
            for m in f(s, monitors.seq_ctx(defs[i][1])):
                tot[m["signature"]] += 1
                if tot[m["signature"]] <= 2:
                    print(prof, s.name, m["signature"], "op", m["op"], str(m["detail"])[:400])
print(dict(tot))
