#!/usr/bin/env python3
"""par_run.py seeded [ids...] | harmless [ids...]   [-j N]
Runs quick checks against seeded changes (or harmless refactorings) IN PARALLEL and without touching /repo or /verif:
each worker owns a clone of /repo and a copy of /verif under /tmp/par/<k>/ and executes inside a private mount
namespace in which these are bind-mounted at /repo and /verif (so every absolute path - the harness's
#[path = "/repo/src/..."], lake's build directory - stays valid).  Results:
   seeded   -> work/par-seeded.json   {id: {"verdict": CAUGHT|MISSED, "how": [...]}}  and seeded/RESULTS.md (full run only)
   harmless -> work/par-harmless.json {id: {prop: rc}}  (every one of the twenty quick checks must stay silent)
The registered checks themselves (MANIFEST.json) always run in /verif against /repo itself; this tool is a development aid."""
import os, sys, json, subprocess, glob, shutil, re
from concurrent.futures import ThreadPoolExecutor
V = "/verif"
PAR = os.environ.get("PAR_DIR", "/tmp/par")
args = sys.argv[1:]
J = 4
if "-j" in args:
    i = args.index("-j")
    J = int(args[i + 1])
    del args[i:i + 2]
mode = args[0]
only = args[1:]


def sh(cmd, **kw):
    return subprocess.run(cmd, shell=True, capture_output=True, text=True, **kw)


def prepare(k):
    d = "%s/%d" % (PAR, k)
    os.makedirs(d, exist_ok=True)
    if not os.path.exists(d + "/repo/.git"):
        sh("rm -rf %s/repo && git clone -q /repo %s/repo" % (d, d))
    sh("git -C %s/repo fetch -q origin && git -C %s/repo checkout -q --detach origin/HEAD 2>/dev/null || "
       "git -C %s/repo pull -q" % (d, d, d))
    head = sh("git -C /repo rev-parse HEAD").stdout.strip()
    sh("git -C %s/repo fetch -q /repo %s; git -C %s/repo checkout -q --detach %s; git -C %s/repo checkout -- ." % (d, head, d, head, d))
    # the working copy of /verif as it is now (build outputs included; replays and .git excluded)
    r = sh("rsync -a --delete --exclude .git --exclude replays --exclude 'work/par-*' /verif/ %s/verif/" % d)
    if r.returncode != 0:
        sys.exit("rsync failed: " + r.stderr)
    return d


def in_ns(d, script):
    cmd = ("unshare -m sh -c 'mount --bind %s/repo /repo && mount --bind %s/verif /verif && cd /verif && %s'"
           % (d, d, script.replace("'", "'\\''")))
    return sh(cmd)


def job_seeded(k, name):
    d = "%s/%d" % (PAR, k)
    pid = name.split("-")[0]
    script = ("git -C /repo checkout -q -- . && git -C /repo apply /verif/seeded/%s/patch.diff && "
              "./check %s --quick; rc=$?; git -C /repo checkout -q -- .; exit $rc" % (name, pid))
    r = in_ns(d, script)
    out = r.stdout
    v = [l for l in out.split("\n") if l.startswith("VIOLATION")]
    kinds = sorted({("concrete" if not l.endswith("no-failing-input-found") else "no-failing-input-found") + ":" +
                    l.split("replay=")[1].split("/")[-1].split("-")[1] for l in v})
    if "does not apply" in r.stderr or "patch failed" in r.stderr:
        return name, {"verdict": "PATCH-DOES-NOT-APPLY", "how": [], "err": r.stderr[-300:]}
    return name, {"verdict": "CAUGHT" if v else "MISSED", "how": kinds,
                  "reasons": [l.strip()[:300] for l in out.split("\n") if l.startswith("  reason:")][:4]}


def job_harmless(k, name):
    d = "%s/%d" % (PAR, k)
    res = {}
    script = ("git -C /repo checkout -q -- . && git -C /repo apply /verif/seeded/harmless/%s.diff && "
              "(cd harness && cargo build 2>&1 | tail -1) ; "
              "for p in 01 02 03 04 05 06 07 08 09 10 11 12 13 14 15 16 17 18 19 20; do ./check C$p --quick > work/h-C$p.log 2>&1; "
              "echo \"RC C$p $? $(grep -c ^VIOLATION work/h-C$p.log) $(grep ^VIOLATION work/h-C$p.log | head -2 | tr '\\n' ' ')\"; done; "
              "git -C /repo checkout -q -- ." % name)
    r = in_ns(d, script)
    for l in r.stdout.split("\n"):
        if l.startswith("RC "):
            t = l.split(" ", 4)
            res[t[1]] = {"rc": int(t[2]), "violations": int(t[3]), "lines": t[4] if len(t) > 4 else ""}
    if not res:
        res["error"] = (r.stdout + r.stderr)[-500:]
    return name, res


def main():
    if mode == "seeded":
        names = [os.path.basename(x.rstrip("/")) for x in sorted(glob.glob(V + "/seeded/C*/")) if os.path.exists(x + "patch.diff")]
        job = job_seeded
    else:
        names = [os.path.basename(x)[:-5] for x in sorted(glob.glob(V + "/seeded/harmless/*.diff"))]
        job = job_harmless
    if only:
        names = [n for n in names if n in only]
    n_workers = min(J, max(1, len(names)))
    dirs = [prepare(k) for k in range(n_workers)]
    import queue
    q = queue.Queue()
    for k in range(n_workers):
        q.put(k)
    results = {}

    def run(name):
        k = q.get()
        try:
            nm, res = job(k, name)
            print(nm, json.dumps(res)[:300], flush=True)
            return nm, res
        finally:
            q.put(k)
    with ThreadPoolExecutor(n_workers) as ex:
        for nm, res in ex.map(run, names):
            results[nm] = res
    path = V + "/work/par-%s.json" % mode
    old = {}
    if only and os.path.exists(path):
        old = json.load(open(path))
    old.update(results)
    json.dump(old, open(path, "w"), indent=1)
    if mode == "seeded" and not only:
        with open(V + "/seeded/RESULTS.md", "w") as f:
            f.write("| seeded change | property | quick check | how |\n|---|---|---|---|\n")
            for nm in sorted(results):
                f.write("| %s | %s | %s | %s |\n" % (nm, nm.split("-")[0], results[nm]["verdict"], ", ".join(results[nm]["how"])))
    bad = [n for n, r in results.items() if (mode == "seeded" and r["verdict"] != "CAUGHT")
           or (mode != "seeded" and any(isinstance(x, dict) and x.get("violations") for x in r.values()))]
    print("DONE", len(results), "problems:", bad)


if __name__ == "__main__":
    main()
