#!/bin/sh
# Build the verification framework from files on disk only (offline).
set -e
cd "$(dirname "$0")"
export CARGO_NET_OFFLINE=true
python3 tools/gen_replies.py || echo 'gen_replies: not translatable, committed Reply.lean kept'
python3 tools/gen_help.py || echo 'gen_help: not translatable, committed Help.lean kept'
(cd harness && cargo build 2>&1 | tail -3)
# /repo's own binary without hooks (start-up validation, -g, DIE: checks C20 and C11)
mkdir -p work && (cd /repo && cargo build --offline --target-dir /verif/work/bin-target 2>&1 | tail -2)
(cd lean && lake build ircmodel Irc Irc.LoadTest 2>&1 | tail -3)
# property modules (theorems) registered in vlib/props.py; built here once so that the checks only re-check what changed
(cd lean && python3 -c "
import sys; sys.path.insert(0, '/verif')
from vlib.props import P
mods = []
for k in sorted(P):
    for m in [P[k]['module']] + P[k].get('extra_modules', []):
        if m not in mods: mods.append(m)
print(' '.join(mods))
" | xargs lake build 2>&1 | tail -3) || true
echo setup done
