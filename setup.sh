#!/bin/sh
# Build the verification framework from files on disk only (offline).
set -e
cd "$(dirname "$0")"
export CARGO_NET_OFFLINE=true
python3 tools/gen_replies.py
python3 tools/gen_help.py
(cd harness && cargo build 2>&1 | tail -3)
# /repo's own binary without hooks (start-up validation, -g, DIE: checks C20 and C11)
mkdir -p work && (cd /repo && cargo build --offline --target-dir /verif/work/bin-target 2>&1 | tail -2)
(cd lean && lake build ircmodel Irc 2>&1 | tail -3)
# property modules (theorems); built here once so that the checks only re-check what changed
(cd lean && for f in Irc/Props/*.lean Irc/InvProofs/*.lean; do m=$(echo "$f" | sed 's/\.lean$//; s#/#.#g'); echo $m; done | xargs lake build 2>&1 | tail -3) || true
echo setup done
