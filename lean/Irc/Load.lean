/-
  Irc.Load — the inverse of `Irc.dumpWorld`: build a `World` from the `st …` records of one
  operation block of a transcript (the implementation's, printed by the hook
  /repo/src/state/verif_hooks.rs, or the model's own).

  Input format.  `loadWorld cfg records`: every record is the list of the blank-separated
  tokens of one `st …` line, EXACTLY as they stand in the transcript (`splitOnChar ' '` of the
  line, what `words` of `Main.lean` yields): the tokens are still in their escaped form,
  because a record cannot carry the structure of the composite tokens (`+<esc>` / `-` options,
  comma lists `%n`) once they are unescaped; `loadWorld` applies `unesc` / `unescList` itself,
  field by field, mirroring `Dump.lean`.  The leading `st` token may be present or absent.
  Records of an unknown kind and malformed (too short) fields are tolerated (missing token = empty
  token), never an error: the loader is total.

  Specification: `dumpWorld (loadWorld cfg (parseRecords (dumpWorld w)))` is `dumpWorld w`
  (checked, up to the order of the lines, in `Irc/LoadTest.lean`).  Order: `dumpWorld` prints the
  association lists in THEIR order (sets are printed sorted), the hook prints `HashMap` iteration
  order; the loader keeps the order of the records (users, channels, the members / bans of one
  channel, history nicks, connections all appear in the loaded world in the order of their first
  record), sets come back in the (sorted) order of the token.  All observations of the model go
  through `lookup` / membership, so only the order of fan-outs / listings depends on it, which the
  transcript comparison canonicalises anyway.

  Fields that the dump does NOT print and how they are reconstructed:
   * `User.owner`      := the `id` of the first connection record with `nick = some <user key>` and
                          `authenticated`; failing that, of the first connection record with that
                          nick; failing that, 0.
   * `Conn.killedBy`   := `none`  (a dump is taken between operations: every signal is settled).
   * `World.panicked`  := `none`.
   * `World.cmdCounts` := the value of `World.init cfg` (all zero).  (`STATS m` reads it: the
                          `stepfrom` driver threads the model's own counters through the sequence.)
   * anything else (nothing today; any field added to `World` later) := `World.init cfg`.
  Nothing else is missing: `Channel.preconfigured`, the default rank lists, topic text + setter,
  ban `who`, all `Conn` flags are printed.  Times (topic / ban / signon / start time) are not part
  of the model state at all.

  What a `World` cannot represent, hence is dropped by the loader (never produced by the hook on
  a reachable state of the server):
   * `st member` / `st ban` records whose channel has no `st chan` record;
   * a `nick_histories` entry with an empty list (prints no record);
   * `st hist` indices with holes (entries are ordered by index, the dump renumbers 0,1,…);
   * the distinction `None` / `Some(∅)` of the `Option<HashSet>` channel lists (`State.lean` header).
-/
import Irc.Dump

namespace Irc

/-! ### inverses of the mode-letter renderings -/

/-- inverse of `UserModes.letters` (`iOorw`). -/
def UserModes.ofLetters (s : Str) : UserModes :=
  { invisible := containsChar 'i' s, oper := containsChar 'o' s, localOper := containsChar 'O' s,
    registered := containsChar 'r' s, wallops := containsChar 'w' s }

/-- inverse of `ChanUserModes.letters` (`qaohv`). -/
def ChanUserModes.ofLetters (s : Str) : ChanUserModes :=
  { founder := containsChar 'q' s, prot := containsChar 'a' s, operator := containsChar 'o' s,
    halfOper := containsChar 'h' s, voice := containsChar 'v' s }

/-- inverse of `ChannelModes.flagLetters` (`imstn`): sets the five flags of `m`. -/
def ChannelModes.withFlagLetters (m : ChannelModes) (s : Str) : ChannelModes :=
  { m with inviteOnly := containsChar 'i' s, moderated := containsChar 'm' s,
           secret := containsChar 's' s, protectedTopic := containsChar 't' s,
           noExternalMessages := containsChar 'n' s }

/-! ### token decoders (inverses of `optTok`, `setTok`, `bit`, `natToStr`) -/

def unOptTok : Str → Option Str
  | '+' :: r => some (unesc r)
  | _ => none

def unOptNatTok : Str → Option Nat
  | '+' :: r => some ((parseDigits r).getD 0)
  | _ => none

def unSetTok (s : Str) : KSet := unescList s

def unBit (s : Str) : Bool := s == ['1']

def unNat (s : Str) : Nat := (parseDigits s).getD 0

/-- the lines of a dump as records. -/
def parseRecords (lines : List Str) : List (List Str) := lines.map (splitOnChar ' ')

/-! ### records by kind -/

structure Recs where
  users : List (List Str) := []
  chans : List (List Str) := []
  members : List (List Str) := []
  bans : List (List Str) := []
  hists : List (List Str) := []
  conns : List (List Str) := []
  cnt : List Str := []
  wallops : List Str := []
  srv : List Str := []

/-- arguments of a record: the tokens after `st <kind>` (or after `<kind>`). -/
def recBody (r : List Str) : List Str :=
  match r with
  | t :: rest => if t = ['s', 't'] then rest else r
  | [] => []

/-- one record goes to the FRONT of its class (used from right to left, so that the classes end
    in record order and the FIRST `cnt` / `wallops` / `srv` record wins). -/
def classify (r : List Str) (acc : Recs) : Recs :=
  match recBody r with
  | [] => acc
  | kind :: a =>
    if kind = str "user" then { acc with users := a :: acc.users }
    else if kind = str "chan" then { acc with chans := a :: acc.chans }
    else if kind = str "member" then { acc with members := a :: acc.members }
    else if kind = str "ban" then { acc with bans := a :: acc.bans }
    else if kind = str "hist" then { acc with hists := a :: acc.hists }
    else if kind = str "conn" then { acc with conns := a :: acc.conns }
    else if kind = str "cnt" then { acc with cnt := a }
    else if kind = str "wallops" then { acc with wallops := a }
    else if kind = str "srv" then { acc with srv := a }
    else acc

def classifyAll (records : List (List Str)) : Recs := records.foldr classify {}

/-- `i`-th argument, the empty token if the record is too short. -/
def tk (a : List Str) (i : Nat) : Str := a.getD i []

/-! ### one record of each kind -/

/-- `st conn id nick name realname password hostname source auth reg capsNeg multiPrefix quit
    hasSender hasQuitSender hasPingSender pongPending` -/
def loadConn (a : List Str) : Conn :=
  { id := unNat (tk a 0), nick := unOptTok (tk a 1), name := unOptTok (tk a 2),
    realname := unOptTok (tk a 3), password := unOptTok (tk a 4),
    hostname := unesc (tk a 5), source := unesc (tk a 6),
    authenticated := unBit (tk a 7), registered := unBit (tk a 8), capsNeg := unBit (tk a 9),
    multiPrefix := unBit (tk a 10), quit := unBit (tk a 11), hasSender := unBit (tk a 12),
    hasQuitSender := unBit (tk a 13), hasPingSender := unBit (tk a 14),
    pongPending := unBit (tk a 15), killedBy := none }

/-- the reconstruction of `User.owner`. -/
def ownerOf (conns : List Conn) (nick : Str) : Nat :=
  match conns.find? (fun cn => cn.authenticated && cn.nick == some nick) with
  | some cn => cn.id
  | none =>
    match conns.find? (fun cn => cn.nick == some nick) with
    | some cn => cn.id
    | none => 0

/-- `st user nick name realname hostname source modes away channels invitedTo hist.username
    hist.hostname hist.realname killed` -/
def loadUser (conns : List Conn) (a : List Str) : Str × User :=
  let nick := unesc (tk a 0)
  (nick,
   { name := unesc (tk a 1), realname := unesc (tk a 2), hostname := unesc (tk a 3),
     source := unesc (tk a 4), modes := UserModes.ofLetters (unesc (tk a 5)),
     away := unOptTok (tk a 6), channels := unSetTok (tk a 7), invitedTo := unSetTok (tk a 8),
     history := { username := unesc (tk a 9), hostname := unesc (tk a 10),
                  realname := unesc (tk a 11) },
     killed := unBit (tk a 12), owner := ownerOf conns nick })

/-- `st chan name topic topicNick flags key limit ban exception inviteException founders
    protecteds operators halfOperators voices d.founders d.protecteds d.operators d.halfOperators
    d.voices preconfigured`, with the `st member name nick letters` and `st ban name mask who`
    records of the same channel. -/
def loadChan (members bans : List (List Str)) (a : List Str) : Str × Channel :=
  let ename := tk a 0
  let topic : Option Topic :=
    match unOptTok (tk a 1) with
    | some t => some { topic := t, nick := (unOptTok (tk a 2)).getD [] }
    | none => none
  let modes : ChannelModes :=
    ({ key := unOptTok (tk a 4), clientLimit := unOptNatTok (tk a 5),
       ban := unSetTok (tk a 6), exception := unSetTok (tk a 7),
       inviteException := unSetTok (tk a 8),
       founders := unSetTok (tk a 9), protecteds := unSetTok (tk a 10),
       operators := unSetTok (tk a 11), halfOperators := unSetTok (tk a 12),
       voices := unSetTok (tk a 13) } : ChannelModes).withFlagLetters (unesc (tk a 3))
  let dflt : DefaultModes :=
    { founders := unSetTok (tk a 14), protecteds := unSetTok (tk a 15),
      operators := unSetTok (tk a 16), halfOperators := unSetTok (tk a 17),
      voices := unSetTok (tk a 18) }
  (unesc ename,
   { topic := topic, modes := modes, defaultModes := dflt,
     users := (members.filter (fun m => tk m 0 = ename)).map
       (fun m => (unesc (tk m 1), ChanUserModes.ofLetters (unesc (tk m 2)))),
     banInfo := (bans.filter (fun b => tk b 0 = ename)).map
       (fun b => (unesc (tk b 1), unesc (tk b 2))),
     preconfigured := unBit (tk a 19) })

/-! ### nick histories: `st hist nick i username hostname realname` -/

def insertByIdx (x : Nat × HistEntry) : List (Nat × HistEntry) → List (Nat × HistEntry)
  | [] => [x]
  | y :: ys => if y.1 ≤ x.1 then y :: insertByIdx x ys else x :: y :: ys

/-- add one entry to the list of its nick (kept sorted by index; a new nick goes to the end). -/
def addHist (nick : Str) (x : Nat × HistEntry) :
    Map (List (Nat × HistEntry)) → Map (List (Nat × HistEntry))
  | [] => [(nick, [x])]
  | (k, v) :: rest => if k = nick then (k, insertByIdx x v) :: rest else (k, v) :: addHist nick x rest

def loadHists (hists : List (List Str)) : Map (List HistEntry) :=
  let m := hists.foldl (fun m a =>
    addHist (unesc (tk a 0))
      (unNat (tk a 1), { username := unesc (tk a 2), hostname := unesc (tk a 3),
                         realname := unesc (tk a 4) }) m) []
  m.map (fun (n, es) => (n, es.map (·.2)))

/-! ### the world -/

def loadWorld (cfg : Cfg) (records : List (List Str)) : World :=
  let r := classifyAll records
  let conns := r.conns.map loadConn
  { World.init cfg with
    users := r.users.map (loadUser conns)
    channels := r.chans.map (loadChan r.members r.bans)
    wallops := unSetTok (match r.wallops with | t :: _ => t | [] => ['%', 'n'])
    invisibleCount := unNat (tk r.cnt 0)
    operatorsCount := unNat (tk r.cnt 1)
    maxUsers := unNat (tk r.cnt 2)
    connsCount := unNat (tk r.cnt 3)
    histories := loadHists r.hists
    srvQuit := unBit (tk r.srv 0)
    conns := conns
    panicked := none }

end Irc
