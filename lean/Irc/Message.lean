/-
  Irc.Message — command.rs `Message::from_shared_str` (patched) and
  `Message::to_string_with_source`.
-/
import Irc.Validate
namespace Irc

structure Message where
  source : Option Str
  command : Str
  params : List Str
  deriving DecidableEq, Repr

inductive MessageError | empty | wrongSource | noCommand
  deriving DecidableEq, Repr

/-- `impl Display for MessageError`. -/
def MessageError.render : MessageError → Str
  | .empty => str "Message is empty"
  | .wrongSource => str "Wrong source syntax"
  | .noCommand => str "No command"

/-- `{:?}` of MessageError. -/
def MessageError.debug : MessageError → Str
  | .empty => str "Empty"
  | .wrongSource => str "WrongSource"
  | .noCommand => str "NoCommand"

/-- the `(start_pos..trimmed.len()).find(..)` of from_shared_str: the trailing parameter
    starts at the first ':' whose PREVIOUS byte is ascii whitespace (`*i > 0` makes
    `start_pos` irrelevant).  `prev` = previous char; result = (text before that ':',
    text after it). -/
def splitTrailing : Char → Str → Str × Option Str
  | _, [] => ([], none)
  | prev, c :: cs =>
    if c == ':' && isAsciiWhitespace prev then ([], some cs)
    else
      let r := splitTrailing c cs
      (c :: r.1, r.2)

/-- command word + params (+ trailing) out of the remaining words. -/
def Message.finish (source : Option Str) (words : List Str) (lastParam : Option Str) :
    Except MessageError Message :=
  match words with
  | [] => .error .noCommand
  | cmd :: ps =>
    .ok { source := source, command := cmd,
          params := match lastParam with
                    | some lp => ps ++ [lp]
                    | none => ps }

/-- command.rs `Message::from_shared_str`.  `trim_start` is Unicode aware, the word
    split is ASCII only.  The `rest_words.next().unwrap()` cannot fail: `rest` starts
    with the non-blank first char of `trimmed`. -/
def Message.parse (input : Str) : Except MessageError Message :=
  match trimStart input with
  | [] => .error .empty
  | c0 :: cs =>
    let r := splitTrailing c0 cs
    let rest := c0 :: r.1
    let words := splitAsciiWhitespace rest
    if c0 == ':' then
      match words with
      | [] => .error .wrongSource            -- unreachable (Rust: unwrap)
      | w :: ws =>
        let s := w.drop 1                     -- `&word[1..]`
        if !validateSource s then .error .wrongSource
        else Message.finish (some s) ws r.2
    else Message.finish none words r.2

/-- " p1 p2 .. [:]last" -/
def renderParams : List Str → Str
  | [] => []
  | [last] =>
    (if last.any (fun c => c == ':' || c == ' ' || c == '\t') || last.isEmpty
      then str " :" else str " ") ++ last
  | p :: q :: rest => ' ' :: p ++ renderParams (q :: rest)

/-- command.rs `Message::to_string_with_source`. -/
def Message.render (m : Message) (source : Str) : Str :=
  ':' :: source ++ ' ' :: m.command ++ renderParams m.params

/-- `{:?}` of `Message` (derive(Debug)). -/
def Message.debug (m : Message) : Str :=
  str "Message { source: " ++ debugOpt debugStr m.source ++ str ", command: " ++
  debugStr m.command ++ str ", params: " ++ debugStrList m.params ++ str " }"

/-! ### sanity checks -/

example : Message.parse (str "  ") = .error .empty := by decide
example : Message.parse (str ":src") = .error .noCommand := by decide
example : Message.parse (str ":a:b X") = .error .wrongSource := by decide
example : Message.parse (str ":nick!u@h PRIVMSG #a :hi  there") =
    .ok ⟨some (str "nick!u@h"), str "PRIVMSG", [str "#a", str "hi  there"]⟩ := by decide
example : Message.parse (str "JOIN  #a:b\t k ") =
    .ok ⟨none, str "JOIN", [str "#a:b", str "k"]⟩ := by decide
example : Message.parse (str "TOPIC #a :") =
    .ok ⟨none, str "TOPIC", [str "#a", []]⟩ := by decide
example : (Message.mk none (str "PRIVMSG") [str "#a", str "hi there"]).render (str "n!u@h")
    = str ":n!u@h PRIVMSG #a :hi there" := by decide
example : (Message.mk none (str "QUIT") []).render (str "n") = str ":n QUIT" := by decide

end Irc
