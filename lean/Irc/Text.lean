/-
  Irc.Text — models of the Rust std text primitives used by command.rs / utils.rs.
  Everything is structural recursion over `List Char` (kernel-evaluable).
-/
import Irc.Basic
namespace Irc

/-! ### sizes / classes -/

/-- UTF-8 encoded size of one char (`char::len_utf8`). -/
def utf8CharLen (c : Char) : Nat :=
  if c.toNat < 0x80 then 1 else if c.toNat < 0x800 then 2
  else if c.toNat < 0x10000 then 3 else 4

/-- Rust `str::len()` (bytes). -/
def utf8Len (s : Str) : Nat := s.foldr (fun c n => utf8CharLen c + n) 0

def asciiUpperChar (c : Char) : Char :=
  if 'a'.toNat ≤ c.toNat ∧ c.toNat ≤ 'z'.toNat then Char.ofNat (c.toNat - 32) else c

/-- Rust `str::to_ascii_uppercase`. -/
def asciiUpper (s : Str) : Str := s.map asciiUpperChar

/-- Rust `u8::is_ascii_whitespace`: space, \t, \n, \x0C, \r  (NOT \x0B). -/
def isAsciiWhitespace (c : Char) : Bool :=
  c.toNat == 0x20 || c.toNat == 0x09 || c.toNat == 0x0A || c.toNat == 0x0C || c.toNat == 0x0D

/-- Rust `char::is_whitespace` (Unicode White_Space). -/
def isWhitespace (c : Char) : Bool :=
  let n := c.toNat
  (0x09 ≤ n && n ≤ 0x0D) || n == 0x20 || n == 0x85 || n == 0xA0 || n == 0x1680 ||
  (0x2000 ≤ n && n ≤ 0x200A) || n == 0x2028 || n == 0x2029 || n == 0x202F ||
  n == 0x205F || n == 0x3000

/-- Rust `char::is_control` (general category Cc). -/
def isControl (c : Char) : Bool :=
  let n := c.toNat
  n ≤ 0x1F || (0x7F ≤ n && n ≤ 0x9F)

/-! ### splitting / trimming -/

/-- split at every char satisfying `p`, empty pieces kept (Rust `str::split(pred)`). -/
def splitOnPred (p : Char → Bool) : Str → List Str
  | [] => [[]]
  | x :: xs =>
    match splitOnPred p xs with
    | [] => [[]]            -- unreachable
    | q :: qs => if p x then [] :: q :: qs else (x :: q) :: qs

/-- Rust `str::split_ascii_whitespace` = split on ascii whitespace, drop empty pieces. -/
def splitAsciiWhitespace (s : Str) : List Str :=
  (splitOnPred isAsciiWhitespace s).filter (fun w => !w.isEmpty)

/-- Rust `str::trim_start` (Unicode whitespace). -/
def trimStart (s : Str) : Str := s.dropWhile isWhitespace

/-- Rust `str::starts_with(char)`. -/
def startsWithChar (c : Char) : Str → Bool
  | [] => false
  | x :: _ => x == c

/-! ### integer parsing: `str::parse::<uN>()` (core::num `from_ascii_radix`, radix 10) -/

inductive IntErr | empty | invalidDigit | posOverflow
  deriving DecidableEq, Repr

/-- Display of `core::num::ParseIntError`. -/
def IntErr.render : IntErr → Str
  | .empty => str "cannot parse integer from empty string"
  | .invalidDigit => str "invalid digit found in string"
  | .posOverflow => str "number too large to fit in target type"

/-- the digit loop: left to right; at each position an invalid digit is reported
    before the overflow of `result*10 + digit`. -/
def parseDigitsMax (max : Nat) : Nat → Str → Except IntErr Nat
  | acc, [] => .ok acc
  | acc, c :: cs =>
    match charDigit? c with
    | none => .error .invalidDigit
    | some d =>
      if acc * 10 + d > max then .error .posOverflow
      else parseDigitsMax max (acc * 10 + d) cs

/-- `from_ascii_radix` for an unsigned type with maximum `max`:
    "" → Empty; "+" / "-" → InvalidDigit; one leading '+' is skipped; a leading '-'
    is just an invalid digit. -/
def parseUnsigned (max : Nat) (s : Str) : Except IntErr Nat :=
  match s with
  | [] => .error .empty
  | [c] => if c = '+' ∨ c = '-' then .error .invalidDigit else parseDigitsMax max 0 [c]
  | c :: rest => if c = '+' then parseDigitsMax max 0 rest else parseDigitsMax max 0 (c :: rest)

def u16Max : Nat := 65535
def u32Max : Nat := 4294967295
def usizeMax : Nat := 18446744073709551615

instance {ε α : Type} [DecidableEq ε] [DecidableEq α] : DecidableEq (Except ε α) := by
  intro a b
  cases a <;> cases b <;> rename_i x y
  · exact if h : x = y then isTrue (by rw [h]) else isFalse (by intro h'; cases h'; exact h rfl)
  · exact isFalse (by intro h; cases h)
  · exact isFalse (by intro h; cases h)
  · exact if h : x = y then isTrue (by rw [h]) else isFalse (by intro h'; cases h'; exact h rfl)

/-! ### Rust `{:?}` rendering helpers (derive(Debug) output) -/

/-- `char::escape_debug` for one char; `inStr` selects which quote is escaped.
    Control chars (Cc) and the non-ASCII Unicode blanks are escaped as `\\u{hex}`; every
    other char is emitted as is (Rust additionally escapes the remaining unprintable
    (Cf, Cn, Co ..) and grapheme-extending code points — not modelled). -/
def debugEscChar (inStr : Bool) (c : Char) : Str :=
  if c.toNat == 0 then str "\\0"
  else if c == '\t' then str "\\t"
  else if c == '\r' then str "\\r"
  else if c == '\n' then str "\\n"
  else if c == '\\' then str "\\\\"
  else if c == '"' && inStr then str "\\\""
  else if c == '\'' && !inStr then str "\\'"
  else if isControl c || (isWhitespace c && c != ' ') then
    str "\\u{" ++ natToHex c.toNat ++ str "}"
  else [c]

/-- `{:?}` of a `&str` / `String`. -/
def debugStr (s : Str) : Str := '"' :: s.flatMap (debugEscChar true) ++ ['"']

/-- `{:?}` of a `char`. -/
def debugChar (c : Char) : Str := '\'' :: debugEscChar false c ++ ['\'']

/-- `{:?}` of a `Vec<T>`. -/
def debugList {α : Type} (f : α → Str) (xs : List α) : Str :=
  '[' :: joinWith (str ", ") (xs.map f) ++ [']']

/-- `{:?}` of an `Option<T>`. -/
def debugOpt {α : Type} (f : α → Str) : Option α → Str
  | none => str "None"
  | some x => str "Some(" ++ f x ++ [')']

def debugStrList (xs : List Str) : Str := debugList debugStr xs

/-! ### sanity checks -/

example : utf8Len (str "aé€") = 6 := by decide
example : asciiUpper (str "join#é") = str "JOIN#é" := by decide
example : splitAsciiWhitespace (str "  a \t b\r\n") = [str "a", str "b"] := by decide
example : splitAsciiWhitespace (str "a\x0Bb") = [str "a\x0Bb"] := by decide
example : trimStart (str " \x0B x ") = str "x " := by decide
example : parseUnsigned u16Max (str "+65535") = .ok 65535 := by decide
example : parseUnsigned u16Max (str "65536") = .error .posOverflow := by decide
example : parseUnsigned u16Max (str "99999x") = .error .posOverflow := by decide
example : parseUnsigned u16Max (str "9x9999") = .error .invalidDigit := by decide
example : parseUnsigned u32Max (str "-1") = .error .invalidDigit := by decide
example : parseUnsigned u32Max (str "+") = .error .invalidDigit := by decide
example : parseUnsigned u32Max [] = .error .empty := by decide
example : debugStr (str "a\"b\\\t'") = str "\"a\\\"b\\\\\\t'\"" := by decide
example : debugChar '\'' = str "'\\''" := by decide

end Irc
