/-
  Irc.Codec — model of tokio-util 0.7 `LinesCodec` (max_length) as wrapped by `IRCLinesCodec`
  (utils.rs) and driven by `Framed`: decode over a byte buffer fed in arbitrary chunks,
  `decode_eof` at the end, the stream ends at the first error.  Bytes are `Nat`s < 256.
  The codec is third-party code: this model is validated (fn-mode differential test under
  random chunkings), not verified.
-/
import Irc.Basic

namespace Irc.Codec

/-! ### UTF-8 (Rust `str::from_utf8`: shortest form, no surrogates, ≤ U+10FFFF) -/

def isCont (b : Nat) : Bool := 0x80 ≤ b && b ≤ 0xBF

def utf8Decode : List Nat → Option Str
  | [] => some []
  | b0 :: rest =>
    if b0 < 0x80 then (utf8Decode rest).map (Char.ofNat b0 :: ·)
    else if 0xC2 ≤ b0 && b0 ≤ 0xDF then
      match rest with
      | b1 :: r => if isCont b1 then
          (utf8Decode r).map (Char.ofNat ((b0 - 0xC0) * 64 + (b1 - 0x80)) :: ·) else none
      | _ => none
    else if 0xE0 ≤ b0 && b0 ≤ 0xEF then
      match rest with
      | b1 :: b2 :: r =>
        let lo := if b0 = 0xE0 then 0xA0 else 0x80
        let hi := if b0 = 0xED then 0x9F else 0xBF
        if lo ≤ b1 && b1 ≤ hi && isCont b2 then
          (utf8Decode r).map (Char.ofNat ((b0 - 0xE0) * 4096 + (b1 - 0x80) * 64 + (b2 - 0x80)) :: ·)
        else none
      | _ => none
    else if 0xF0 ≤ b0 && b0 ≤ 0xF4 then
      match rest with
      | b1 :: b2 :: b3 :: r =>
        let lo := if b0 = 0xF0 then 0x90 else 0x80
        let hi := if b0 = 0xF4 then 0x8F else 0xBF
        if lo ≤ b1 && b1 ≤ hi && isCont b2 && isCont b3 then
          (utf8Decode r).map (Char.ofNat ((b0 - 0xF0) * 262144 + (b1 - 0x80) * 4096 +
                                          (b2 - 0x80) * 64 + (b3 - 0x80)) :: ·)
        else none
      | _ => none
    else none

/-! ### LinesCodec -/

structure DecState where
  buf : List Nat := []
  nextIndex : Nat := 0
  discarding : Bool := false
  deriving Repr

inductive Frame
  | line (s : Str)
  | tooLong
  | badUtf8
  /-- `Decoder::decode_eof` default method: "bytes remaining on stream" -/
  | bytesRemaining
  deriving Repr, DecidableEq

/-- position of the first `\n` (10) in a list -/
def findNl : List Nat → Option Nat
  | [] => none
  | b :: bs => if b = 10 then some 0 else (findNl bs).map (· + 1)

def chompCr (l : List Nat) : List Nat :=
  match l.getLast? with
  | some 13 => l.dropLast
  | _ => l

def mkLine (bytes : List Nat) : Frame :=
  match utf8Decode (chompCr bytes) with
  | some s => .line s
  | none => .badUtf8

/-- `LinesCodec::decode`; `none` = `Ok(None)` (need more data). Fuel bounds the `loop`
    (each iteration without return consumes at least one byte of the buffer). -/
def decode (max : Nat) : Nat → DecState → DecState × Option Frame
  | 0, s => (s, none)
  | fuel + 1, s =>
    let readTo := min (max + 1) s.buf.length
    let off := findNl ((s.buf.take readTo).drop s.nextIndex)
    match s.discarding, off with
    | true, some o =>
      decode max fuel { buf := s.buf.drop (o + s.nextIndex + 1), nextIndex := 0, discarding := false }
    | true, none =>
      let s' : DecState := { buf := s.buf.drop readTo, nextIndex := 0, discarding := true }
      if s'.buf.isEmpty then (s', none) else decode max fuel s'
    | false, some o =>
      let ni := o + s.nextIndex
      let lineBytes := s.buf.take ni            -- without the '\n'
      ({ buf := s.buf.drop (ni + 1), nextIndex := 0, discarding := false }, some (mkLine lineBytes))
    | false, none =>
      if s.buf.length > max then ({ s with discarding := true }, some .tooLong)
      else ({ s with nextIndex := readTo }, none)

/-- `decode_eof` after `decode` returned `Ok(None)`.  `IRCLinesCodec` implements only
    `decode`, so this is the DEFAULT `Decoder::decode_eof`: an unterminated tail is not
    delivered as a line, it is the error "bytes remaining on stream". -/
def decodeEofTail (s : DecState) : DecState × Option Frame :=
  if s.buf.isEmpty then (s, none) else (s, some .bytesRemaining)

def isErr : Frame → Bool
  | .line _ => false
  | _ => true

/-- drain all frames currently decodable; stops at the first error (Framed ends the stream). -/
def drain (max : Nat) : Nat → DecState → List Frame → DecState × List Frame × Bool
  | 0, s, acc => (s, acc, false)
  | fuel + 1, s, acc =>
    match decode max (s.buf.length + 2) s with
    | (s', none) => (s', acc, false)
    | (s', some f) => if isErr f then (s', acc ++ [f], true) else drain max fuel s' (acc ++ [f])

/-- the fn-mode driver: feed chunks, then EOF. -/
def runChunks (max : Nat) : List (List Nat) → DecState → List Frame → List Frame
  | [], s, acc =>
    -- decode_eof loop
    let rec eofLoop : Nat → DecState → List Frame → List Frame
      | 0, _, acc => acc
      | fuel + 1, s, acc =>
        match decode max (s.buf.length + 2) s with
        | (s', some f) => if isErr f then acc ++ [f] else eofLoop fuel s' (acc ++ [f])
        | (s', none) =>
          match decodeEofTail s' with
          | (_, some f) => acc ++ [f]
          | (_, none) => acc
    eofLoop (s.buf.length + 2) s acc
  | ch :: rest, s, acc =>
    let (s', acc', failed) := drain max (s.buf.length + ch.length + 2) { s with buf := s.buf ++ ch } acc
    if failed then acc' else runChunks max rest s' acc'

def codecRun (max : Nat) (chunks : List (List Nat)) : List Frame := runChunks max chunks {} []

end Irc.Codec
