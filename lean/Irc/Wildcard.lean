/-
  Irc.Wildcard — utils.rs `match_wildcard` (patched, char based), its spec `glob`,
  and `normalize_sourcemask`.
-/
import Irc.Text
namespace Irc

/-- utils.rs `starts_single_wilcards`: `pattern.len() <= text.len()` and every zipped
    pair satisfies `p == '?' || p == c`. -/
def startsSingleWildcards : Str → Str → Bool
  | [], _ => true
  | _ :: _, [] => false
  | p :: ps, c :: cs => (p == '?' || p == c) && startsSingleWildcards ps cs

/-- middle-segment search (`while i + m.len() <= t.len() && !starts(m, &t[i..])`):
    the text after the LEFTMOST occurrence of `m`, or `none`. -/
def findSingleWildcards (m : Str) : Str → Option Str
  | [] => if startsSingleWildcards m [] then some [] else none
  | c :: cs =>
    if startsSingleWildcards m (c :: cs) then some ((c :: cs).drop m.length)
    else findSingleWildcards m cs

/-- last-segment test: `t.len() >= m.len() && starts(m, &t[t.len() - m.len()..])`. -/
def endsSingleWildcards (m t : Str) : Bool :=
  decide (m.length ≤ t.length) && startsSingleWildcards m (t.drop (t.length - m.length))

/-- loop iterations with `asterisk = true`, over the remaining '*'-separated segments.
    A segment followed by another one has `cur_ast = true` (leftmost search); the final
    segment has `cur_ast = false` (suffix test, then `t = ""`).  Empty segments are
    skipped (`if !m.is_empty()`).  Result: the remaining text, `none` = `return false`. -/
def matchRestSegments : List Str → Str → Option Str
  | [], t => some t
  | [m], t =>
    if m.isEmpty then some t
    else if endsSingleWildcards m t then some [] else none
  | m :: m' :: ms, t =>
    if m.isEmpty then matchRestSegments (m' :: ms) t
    else
      match findSingleWildcards m t with
      | some t' => matchRestSegments (m' :: ms) t'
      | none => none

/-- first iteration (`asterisk = false`): prefix test, `t = &t[m.len()..]`. -/
def matchFirstSegment (m t : Str) : Option Str :=
  if m.isEmpty then some t
  else if startsSingleWildcards m t then some (t.drop m.length) else none

/-- `pattern.last() == Some(&'*')`. -/
def endsWithStar (p : Str) : Bool := p.getLast? == some '*'

/-- utils.rs `match_wildcard`. -/
def matchWildcard (pattern text : Str) : Bool :=
  match splitOnChar '*' pattern with
  | [] => text.isEmpty                       -- unreachable
  | m :: ms =>
    match matchFirstSegment m text with
    | none => false
    | some t =>
      match matchRestSegments ms t with
      | none => false
      | some t' => endsWithStar pattern || t'.isEmpty

/-! ### the specification -/

/-- `f` holds for some suffix of the text. -/
def anySuffix (f : Str → Bool) : Str → Bool
  | [] => f []
  | c :: t => f (c :: t) || anySuffix f t

/-- SPEC of glob matching: `*` = any (possibly empty) run, `?` = exactly one char. -/
def glob : Str → Str → Bool
  | [], t => t.isEmpty
  | p :: ps, t =>
    if p == '*' then anySuffix (glob ps) t
    else
      match t with
      | [] => false
      | c :: t' => (p == '?' || p == c) && glob ps t'

/-! ### normalize_sourcemask -/

/-- utils.rs `normalize_sourcemask`. -/
def normalizeSourcemask (mask : Str) : Str :=
  match findChar '!' mask with
  | some p =>
    if (findChar '@' (mask.drop (p + 1))).isNone then mask ++ str "@*" else mask
  | none =>
    match findChar '@' mask with
    | some p2 => mask.take p2 ++ str "!*" ++ mask.drop p2
    | none => mask ++ str "!*@*"

/-! ### sanity checks -/

example : matchWildcard (str "a*b?d") (str "axxbcd") = true := by decide
example : matchWildcard (str "a*b?d") (str "axxbcde") = false := by decide
example : matchWildcard (str "*") [] = true := by decide
example : matchWildcard [] [] = true := by decide
example : matchWildcard (str "a*a") (str "a") = false := by decide
example : matchWildcard (str "*ab*ab") (str "abab") = true := by decide
example : glob (str "a*b?d") (str "axxbcd") = true := by decide
example : glob (str "a*a") (str "a") = false := by decide
example : normalizeSourcemask (str "*") = str "*!*@*" := by decide
example : normalizeSourcemask (str "a@h") = str "a!*@h" := by decide
example : normalizeSourcemask (str "a!u") = str "a!u@*" := by decide
example : normalizeSourcemask (str "a@b!u") = str "a@b!u@*" := by decide

end Irc
