/-
  Irc.Config — `config.rs`: what `MainConfig::new(cli)` does AFTER the TOML text has been
  parsed (clap, toml and serde are trusted and not modelled): the command-line override
  block, the TLS certificate/key pair check, the `validator` derive (`config.validate()`),
  and `validate_nicknames`, in the order of the Rust text.

  Sources read for this transcription
  * `/repo/src/config.rs`  `MainConfig::new`, the `#[validate(..)]` attributes.
  * `/repo/src/utils.rs`   `validate_username`, `validate_channel` (already `Irc.Validate`),
    `validate_password_hash`.
  * validator 0.14.0: `contains = "."` is `String::contains(".")`; `length(min = 6)` uses
    `HasLen for String` = `self.chars().count()` (characters, not bytes); on an `Option`
    field every rule is applied only when the value is `Some`; `#[validate]` on
    `Option<Vec<T>>` validates every element; `ChannelModes` derives `Validate` without any
    rule.  The derive does not short-circuit: it collects ALL errors and returns `Err` iff
    there is at least one.  The model reports the FIRST failing field in declaration order
    (`name`, `password`, `operators`, `users`, `channels`); only Ok/Err is observable in the
    harness (`Err` is printed without the text).
  * password-hash 0.4.2 `Output::b64_decode` = base64ct 1.8.3 `Base64Unpadded::decode` into a
    64-byte buffer followed by `Output::new` (10 ≤ len ≤ 64), then utils.rs demands
    `len == 64`.  base64ct: `decoded_len(n) = 3*(n/4) + 3*(n%4)/4` must be ≤ 64 (so n ≤ 86),
    a 1-byte remainder is an error, every byte must be in `A-Za-z0-9+/` (a non-ASCII
    character contributes bytes ≥ 0x80, which are not), and `validate_last_block` re-encodes
    the last decoded block and compares it with the input: non-canonical trailing bits are
    REJECTED.  64 bytes ⇔ n = 86; the last block is 2 characters / 1 byte, so the last
    character must have its low 4 bits zero (`A`, `Q`, `g` or `w`).
    Checked against the real code through the harness (`vhash`): `…+w`, `…+A`, `…+Q`, `…+g`
    accepted, `…+x`, `…+B`, 85/87/88 characters, `-` in the text, `==` padding rejected.

  Import discipline: this file is compiled into the driver executable — no Mathlib.
-/
import Irc.Validate
import Irc.State

namespace Irc.Config
open Irc

/-! ### the unpadded standard base64 alphabet ("B64" of the PHC string format) -/

/-- value of one base64 character (`Alphabet::decode_6bits` of `Base64Unpadded`),
    `none` for a character outside `A-Za-z0-9+/`. -/
def b64val (c : Char) : Option Nat :=
  let n := c.toNat
  if 65 ≤ n ∧ n ≤ 90 then some (n - 65)            -- 'A'..'Z' ↦ 0..25
  else if 97 ≤ n ∧ n ≤ 122 then some (n - 71)      -- 'a'..'z' ↦ 26..51
  else if 48 ≤ n ∧ n ≤ 57 then some (n + 4)        -- '0'..'9' ↦ 52..61
  else if n = 43 then some 62                      -- '+'
  else if n = 47 then some 63                      -- '/'
  else none

/-- the character of a 6-bit value (`Alphabet::encode_6bits`). -/
def b64char (v : Nat) : Char :=
  if v < 26 then Char.ofNat (65 + v)
  else if v < 52 then Char.ofNat (71 + v)
  else if v < 62 then Char.ofNat (v - 4)
  else if v = 62 then '+' else '/'

def isB64Char (c : Char) : Bool := (b64val c).isSome

/-- the last character carries only 2 payload bits when 86 characters encode 64 bytes:
    its low 4 bits must be zero (base64ct `validate_last_block`). -/
def lastCanonical : Str → Bool
  | [] => false
  | [c] => (b64val c).getD 1 % 16 == 0
  | _ :: c :: cs => lastCanonical (c :: cs)

/-- utils.rs `validate_password_hash` (true = Ok): `Output::b64_decode` succeeds and gives
    exactly 64 bytes. -/
def validPasswordHash (s : Str) : Bool :=
  s.length == 86 && s.all isB64Char && lastCanonical s

/-- `Base64Unpadded::encode` on a list of bytes (each `< 256`): 3 bytes ↦ 4 characters,
    a remainder of 1 byte ↦ 2 characters, of 2 bytes ↦ 3 characters, no padding.
    This is what `Output`'s `Display` (hence `-g`) prints. -/
def b64encode : List Nat → Str
  | [] => []
  | [b0] => [b64char (b0 / 4), b64char (b0 % 4 * 16)]
  | [b0, b1] => [b64char (b0 / 4), b64char (b0 % 4 * 16 + b1 / 16), b64char (b1 % 16 * 4)]
  | b0 :: b1 :: b2 :: rest =>
    b64char (b0 / 4) :: b64char (b0 % 4 * 16 + b1 / 16) ::
      b64char (b1 % 16 * 4 + b2 / 64) :: b64char (b2 % 64) :: b64encode rest

/-- `Base64Unpadded::decode` restricted to what `validate_password_hash` needs: the byte
    list, or `none` when the text is not canonical unpadded base64. -/
def b64decode : Str → Option (List Nat)
  | [] => some []
  | [_] => none
  | [c0, c1] =>
    match b64val c0, b64val c1 with
    | some v0, some v1 => if v1 % 16 = 0 then some [v0 * 4 + v1 / 16] else none
    | _, _ => none
  | [c0, c1, c2] =>
    match b64val c0, b64val c1, b64val c2 with
    | some v0, some v1, some v2 =>
      if v2 % 4 = 0 then some [v0 * 4 + v1 / 16, v1 % 16 * 16 + v2 / 4] else none
    | _, _, _ => none
  | c0 :: c1 :: c2 :: c3 :: rest =>
    match b64val c0, b64val c1, b64val c2, b64val c3, b64decode rest with
    | some v0, some v1, some v2, some v3, some bs =>
      some ((v0 * 4 + v1 / 16) :: (v1 % 16 * 16 + v2 / 4) :: (v2 % 4 * 64 + v3) :: bs)
    | _, _, _, _, _ => none

/-! ### the configuration file after TOML parsing -/

structure RawOper where
  name : Str
  password : Str
  mask : Option Str := none
  deriving DecidableEq, Repr, Inhabited

structure RawUser where
  name : Str
  nick : Str
  password : Option Str := none
  mask : Option Str := none
  deriving DecidableEq, Repr, Inhabited

structure RawChannel where
  name : Str
  topic : Option Str := none
  /-- `ChannelModes` derives `Validate` without any rule -/
  modes : ChannelModes := {}
  deriving DecidableEq, Repr, Inhabited

/-- `MainConfig` (config.rs).  `listen` is the `Display` form of the parsed `IpAddr`;
    `port` is a `u16` (range enforced by toml/clap, trusted).  `log_level`, the timeouts and
    `max_connections` carry no rule and are read only by `main.rs`; they are omitted. -/
structure RawConfig where
  name : Str
  network : Str
  listen : Str
  port : Nat
  password : Option Str := none
  dnsLookup : Bool := false
  tls : Option (Str × Str) := none
  logFile : Option Str := none
  operators : List RawOper := []
  users : List RawUser := []
  channels : List RawChannel := []
  adminInfo : Str := []
  adminInfo2 : Option Str := none
  adminEmail : Option Str := none
  info : Str := []
  motd : Str := []
  maxConnections : Option Nat := none
  maxJoins : Option Nat := none
  defaultUserModes : UserModes := {}
  deriving DecidableEq, Repr, Inhabited

/-- `Cli` (config.rs) without `-g`, `-P`, `-c` (handled in `main.rs` before/outside
    `MainConfig::new`). -/
structure CliOpts where
  listen : Option Str := none
  port : Option Nat := none
  name : Option Str := none
  network : Option Str := none
  logFile : Option Str := none
  dnsLookup : Bool := false
  tlsCert : Option Str := none
  tlsKey : Option Str := none
  deriving DecidableEq, Repr, Inhabited

inductive LoadError
  | tlsPair
  | validation (field : Str)
  | nickLength
  deriving DecidableEq, Repr, Inhabited

/-! ### `MainConfig::new` -/

/-- the block "modify configuration by CLI options", statement by statement. -/
def applyCli (cli : CliOpts) (c : RawConfig) : RawConfig :=
  let c := match cli.listen with | some a => { c with listen := a } | none => c
  let c := match cli.port with | some p => { c with port := p } | none => c
  let c := match cli.name with | some n => { c with name := n } | none => c
  let c := match cli.network with | some n => { c with network := n } | none => c
  let c := match cli.logFile with | some f => { c with logFile := some f } | none => c
  let c := { c with dnsLookup := c.dnsLookup || cli.dnsLookup }
  match cli.tlsCert, cli.tlsKey with
  | some cert, some key => { c with tls := some (cert, key) }
  | _, _ => c

/-- `(have_cert && !have_cert_key) || (!have_cert && have_cert_key)`. -/
def tlsPairBad (cli : CliOpts) : Bool :=
  (cli.tlsCert.isSome && !cli.tlsKey.isSome) || (!cli.tlsCert.isSome && cli.tlsKey.isSome)

/-- a rule applied to an `Option` field: only when `Some`. -/
def optOk (p : Str → Bool) : Option Str → Bool
  | none => true
  | some s => p s

/-- derive(Validate) on `OperatorConfig`: `none` = Ok, `some field` = first failing field. -/
def operErr (o : RawOper) : Option Str :=
  if !validateUsername o.name then some (str "name")
  else if !validPasswordHash o.password then some (str "password")
  else none

/-- `#[validate(length(min = 6))]` on a `String`: `chars().count() >= 6`. -/
def lengthMin6 (s : Str) : Bool := decide (6 ≤ s.length)

/-- derive(Validate) on `UserConfig`. -/
def userErr (u : RawUser) : Option Str :=
  if !validateUsername u.name then some (str "name")
  else if !validateUsername u.nick then some (str "nick")
  else if !optOk lengthMin6 u.password then some (str "password")
  else if !optOk validPasswordHash u.password then some (str "password")
  else none

/-- derive(Validate) on `ChannelConfig` (`modes`: nested struct without rules). -/
def chanErr (ch : RawChannel) : Option Str :=
  if !validateChannel ch.name then some (str "name") else none

/-- first element (with its index) of a `#[validate]` vector that has an error. -/
def firstBad {α : Type} (err : α → Option Str) : Nat → List α → Option (Nat × Str)
  | _, [] => none
  | i, x :: xs =>
    match err x with
    | some f => some (i, f)
    | none => firstBad err (i + 1) xs

/-- validator's path of an error inside a vector field: `operators[0].name`. -/
def vecField (vec : Str) (i : Nat) (field : Str) : Str :=
  vec ++ '[' :: natToStr i ++ ']' :: '.' :: field

/-- derive(Validate) on `MainConfig` (`config.validate()`). -/
def validate (c : RawConfig) : Except LoadError Unit :=
  if !containsChar '.' c.name then .error (.validation (str "name"))
  else if !optOk validPasswordHash c.password then .error (.validation (str "password"))
  else
    match firstBad operErr 0 c.operators with
    | some (i, f) => .error (.validation (vecField (str "operators") i f))
    | none =>
      match firstBad userErr 0 c.users with
      | some (i, f) => .error (.validation (vecField (str "users") i f))
      | none =>
        match firstBad chanErr 0 c.channels with
        | some (i, f) => .error (.validation (vecField (str "channels") i f))
        | none => .ok ()

/-- `validate_nicknames`: `!users.iter().any(|u| u.nick.len() > 200)` (byte length). -/
def validateNicknames (c : RawConfig) : Bool :=
  !c.users.any (fun u => decide (utf8Len u.nick > 200))

/-- `MainConfig::new` after the TOML parse: overrides, TLS pair check (returned BEFORE
    validation), `validate()`, `validate_nicknames()`. -/
def loadConfig (cli : CliOpts) (file : RawConfig) : Except LoadError RawConfig :=
  let c := applyCli cli file
  if tlsPairBad cli then .error .tlsPair
  else
    match validate c with
    | .error e => .error e
    | .ok () => if !validateNicknames c then .error .nickLength else .ok c

/-! ### rendering for the differential test (harness fn-mode `config`) -/

def boolStr (b : Bool) : Str := if b then str "true" else str "false"

/-- `format!("Ok {} {} {} {} {} {}", esc(name), esc(network), port, esc(listen), dns_lookup,
    tls.is_some())`. -/
def RawConfig.render (c : RawConfig) : Str :=
  str "Ok " ++ esc c.name ++ ' ' :: esc c.network ++ ' ' :: natToStr c.port ++ ' ' :: esc c.listen
    ++ ' ' :: boolStr c.dnsLookup ++ ' ' :: boolStr c.tls.isSome

/-- one output line of the harness for `config`: `Ok …` or `Err`. -/
def renderResult : Except LoadError RawConfig → Str
  | .ok c => c.render
  | .error _ => str "Err"

/-! ### the part of the configuration the handlers read -/

/-- `MainConfig` as seen by the protocol model (`Irc.Cfg`).  Password fields are carried
    over verbatim; the main model abstracts argon2 by `Cfg.pwOk` (DESIGN.md 3.1). -/
def RawConfig.toCfg (c : RawConfig) : Cfg :=
  { name := c.name, adminInfo := c.adminInfo, adminInfo2 := c.adminInfo2,
    adminEmail := c.adminEmail, info := c.info, motd := c.motd, network := c.network,
    password := c.password, maxConnections := c.maxConnections, maxJoins := c.maxJoins,
    defaultUserModes := c.defaultUserModes,
    operators := c.operators.map (fun o => { name := o.name, password := o.password, mask := o.mask }),
    users := c.users.map (fun u => { name := u.name, nick := u.nick, password := u.password, mask := u.mask }),
    channels := c.channels.map (fun ch => { name := ch.name, topic := ch.topic, modes := ch.modes }) }

/-! ### sanity checks (`decide`) -/

/-- hashes taken from the test module of config.rs. -/
def hashA : Str :=
  str "VgWezXctjWvsY6V7gzSQPnluUuAwq06m5IxwcIg3OfBIMM+zWCJntk8HEZDgh4ctFei3bqt1r0O1VIyOV7dL+w"
def hashB : Str :=
  str "u1hG814j88zYGsEZoKba2op9ems63On/QsqWWTFvEkUWaZFkzcr4Bri/sUIG5+u01qbfQ+GWF+PMXNFIPCJdag"
def hashC : Str :=
  str "DGEKj3C60CRBF+eQQF9HCmt26ofniR373G54P9D2FsxzSXzq639lUsgEeQRlMtutYUf/nWnYSOKWIVyeMtK+ug"

/-- the first configuration of `test_mainconfig_new`. -/
def sample : RawConfig :=
  { name := str "irci.localhost", network := str "IRCInetwork", listen := str "127.0.0.1",
    port := 6667, password := some hashA, motd := str "Hello, guys!",
    adminInfo := str "IRCI is local IRC server", adminInfo2 := some (str "IRCI is good server"),
    info := str "This is IRCI server", maxConnections := some 4000, maxJoins := some 10,
    defaultUserModes := { registered := true },
    tls := some (str "cert.crt", str "cert_key.crt"),
    operators := [{ name := str "matiszpaki", password := hashB }],
    users := [{ name := str "lucas", nick := str "luckboy", password := some hashC }],
    channels := [{ name := str "#channel1", topic := some (str "Some topic") },
                 { name := str "#channel2", topic := some (str "Some topic 2") }] }

/-- `cli2` of the same test. -/
def sampleCli : CliOpts :=
  { listen := some (str "192.168.1.4"), port := some 6668, name := some (str "ircer.localhost"),
    network := some (str "SomeNetwork"), dnsLookup := true,
    tlsCert := some (str "some_cert.crt"), tlsKey := some (str "some_key.crt"),
    logFile := some (str "irc.log") }

example : validPasswordHash hashA = true := by decide
example : validPasswordHash hashB = true := by decide
example : validPasswordHash hashC = true := by decide
-- 82 characters ("Wrong password hash length" in the Rust test)
example : validPasswordHash (hashB.drop 4) = false := by decide
example : validPasswordHash (str "xxxxxxxxxx") = false := by decide
-- non-canonical last character (low 4 bits not zero): rejected by base64ct
example : validPasswordHash (hashA.dropLast ++ ['x']) = false := by decide
example : validPasswordHash (hashA.dropLast ++ ['Q']) = true := by decide
example : (b64decode hashA).map List.length = some 64 := by decide

/-- a configuration without hashes (cheap for `decide`). -/
def small : RawConfig :=
  { name := str "irc.example", network := str "Net", listen := str "127.0.0.1", port := 6667,
    users := [{ name := str "lucas", nick := str "luckboy" }],
    channels := [{ name := str "#chan" }] }

example : loadConfig {} small = .ok small := by decide
example : renderResult (loadConfig {} small) = str "Ok irc.example Net 6667 127.0.0.1 false false" := by
  decide
example : renderResult (loadConfig { port := some 7000, dnsLookup := true, network := some [] } small)
    = str "Ok irc.example %e 7000 127.0.0.1 true false" := by decide
example : loadConfig { tlsCert := some (str "c") } small = .error .tlsPair := by decide
-- `-n nodot`: the override happens before validation
example : loadConfig { name := some (str "nodot") } small = .error (.validation (str "name")) := by
  decide
-- (the full list of acceptance / rejection examples, on the configuration of the Rust unit
-- test, is in `Irc/Props/C20.lean`)

end Irc.Config
