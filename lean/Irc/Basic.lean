/-
  Irc.Basic — the text representation shared by the whole model.

  `Str` is `List Char` everywhere (see DESIGN.md 3.1): every helper is written by
  structural recursion (or explicit fuel) so that the kernel can evaluate it
  (`decide`) and proofs go by plain induction.  Core `String` is used only at the
  I/O boundary of the driver (`Main.lean`).
-/
namespace Irc

abbrev Str := List Char

/-- literal helper: `s!"..."` is not available for `List Char`, so `"abc".toList`
    is written `⟪abc⟫`-free as `str "abc"`. -/
@[inline] def str (s : String) : Str := s.toList

/-! ### small list helpers (structural) -/

/-- `xs` joined with separator `sep`. -/
def joinWith (sep : Str) : List Str → Str
  | [] => []
  | [x] => x
  | x :: y :: rest => x ++ sep ++ joinWith sep (y :: rest)

/-- split at every occurrence of the character `c` (like Rust `str::split(c)`:
    always at least one piece, empty pieces kept). -/
def splitOnChar (c : Char) : Str → List Str
  | [] => [[]]
  | x :: xs =>
    match splitOnChar c xs with
    | [] => [[]]            -- unreachable, splitOnChar never returns []
    | p :: ps => if x = c then [] :: p :: ps else (x :: p) :: ps

def containsChar (c : Char) (s : Str) : Bool := s.any (· == c)

/-- index of the first occurrence of `c` (in characters). -/
def findChar (c : Char) : Str → Option Nat
  | [] => none
  | x :: xs => if x = c then some 0 else (findChar c xs).map (· + 1)

/-! ### numbers -/

def digitChar (n : Nat) : Char :=
  match n with
  | 0 => '0' | 1 => '1' | 2 => '2' | 3 => '3' | 4 => '4'
  | 5 => '5' | 6 => '6' | 7 => '7' | 8 => '8' | _ => '9'

/-- decimal rendering with explicit fuel (fuel = n+1 always suffices). -/
def natToStrAux : Nat → Nat → Str → Str
  | 0, _, acc => acc
  | fuel + 1, n, acc =>
    let acc' := digitChar (n % 10) :: acc
    if n / 10 = 0 then acc' else natToStrAux fuel (n / 10) acc'

def natToStr (n : Nat) : Str := natToStrAux (n + 1) n []

def charDigit? (c : Char) : Option Nat :=
  if '0' ≤ c ∧ c ≤ '9' then some (c.toNat - '0'.toNat) else none

/-- all-digits decimal parse (no sign handling here). `none` on empty input or a
    non-digit. -/
def parseDigits : Str → Option Nat
  | [] => none
  | cs => cs.foldl (fun acc c => match acc, charDigit? c with
                                   | some a, some d => some (a * 10 + d)
                                   | _, _ => none) (some 0)

/-! ### ordering (for canonical dumps) -/

def strLt : Str → Str → Bool
  | [], [] => false
  | [], _ :: _ => true
  | _ :: _, [] => false
  | a :: as, b :: bs => if a.toNat < b.toNat then true
                        else if b.toNat < a.toNat then false else strLt as bs

def strLe (a b : Str) : Bool := !(strLt b a)

def insertSorted (x : Str) : List Str → List Str
  | [] => [x]
  | y :: ys => if strLe x y then x :: y :: ys else y :: insertSorted x ys

def sortStrs (xs : List Str) : List Str := xs.foldr insertSorted []

/-! ### escaping for the line protocol

Every protocol token is escaped so that it contains no blank, no comma and is
never empty:  the empty string is `%e`; a character outside `0x21..0x7E`, or one
of `%` `,` is written `%<hex code point>;`. -/

def hexDigit (n : Nat) : Char :=
  if n < 10 then digitChar n else Char.ofNat ('a'.toNat + (n - 10))

def natToHexAux : Nat → Nat → Str → Str
  | 0, _, acc => acc
  | fuel + 1, n, acc =>
    let acc' := hexDigit (n % 16) :: acc
    if n / 16 = 0 then acc' else natToHexAux fuel (n / 16) acc'

def natToHex (n : Nat) : Str := natToHexAux (n + 1) n []

def escChar (c : Char) : Str :=
  if c.toNat < 0x21 ∨ c.toNat > 0x7E ∨ c = '%' ∨ c = ',' then
    '%' :: natToHex c.toNat ++ [';']
  else [c]

def esc (s : Str) : Str :=
  match s with
  | [] => ['%', 'e']
  | _ => s.flatMap escChar

def hexVal? (c : Char) : Option Nat :=
  if '0' ≤ c ∧ c ≤ '9' then some (c.toNat - '0'.toNat)
  else if 'a' ≤ c ∧ c ≤ 'f' then some (c.toNat - 'a'.toNat + 10)
  else none

/-- inverse of `esc` (fuel = length). -/
def unescAux : Nat → Str → Str → Str
  | 0, _, acc => acc.reverse
  | _ + 1, [], acc => acc.reverse
  | fuel + 1, '%' :: rest, acc =>
    let hex := rest.takeWhile (· != ';')
    let after := (rest.dropWhile (· != ';')).drop 1
    let v := hex.foldl (fun a c => a * 16 + (hexVal? c).getD 0) 0
    unescAux fuel after (Char.ofNat v :: acc)
  | fuel + 1, c :: rest, acc => unescAux fuel rest (c :: acc)

def unesc (s : Str) : Str :=
  if s = ['%', 'e'] then [] else unescAux s.length s []

/-- comma list of escaped items; the empty list is `%n`. -/
def escList (xs : List Str) : Str :=
  match xs with
  | [] => ['%', 'n']
  | _ => joinWith [','] (xs.map esc)

def unescList (s : Str) : List Str :=
  if s = ['%', 'n'] then [] else (splitOnChar ',' s).map unesc

end Irc
