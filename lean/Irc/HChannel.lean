/-
  Irc.HChannel — `channel_cmds.rs`: JOIN, PART, TOPIC, NAMES, LIST, INVITE, KICK and the
  `Channel`/`VolatileState` helpers of `structs.rs` they use.
-/
import Irc.HConn

namespace Irc

open Reply

/-! ### structs.rs helpers -/

/-- `ChannelModes::banned`. -/
def ChannelModes.banned (m : ChannelModes) (source : Str) : Bool :=
  m.ban.any (fun b => matchWildcard b source) &&
  !(m.exception.any (fun e => matchWildcard e source))

def Channel.newOnUserJoin (nick : Str) : Channel :=
  { users := [(nick, ChanUserModes.createdChannel)]
    modes := { operators := [nick], founders := [nick] } }

/-- `Channel::add_user`: default ranks for the joining nick. -/
def Channel.addUser (ch : Channel) (nick : Str) : Channel :=
  let d := ch.defaultModes
  let m := ch.modes
  let isH := KSet.mem nick d.halfOperators
  let isO := KSet.mem nick d.operators
  let isQ := KSet.mem nick d.founders
  let isV := KSet.mem nick d.voices
  let isA := KSet.mem nick d.protecteds
  let chum : ChanUserModes :=
    { halfOper := isH, operator := isO, founder := isQ, voice := isV, prot := isA }
  { ch with
    users := Map.insert nick chum ch.users
    modes := { m with
      halfOperators := if isH then KSet.insert nick m.halfOperators else m.halfOperators
      operators := if isO then KSet.insert nick m.operators else m.operators
      founders := if isQ then KSet.insert nick m.founders else m.founders
      voices := if isV then KSet.insert nick m.voices else m.voices
      protecteds := if isA then KSet.insert nick m.protecteds else m.protecteds } }

/-- `Channel::remove_user`; `none` = one of the `users.get_mut(nick).unwrap()` failed. -/
def Channel.removeUser (ch : Channel) (nick : Str) : Option Channel :=
  if !(Map.contains nick ch.users) then none else
  let m := ch.modes
  some { ch with
    users := Map.erase nick ch.users
    modes := { m with operators := KSet.erase nick m.operators
                      halfOperators := KSet.erase nick m.halfOperators
                      founders := KSet.erase nick m.founders
                      voices := KSet.erase nick m.voices
                      protecteds := KSet.erase nick m.protecteds } }

/-- `VolatileState::remove_user_from_channel`. -/
def World.removeUserFromChannel (w : World) (channel nick : Str) : World :=
  let w := match Map.lookup channel w.channels with
    | some ch =>
      match ch.removeUser nick with
      | none => w.panic "remove_user_from_channel: not a member"
      | some ch' =>
        if ch'.users.isEmpty && !ch'.preconfigured then
          { w with channels := Map.erase channel w.channels }
        else { w with channels := Map.insert channel ch' w.channels }
    | none => w
  { w with users := Map.modify nick (fun u => { u with channels := KSet.erase channel u.channels }) w.users }

/-- `VolatileState::remove_user`. -/
def World.removeUser (w : World) (nick : Str) : World :=
  match Map.lookup nick w.users with
  | none => w
  | some user =>
    let w := { w with users := Map.erase nick w.users }
    let w := if user.modes.isLocalOper then
        (if w.operatorsCount = 0 then w.panic "remove_user: operators_count underflow"
         else { w with operatorsCount := w.operatorsCount - 1 })
      else w
    let w := if user.modes.invisible then
        (if w.invisibleCount = 0 then w.panic "remove_user: invisible_users_count underflow"
         else { w with invisibleCount := w.invisibleCount - 1 })
      else w
    let w := { w with wallops := KSet.erase nick w.wallops }
    let w := user.channels.foldl (fun w chn => w.removeUserFromChannel chn nick) w
    w.pushHistory nick user.history

/-! ### NAMES -/

/-- the 353 lines of one channel (chunks of 20 names). -/
def namesLines (cfg : Cfg) (cn : Conn) (chname : Str) (ch : Channel) (users : Map User)
    (x : Ctx) : Ctx :=
  let client := cn.clientName
  let inChannel := match cn.nick with
    | some n => Map.contains n ch.users
    | none => false
  let symbol : Str := if ch.modes.secret then ['@'] else ['=']
  let visible : List (Option (Str × Str)) := ch.users.map (fun (unick, chum) =>
    match Map.lookup unick users with
    | none => none
    | some u => if !u.modes.invisible || inChannel
                then some (chum.prefixStr cn.multiPrefix, unick) else some ([], []))
  let x := if visible.any (·.isNone) then x.panic "names: member without user" else x
  let shown : List (Str × Str) := visible.filterMap (fun o => match o with
    | some (p, n) => if n.isEmpty then none else some (p, n)
    | none => none)
  (chunks 20 shown).foldl (fun x chunk =>
    x.reply cfg (RplNameReply353 client symbol chname chunk)) x

/-- `send_names_from_channel`. -/
def sendNamesFromChannel (cfg : Cfg) (c : Nat) (chname : Str) (ch : Channel) (theEnd : Bool)
    (x : Ctx) : Ctx :=
  let cn := x.conn c
  let inChannel := match cn.nick with
    | some n => Map.contains n ch.users
    | none => false
  if !ch.modes.secret || inChannel then
    let x := namesLines cfg cn chname ch x.w.users x
    if theEnd then x.reply cfg (RplEndOfNames366 cn.clientName chname) else x
  else x

def processNames (cfg : Cfg) (c : Nat) (channels : List Str) (x : Ctx) : Ctx :=
  let client := (x.conn c).clientName
  if !channels.isEmpty then
    channels.foldl (fun x chn =>
      match Map.lookup chn x.w.channels with
      | some ch => sendNamesFromChannel cfg c chn ch true x
      | none => x.reply cfg (RplEndOfNames366 client chn)) x
  else
    let x := x.w.channels.foldl (fun x (chn, ch) => sendNamesFromChannel cfg c chn ch false x) x
    x.reply cfg (RplEndOfNames366 client ['*'])

/-! ### JOIN -/

/-- The admission test of one existing channel against the pre-state; returns the
    decision and the error replies in the order the Rust code emits them.
    (key, ban, invite, limit; then "already joined" silently). -/
def joinCheckExisting (ch : Channel) (chname : Str) (key : Option (Option Str))
    (source nick client : Str) (invitedTo : KSet) : Bool × List Str :=
  -- key: `none` = no key list given, `some none` cannot happen (lists have equal length),
  let keyOk : Bool := match ch.modes.key with
    | some k => (match key with
                 | some (some given) => k == given
                 | _ => false)
    | none => true
  let r1 : List Str := if keyOk then [] else [ErrBadChannelKey475 client chname]
  let banOk := !keyOk || !(ch.modes.banned source)
  let r2 := if banOk then r1 else r1 ++ [ErrBannedFromChan474 client chname]
  let do2 := keyOk && banOk
  let invOk := !do2 || (!ch.modes.inviteOnly || KSet.mem chname invitedTo ||
      ch.modes.inviteException.any (fun e => matchWildcard e source))
  let r3 := if invOk then r2 else r2 ++ [ErrInviteOnlyChan473 client chname]
  let do3 := do2 && invOk
  let notFull := match ch.modes.clientLimit with
    | some l => ch.users.length < l
    | none => true
  let limOk := !do3 || notFull
  let r4 := if limOk then r3 else r3 ++ [ErrChannelIsFull471 client chname]
  let do4 := do3 && limOk
  (do4 && !(Map.contains nick ch.users), r4)

/-- first loop of `process_join`: decisions against the pre-state.
    Returns the list of (join, create) flags, replies, final join count. -/
def joinDecide (cfg : Cfg) (w : World) (cn : Conn) (nick : Str) (invitedTo : KSet) :
    List Str → List (Option Str) → Nat → List (Bool × Bool) × List Str × Nat
  | [], _, cnt => ([], [], cnt)
  | chn :: rest, keys, cnt =>
    let key : Option (Option Str) := match keys with
      | [] => none
      | k :: _ => some k
    let client := cn.clientName
    let (join, create, errs) := match Map.lookup chn w.channels with
      | some ch =>
        let (j, e) := joinCheckExisting ch chn key cn.source nick client invitedTo
        (j, false, e)
      | none => (true, true, [])
    let (doJoin, errs) := match cfg.maxJoins with
      | some mj =>
        (join && cnt < mj, if cnt ≥ mj then errs ++ [ErrTooManyChannels405 client chn] else errs)
      | none => (join, errs)
    let cnt' := if doJoin then cnt + 1 else cnt
    let (ds, es, final) := joinDecide cfg w cn nick invitedTo rest (keys.drop 1) cnt'
    ((doJoin, create) :: ds, errs ++ es, final)

/-- second loop: inserts. -/
def joinApply (nick : Str) : List (Bool × Bool) → List Str → World → World
  | (join, create) :: ds, chn :: chs, w =>
    let w := if join then
        let w := { w with users := Map.modify nick (fun u =>
                    { u with channels := KSet.insert chn u.channels
                             invitedTo := KSet.erase chn u.invitedTo }) w.users }
        if create then
          { w with channels := Map.insert chn (Channel.newOnUserJoin nick) w.channels }
        else
          match Map.lookup chn w.channels with
          | some ch => { w with channels := Map.insert chn (ch.addUser nick) w.channels }
          | none => w.panic "join: channel vanished"
      else w
    joinApply nick ds chs w
  | _, _, w => w

/-- third loop: messages. -/
def joinAnnounce (cfg : Cfg) (c : Nat) (nick : Str) : List (Bool × Bool) → List Str → Ctx → Ctx
  | (join, _) :: ds, chn :: chs, x =>
    let x := if join then
        match Map.lookup chn x.w.channels with
        | none => x.panic "join: channels.get(chname).unwrap"
        | some ch =>
          let cn := x.conn c
          let joinMsg := str "JOIN " ++ chn
          let x := x.replySrc cn.source joinMsg
          let x := match ch.topic with
            | some t => x.reply cfg (RplTopic332 cn.clientName chn t.topic)
            | none => x
          let x := sendNamesFromChannel cfg c chn ch true x
          (Map.keys ch.users).foldl (fun x n =>
            if n != nick then x.sendDisplay n cn.source joinMsg else x) x
      else x
    joinAnnounce cfg c nick ds chs x
  | _, _, x => x

def processJoin (cfg : Cfg) (c : Nat) (channels : List Str) (keys : Option (List Str))
    (x : Ctx) : Ctx :=
  let cn := x.conn c
  match cn.nick with
  | none => x.panic "join: own nick unwrap"
  | some nick =>
    match Map.lookup nick x.w.users with
    | none => x.panic "join: users.get(nick).unwrap"
    | some user =>
      let keyList : List (Option Str) := match keys with
        | some ks => ks.map some
        | none => []
      let (ds, errs, _) := joinDecide cfg x.w cn nick user.invitedTo channels keyList user.channels.length
      let x := errs.foldl (fun x e => x.reply cfg e) x
      let x := x.modifyW (joinApply nick ds channels)
      joinAnnounce cfg c nick ds channels x

/-! ### PART -/

def processPart (cfg : Cfg) (c : Nat) (channels : List Str) (reason : Option Str) (x : Ctx) : Ctx :=
  let cn := x.conn c
  let client := cn.clientName
  match cn.nick with
  | none => x.panic "part: own nick unwrap"
  | some nick =>
    let x := channels.foldl (fun x chn =>
      match Map.lookup chn x.w.channels with
      | some ch =>
        if Map.contains nick ch.users then
          let partMsg := match reason with
            | some r => str "PART " ++ chn ++ str " :" ++ r
            | none => str "PART " ++ chn
          let x := (Map.keys ch.users).foldl (fun x n => x.sendDisplay n cn.source partMsg) x
          x.modifyW (fun w => w.removeUserFromChannel chn nick)
        else x.reply cfg (ErrNotOnChannel442 client chn)
      | none => x.reply cfg (ErrNoSuchChannel403 client chn)) x
    if Map.contains nick x.w.users then x else x.panic "part: users.get_mut(nick).unwrap"

/-! ### TOPIC -/

def processTopic (cfg : Cfg) (c : Nat) (channel : Str) (topic : Option Str) (msg : Message)
    (x : Ctx) : Ctx :=
  let cn := x.conn c
  let client := cn.clientName
  match cn.nick with
  | none => x.panic "topic: own nick unwrap"
  | some nick =>
    match topic with
    | some t =>
      match Map.lookup channel x.w.channels with
      | some ch =>
        match Map.lookup nick ch.users with
        | some chum =>
          if !ch.modes.protectedTopic || chum.isHalfOperator then
            let ch' := { ch with topic := if !t.isEmpty then some { topic := t, nick := nick } else none }
            let x := x.modifyW (fun w => { w with channels := Map.insert channel ch' w.channels })
            x.sendAll (Map.keys ch'.users) (msg.render cn.source)
          else x.reply cfg (ErrChanOpPrivsNeeded482 client channel)
        | none => x.reply cfg (ErrNotOnChannel442 client channel)
      | none => x.reply cfg (ErrNoSuchChannel403 client channel)
    | none =>
      match Map.lookup channel x.w.channels with
      | some ch =>
        if Map.contains nick ch.users then
          match ch.topic with
          | some tp =>
            let x := x.reply cfg (RplTopic332 client channel tp.topic)
            x.reply cfg (RplTopicWhoTime333 client channel tp.nick 0)
          | none => x.reply cfg (RplNoTopic331 client channel)
        else x.reply cfg (ErrNotOnChannel442 client channel)
      | none => x.reply cfg (ErrNoSuchChannel403 client channel)

/-! ### LIST -/

def listLine (cfg : Cfg) (client chn : Str) (ch : Channel) (x : Ctx) : Ctx :=
  x.reply cfg (RplList322 client chn ch.users.length
    (match ch.topic with | some t => t.topic | none => []))

def processList (cfg : Cfg) (c : Nat) (channels : List Str) (server : Option Str) (x : Ctx) : Ctx :=
  let client := (x.conn c).clientName
  match server with
  | some _ => unsupported cfg client "LIST" x
  | none =>
    let x := x.reply cfg (RplListStart321 client)
    let x := if !channels.isEmpty then
        channels.foldl (fun x chn =>
          match Map.lookup chn x.w.channels with
          | some ch => if !ch.modes.secret then listLine cfg client chn ch x else x
          | none => x) x
      else
        x.w.channels.foldl (fun x (chn, ch) =>
          if !ch.modes.secret then listLine cfg client chn ch x else x) x
    x.reply cfg (RplListEnd323 client)

/-! ### INVITE -/

def processInvite (cfg : Cfg) (c : Nat) (nickname channel : Str) (msg : Message) (x : Ctx) : Ctx :=
  let cn := x.conn c
  let client := cn.clientName
  match cn.nick with
  | none => x.panic "invite: own nick unwrap"
  | some nick =>
    match Map.lookup channel x.w.channels with
    | some ch =>
      match Map.lookup nick ch.users with
      | some chum =>
        if ch.modes.inviteOnly && !chum.operator then
          x.reply cfg (ErrChanOpPrivsNeeded482 client channel)
        else if Map.contains nickname ch.users then
          x.reply cfg (ErrUserOnChannel443 client nickname channel)
        else
          match Map.lookup nickname x.w.users with
          | some _ =>
            let x := x.modifyW (fun w => { w with users := Map.modify nickname (fun u =>
                { u with invitedTo := KSet.insert channel u.invitedTo }) w.users })
            let x := x.reply cfg (RplInviting341 client nickname channel)
            x.send nickname (msg.render cn.source)
          | none => x.reply cfg (ErrNoSuchNick401 client nickname)
      | none => x.reply cfg (ErrNotOnChannel442 client channel)
    | none => x.reply cfg (ErrNoSuchChannel403 client channel)

/-! ### KICK -/

/-- the selection loop: which of the listed nicks are kicked (each once), and replies. -/
def kickSelect (client channel : Str) (ch : Channel) (onlyHalfOp : Bool) :
    List Str → List Str → List Str × List Str
  | [], kicked => (kicked, [])
  | ku :: rest, kicked =>
    match Map.lookup ku ch.users with
    | some chum =>
      if !chum.isProtected && (!chum.isHalfOperator || !onlyHalfOp) then
        kickSelect client channel ch onlyHalfOp rest
          (if kicked.any (· == ku) then kicked else kicked ++ [ku])
      else
        let (k, e) := kickSelect client channel ch onlyHalfOp rest kicked
        (k, ErrCannotDoCommand972 client :: e)
    | none =>
      let (k, e) := kickSelect client channel ch onlyHalfOp rest kicked
      (k, ErrUserNotInChannel441 client ku channel :: e)

def processKick (cfg : Cfg) (c : Nat) (channel : Str) (kickUsers : List Str)
    (comment : Option Str) (x : Ctx) : Ctx :=
  let cn := x.conn c
  let client := cn.clientName
  match cn.nick with
  | none => x.panic "kick: own nick unwrap"
  | some nick =>
    match Map.lookup channel x.w.channels with
    | some ch =>
      match Map.lookup nick ch.users with
      | some chum =>
        if chum.isHalfOperator then
          let (kicked, errs) := kickSelect client channel ch chum.isOnlyHalfOperator kickUsers []
          let x := errs.foldl (fun x e => x.reply cfg e) x
          let x := x.modifyW (fun w => kicked.foldl (fun w ku => w.removeUserFromChannel channel ku) w)
          let remaining : List Str := match Map.lookup channel x.w.channels with
            | some ch' => Map.keys ch'.users
            | none => []
          kicked.foldl (fun x ku =>
            let kickMsg := str "KICK " ++ channel ++ [' '] ++ ku ++ str " :" ++ comment.getD (str "Kicked")
            let x := remaining.foldl (fun x n => x.sendDisplay n cn.source kickMsg) x
            x.sendDisplay ku cn.source kickMsg) x
        else x.reply cfg (ErrChanOpPrivsNeeded482 client channel)
      | none => x.reply cfg (ErrNotOnChannel442 client channel)
    | none => x.reply cfg (ErrNoSuchChannel403 client channel)

end Irc
