/-
  Irc.Conc — the interleaving semantics of the server at the granularity of LOCK SECTIONS
  (DESIGN.md 3.5; property C18).

  The Rust server keeps all shared state (`users`, `channels`, the counters) behind ONE
  `tokio::sync::RwLock<VolatileState>`; every connection is served by its own task, which
  owns its `ConnState` exclusively.  Every handler takes `state.write()` or `state.read()`
  once for its whole body — such a command is ONE atomic section, `Section.whole`, whose
  effect is `Irc.handleLine` of the sequential model — with exactly three exceptions:

  (a) the unregistered `NICK` (`process_nick`): section A1 = under the read lock test
      `users.contains_key(nick)`; taken → 433 and done; free → release the lock,
      `conn.set_nick(nick)` (connection-local) and call `authenticate`;
  (b) `authenticate` (called from NICK / USER / PASS / CAP END): section A2 = lock-free: the
      decision (`Irc.authDecision`, a pure function of the connection's own record and the
      configuration; the argon2 verification is a pure function of the entered and the
      configured password), `conn.authenticated := good`; if "good" → section A3 = under the
      write lock: re-check `users.contains_key(nick)`, insert the user if the nick is free
      (welcome burst follows), otherwise `authenticated := false` and 433;
  (c) `PRIVMSG`/`NOTICE`: section B1 = fan-out under the read lock, then section B2 = under the
      write lock update `last_activity`.  The model does not store `last_activity` (no reply
      shows it except the masked idle time), so B2 is the identity: `Section.touch`.

  Between two sections of one command the task keeps LOCAL control state (the position in the
  handler and the Rust locals `good`, `registered`): the program counter `Pc`.

  A run is a list of sections (the order in which the lock was granted / the lock-free steps
  happened); `runSections` executes it.  The sections of ONE command are listed by
  `splitCommand`; a schedule the runtime can produce is an interleaving (`interleavings`,
  `Interleave`) of the connections' own section sequences.  A section whose command was
  already finished by an earlier section (nick taken at A1, decision not "good" at A2) is a
  no-op; so the static section lists over-approximate the dynamic control flow by stuttering
  steps only.

  ## Documented approximations (what is NOT modelled; all of it is trusted)
  * tokio's `RwLock` (mutual exclusion of a writer with everybody, fairness, no deadlock: every
    handler holds at most one guard at a time), the unbounded mpsc queue of a connection (FIFO,
    no loss), `select!` fairness, the worker threads.  The semantics below ASSUMES that lock
    sections are atomic w.r.t. each other and that each task executes its sections in program
    order.
  * Two holders of the READ lock may really overlap in time.  Read sections do not change the
    shared state, so their overlap is invisible in the state and in every direct reply; but the
    individual pushes of two overlapping fan-outs into a third connection's queue may alternate.
    The model makes every section atomic, i.e. it serialises overlapping readers; what survives
    without this assumption is the per-(sender, receiver) order (each sender pushes sequentially),
    which is what `per_conn_fifo` states.
  * The welcome burst is executed inside A3.  In the Rust code the write guard is dropped before
    the burst and `process_lusers` takes its own read lock, so the NUMBERS in the 25x/26x lines
    of the burst may already count registrations that happened after A3.  Nothing else in the
    burst reads the shared state.
  * `command_counts[i].fetch_add(1)` is an atomic of its own executed before the handler.  For a
    split command it is the separate section `Section.count`; for a one-section command it is
    merged into the section (as in `handleLine`).  The only reader of the counters is `STATS m`.
  * Output: `dir c` is the sequence of direct replies written by connection `c`'s own task
    (program order), `sent` is the global sequence of pushes into mpsc queues, in lock order,
    tagged (sender, receiver).  The merge of a connection's direct replies with the lines
    arriving through its queue is decided by its `select!` loop and is not modelled (a queued
    line can be delivered late, never early).
  * The direct replies of a split command are appended to `dir c` by the section that writes them
    (the real buffer is flushed when the command ends).  At most one section of a split command
    writes replies and nobody else writes `dir c`, so the stream is the same.
  * `Section.nickCheck` carries no `Message`: the message is only used by the REGISTERED `NICK`
    (the rename broadcast), which is one write-lock section (`Section.whole`).
  * Connection set-up, the kill-signal settling and ping/pong timers are not sections of this
    semantics (`Irc.step` / C17); `Section.teardown` (`remove_user` + drop of the `ConnState`,
    one write-lock section) is included so that "other connections' sections" may free nicks.
-/
import Irc.Step

namespace Irc.Conc

open Irc Reply

/-- task-local control state of a connection task between two sections of one command -/
inductive Pc
  /-- between two commands -/
  | idle
  /-- after A1 (or the connection-local prelude): the next section is A2 -/
  | toDecide
  /-- after A2 with decision "good"; the Rust local `registered` is carried along -/
  | toCommit (registered : Bool)
  deriving DecidableEq, Repr, Inhabited

/-- an atomic section of connection `c`: a state transformer that may touch the shared world and
    `c`'s own connection record, and emits lines -/
inductive Section
  /-- a command executed in one lock section (= `handleLine`) -/
  | whole (c : Nat) (line : Str)
  /-- the atomic `command_counts[i].fetch_add(1)` of a split command -/
  | count (c : Nat) (i : Nat)
  /-- A1 of the unregistered `NICK nick` -/
  | nickCheck (c : Nat) (nick : Str)
  /-- the connection-local part of an unregistered `PASS` / `USER` / `CAP END`, followed (still
      lock-free, same section) by A2 -/
  | prelude (c : Nat) (cmd : Command)
  /-- A2 -/
  | authDecide (c : Nat)
  /-- A3 -/
  | authCommit (c : Nat)
  /-- B2 of `PRIVMSG`/`NOTICE` (`last_activity`): the identity on the model state -/
  | touch (c : Nat)
  /-- `remove_user(conn)` + drop of the `ConnState` at the end of the connection task -/
  | teardown (c : Nat)
  deriving DecidableEq, Repr

/-- the connection whose task executes the section -/
def Section.conn : Section → Nat
  | .whole c _ | .count c _ | .nickCheck c _ | .prelude c _ | .authDecide c | .authCommit c
  | .touch c | .teardown c => c

/-- what a section of connection `c` works on: `c`'s program counter and a handler context -/
structure TCtx where
  pc : Pc
  x : Ctx

/-- A1 (unregistered NICK): under the read lock test the nick; taken → 433 (the client token is
    the connection's OLD client name, the nick is not recorded); free → release, `set_nick`
    (connection-local), continue with A2.  Not applicable to an authenticated connection (its
    NICK is one write-lock section, see `splitCommand`): no-op. -/
def nickCheckStep (cfg : Cfg) (c : Nat) (nick : Str) (t : TCtx) : TCtx :=
  let cn := t.x.conn c
  if cn.authenticated then t
  else if Map.contains nick t.x.w.users then
    ⟨.idle, t.x.reply cfg (ErrNicknameInUse433 cn.clientName nick)⟩
  else ⟨.toDecide, t.x.setConn (cn.setNick nick)⟩

/-- A2: lock-free; reads and writes only connection `c`'s record (and reads the configuration). -/
def decideStep (cfg : Cfg) (c : Nat) (x : Ctx) : TCtx :=
  let cn := x.conn c
  match authDecision cfg cn with
  | .notReady => ⟨.idle, x⟩
  | .maskMismatch => ⟨.idle, x.reply cfg (str "ERROR: user mask doesn't match")⟩
  | .decided good registered =>
    if good then ⟨.toCommit registered, x.setConn { cn with authenticated := true }⟩
    else
      let cn := { cn with authenticated := false, quit := true }
      ⟨.idle, (x.setConn cn).reply cfg (ErrPasswdMismatch464 cn.clientName)⟩

/-- A3: under the write lock.  The nick is the one recorded in the connection; the test
    `users.contains_key(nick)` is made on the world the section runs in. -/
def commitStep (cfg : Cfg) (c : Nat) (registered : Bool) (x : Ctx) : Ctx :=
  let cn := x.conn c
  match cn.nick with
  | none => x.panic "authenticate: nick unwrap"
  | some nick =>
    let cn := { cn with registered := registered }
    if !(Map.contains nick x.w.users) then
      if !cn.hasSender || !cn.hasQuitSender then
        (x.setConn cn).panic "authenticate: sender taken twice"
      else
        let modes := { cfg.defaultUserModes with
                       registered := cfg.defaultUserModes.registered || cn.registered }
        let name := cn.name.getD []
        let realname := cn.realname.getD []
        let u : User :=
          { hostname := cn.hostname, name := name, realname := realname, source := cn.source,
            modes := modes, history := { username := name, hostname := cn.hostname, realname := realname },
            owner := c }
        let cn := { cn with hasSender := false, hasQuitSender := false }
        let x := x.setConn cn
        let x := x.modifyW (fun w => w.addUser nick u)
        let x := welcomeBurst cfg cn modes.render x
        if cn.hasPingSender then x.setConn { cn with hasPingSender := false }
        else x.panic "Ping waker ran!"
    else
      let cn := { cn with authenticated := false }
      let x := x.setConn cn
      x.reply cfg (ErrNicknameInUse433 cn.clientName nick)

/-- the connection-local part of unregistered PASS / USER / CAP END, then A2 -/
def preludeStep (cfg : Cfg) (c : Nat) (cmd : Command) (t : TCtx) : TCtx :=
  let cn := t.x.conn c
  if cn.authenticated then t else
  match cmd with
  | .PASS p => decideStep cfg c (t.x.setConn { cn with password := some p })
  | .USER u _ _ r => decideStep cfg c (t.x.setConn { cn.setName u with realname := some r })
  | .CAP .END _ _ => decideStep cfg c (t.x.setConn { cn with capsNeg := false })
  | _ => t

/-- the effect of one section.  A2 / A3 run only if the program counter says so. -/
def execSection (cfg : Cfg) : Section → TCtx → TCtx
  | .whole c line, t => ⟨t.pc, handleLine cfg c line t.x⟩
  | .count _ i, t => ⟨t.pc, t.x.modifyW (fun w => bumpCount w i)⟩
  | .nickCheck c n, t => nickCheckStep cfg c n t
  | .prelude c cmd, t => preludeStep cfg c cmd t
  | .authDecide c, t =>
    match t.pc with
    | .toDecide => decideStep cfg c t.x
    | _ => t
  | .authCommit c, t =>
    match t.pc with
    | .toCommit r => ⟨.idle, commitStep cfg c r t.x⟩
    | _ => t
  | .touch _, t => t
  | .teardown c, t => ⟨.idle, t.x.modifyW (fun w => Irc.teardown w c)⟩

/-- the three sections of the unregistered `NICK n` proper (after the counter) -/
def nickSections (c : Nat) (n : Str) : List Section :=
  [.nickCheck c n, .authDecide c, .authCommit c]

/-- the unregistered `NICK n` of `c` with other sections `F` between A1 and A2 and `G` between
    A2 and A3 -/
def nickInterleaved (c : Nat) (n : Str) (F G : List Section) : List Section :=
  .nickCheck c n :: (F ++ .authDecide c :: (G ++ [.authCommit c]))

/-- Which sections a command consists of.  `auth` is the connection's own `authenticated` flag
    at the start of the command (connection-local, so the task knows it). -/
def splitCommand (auth : Bool) (c : Nat) (line : Str) : List Section :=
  match Message.parse line with
  | .ok msg =>
    match Command.fromMessage msg with
    | .ok cmd =>
      match cmd with
      | .NICK n =>
        if auth then [.whole c line] else .count c cmd.id.index :: nickSections c n
      | .PASS _ | .USER .. | .CAP .END _ _ =>
        if auth then [.whole c line] else [.count c cmd.id.index, .prelude c cmd, .authCommit c]
      | .PRIVMSG .. | .NOTICE .. => [.whole c line, .touch c]
      | _ => [.whole c line]
    | .error _ => [.whole c line]
  | .error _ => [.whole c line]

/-! ### the global state of the interleaved run -/

@[ext] structure CState where
  /-- shared state and the connection records -/
  w : World
  /-- program counter of every connection task -/
  pc : Nat → Pc := fun _ => .idle
  /-- direct replies written by each connection's own task, in program order -/
  dir : Nat → List Str := fun _ => []
  /-- pushes into mpsc queues in lock order: (sender, receiver, line) -/
  sent : List (Nat × Nat × Str) := []

namespace CState

def setConn (σ : CState) (cn : Conn) : CState := { σ with w := σ.w.setConn cn }

def setPc (σ : CState) (c : Nat) (p : Pc) : CState :=
  { σ with pc := fun d => if d = c then p else σ.pc d }

def addDir (σ : CState) (c : Nat) (ls : List Str) : CState :=
  { σ with dir := fun d => if d = c then σ.dir d ++ ls else σ.dir d }

/-- the queue of connection `d`: what was pushed to it, in push order, with the sender -/
def queueOf (σ : CState) (d : Nat) : List (Nat × Str) :=
  (σ.sent.filter (fun e => e.2.1 == d)).map (fun e => (e.1, e.2.2))

end CState

/-- a server-originated line as `Ctx.reply` writes it: `":{server} {t}"` -/
def srvLine (cfg : Cfg) (t : Str) : Str := ':' :: (cfg.name ++ ' ' :: t)

/-- the context a section produces from a state: it starts with empty output lists -/
def sectionCtx (cfg : Cfg) (s : Section) (σ : CState) : TCtx :=
  execSection cfg s ⟨σ.pc s.conn, { w := σ.w }⟩

/-- one section of the run -/
def stepSection (cfg : Cfg) (s : Section) (σ : CState) : CState :=
  let c := s.conn
  let t := sectionCtx cfg s σ
  { w := t.x.w
    pc := fun d => if d = c then t.pc else σ.pc d
    dir := fun d => if d = c then σ.dir d ++ t.x.direct else σ.dir d
    sent := σ.sent ++ t.x.queued.map (fun p => (c, p.1, p.2)) }

def runSections (cfg : Cfg) (ss : List Section) (σ : CState) : CState :=
  ss.foldl (fun σ s => stepSection cfg s σ) σ

/-- the shared part of a world: everything but the connection records -/
def shared (w : World) : World := { w with conns := [] }

/-! ### ownership: "each connection task owns its `ConnState` exclusively"

The local components of connection `c` are its record in `conns`, its program counter and its
direct-reply buffer.  A transformer is independent of `c` if it neither reads nor writes them:
it commutes with every update of them and leaves them as they are. -/

structure IndepT (c : Nat) (f : CState → CState) : Prop where
  comm_conn : ∀ σ cn, cn.id = c → f (σ.setConn cn) = (f σ).setConn cn
  comm_pc : ∀ σ p, f (σ.setPc c p) = (f σ).setPc c p
  comm_dir : ∀ σ ls, f (σ.addDir c ls) = (f σ).addDir c ls
  conn_eq : ∀ σ, (f σ).w.conn? c = σ.w.conn? c
  pc_eq : ∀ σ, (f σ).pc c = σ.pc c

/-- the same for one section, stated on the handler context: a section of ANOTHER connection
    that commutes with every replacement of `c`'s record and does not change it -/
structure SecIndep (cfg : Cfg) (c : Nat) (s : Section) : Prop where
  other : s.conn ≠ c
  comm : ∀ p x cn, cn.id = c →
    execSection cfg s ⟨p, x.setConn cn⟩ =
      ⟨(execSection cfg s ⟨p, x⟩).pc, (execSection cfg s ⟨p, x⟩).x.setConn cn⟩
  conn_eq : ∀ p x, (execSection cfg s ⟨p, x⟩).x.w.conn? c = x.w.conn? c

/-! ### notions used by the statements of C18 -/

/-- the EARLY outcomes of an unregistered `NICK n` of a connection with record `cn` started in
    world `w`: its serialisation point is A1 — the command never touches the shared state, so
    it does not matter what the others do afterwards.  (Not an unregistered NICK at all / nick
    taken at A1 / decision of A2 not "good".) -/
def Early (cfg : Cfg) (n : Str) (cn : Conn) (w : World) : Prop :=
  cn.authenticated = true ∨ Map.contains n w.users = true ∨
    ∀ r, authDecision cfg (cn.setNick n) ≠ .decided true r

/-- the record of `c` after the corner case (nick free at A1, taken at A3): the refused nick stays
    recorded (`nick`, `source`), `registered` is the configured-user flag, still unauthenticated -/
def cornerConn (cn : Conn) (n : Str) (r : Bool) : Conn :=
  { cn.setNick n with registered := r }

/-- `W` is what the three sections of connection `c`'s `NICK n` make of `σ` when `c` wins -/
structure Won (c : Nat) (n : Str) (σ W : CState) : Prop where
  taken : Map.contains n W.w.users = true
  owner : ∃ u, Map.lookup n W.w.users = some u ∧ u.owner = c
  conn : ∃ cn', W.w.conn? c = some cn' ∧ cn'.authenticated = true ∧ cn'.nick = some n
  others : ∀ d, d ≠ c → W.w.conn? d = σ.w.conn? d ∧ W.pc d = σ.pc d ∧ W.dir d = σ.dir d

/-! ### interleavings -/

/-- `zs` is an interleaving of `xs` and `ys` (both keep their own order) -/
inductive Interleave {α : Type} : List α → List α → List α → Prop
  | nil : Interleave [] [] []
  | left {x xs ys zs} : Interleave xs ys zs → Interleave (x :: xs) ys (x :: zs)
  | right {y xs ys zs} : Interleave xs ys zs → Interleave xs (y :: ys) (y :: zs)

/-- inner loop of `interleavings`: the first list is `x :: xs`, `rec = interleavings xs` -/
def interleavingsAux {α : Type} (x : α) (xs : List α) (rec : List α → List (List α)) :
    List α → List (List α)
  | [] => [x :: xs]
  | y :: ys => (rec (y :: ys)).map (x :: ·) ++ (interleavingsAux x xs rec ys).map (y :: ·)

/-- all interleavings of two lists (C(m+n, m) of them), computable by the kernel -/
def interleavings {α : Type} : List α → List α → List (List α)
  | [], ys => [ys]
  | x :: xs, ys => interleavingsAux x xs (interleavings xs) ys

end Irc.Conc
