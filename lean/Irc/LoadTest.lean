/-
  Irc.LoadTest — build-time checks of `Irc.Load` (`#guard`: a failing check fails the build).

   * round trip: `dumpWorld (loadWorld cfg (parseRecords (dumpWorld w)))` = `dumpWorld w` as a
     multiset of lines, also when the records arrive in another order (reversed: the hook prints
     `HashMap` order);
   * `step` from the loaded world = `step` from the original world: same events, same lines per
     connection (as a multiset), same dump (as a multiset), for JOIN, PRIVMSG to a status-prefixed
     target, NICK, QUIT, WHOIS, MODE, … ;
   * the loaded worlds satisfy `invCheck` exactly when the originals do;
   * the reconstructed fields.
-/
import Irc.Load
import Irc.InvCheck

namespace Irc.LoadTest
open Irc

def L (c : Nat) (s : String) : Event := .line c (str s)
def C (c : Nat) (ip : String) : Event := .connect c (str ip)

/-- connection `c` registers as `nick`. -/
def reg (c : Nat) (ip nick : String) : List Event :=
  [C c ip, L c s!"NICK {nick}", L c s!"USER u{nick} 0 * :Real {nick}"]

def sameLines (a b : List Str) : Bool := sortStrs a == sortStrs b

def reload (cfg : Cfg) (w : World) : World := loadWorld cfg (parseRecords (dumpWorld w))

def roundTrip (cfg : Cfg) (w : World) : Bool :=
  sameLines (dumpWorld (reload cfg w)) (dumpWorld w) &&
  sameLines (dumpWorld (loadWorld cfg (parseRecords (dumpWorld w)).reverse)) (dumpWorld w) &&
  -- the tokens without the leading `st` are accepted too
  sameLines (dumpWorld (loadWorld cfg ((parseRecords (dumpWorld w)).map (·.drop 1)))) (dumpWorld w)

def outLines (so : StepOut) : List Str := so.outs.map (fun (c, l) => natToStr c ++ ' ' :: l)

/-- `step` from the reloaded world agrees with `step` from the original. -/
def stepSame (cfg : Cfg) (w : World) (e : Event) : Bool :=
  let a := step cfg w e
  let b := step cfg (reload cfg w) e
  a.events == b.events && sameLines (outLines a) (outLines b) &&
  sameLines (dumpWorld a.w) (dumpWorld b.w) && invCheck a.w == invCheck b.w

/-- … and the step did something (guards against tests that compare two refusals). -/
def stepSameNonTrivial (cfg : Cfg) (w : World) (e : Event) : Bool :=
  stepSame cfg w e && !(step cfg w e).outs.isEmpty

/-! ### world 1: ranks, bans, topic, key, limit, preconfigured channel, away / invisible /
    operator users, an unregistered connection, nick histories -/

def cfg1 : Cfg :=
  { name := str "irc.test"
    operators := [{ name := str "root", password := str "rootpw", mask := none }]
    channels := [{ name := str "#pre", topic := some (str "pre topic, with comma"),
                   modes := { key := some (str "k1"), operators := [str "bob"], voices := [str "dave"],
                              secret := true, ban := [str "x!*@*"] } }] }

def evs1 : List Event :=
  reg 1 "10.0.0.1" "alice" ++ reg 2 "10.0.0.2" "bob" ++ reg 3 "10.0.0.3" "carol" ++
  reg 4 "10.0.0.4" "dave" ++ reg 6 "10.0.0.6" "erin" ++
  [ C 5 "10.0.0.5", L 5 "NICK frank", L 5 "CAP LS 302",        -- unregistered connection
    L 1 "JOIN #a", L 2 "JOIN #a", L 3 "JOIN #a", L 4 "JOIN #a",
    L 1 "JOIN #b", L 2 "JOIN #b",
    L 2 "JOIN #pre k1", L 4 "JOIN #pre k1",
    L 1 "MODE #a +k sesame", L 1 "MODE #a +l 7", L 1 "MODE #a +mnt",
    L 1 "MODE #a +b *!*@bad.host", L 1 "MODE #a +e good!*@bad.host", L 1 "MODE #a +I inv!*@*",
    L 1 "MODE #a +v bob", L 1 "MODE #a +h carol", L 1 "MODE #a +a dave", L 1 "MODE #a +o carol",
    L 1 "TOPIC #a :the topic of %a, really",
    L 1 "INVITE erin #a",
    L 1 "AWAY :gone fishing",
    L 2 "MODE bob +i",
    L 3 "OPER root rootpw",
    L 4 "MODE dave +w",
    L 6 "NICK eve",                                              -- history of erin
    L 6 "NICK erin2",
    L 2 "CAP REQ :multi-prefix" ]

def w1 : World := run cfg1 evs1

/-! ### world 2: quits (histories of departed users), a killed-off channel, default config -/

def cfg2 : Cfg := { maxConnections := some 6, defaultUserModes := { invisible := true } }

def evs2 : List Event :=
  reg 1 "::1" "al" ++ reg 2 "::2" "bo" ++ reg 3 "::3" "cy" ++
  [ L 1 "JOIN #x,#y,&z", L 2 "JOIN #x", L 3 "JOIN #y",
    L 2 "NICK bo2", L 2 "NICK bo", L 2 "NICK bo2", L 2 "NICK bo3",   -- two entries for `bo`, `bo2`
    L 3 "QUIT :bye",
    C 4 "::4", L 4 "PASS secret", L 4 "USER only 0 * :no nick yet",
    L 1 "MODE #x +b a,b!c@d", L 1 "MODE #x +b second!*@*",
    L 2 "AWAY : ", L 1 "PART #y" ]

def w2 : World := run cfg2 evs2

/-! ### world 3: nothing but the initial state of a configuration; world 4: empty -/

def w3 : World := World.init cfg1
def w4 : World := World.init {}

/-! ### round trips -/

#guard roundTrip cfg1 w1
#guard roundTrip cfg2 w2
#guard roundTrip cfg1 w3
#guard roundTrip {} w4
-- `cfg` is not needed for anything that is printed
#guard sameLines (dumpWorld (loadWorld {} (parseRecords (dumpWorld w1)))) (dumpWorld w1)
-- the test worlds are what they are meant to be
#guard (dumpWorld w1).length == 28 && (dumpWorld w2).length == 20
#guard invCheck w1 == [] && invCheck w2 == []
#guard (Map.lookup (str "bo") w2.histories).map (·.length) == some 2

/-! ### the loaded world itself (stronger than the dump: the reconstructed fields) -/

def normUser (u : User) : User :=
  { u with channels := sortStrs u.channels, invitedTo := sortStrs u.invitedTo }

def sameWorld (a b : World) : Bool :=
  a.conns == b.conns &&
  a.users.map (fun (n, u) => (n, normUser u)) == b.users.map (fun (n, u) => (n, normUser u)) &&
  a.channels.map (·.1) == b.channels.map (·.1) &&
  a.channels.map (·.2.users) == b.channels.map (·.2.users) &&
  a.channels.map (·.2.banInfo) == b.channels.map (·.2.banInfo) &&
  a.channels.map (·.2.topic) == b.channels.map (·.2.topic) &&
  a.histories == b.histories && sortStrs a.wallops == sortStrs b.wallops &&
  a.cmdCounts == List.replicate 41 0 && a.panicked == none &&
  invCheck a == invCheck b

#guard sameWorld (reload cfg1 w1) w1
#guard sameWorld (reload cfg2 w2) w2
#guard sameWorld (reload cfg1 w3) w3
#guard (reload cfg1 w1).users.map (·.2.owner) == [1, 2, 3, 4, 6]

-- owner: an authenticated connection is preferred, 0 without any connection
#guard ownerOf [{ Conn.new 3 (str "h") with nick := some (str "n") },
                { Conn.new 7 (str "h") with nick := some (str "n"), authenticated := true }] (str "n") == 7
#guard ownerOf [{ Conn.new 3 (str "h") with nick := some (str "n") }] (str "n") == 3
#guard ownerOf [{ Conn.new 3 (str "h") with nick := some (str "m") }] (str "n") == 0

-- history entries come back in index order whatever the order of the records (10 after 9, not after 1)
#guard (loadHists ((List.range 12).reverse.map (fun i =>
          [str "n", natToStr i, natToStr i, str "h", str "r"]))) ==
       [(str "n", (List.range 12).map (fun i => { username := natToStr i, hostname := str "h", realname := str "r" }))]

-- inverses of the letter renderings, exhaustively
def bools : List Bool := [false, true]
#guard bools.all fun a => bools.all fun b => bools.all fun c => bools.all fun d => bools.all fun e =>
  let m : UserModes := { invisible := a, oper := b, localOper := c, registered := d, wallops := e }
  UserModes.ofLetters m.letters == m
#guard bools.all fun a => bools.all fun b => bools.all fun c => bools.all fun d => bools.all fun e =>
  let m : ChanUserModes := { founder := a, prot := b, voice := c, operator := d, halfOper := e }
  ChanUserModes.ofLetters m.letters == m
#guard bools.all fun a => bools.all fun b => bools.all fun c => bools.all fun d => bools.all fun e =>
  let m : ChannelModes := { inviteOnly := a, moderated := b, secret := c, protectedTopic := d,
                            noExternalMessages := e, key := some (str "k") }
  (({ key := some (str "k") } : ChannelModes).withFlagLetters m.flagLetters) == m

/-! ### `step` from the loaded world = `step` from the original -/

-- JOIN: invited user into a +k +l channel; with and without key; a preconfigured channel with
-- default ranks; a new channel; several at once
#guard stepSameNonTrivial cfg1 w1 (L 6 "JOIN #a sesame")
#guard stepSameNonTrivial cfg1 w1 (L 6 "JOIN #a")
#guard stepSameNonTrivial cfg1 w1 (L 3 "JOIN #pre k1")
#guard stepSameNonTrivial cfg1 w1 (L 3 "JOIN #pre,#new,#b k1")
#guard stepSameNonTrivial cfg2 w2 (L 2 "JOIN &z,#y")
-- PRIVMSG / NOTICE to status-prefixed targets, to a moderated channel, to an away user
#guard stepSameNonTrivial cfg1 w1 (L 1 "PRIVMSG @#a :to the operators")
#guard stepSameNonTrivial cfg1 w1 (L 3 "PRIVMSG +#a,%#a,~#a,&#a :ranks")
#guard stepSame cfg1 w1 (L 2 "PRIVMSG +#a :the only voice: nobody else hears it")
#guard stepSame cfg1 w1 (L 2 "NOTICE +#a :voice speaks")
#guard stepSameNonTrivial cfg1 w1 (L 6 "PRIVMSG #a,alice,bob :outsider")
#guard stepSameNonTrivial cfg1 w1 (L 4 "PRIVMSG @#pre :hello")
-- NICK: a member of three channels; a nick in use; an unregistered connection
#guard stepSameNonTrivial cfg1 w1 (L 2 "NICK bobby")
#guard stepSameNonTrivial cfg1 w1 (L 2 "NICK alice")
#guard stepSame cfg1 w1 (L 5 "NICK frank2")
#guard stepSame cfg1 w1 (L 5 "USER f 0 * :Frank waits for CAP END")
#guard stepSameNonTrivial cfg1 (run cfg1 (evs1 ++ [L 5 "USER f 0 * :Frank"])) (L 5 "CAP END")
#guard stepSameNonTrivial cfg2 w2 (L 4 "NICK cy")
-- QUIT / connection loss: founder of two channels; the last member of a channel
#guard stepSameNonTrivial cfg1 w1 (L 1 "QUIT :bye all")
#guard stepSameNonTrivial cfg2 w2 (L 1 "QUIT")
#guard stepSame cfg1 w1 (.eof 2)
#guard stepSame cfg1 w1 (.reset 5)
#guard stepSame cfg1 w1 (.tooLong 4)
#guard stepSame cfg2 w2 (C 5 "::5")
#guard stepSame cfg2 (run cfg2 (evs2 ++ [C 5 "::5", C 6 "::6", C 7 "::7"])) (C 8 "::8")   -- refused
-- WHOIS: invisible user with shared channels, away user, operator, multi-prefix requester
#guard stepSameNonTrivial cfg1 w1 (L 4 "WHOIS bob")
#guard stepSameNonTrivial cfg1 w1 (L 2 "WHOIS alice,carol,dave")
#guard stepSameNonTrivial cfg1 w1 (L 6 "WHOIS bob")
#guard stepSameNonTrivial cfg1 w1 (L 3 "WHOIS erin2")
-- MODE: query, lists, rank changes, user modes
#guard stepSameNonTrivial cfg1 w1 (L 1 "MODE #a")
#guard stepSameNonTrivial cfg1 w1 (L 6 "MODE #a")
#guard stepSameNonTrivial cfg1 w1 (L 1 "MODE #a +b")
#guard stepSameNonTrivial cfg1 w1 (L 1 "MODE #a -o+v-k carol carol sesame")
#guard stepSameNonTrivial cfg1 w1 (L 3 "MODE #a -b+l *!*@bad.host 2")
#guard stepSameNonTrivial cfg1 w1 (L 2 "MODE #a +o bob")
#guard stepSameNonTrivial cfg1 w1 (L 2 "MODE #pre +q dave")
#guard stepSameNonTrivial cfg1 w1 (L 3 "MODE carol")
#guard stepSameNonTrivial cfg1 w1 (L 3 "MODE carol -o+iw")
#guard stepSameNonTrivial cfg1 w1 (L 2 "MODE bob -i")
-- the rest of the state: names / who / list / whowas / topic / kick / part / invite / kill / lusers
#guard stepSameNonTrivial cfg1 w1 (L 2 "NAMES #a,#b,#pre")
#guard stepSameNonTrivial cfg1 w1 (L 6 "NAMES")
#guard stepSameNonTrivial cfg1 w1 (L 2 "WHO #a")
#guard stepSameNonTrivial cfg1 w1 (L 6 "WHO *")
#guard stepSameNonTrivial cfg1 w1 (L 6 "LIST")
#guard stepSameNonTrivial cfg1 w1 (L 1 "WHOWAS erin")
#guard stepSameNonTrivial cfg2 w2 (L 1 "WHOWAS bo")
#guard stepSameNonTrivial cfg2 w2 (L 1 "WHOWAS bo2,cy 1")
#guard stepSameNonTrivial cfg1 w1 (L 2 "TOPIC #a")
#guard stepSameNonTrivial cfg1 w1 (L 3 "TOPIC #a :new")
#guard stepSameNonTrivial cfg1 w1 (L 1 "KICK #a bob,carol :out")
#guard stepSameNonTrivial cfg1 w1 (L 2 "PART #a,#b,#pre :leaving")
#guard stepSameNonTrivial cfg1 w1 (L 1 "INVITE erin2 #b")
#guard stepSameNonTrivial cfg1 w1 (L 3 "KILL bob :bad boy")
#guard stepSameNonTrivial cfg1 w1 (L 3 "WALLOPS :attention")
#guard stepSameNonTrivial cfg1 w1 (L 1 "LUSERS")
#guard stepSameNonTrivial cfg1 w1 (L 1 "AWAY")
#guard stepSameNonTrivial cfg1 w1 (L 1 "USERHOST alice bob carol")
#guard stepSameNonTrivial cfg1 w1 (L 3 "DIE")

/-- several steps in a row, reloading after every one (what `stepfrom` does). -/
def runReloading (cfg : Cfg) (w : World) (es : List Event) : World :=
  es.foldl (fun w e => (step cfg (reload cfg w) e).w) w

def tail1 : List Event :=
  [ L 6 "JOIN #a sesame", L 2 "NICK bobby", L 1 "MODE #a -a+v dave dave", L 3 "KILL dave :x",
    L 1 "QUIT :gone", L 5 "USER f 0 * :Frank", L 5 "JOIN #a,#b,#pre sesame,,k1", L 2 "PART #b",
    L 5 "NICK alice", L 3 "MODE #a +b" ]

#guard sameLines (dumpWorld (runReloading cfg1 w1 tail1)) (dumpWorld (run cfg1 (evs1 ++ tail1)))

end Irc.LoadTest
