/-
  Irc.HRest — `rest_cmds.rs`: PRIVMSG/NOTICE, WHO, WHOIS, WHOWAS, KILL, REHASH, RESTART,
  SQUIT, DIE, AWAY, USERHOST, WALLOPS, ISON.
-/
import Irc.HChannel

namespace Irc

open Reply

/-! ### PRIVMSG / NOTICE -/

/-- `HashSet::from_iter(targets)`: distinct targets (first occurrences, in order). -/
def dedup : List Str → List Str
  | [] => []
  | x :: xs => x :: (dedup xs).filter (· != x)

/-- The three speaking tests of a channel target; `true` = may send. -/
def canSend (ch : Channel) (nick source : Str) : Bool :=
  let chum := Map.lookup nick ch.users
  ((!ch.modes.noExternalMessages && !ch.modes.secret) || chum.isSome) &&
  !(ch.modes.banned source) &&
  (!ch.modes.moderated || (match chum with | some m => m.isVoice | none => false))

/-- recipients of a status-prefixed target: walk the selected rank lists in the order
    founder, prot, operator, half-operator, voice; every user at most once,
    the sender never. -/
def specialRecipients (tt : TargetType) (ch : Channel) (nick : Str) : List Str :=
  let lists : List Str :=
    (if tt.founder then ch.modes.founders else []) ++
    (if tt.prot then ch.modes.protecteds else []) ++
    (if tt.oper then ch.modes.operators else []) ++
    (if tt.halfOper then ch.modes.halfOperators else []) ++
    (if tt.voice then ch.modes.voices else [])
  dedup (lists.filter (· != nick))

def privmsgTarget (cfg : Cfg) (c : Nat) (nick : Str) (notice : Bool) (text : Str)
    (target : Str) (x : Ctx) : Ctx × Bool :=
  let cn := x.conn c
  let client := cn.clientName
  let msgStr := (if notice then str "NOTICE " else str "PRIVMSG ") ++ target ++ str " :" ++ text
  let (tt, chanStr) := getPrivmsgTargetType target
  if tt.channel then
    match Map.lookup chanStr x.w.channels with
    | some ch =>
      if canSend ch nick cn.source then
        let special := tt.founder || tt.prot || tt.oper || tt.halfOper || tt.voice
        let rcpts := if special then specialRecipients tt ch nick
                     else (Map.keys ch.users).filter (· != nick)
        (rcpts.foldl (fun x u => x.sendDisplay u cn.source msgStr) x, true)
      else
        (if !notice then x.reply cfg (ErrCannotSendToChain404 client chanStr) else x, false)
    | none =>
      (if !notice then x.reply cfg (ErrNoSuchChannel403 client chanStr) else x, false)
  else
    match Map.lookup target x.w.users with
    | some u =>
      let x := x.sendDisplay target cn.source msgStr
      let x := if !notice then
          (match u.away with
           | some a => x.reply cfg (RplAway301 client target a)
           | none => x)
        else x
      (x, true)
    | none =>
      (if !notice then x.reply cfg (ErrNoSuchNick401 client target) else x, false)

def processPrivmsgNotice (cfg : Cfg) (c : Nat) (targets : List Str) (text : Str) (notice : Bool)
    (x : Ctx) : Ctx :=
  match (x.conn c).nick with
  | none => x.panic "privmsg: own nick unwrap"
  | some nick =>
    let (x, done) := (dedup targets).foldl (fun (x, d) t =>
      let (x', d') := privmsgTarget cfg c nick notice text t x
      (x', d || d')) (x, false)
    -- last_activity update: `users.get_mut(user_nick).unwrap()`
    if done && !(Map.contains nick x.w.users) then x.panic "privmsg: users.get_mut(nick).unwrap"
    else x

/-! ### WHO -/

def sendWhoInfo (cfg : Cfg) (cn : Conn) (channel : Option (Str × ChanUserModes)) (userNick : Str)
    (user cmdUser : User) (x : Ctx) : Ctx :=
  if !user.modes.invisible || !(KSet.disjoint user.channels cmdUser.channels) then
    let flags : Str := (if user.away.isSome then ['G'] else ['H']) ++
      (if user.modes.isLocalOper then ['*'] else []) ++
      (match channel with | some (_, chum) => chum.prefixStr cn.multiPrefix | none => [])
    x.reply cfg (RplWhoReply352 cn.clientName
      (match channel with | some (ch, _) => ch | none => ['*'])
      user.name user.hostname cfg.name userNick flags 0 user.realname)
  else x

def processWho (cfg : Cfg) (c : Nat) (mask : Str) (x : Ctx) : Ctx :=
  let cn := x.conn c
  match cn.nick with
  | none => x.panic "who: own nick unwrap"
  | some nick =>
    match Map.lookup nick x.w.users with
    | none => x.panic "who: users.get(nick).unwrap"
    | some user =>
      let x :=
        if containsChar '*' mask || containsChar '?' mask then
          x.w.users.foldl (fun x (unick, u) =>
            if matchWildcard mask unick || matchWildcard mask u.source || matchWildcard mask u.realname
            then sendWhoInfo cfg cn none unick u user x else x) x
        else if validateChannel mask then
          match Map.lookup mask x.w.channels with
          | some ch =>
            if !ch.modes.secret || Map.contains nick ch.users then
              ch.users.foldl (fun x (u, chum) =>
                match Map.lookup u x.w.users with
                | some uu => sendWhoInfo cfg cn (some (mask, chum)) u uu user x
                | none => x.panic "who: member without user") x
            else x
          | none => x
        else if validateUsername mask then
          match Map.lookup mask x.w.users with
          | some argUser => sendWhoInfo cfg cn none mask argUser user x
          | none => x
        else x
      x.reply cfg (RplEndOfWho315 cn.clientName mask)

/-! ### WHOIS -/

def whoisOne (cfg : Cfg) (cn : Conn) (user : User) (nick : Str) (x : Ctx) : Ctx :=
  let client := cn.clientName
  match Map.lookup nick x.w.users with
  | none => x.panic "whois: users.get(nick).unwrap"
  | some au =>
    if au.modes.invisible && KSet.disjoint au.channels user.channels then x else
    let x := if au.modes.registered then x.reply cfg (RplWhoIsRegNick307 client nick) else x
    let x := x.reply cfg (RplWhoIsUser311 client nick au.name au.hostname au.realname)
    let x := x.reply cfg (RplWhoIsServer312 client nick cfg.name cfg.info)
    let x := if au.modes.isLocalOper then x.reply cfg (RplWhoIsOperator313 client nick) else x
    let chans : List (Option (Option Str × Str)) := au.channels.map (fun chn =>
      match Map.lookup chn x.w.channels with
      | none => none
      | some ch =>
        if !ch.modes.secret then
          match Map.lookup nick ch.users with
          | some chum => some (some (chum.prefixStr cn.multiPrefix), chn)
          | none => none
        else some (none, []))
    let x := if chans.any (·.isNone) then x.panic "whois: channel/member unwrap" else x
    let shown : List (Option Str × Str) := chans.filterMap (fun o => match o with
      | some (some p, chn) => some (some p, chn)
      | _ => none)
    let x := (chunks 30 shown).foldl (fun x chunk =>
      x.reply cfg (RplWhoIsChannels319 client nick chunk)) x
    let x := x.reply cfg (RplwhoIsIdle317 client nick 0 0)
    let x := if au.modes.isLocalOper then
        let x := x.reply cfg (RplWhoIsHost378 client nick au.hostname)
        x.reply cfg (RplWhoIsModes379 client nick au.modes.render)
      else x
    x

def processWhois (cfg : Cfg) (c : Nat) (target : Option Str) (nickmasks : List Str) (x : Ctx) : Ctx :=
  let cn := x.conn c
  let client := cn.clientName
  match target with
  | some _ => unsupported cfg client "WHOIS" x
  | none =>
    match cn.nick with
    | none => x.panic "whois: own nick unwrap"
    | some myNick =>
      match Map.lookup myNick x.w.users with
      | none => x.panic "whois: users.get(nick).unwrap"
      | some user =>
        let isMask (m : Str) : Bool := containsChar '*' m || containsChar '?' m
        let realMasks := nickmasks.filter isMask
        let direct := nickmasks.filter (fun m => !isMask m && Map.contains m x.w.users)
        let byMask := if realMasks.isEmpty then [] else
          (Map.keys x.w.users).filter (fun n => realMasks.any (fun m => matchWildcard m n))
        let nicks := dedup (direct ++ byMask)
        let x := nicks.foldl (fun x n => whoisOne cfg cn user n x) x
        x.reply cfg (RplEndOfWhoIs318 client (joinWith [','] nickmasks))

/-! ### WHOWAS -/

def processWhowas (cfg : Cfg) (c : Nat) (nickname : Str) (count : Option Nat) (server : Option Str)
    (x : Ctx) : Ctx :=
  let client := (x.conn c).clientName
  match server with
  | some _ => unsupported cfg client "WHOWAS" x
  | none =>
    let x := match Map.lookup nickname x.w.histories with
      | some hist =>
        let n := match count with
          | some k => if k > 0 then k else hist.length
          | none => hist.length
        (hist.reverse.take n).foldl (fun (x : Ctx) (e : HistEntry) =>
          let x := x.reply cfg (RplWhoWasUser314 client nickname e.username e.hostname e.realname)
          x.reply cfg (RplWhoIsServer312 client nickname cfg.name (str "Logged in at DATE"))) x
      | none => x.reply cfg (ErrWasNoSuchNick406 client nickname)
    x.reply cfg (RplEndOfWhoWas369 client nickname)

/-! ### KILL / DIE / SQUIT -/

/-- fire the `quit_sender` of user `nick` (if not already taken). -/
def fireKill (killer comment nick : Str) (w : World) : World :=
  match Map.lookup nick w.users with
  | none => w
  | some u =>
    if u.killed then w else
    let w := { w with users := Map.insert nick { u with killed := true } w.users }
    match w.conn? u.owner with
    | some cn => w.setConn { cn with killedBy := some (killer, comment) }
    | none => w

def processKill (cfg : Cfg) (c : Nat) (nickname comment : Str) (x : Ctx) : Ctx :=
  let cn := x.conn c
  let client := cn.clientName
  match cn.nick with
  | none => x.panic "kill: own nick unwrap"
  | some nick =>
    match Map.lookup nick x.w.users with
    | none => x.panic "kill: users.get(nick).unwrap"
    | some user =>
      if user.modes.oper then
        if Map.contains nickname x.w.users then
          x.modifyW (fireKill nick comment nickname)
        else x.reply cfg (ErrNoSuchNick401 client nickname)
      else x.reply cfg (ErrNoPrivileges481 client)

def processDie (cfg : Cfg) (c : Nat) (message : Option Str) (x : Ctx) : Ctx :=
  let cn := x.conn c
  let client := cn.clientName
  match cn.nick with
  | none => x.panic "die: own nick unwrap"
  | some nick =>
    match Map.lookup nick x.w.users with
    | none => x.panic "die: users.get(nick).unwrap"
    | some user =>
      let msg := message.getD (str "Quitting from DIE")
      if user.modes.oper then
        x.modifyW (fun w =>
          let w := (Map.keys w.users).foldl (fun w n => fireKill nick msg n w) w
          { w with srvQuit := true })
      else x.reply cfg (ErrCantKillServer483 client)

def processSquit (cfg : Cfg) (c : Nat) (server comment : Str) (x : Ctx) : Ctx :=
  if cfg.name != server then unsupported cfg (x.conn c).clientName "SQUIT" x
  else processDie cfg c (some comment) x

/-! ### AWAY / USERHOST / WALLOPS / ISON -/

def processAway (cfg : Cfg) (c : Nat) (text : Option Str) (x : Ctx) : Ctx :=
  let cn := x.conn c
  let client := cn.clientName
  match cn.nick with
  | none => x.panic "away: own nick unwrap"
  | some nick =>
    if !(Map.contains nick x.w.users) then x.panic "away: users.get_mut(nick).unwrap" else
    let x := x.modifyW (fun w => { w with users := Map.modify nick (fun u => { u with away := text }) w.users })
    match text with
    | some _ => x.reply cfg (RplNowAway306 client)
    | none => x.reply cfg (RplUnAway305 client)

def processUserhost (cfg : Cfg) (c : Nat) (nicknames : List Str) (x : Ctx) : Ctx :=
  let client := (x.conn c).clientName
  (chunks 20 nicknames).foldl (fun x nicks =>
    let replies := nicks.filterMap (fun n =>
      match Map.lookup n x.w.users with
      | some u => some (n ++ (if u.modes.isLocalOper then ['*'] else []) ++ ['='] ++
                        [if u.away.isSome then '-' else '+'] ++ ['~'] ++ u.name ++ ['@'] ++ u.hostname)
      | none => none)
    x.reply cfg (RplUserHost302 client replies)) x

def processWallops (cfg : Cfg) (c : Nat) (msg : Message) (x : Ctx) : Ctx :=
  let cn := x.conn c
  match cn.nick with
  | none => x.panic "wallops: own nick unwrap"
  | some nick =>
    match Map.lookup nick x.w.users with
    | none => x.panic "wallops: users.get(nick).unwrap"
    | some user =>
      if user.modes.isLocalOper then x.sendAll x.w.wallops (msg.render cn.source)
      else x.reply cfg (ErrNoPrivileges481 cn.clientName)

def processIson (cfg : Cfg) (c : Nat) (nicknames : List Str) (x : Ctx) : Ctx :=
  let client := (x.conn c).clientName
  (chunks 20 nicknames).foldl (fun x nicks =>
    x.reply cfg (RplIson303 client (nicks.filter (fun n => Map.contains n x.w.users)))) x

end Irc
