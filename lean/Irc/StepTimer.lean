/-
  Irc.StepTimer — the two timer branches of `process_internal` on the main world (the
  schedule itself is `Irc/Timer.lean`): the ping waker's tick (`PING :LALAL`, start the pong
  timeout unless one is pending) and the pong timeout (`ERROR`, quit, torn down in the settling
  phase like every other ending).
-/
import Irc.Step

namespace Irc

/-- `Some(_) = conn_state.ping_receiver.recv()` -/
def stepPingTick (cfg : Cfg) (w : World) (c : Nat) : StepOut :=
  match w.conn? c with
  | none => { w := w, events := [str "dead " ++ natToStr c] }
  | some cn =>
    let x : Ctx := { w := w }
    let x := x.reply cfg (str "PING :LALAL")
    finish cfg c (x.setConn { cn with pongPending := true })

/-- `Some(_) = conn_state.timeout_receiver.recv()` -/
def stepPongTimeout (cfg : Cfg) (w : World) (c : Nat) : StepOut :=
  match w.conn? c with
  | none => { w := w, events := [str "dead " ++ natToStr c] }
  | some cn =>
    let x : Ctx := { w := w }
    let x := x.reply cfg (str "ERROR :Pong timeout, connection will be closed.")
    finish cfg c (x.setConn { cn with quit := true })

end Irc
