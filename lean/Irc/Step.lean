/-
  Irc.Step — one harness operation = one `process()` call on the acting connection
  (`process_internal`: parse, error mapping, registration gate, dispatch), followed by the
  settling phase (pending KILL/DIE signals are consumed, connections whose `quit` flag is set
  are torn down with `remove_user`).  See DESIGN.md 3.2 / 4.1.
-/
import Irc.HQuery

namespace Irc

open Reply

inductive Event
  | connect (c : Nat) (ip : Str)
  | line (c : Nat) (s : Str)
  | tooLong (c : Nat)
  | badUtf8 (c : Nat)
  | eof (c : Nat)
  | reset (c : Nat)
  | partialLine (c : Nat) (s : Str)
  deriving Repr

/-- what the driver prints for one operation -/
structure StepOut where
  w : World
  /-- lines delivered to each connection's socket during the op, in order -/
  outs : List (Nat × Str) := []
  /-- `refused c`, `closed c`, `dead c` -/
  events : List Str := []
  deriving Repr

/-- the gate: commands allowed before registration -/
def allowedUnregistered : Command → Bool
  | .CAP .. | .AUTHENTICATE | .PASS .. | .NICK .. | .USER .. | .QUIT => true
  | _ => false

def bumpCount (w : World) (i : Nat) : World :=
  { w with cmdCounts := w.cmdCounts.set i (w.cmdCounts.getD i 0 + 1) }

def dispatch (cfg : Cfg) (c : Nat) (msg : Message) (cmd : Command) (x : Ctx) : Ctx :=
  match cmd with
  | .CAP sub caps _ => processCap cfg c sub caps x
  | .AUTHENTICATE => processAuthenticate cfg c x
  | .PASS p => processPass cfg c p x
  | .NICK n => processNick cfg c n msg x
  | .USER u _ _ r => processUser cfg c u r x
  | .PING t => processPing cfg c t x
  | .PONG _ => processPong cfg c x
  | .OPER n p => processOper cfg c n p x
  | .QUIT => processQuit cfg c x
  | .JOIN chs keys => processJoin cfg c chs keys x
  | .PART chs r => processPart cfg c chs r x
  | .TOPIC ch t => processTopic cfg c ch t msg x
  | .NAMES chs => processNames cfg c chs x
  | .LIST chs s => processList cfg c chs s x
  | .INVITE n ch => processInvite cfg c n ch msg x
  | .KICK ch us cm => processKick cfg c ch us cm x
  | .MOTD t => processMotd cfg (x.conn c).clientName t x
  | .VERSION t => processVersion cfg c t x
  | .ADMIN t => processAdmin cfg c t x
  | .CONNECT .. => unsupported cfg (x.conn c).clientName "CONNECT" x
  | .LUSERS => processLusers cfg (x.conn c).clientName x
  | .TIME s => processTime cfg c s x
  | .STATS q s => processStats cfg c q s x
  | .LINKS r m => processLinks cfg c r m x
  | .HELP s => processHelp cfg c s x
  | .INFO => processInfo cfg c x
  | .MODE t ms => processMode cfg c t ms x
  | .PRIVMSG ts t => processPrivmsgNotice cfg c ts t false x
  | .NOTICE ts t => processPrivmsgNotice cfg c ts t true x
  | .WHO m => processWho cfg c m x
  | .WHOIS t ns => processWhois cfg c t ns x
  | .WHOWAS n cnt s => processWhowas cfg c n cnt s x
  | .KILL n cm => processKill cfg c n cm x
  | .REHASH => unsupported cfg (x.conn c).clientName "REHASH" x
  | .RESTART => unsupported cfg (x.conn c).clientName "RESTART" x
  | .SQUIT s cm => processSquit cfg c s cm x
  | .AWAY t => processAway cfg c t x
  | .USERHOST ns => processUserhost cfg c ns x
  | .WALLOPS _ => processWallops cfg c msg x
  | .ISON ns => processIson cfg c ns x
  | .DIE m => processDie cfg c m x

/-- mapping of command-parse errors to replies (`process_internal`). -/
def commandErrorReply (client : Str) (e : CommandError) : Str :=
  match e with
  | .unknownCommand s => ErrUnknownCommand421 client s
  | .unknownSubcommand .. | .parameterDoesntMatch .. | .wrongParameter .. =>
    str "ERROR :" ++ e.render
  | .needMoreParams id => ErrNeedMoreParams461 client id.name
  | .unknownMode _ ch channel => ErrUnknownMode472 client ch channel
  | .unknownUModeFlag _ => ErrUmodeUnknownFlag501 client
  | .invalidModeParam target ch param desc => ErrInvalidModeParam696 client target ch param desc

/-- one decoded line reaching `process_internal`. -/
def handleLine (cfg : Cfg) (c : Nat) (s : Str) (x : Ctx) : Ctx :=
  let cn := x.conn c
  match Message.parse s with
  | .error .empty => x
  | .error .wrongSource => x.reply cfg (str "ERROR :Wrong source")
  | .error .noCommand => x.reply cfg (str "ERROR :No command supplied")
  | .ok msg =>
    match Command.fromMessage msg with
    | .error e => x.reply cfg (commandErrorReply cn.clientName e)
    | .ok cmd =>
      let x := x.modifyW (fun w => bumpCount w cmd.id.index)
      if !(allowedUnregistered cmd) && !cn.authenticated then
        x.reply cfg (ErrNotRegistered451 cn.clientName)
      else dispatch cfg c msg cmd x

/-- `remove_user(conn)` + drop of the `ConnState` (slot freed). -/
def teardown (w : World) (c : Nat) : World :=
  match w.conn? c with
  | none => w
  | some cn =>
    let w := if cn.authenticated then
        (match cn.nick with
         | some n => w.removeUser n
         | none => w)
      else w
    { w with conns := w.conns.filter (·.id != c)
             connsCount := w.connsCount - 1 }

/-- The settling phase for one connection (harness polls it until nothing is ready):
    a pending kill signal is turned into the ERROR line and `quit`; a connection with
    `quit` set is torn down. -/
def settleConn (cfg : Cfg) (acc : World × List (Nat × Str) × List Str) (c : Nat) :
    World × List (Nat × Str) × List Str :=
  let (w, outs, evs) := acc
  match w.conn? c with
  | none => acc
  | some cn =>
    let (w, outs, cn) :=
      if cn.quit then (w, outs, cn) else
      match cn.killedBy with
      | some (killer, comment) =>
        let cn' := { cn with quit := true, killedBy := none }
        (w.setConn cn',
         outs ++ [(c, ':' :: (cfg.name ++ ' ' :: (str "ERROR :User killed by " ++ killer ++ str ": " ++ comment)))],
         cn')
      | none => (w, outs, cn)
    if cn.quit then (teardown w c, outs, evs ++ [str "closed " ++ natToStr c])
    else (w, outs, evs)

def settle (cfg : Cfg) (w : World) (outs : List (Nat × Str)) (evs : List Str) :
    World × List (Nat × Str) × List Str :=
  (w.conns.map (·.id)).foldl (settleConn cfg) (w, outs, evs)

/-- run a handler context for connection `c` to a `StepOut`: direct replies first, then the
    queued lines (each to its owner's socket), then the settling phase. -/
def finish (cfg : Cfg) (c : Nat) (x : Ctx) (evs : List Str := []) : StepOut :=
  let outs := x.direct.map (fun l => (c, l)) ++ x.queued
  let (w, outs, evs) := settle cfg x.w outs evs
  { w := w, outs := outs, events := evs }

def step (cfg : Cfg) (w : World) (e : Event) : StepOut :=
  match e with
  | .connect c ip =>
    -- `register_conn_state`
    let full := match cfg.maxConnections with
      | some m => !(w.connsCount < m)
      | none => false
    if full then { w := w, events := [str "refused " ++ natToStr c] }
    else { w := { w with conns := w.conns ++ [Conn.new c ip], connsCount := w.connsCount + 1 } }
  | .line c s =>
    match w.conn? c with
    | none => { w := w, events := [str "dead " ++ natToStr c] }
    | some _ => finish cfg c (handleLine cfg c s { w := w })
  | .tooLong c =>
    match w.conn? c with
    | none => { w := w, events := [str "dead " ++ natToStr c] }
    | some cn =>
      -- 417, then the framed stream ends: `None` ⇒ quit
      let x : Ctx := { w := w }
      let x := x.reply cfg (ErrInputTooLong417 cn.clientName)
      finish cfg c (x.setConn { cn with quit := true })
  | .badUtf8 c | .eof c | .reset c =>
    match w.conn? c with
    | none => { w := w, events := [str "dead " ++ natToStr c] }
    | some cn => finish cfg c ({ w := w : Ctx }.setConn { cn with quit := true })
  | .partialLine c _ =>
    match w.conn? c with
    | none => { w := w, events := [str "dead " ++ natToStr c] }
    | some _ => { w := w }

def run (cfg : Cfg) (evs : List Event) : World :=
  evs.foldl (fun w e => (step cfg w e).w) (World.init cfg)

end Irc
