/-
  Irc.Timer — executable discrete-time model of the keep-alive machinery (property C17).

  Rust being modelled (per connection):
    * `authenticate` → `run_ping_waker`: task `ping_client_waker`: `sleep(P)`, then
      `interval(P)` (first tick immediate): a wake-up at `regAt + k·P`, k = 1, 2, 3, …
      while `quit == 0`.
    * `process_internal`, branch `ping_receiver`: write `PING :LALAL`, `run_pong_timeout`:
      a fresh oneshot `pong_notifier` is stored (the old sender is dropped: the old timer task
      ends silently) and a timer task is spawned that fires at `now + T` unless notified.
    * `process_pong` (`PONG <anything>`): `pong_notifier.take()` is notified (timer cancelled).
    * branch `timeout_receiver`: write `ERROR :Pong timeout, connection will be closed.`,
      `quit := 1`; the connection is then torn down (C06, main model).
    * `process_ping` (`PING tok`): write `PONG <server> :tok`.

  Time is a `Nat` (milliseconds).  `TCfg.fixed` selects the variant:
    * `fixed = false` — the code as it is: every server PING REPLACES the pending timer;
    * `fixed = true`  — the repaired code (`if pong_notifier.is_none()`): a server PING starts
      a timer only when none is pending.

  ## Order of events (deterministic rules of this model)
    1. `advance ms` moves the clock from `now` to `now + ms` and processes every internal
       event that is due at a time `≤ now + ms`, in chronological order.
    2. TIE RULE: when the pending pong deadline `d` and the next PING time `p` fall on the
       same instant (`d = p`) the DEADLINE is processed FIRST, in both variants (so the
       connection quits and that PING is not sent).  In general: the deadline fires iff
       `d ≤ nextPing ∧ d ≤ target`; otherwise the PING is sent iff `nextPing ≤ target`.
    3. A client event (`pong`, `pingCmd`) happening at clock value `t` is processed AFTER all
       internal events due at times `≤ t` (it follows the `advance` that brought the clock
       to `t`).  So a `pong` at exactly the deadline is too late, a `pong` at exactly the time
       of a PING answers that PING.
    Ties are racy in the real system; the C17 theorems do not depend on how they are resolved
    except where stated.
    4. After `quit` nothing happens any more: no output, the state (including `now`, which
       stays at the instant of the timeout) is frozen.

  This file imports only `Irc.Basic` (it is compiled into the driver); proofs are in
  `Irc/Props/C17Lemmas.lean` and `Irc/Props/C17.lean`.
-/
import Irc.Basic
namespace Irc.Timer
open Irc

structure TCfg where
  pingMs : Nat
  pongMs : Nat
  fixed  : Bool
deriving Repr, DecidableEq

/-- client actions / passage of time -/
inductive TEvent
  | advance (ms : Nat)
  | pong
  | pingCmd (token : Str)
deriving Repr, DecidableEq

structure TState where
  now        : Nat
  registered : Bool
  regAt      : Nat
  /-- time of the next server PING -/
  nextPing   : Nat
  /-- firing time of the pending pong timer (`pong_notifier` is `Some` and its timer alive) -/
  deadline   : Option Nat
  quit       : Bool
deriving Repr, DecidableEq

inductive TOut
  | ping (t : Nat)
  | errorTimeout (t : Nat)
  | pongReply (t : Nat) (token : Str)
deriving Repr, DecidableEq

/-- state right after registration at time `regAt` -/
def TState.start (cfg : TCfg) (regAt : Nat) : TState :=
  { now := regAt, registered := true, regAt := regAt, nextPing := regAt + cfg.pingMs,
    deadline := none, quit := false }

/-- the pong timer after the server sent a PING at time `p` while `pending` was the timer. -/
def arm (cfg : TCfg) (pending : Option Nat) (p : Nat) : Option Nat :=
  match cfg.fixed, pending with
  | true, some d => some d
  | _, _ => some (p + cfg.pongMs)

/-- the server sends the PING that is due at `s.nextPing` -/
def firePing (cfg : TCfg) (s : TState) : TState :=
  { s with now := s.nextPing, nextPing := s.nextPing + cfg.pingMs,
           deadline := arm cfg s.deadline s.nextPing }

/-- the pending deadline if it is the next internal event and due up to `tgt` (tie rule:
    deadline before PING). -/
def dueDeadline (s : TState) (tgt : Nat) : Option Nat :=
  match s.deadline with
  | some d => if d ≤ s.nextPing ∧ d ≤ tgt then some d else none
  | none => none

/-- process all internal events due up to the absolute time `tgt`; structural in the fuel. -/
def advTo (cfg : TCfg) : Nat → Nat → TState → TState × List TOut
  | 0, tgt, s => ({ s with now := tgt }, [])
  | fuel + 1, tgt, s =>
    if s.quit then (s, [])
    else if !s.registered then ({ s with now := tgt }, [])
    else
      match dueDeadline s tgt with
      | some d => ({ s with now := d, deadline := none, quit := true }, [TOut.errorTimeout d])
      | none =>
        if s.nextPing ≤ tgt then
          let r := advTo cfg fuel tgt (firePing cfg s)
          (r.1, TOut.ping s.nextPing :: r.2)
        else ({ s with now := tgt }, [])

/-- fuel that always suffices when `pingMs ≥ 1`: every PING sent raises `nextPing` by at
    least one and needs `nextPing ≤ tgt`; one more round ends the loop.  (For a state with
    `now < nextPing` this is at most `ms + 1`.) -/
def advFuel (tgt : Nat) (s : TState) : Nat := (tgt + 1 - s.nextPing) + 1

def tStep (cfg : TCfg) (s : TState) (e : TEvent) : TState × List TOut :=
  if s.quit then (s, [])
  else
    match e with
    | .advance ms => advTo cfg (advFuel (s.now + ms) s) (s.now + ms) s
    | .pong => ({ s with deadline := none }, [])
    | .pingCmd tok => if s.registered then (s, [TOut.pongReply s.now tok]) else (s, [])

def tRun (cfg : TCfg) (s : TState) : List TEvent → TState × List TOut
  | [] => (s, [])
  | e :: es =>
    let r := tStep cfg s e
    let r' := tRun cfg r.1 es
    (r'.1, r.2 ++ r'.2)

/-- line-oriented rendering used by the driver -/
def TOut.render : TOut → Str
  | .ping t => str "@" ++ natToStr t ++ str " PING"
  | .errorTimeout t => str "@" ++ natToStr t ++ str " ERROR"
  | .pongReply t tok => str "@" ++ natToStr t ++ str " PONG " ++ tok

/-! ### examples (evaluated by the kernel) -/

/-- P = 2 s, T = 1 s, silent client: PING at 2000, ERROR at 3000, then nothing. -/
example : tRun ⟨2000, 1000, false⟩ (TState.start ⟨2000, 1000, false⟩ 0) [.advance 10000]
    = ({ now := 3000, registered := true, regAt := 0, nextPing := 4000, deadline := none,
         quit := true }, [.ping 2000, .errorTimeout 3000]) := by decide
example : (tRun ⟨2000, 1000, true⟩ (TState.start ⟨2000, 1000, true⟩ 0) [.advance 10000]).2
    = [.ping 2000, .errorTimeout 3000] := by decide

/-- a client answering 300 ms after each PING survives five periods (both variants). -/
example : tRun ⟨2000, 1000, false⟩ (TState.start ⟨2000, 1000, false⟩ 0)
    [.advance 2300, .pong, .advance 2000, .pong, .advance 2000, .pong, .advance 2000, .pong,
     .advance 2000, .pong, .advance 1699]
    = ({ now := 11999, registered := true, regAt := 0, nextPing := 12000, deadline := none,
         quit := false },
       [.ping 2000, .ping 4000, .ping 6000, .ping 8000, .ping 10000]) := by decide
example : (tRun ⟨2000, 1000, true⟩ (TState.start ⟨2000, 1000, true⟩ 0)
    [.advance 2300, .pong, .advance 2000, .pong, .advance 2000, .pong, .advance 2000, .pong,
     .advance 2000, .pong, .advance 1699]).1.quit = false := by decide

/-- P = 1 s, T = 3 s, repaired code, silent client: ERROR at 4000 = first PING + T. -/
example : (tRun ⟨1000, 3000, true⟩ (TState.start ⟨1000, 3000, true⟩ 0) [.advance 10000]).2
    = [.ping 1000, .ping 2000, .ping 3000, .errorTimeout 4000] := by decide

/-- P = 1 s, T = 2 s, code as it is, silent client: never disconnected (the defect). -/
example : tRun ⟨1000, 2000, false⟩ (TState.start ⟨1000, 2000, false⟩ 0) [.advance 10000]
    = ({ now := 10000, registered := true, regAt := 0, nextPing := 11000,
         deadline := some 12000, quit := false },
       [.ping 1000, .ping 2000, .ping 3000, .ping 4000, .ping 5000, .ping 6000, .ping 7000,
        .ping 8000, .ping 9000, .ping 10000]) := by decide

/-- client PING is echoed with its token, timers untouched -/
example : (tRun ⟨1000, 2000, true⟩ (TState.start ⟨1000, 2000, true⟩ 0)
    [.advance 1500, .pingCmd (str "abc"), .advance 1000]).2
    = [.ping 1000, .pongReply 1500 (str "abc"), .ping 2000] := by decide

example : (TOut.ping 2000).render = str "@2000 PING" := by decide
example : (TOut.errorTimeout 3000).render = str "@3000 ERROR" := by decide
example : (TOut.pongReply 1500 (str "x y")).render = str "@1500 PONG x y" := by decide

end Irc.Timer
