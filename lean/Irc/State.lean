/-
  Irc.State — the state of the server as the model sees it.

  `HashMap<String,V>` / `HashSet<String>` are association lists / lists (DESIGN.md 3.1);
  every observation is through `lookup`/membership, and dumps sort, so order never
  matters.  `Option<HashSet<_>>` in `ChannelModes` is modelled as a plain list:
  `None` and `Some(∅)` are observationally equal in the Rust code (`map_or(false, ..)`,
  `Display`, `take().unwrap_or_default()`), and the hook dump prints both as the empty list.
-/
import Irc.Basic

namespace Irc

/-! ### association lists -/

abbrev Map (α : Type) := List (Str × α)

namespace Map
variable {α : Type}

def lookup (k : Str) : Map α → Option α
  | [] => none
  | (k', v) :: rest => if k' = k then some v else lookup k rest

def contains (k : Str) (m : Map α) : Bool := (lookup k m).isSome

def erase (k : Str) : Map α → Map α
  | [] => []
  | (k', v) :: rest => if k' = k then erase k rest else (k', v) :: erase k rest

/-- replace the value if the key is present, append otherwise (`HashMap::insert`). -/
def insert (k : Str) (v : α) : Map α → Map α
  | [] => [(k, v)]
  | (k', v') :: rest => if k' = k then (k, v) :: rest else (k', v') :: insert k v rest

/-- apply `f` to the value at `k` if present (`get_mut` + assignment). -/
def modify (k : Str) (f : α → α) : Map α → Map α
  | [] => []
  | (k', v) :: rest => if k' = k then (k', f v) :: rest else (k', v) :: modify k f rest

def keys (m : Map α) : List Str := m.map (·.1)

end Map

/-! ### sets of strings -/

abbrev KSet := List Str

namespace KSet
def mem (k : Str) (s : KSet) : Bool := s.any (· == k)
def insert (k : Str) (s : KSet) : KSet := if mem k s then s else s ++ [k]
def erase (k : Str) (s : KSet) : KSet := s.filter (· != k)
def disjoint (a b : KSet) : Bool := a.all (fun x => !mem x b)
end KSet

/-! ### records -/

structure UserModes where
  invisible : Bool := false
  oper : Bool := false
  localOper : Bool := false
  registered : Bool := false
  wallops : Bool := false
  deriving DecidableEq, Repr, Inhabited

def UserModes.isLocalOper (m : UserModes) : Bool := m.localOper || m.oper

/-- `Display for UserModes` without the leading `+`. -/
def UserModes.letters (m : UserModes) : Str :=
  (if m.invisible then ['i'] else []) ++ (if m.oper then ['o'] else []) ++
  (if m.localOper then ['O'] else []) ++ (if m.registered then ['r'] else []) ++
  (if m.wallops then ['w'] else [])

def UserModes.render (m : UserModes) : Str := '+' :: m.letters

structure ChanUserModes where
  founder : Bool := false
  prot : Bool := false
  voice : Bool := false
  operator : Bool := false
  halfOper : Bool := false
  deriving DecidableEq, Repr, Inhabited

namespace ChanUserModes
def createdChannel : ChanUserModes := { founder := true, operator := true }
def isProtected (m : ChanUserModes) : Bool := m.founder || m.prot
def isOperator (m : ChanUserModes) : Bool := m.founder || m.prot || m.operator
def isHalfOperator (m : ChanUserModes) : Bool :=
  m.founder || m.prot || m.operator || m.halfOper
def isOnlyHalfOperator (m : ChanUserModes) : Bool :=
  !m.founder && !m.prot && !m.operator && m.halfOper
def isVoice (m : ChanUserModes) : Bool :=
  m.founder || m.prot || m.operator || m.halfOper || m.voice

/-- `ChannelUserModes::to_string(caps)`. -/
def prefixStr (m : ChanUserModes) (multiPrefix : Bool) : Str :=
  let o0 : Str := if m.founder then ['~'] else []
  let o1 := if (multiPrefix || o0.isEmpty) && m.prot then o0 ++ ['&'] else o0
  let o2 := if (multiPrefix || o1.isEmpty) && m.operator then o1 ++ ['@'] else o1
  let o3 := if (multiPrefix || o2.isEmpty) && m.halfOper then o2 ++ ['%'] else o2
  if (multiPrefix || o3.isEmpty) && m.voice then o3 ++ ['+'] else o3

/-- the letters used in the state dump (`qaohv`). -/
def letters (m : ChanUserModes) : Str :=
  (if m.founder then ['q'] else []) ++ (if m.prot then ['a'] else []) ++
  (if m.operator then ['o'] else []) ++ (if m.halfOper then ['h'] else []) ++
  (if m.voice then ['v'] else [])
end ChanUserModes

structure ChannelModes where
  ban : KSet := []
  exception : KSet := []
  clientLimit : Option Nat := none
  inviteException : KSet := []
  key : Option Str := none
  operators : KSet := []
  halfOperators : KSet := []
  voices : KSet := []
  founders : KSet := []
  protecteds : KSet := []
  inviteOnly : Bool := false
  moderated : Bool := false
  secret : Bool := false
  protectedTopic : Bool := false
  noExternalMessages : Bool := false
  deriving DecidableEq, Repr, Inhabited

def ChannelModes.flagLetters (m : ChannelModes) : Str :=
  (if m.inviteOnly then ['i'] else []) ++ (if m.moderated then ['m'] else []) ++
  (if m.secret then ['s'] else []) ++ (if m.protectedTopic then ['t'] else []) ++
  (if m.noExternalMessages then ['n'] else [])

structure DefaultModes where
  operators : KSet := []
  halfOperators : KSet := []
  voices : KSet := []
  founders : KSet := []
  protecteds : KSet := []
  deriving DecidableEq, Repr, Inhabited

structure Topic where
  topic : Str
  nick : Str
  deriving DecidableEq, Repr, Inhabited

structure Channel where
  topic : Option Topic := none
  modes : ChannelModes := {}
  defaultModes : DefaultModes := {}
  banInfo : Map Str := []            -- mask ↦ who
  users : Map ChanUserModes := []
  preconfigured : Bool := false
  deriving DecidableEq, Repr, Inhabited

structure HistEntry where
  username : Str
  hostname : Str
  realname : Str
  deriving DecidableEq, Repr, Inhabited

structure User where
  hostname : Str
  name : Str
  realname : Str
  source : Str
  modes : UserModes
  away : Option Str := none
  channels : KSet := []
  invitedTo : KSet := []
  history : HistEntry
  /-- `quit_sender` already taken by KILL/DIE -/
  killed : Bool := false
  /-- ghost: the connection that owns the `sender` stored in this user -/
  owner : Nat
  deriving DecidableEq, Repr, Inhabited

structure Conn where
  id : Nat
  hostname : Str
  nick : Option Str := none
  name : Option Str := none
  realname : Option Str := none
  password : Option Str := none
  source : Str
  authenticated : Bool := false
  registered : Bool := false
  capsNeg : Bool := false
  multiPrefix : Bool := false
  quit : Bool := false
  hasSender : Bool := true
  hasQuitSender : Bool := true
  hasPingSender : Bool := true
  pongPending : Bool := false
  /-- a KILL/DIE signal that has been fired at this connection and not yet processed -/
  killedBy : Option (Str × Str) := none
  deriving DecidableEq, Repr, Inhabited

def Conn.clientName (c : Conn) : Str :=
  match c.nick with
  | some n => n
  | none => match c.name with
    | some n => n
    | none => c.hostname

/-- `ConnUserState::update_source`. -/
def Conn.updateSource (c : Conn) : Conn :=
  let s1 : Str := match c.nick with | some n => n ++ ['!'] | none => []
  let s2 : Str := match c.name with | some n => '~' :: n | none => []
  { c with source := s1 ++ s2 ++ ('@' :: c.hostname) }

def Conn.setNick (c : Conn) (n : Str) : Conn := ({ c with nick := some n }).updateSource
def Conn.setName (c : Conn) (n : Str) : Conn := ({ c with name := some n }).updateSource

def Conn.new (id : Nat) (ip : Str) : Conn :=
  { id := id, hostname := ip, source := '@' :: ip }

/-! ### configuration (the part of `MainConfig` the handlers read) -/

structure OperCfg where
  name : Str
  password : Str          -- plain text in the model; `pwOk` compares (DESIGN.md 3.1)
  mask : Option Str
  deriving DecidableEq, Repr, Inhabited

structure UserCfg where
  name : Str
  nick : Str
  password : Option Str
  mask : Option Str
  deriving DecidableEq, Repr, Inhabited

structure ChanCfg where
  name : Str
  topic : Option Str
  modes : ChannelModes
  deriving DecidableEq, Repr, Inhabited

structure Cfg where
  name : Str := str "irc.irc"
  adminInfo : Str := str "ircadmin is IRC admin"
  adminInfo2 : Option Str := none
  adminEmail : Option Str := none
  info : Str := str "This is IRC server"
  motd : Str := str "Hello, world!"
  network : Str := str "IRCnetwork"
  password : Option Str := none
  maxConnections : Option Nat := none
  maxJoins : Option Nat := none
  defaultUserModes : UserModes := {}
  operators : List OperCfg := []
  users : List UserCfg := []
  channels : List ChanCfg := []
  deriving Repr, Inhabited

/-- argon2 verification, abstracted: the harness hashes the configured plain text, the
    model compares plain texts.  Theorems that depend on it say so. -/
def Cfg.pwOk (_ : Cfg) (entered stored : Str) : Bool := entered == stored

/-- `oper_config_idxs.get(name)` then `operators.get(idx)`: a later duplicate name
    overwrites the index of an earlier one. -/
def Cfg.findOper (cfg : Cfg) (name : Str) : Option OperCfg :=
  (cfg.operators.reverse.find? (·.name == name))

def Cfg.findUser (cfg : Cfg) (name : Str) : Option UserCfg :=
  (cfg.users.reverse.find? (·.name == name))

/-! ### the world -/

structure World where
  users : Map User := []
  channels : Map Channel := []
  wallops : KSet := []
  invisibleCount : Nat := 0
  operatorsCount : Nat := 0
  maxUsers : Nat := 0
  histories : Map (List HistEntry) := []
  conns : List Conn := []
  connsCount : Nat := 0
  srvQuit : Bool := false
  /-- `command_counts` (STATS m) -/
  cmdCounts : List Nat := List.replicate 41 0
  /-- sticky: an `unwrap`/index/arith site of the Rust code was hit (site name) -/
  panicked : Option Str := none
  deriving Repr, Inhabited

def World.conn? (w : World) (c : Nat) : Option Conn := w.conns.find? (·.id == c)

def World.setConn (w : World) (c : Conn) : World :=
  { w with conns := w.conns.map (fun x => if x.id == c.id then c else x) }

def World.panic (w : World) (site : String) : World :=
  { w with panicked := some site.toList }

/-- `VolatileState::new_from_config`: preconfigured channels; rank lists move to
    `default_modes` (`new_from_modes_and_cleanup`). -/
def World.init (cfg : Cfg) : World :=
  { channels := cfg.channels.foldl (fun m c =>
      Map.insert c.name
        { topic := c.topic.map (fun t => { topic := t, nick := [] })
          modes := { c.modes with operators := [], halfOperators := [], voices := [],
                                  founders := [], protecteds := [] }
          defaultModes := { operators := c.modes.operators, halfOperators := c.modes.halfOperators,
                            voices := c.modes.voices, founders := c.modes.founders,
                            protecteds := c.modes.protecteds }
          preconfigured := true } m) [] }

end Irc
