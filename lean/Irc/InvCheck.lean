/-
  Irc.InvCheck — an executable (Bool) version of `Inv`, evaluated by the driver on every
  model state of every correspondence run (a cheap sanity check that the invariant that the
  theorems assume is the one the reachable states satisfy).
-/
import Irc.Inv

namespace Irc

def nodupStrs : List Str → Bool
  | [] => true
  | x :: xs => !(xs.any (· == x)) && nodupStrs xs

def nodupNats : List Nat → Bool
  | [] => true
  | x :: xs => !(xs.any (· == x)) && nodupNats xs

def rankMirrorCheck (C : Channel) : Bool :=
  let chk (lst : KSet) (flag : ChanUserModes → Bool) : Bool :=
    lst.all (fun n => match Map.lookup n C.users with | some m => flag m | none => false) &&
    C.users.all (fun p => !flag p.2 || KSet.mem p.1 lst)
  chk C.modes.founders (·.founder) && chk C.modes.protecteds (·.prot) &&
  chk C.modes.operators (·.operator) && chk C.modes.halfOperators (·.halfOper) &&
  chk C.modes.voices (·.voice)

def invCoreCheck (w : World) : List String :=
  let bad (b : Bool) (s : String) : List String := if b then [] else [s]
  bad w.panicked.isNone "noPanic" ++
  bad (nodupStrs (Map.keys w.users)) "usersNodup" ++
  bad (nodupStrs (Map.keys w.channels)) "chansNodup" ++
  bad (nodupNats (w.conns.map (·.id))) "connsNodup" ++
  bad (w.channels.all (fun p => nodupStrs (Map.keys p.2.users))) "membersNodup" ++
  bad (w.users.all (fun p => nodupStrs p.2.channels)) "userChansNodup" ++
  bad (w.conns.all (fun cn => !cn.authenticated ||
        (match cn.nick with
         | some n => (match Map.lookup n w.users with | some u => u.owner == cn.id | none => false)
         | none => false))) "authOwns" ++
  bad (w.users.all (fun p => w.conns.any (fun cn => cn.id == p.2.owner && cn.authenticated &&
        cn.nick == some p.1))) "userOwned" ++
  bad (w.users.all (fun p =>
        p.2.channels.all (fun ch => match Map.lookup ch w.channels with
                                     | some C => Map.contains p.1 C.users | none => false) &&
        w.channels.all (fun q => !(Map.contains p.1 q.2.users) || KSet.mem q.1 p.2.channels)))
      "memberSym" ++
  bad (w.channels.all (fun q => q.2.users.all (fun m => Map.contains m.1 w.users))) "memberIsUser" ++
  bad (w.channels.all (fun q => rankMirrorCheck q.2)) "rankMirror" ++
  bad (w.channels.all (fun q => !q.2.users.isEmpty || q.2.preconfigured)) "noEmptyAdHoc" ++
  bad (w.invisibleCount == (w.users.filter (fun p => p.2.modes.invisible)).length) "invisibleCount" ++
  bad (w.operatorsCount == (w.users.filter (fun p => p.2.modes.isLocalOper)).length) "operatorsCount" ++
  bad (w.wallops.all (fun n => match Map.lookup n w.users with | some u => u.modes.wallops | none => false) &&
       w.users.all (fun p => !p.2.modes.wallops || KSet.mem p.1 w.wallops)) "wallopsSet" ++
  bad (w.users.length ≤ w.maxUsers) "maxUsers" ++
  bad (w.conns.all (fun cn => cn.authenticated || (cn.hasSender && cn.hasQuitSender && cn.hasPingSender)))
      "resources" ++
  bad (w.connsCount == w.conns.length) "slots"

def invCheck (w : World) : List String :=
  invCoreCheck w ++
  (if w.conns.all (fun cn => !cn.quit && cn.killedBy.isNone) then [] else ["settled"]) ++
  (if w.users.all (fun p => !p.2.killed) then [] else ["notKilled"])

end Irc
