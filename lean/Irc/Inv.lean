/-
  Irc.Inv — the global invariant of the server state (DESIGN.md 3.4).  It holds in
  `World.init cfg` and is preserved by every `step` (proved in Irc/InvProofs/*), hence in
  every reachable state.  The property theorems quantify over all `Inv` worlds.
-/
import Irc.Step
import Irc.Lemmas.Map

namespace Irc

/-- the five rank lists of a channel mirror the five member flags (I3) -/
structure RankMirror (C : Channel) : Prop where
  founders : ∀ n, KSet.mem n C.modes.founders = true ↔ ∃ m, Map.lookup n C.users = some m ∧ m.founder = true
  protecteds : ∀ n, KSet.mem n C.modes.protecteds = true ↔ ∃ m, Map.lookup n C.users = some m ∧ m.prot = true
  operators : ∀ n, KSet.mem n C.modes.operators = true ↔ ∃ m, Map.lookup n C.users = some m ∧ m.operator = true
  halfOperators : ∀ n, KSet.mem n C.modes.halfOperators = true ↔ ∃ m, Map.lookup n C.users = some m ∧ m.halfOper = true
  voices : ∀ n, KSet.mem n C.modes.voices = true ↔ ∃ m, Map.lookup n C.users = some m ∧ m.voice = true

/-- the part of the invariant that holds also in the middle of an operation (after the handler,
    before the settling phase) -/
structure InvCore (w : World) : Prop where
  /-- no `unwrap`/index/arith site has been hit -/
  noPanic : w.panicked = none
  /-- maps have unique keys -/
  usersNodup : (Map.keys w.users).Nodup
  chansNodup : (Map.keys w.channels).Nodup
  connsNodup : (w.conns.map (·.id)).Nodup
  membersNodup : ∀ ch C, Map.lookup ch w.channels = some C → (Map.keys C.users).Nodup
  /-- a user's channel set has no duplicates -/
  userChansNodup : ∀ n u, Map.lookup n w.users = some u → u.channels.Nodup
  /-- I1: an authenticated connection owns the user registered under its nick … -/
  authOwns : ∀ cn, cn ∈ w.conns → cn.authenticated = true →
    ∃ n u, cn.nick = some n ∧ Map.lookup n w.users = some u ∧ u.owner = cn.id
  /-- … and every user is owned by exactly that live, authenticated connection -/
  userOwned : ∀ n u, Map.lookup n w.users = some u →
    ∃ cn, cn ∈ w.conns ∧ cn.id = u.owner ∧ cn.authenticated = true ∧ cn.nick = some n
  /-- I2: membership is one symmetric relation -/
  memberSym : ∀ n u ch, Map.lookup n w.users = some u →
    (KSet.mem ch u.channels = true ↔ ∃ C, Map.lookup ch w.channels = some C ∧ Map.contains n C.users = true)
  memberIsUser : ∀ ch C n, Map.lookup ch w.channels = some C → Map.contains n C.users = true →
    Map.contains n w.users = true
  /-- I3 -/
  rankMirror : ∀ ch C, Map.lookup ch w.channels = some C → RankMirror C
  /-- I4: an empty channel exists only if it is preconfigured -/
  noEmptyAdHoc : ∀ ch C, Map.lookup ch w.channels = some C → C.users = [] → C.preconfigured = true
  /-- I5: counters are the sizes of the sets they count -/
  invisibleCount : w.invisibleCount = (w.users.filter (fun p => p.2.modes.invisible)).length
  operatorsCount : w.operatorsCount = (w.users.filter (fun p => p.2.modes.isLocalOper)).length
  wallopsSet : ∀ n, KSet.mem n w.wallops = true ↔ ∃ u, Map.lookup n w.users = some u ∧ u.modes.wallops = true
  maxUsers : w.users.length ≤ w.maxUsers
  /-- I6: the one-shot resources of a connection are consumed exactly at registration -/
  resources : ∀ cn, cn ∈ w.conns →
    (cn.authenticated = false → cn.hasSender = true ∧ cn.hasQuitSender = true ∧ cn.hasPingSender = true)
  /-- I7: the slot counter counts the live connections -/
  slots : w.connsCount = w.conns.length
  /-- a fired quit signal is pending at (or has already stopped) the owning connection -/
  killedFlagged : ∀ n u, Map.lookup n w.users = some u → u.killed = true →
    ∃ cn, cn ∈ w.conns ∧ cn.id = u.owner ∧ (cn.killedBy.isSome = true ∨ cn.quit = true)

/-- the invariant at operation boundaries -/
structure Inv (w : World) : Prop extends InvCore w where
  /-- every quitting / killed connection has been torn down -/
  settled : ∀ cn, cn ∈ w.conns → cn.quit = false ∧ cn.killedBy = none
  /-- hence no user with a fired quit signal is left -/
  notKilled : ∀ n u, Map.lookup n w.users = some u → u.killed = false

/-- the scheduling well-formedness the harness obeys: connection ids are fresh at `connect` -/
def Sched (w : World) : Event → Prop
  | .connect c _ => ∀ cn, cn ∈ w.conns → cn.id ≠ c
  | _ => True

end Irc
