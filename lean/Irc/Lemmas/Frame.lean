/-
  Irc.Lemmas.Frame — what the context operations (`reply`, `send`, `setConn`, `panic`) leave
  unchanged.  All `@[simp]`.
-/
import Irc.Step
import Irc.Lemmas.Map

namespace Irc

/-! ### World.panic / World.setConn projections -/
section
variable (w : World) (s : String) (cn : Conn)

@[simp] theorem World.panic_users : (w.panic s).users = w.users := rfl
@[simp] theorem World.panic_channels : (w.panic s).channels = w.channels := rfl
@[simp] theorem World.panic_wallops : (w.panic s).wallops = w.wallops := rfl
@[simp] theorem World.panic_invisibleCount : (w.panic s).invisibleCount = w.invisibleCount := rfl
@[simp] theorem World.panic_operatorsCount : (w.panic s).operatorsCount = w.operatorsCount := rfl
@[simp] theorem World.panic_maxUsers : (w.panic s).maxUsers = w.maxUsers := rfl
@[simp] theorem World.panic_histories : (w.panic s).histories = w.histories := rfl
@[simp] theorem World.panic_conns : (w.panic s).conns = w.conns := rfl
@[simp] theorem World.panic_connsCount : (w.panic s).connsCount = w.connsCount := rfl
@[simp] theorem World.panic_srvQuit : (w.panic s).srvQuit = w.srvQuit := rfl
@[simp] theorem World.panic_cmdCounts : (w.panic s).cmdCounts = w.cmdCounts := rfl
@[simp] theorem World.panic_panicked : (w.panic s).panicked = some s.toList := rfl

@[simp] theorem World.setConn_users : (w.setConn cn).users = w.users := rfl
@[simp] theorem World.setConn_channels : (w.setConn cn).channels = w.channels := rfl
@[simp] theorem World.setConn_wallops : (w.setConn cn).wallops = w.wallops := rfl
@[simp] theorem World.setConn_invisibleCount : (w.setConn cn).invisibleCount = w.invisibleCount := rfl
@[simp] theorem World.setConn_operatorsCount : (w.setConn cn).operatorsCount = w.operatorsCount := rfl
@[simp] theorem World.setConn_maxUsers : (w.setConn cn).maxUsers = w.maxUsers := rfl
@[simp] theorem World.setConn_histories : (w.setConn cn).histories = w.histories := rfl
@[simp] theorem World.setConn_connsCount : (w.setConn cn).connsCount = w.connsCount := rfl
@[simp] theorem World.setConn_srvQuit : (w.setConn cn).srvQuit = w.srvQuit := rfl
@[simp] theorem World.setConn_cmdCounts : (w.setConn cn).cmdCounts = w.cmdCounts := rfl
@[simp] theorem World.setConn_panicked : (w.setConn cn).panicked = w.panicked := rfl
end

namespace Ctx
variable (x : Ctx) (cfg : Cfg) (t src nick line : Str) (cn : Conn) (s : String)

@[simp] theorem reply_w : (x.reply cfg t).w = x.w := rfl
@[simp] theorem reply_queued : (x.reply cfg t).queued = x.queued := rfl
@[simp] theorem reply_direct : (x.reply cfg t).direct = x.direct ++ [':' :: (cfg.name ++ ' ' :: t)] := rfl
@[simp] theorem replySrc_w : (x.replySrc src t).w = x.w := rfl
@[simp] theorem replySrc_queued : (x.replySrc src t).queued = x.queued := rfl
@[simp] theorem replySrc_direct : (x.replySrc src t).direct = x.direct ++ [':' :: (src ++ ' ' :: t)] := rfl

@[simp] theorem setConn_w : (x.setConn cn).w = x.w.setConn cn := rfl
@[simp] theorem setConn_direct : (x.setConn cn).direct = x.direct := rfl
@[simp] theorem setConn_queued : (x.setConn cn).queued = x.queued := rfl
@[simp] theorem panic_w : (x.panic s).w = x.w.panic s := rfl
@[simp] theorem panic_direct : (x.panic s).direct = x.direct := rfl
@[simp] theorem panic_queued : (x.panic s).queued = x.queued := rfl
@[simp] theorem modifyW_w (f : World → World) : (x.modifyW f).w = f x.w := rfl
@[simp] theorem modifyW_direct (f : World → World) : (x.modifyW f).direct = x.direct := rfl
@[simp] theorem modifyW_queued (f : World → World) : (x.modifyW f).queued = x.queued := rfl

@[simp] theorem send_direct : (x.send nick line).direct = x.direct := by
  unfold send; split <;> rfl

theorem send_w_cases : (x.send nick line).w = x.w ∨
    (Map.lookup nick x.w.users = none ∧ (x.send nick line).w = x.w.panic "send to unknown user") := by
  unfold send; split
  · left; rfl
  · rename_i h; right; exact ⟨h, rfl⟩

@[simp] theorem send_users : (x.send nick line).w.users = x.w.users := by
  unfold send; split <;> rfl
@[simp] theorem send_channels : (x.send nick line).w.channels = x.w.channels := by
  unfold send; split <;> rfl
@[simp] theorem send_wallops : (x.send nick line).w.wallops = x.w.wallops := by
  unfold send; split <;> rfl
@[simp] theorem send_invisibleCount : (x.send nick line).w.invisibleCount = x.w.invisibleCount := by
  unfold send; split <;> rfl
@[simp] theorem send_operatorsCount : (x.send nick line).w.operatorsCount = x.w.operatorsCount := by
  unfold send; split <;> rfl
@[simp] theorem send_maxUsers : (x.send nick line).w.maxUsers = x.w.maxUsers := by
  unfold send; split <;> rfl
@[simp] theorem send_histories : (x.send nick line).w.histories = x.w.histories := by
  unfold send; split <;> rfl
@[simp] theorem send_conns : (x.send nick line).w.conns = x.w.conns := by
  unfold send; split <;> rfl
@[simp] theorem send_connsCount : (x.send nick line).w.connsCount = x.w.connsCount := by
  unfold send; split <;> rfl
@[simp] theorem send_srvQuit : (x.send nick line).w.srvQuit = x.w.srvQuit := by
  unfold send; split <;> rfl
@[simp] theorem send_cmdCounts : (x.send nick line).w.cmdCounts = x.w.cmdCounts := by
  unfold send; split <;> rfl

theorem send_w_of_lookup {u : User} (h : Map.lookup nick x.w.users = some u) :
    x.send nick line = { x with queued := x.queued ++ [(u.owner, line)] } := by
  unfold send; simp [h]

@[simp] theorem sendDisplay_direct : (x.sendDisplay nick src t).direct = x.direct := by
  unfold sendDisplay; simp
@[simp] theorem sendDisplay_users : (x.sendDisplay nick src t).w.users = x.w.users := by
  unfold sendDisplay; simp
@[simp] theorem sendDisplay_channels : (x.sendDisplay nick src t).w.channels = x.w.channels := by
  unfold sendDisplay; simp
@[simp] theorem sendDisplay_conns : (x.sendDisplay nick src t).w.conns = x.w.conns := by
  unfold sendDisplay; simp

end Ctx
end Irc
