/-
  Irc.Lemmas.Map — lemma library for the association-list maps and string sets of
  Irc.State (lookup / insert / erase / modify / keys, KSet mem / insert / erase).
-/
import Irc.State

namespace Irc
namespace Map
variable {α : Type}

@[simp] theorem lookup_nil (k : Str) : lookup k ([] : Map α) = none := rfl

theorem lookup_cons (k k' : Str) (v : α) (m : Map α) :
    lookup k ((k', v) :: m) = if k' = k then some v else lookup k m := rfl

@[simp] theorem lookup_insert_eq (k : Str) (v : α) (m : Map α) :
    lookup k (insert k v m) = some v := by
  induction m with
  | nil => simp [insert, lookup]
  | cons p m ih =>
    obtain ⟨k', v'⟩ := p
    simp only [insert]
    split
    · simp [lookup]
    · rename_i h; simp [lookup, h, ih]

theorem lookup_insert_ne (k k' : Str) (v : α) (m : Map α) (h : k' ≠ k) :
    lookup k (insert k' v m) = lookup k m := by
  induction m with
  | nil => simp [insert, lookup, h]
  | cons p m ih =>
    obtain ⟨k'', v''⟩ := p
    simp only [insert]
    split
    · rename_i h2; subst h2; simp [lookup, h]
    · simp only [lookup]; split <;> simp_all

theorem lookup_insert (k k' : Str) (v : α) (m : Map α) :
    lookup k (insert k' v m) = if k' = k then some v else lookup k m := by
  split
  · rename_i h; subst h; simp
  · rename_i h; exact lookup_insert_ne k k' v m h

@[simp] theorem lookup_erase_eq (k : Str) (m : Map α) : lookup k (erase k m) = none := by
  induction m with
  | nil => rfl
  | cons p m ih =>
    obtain ⟨k', v'⟩ := p
    simp only [erase]
    split
    · exact ih
    · rename_i h; simp [lookup, h, ih]

theorem lookup_erase_ne (k k' : Str) (m : Map α) (h : k' ≠ k) :
    lookup k (erase k' m) = lookup k m := by
  induction m with
  | nil => rfl
  | cons p m ih =>
    obtain ⟨k'', v''⟩ := p
    simp only [erase]
    split
    · rename_i h2; subst h2; simp [lookup, h, ih]
    · simp only [lookup]; split <;> simp_all

theorem lookup_erase (k k' : Str) (m : Map α) :
    lookup k (erase k' m) = if k' = k then none else lookup k m := by
  split
  · rename_i h; subst h; simp
  · rename_i h; exact lookup_erase_ne k k' m h

theorem lookup_modify (k k' : Str) (f : α → α) (m : Map α) :
    lookup k (modify k' f m) = if k' = k then (lookup k m).map f else lookup k m := by
  induction m with
  | nil => simp [modify, lookup]
  | cons p m ih =>
    obtain ⟨k'', v''⟩ := p
    by_cases h2 : k'' = k'
    · subst h2
      by_cases h3 : k'' = k
      · subst h3; simp [modify, lookup]
      · simp [modify, lookup, h3]
    · by_cases h3 : k'' = k
      · subst h3
        have h4 : ¬ k' = k'' := fun e => h2 e.symm
        simp [modify, lookup, h2, h4]
      · simp only [modify, h2, ↓reduceIte, lookup, h3]
        exact ih

theorem contains_iff (k : Str) (m : Map α) : contains k m = true ↔ ∃ v, lookup k m = some v := by
  simp [contains, Option.isSome_iff_exists]

theorem contains_false_iff (k : Str) (m : Map α) : contains k m = false ↔ lookup k m = none := by
  simp [contains]

theorem mem_keys_iff (k : Str) (m : Map α) : k ∈ keys m ↔ ∃ v, lookup k m = some v := by
  induction m with
  | nil => simp [keys, lookup]
  | cons p m ih =>
    obtain ⟨k', v'⟩ := p
    simp only [keys, List.map_cons, List.mem_cons, lookup]
    constructor
    · rintro (h | h)
      · subst h; exact ⟨v', by simp⟩
      · by_cases hk : k' = k
        · exact ⟨v', by simp [hk]⟩
        · have := (ih.mp (by simpa [keys] using h))
          obtain ⟨v, hv⟩ := this
          exact ⟨v, by simp [hk, hv]⟩
    · rintro ⟨v, hv⟩
      by_cases hk : k' = k
      · left; exact hk.symm
      · right
        simp [hk] at hv
        have := ih.mpr ⟨v, hv⟩
        simpa [keys] using this

theorem lookup_none_of_not_mem_keys (k : Str) (m : Map α) (h : k ∉ keys m) : lookup k m = none := by
  cases hl : lookup k m with
  | none => rfl
  | some v => exact absurd ((mem_keys_iff k m).mpr ⟨v, hl⟩) h

theorem keys_erase (k : Str) (m : Map α) : keys (erase k m) = (keys m).filter (· != k) := by
  induction m with
  | nil => rfl
  | cons p m ih =>
    obtain ⟨k', v'⟩ := p
    simp only [erase, keys, List.map_cons, List.filter_cons]
    split
    · rename_i h; subst h; simpa [keys] using ih
    · rename_i h
      have : (k' != k) = true := by simp [h]
      simp only [this, ↓reduceIte, List.map_cons, List.cons.injEq, true_and]
      simpa [keys] using ih

theorem keys_modify (k : Str) (f : α → α) (m : Map α) : keys (modify k f m) = keys m := by
  induction m with
  | nil => rfl
  | cons p m ih =>
    obtain ⟨k', v'⟩ := p
    simp only [modify]
    split <;> simp_all [keys]

end Map

namespace KSet

theorem mem_iff (k : Str) (s : KSet) : mem k s = true ↔ k ∈ s := by
  simp [mem, List.any_eq_true]

theorem mem_insert (k k' : Str) (s : KSet) : mem k (insert k' s) = (decide (k = k') || mem k s) := by
  unfold insert
  by_cases h : mem k' s = true
  · simp only [h, ↓reduceIte]
    by_cases hk : k = k'
    · subst hk; simp [h]
    · simp [hk]
  · simp only [h]
    by_cases hk : k = k'
    · subst hk; simp [mem]
    · have : (k' == k) = false := by simp [Ne.symm hk]
      simp [mem, hk, this]

theorem mem_erase (k k' : Str) (s : KSet) : mem k (erase k' s) = (!decide (k = k') && mem k s) := by
  unfold erase mem
  induction s with
  | nil => simp
  | cons x xs ih =>
    simp only [List.filter_cons]
    by_cases hx : x = k'
    · subst hx
      simp only [bne_self_eq_false, Bool.false_eq_true, ↓reduceIte, List.any_cons]
      rw [ih]
      by_cases hk : k = x
      · subst hk; simp
      · have : (x == k) = false := by simp [Ne.symm hk]
        simp [hk, this]
    · have : (x != k') = true := by simp [hx]
      simp only [this, ↓reduceIte, List.any_cons]
      rw [ih]
      by_cases hk : k = k'
      · subst hk
        have : (x == k) = false := by simp [hx]
        simp [this]
      · simp [hk]

end KSet
end Irc
