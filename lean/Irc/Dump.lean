/-
  Irc.Dump — canonical text form of the model state, token for token the format printed by
  the hook `verif_dump` in /repo/src/state/verif_hooks.rs (`st <kind> ...` records).
-/
import Irc.Step

namespace Irc

def optTok : Option Str → Str
  | some s => '+' :: esc s
  | none => ['-']

def setTok (s : KSet) : Str := escList (sortStrs s)

def bit (b : Bool) : Str := if b then ['1'] else ['0']

def sp (ts : List Str) : Str := joinWith [' '] ts

def dumpUser (nick : Str) (u : User) : Str :=
  sp [str "st user", esc nick, esc u.name, esc u.realname, esc u.hostname, esc u.source,
      esc u.modes.letters, optTok u.away, setTok u.channels, setTok u.invitedTo,
      esc u.history.username, esc u.history.hostname, esc u.history.realname, bit u.killed]

def dumpChan (name : Str) (ch : Channel) : List Str :=
  let m := ch.modes
  let d := ch.defaultModes
  [sp [str "st chan", esc name, optTok (ch.topic.map (·.topic)), optTok (ch.topic.map (·.nick)),
       esc m.flagLetters, optTok m.key,
       (match m.clientLimit with | some l => '+' :: natToStr l | none => ['-']),
       setTok m.ban, setTok m.exception, setTok m.inviteException,
       setTok m.founders, setTok m.protecteds, setTok m.operators, setTok m.halfOperators,
       setTok m.voices,
       setTok d.founders, setTok d.protecteds, setTok d.operators, setTok d.halfOperators,
       setTok d.voices, bit ch.preconfigured]] ++
  ch.users.map (fun (n, chum) => sp [str "st member", esc name, esc n, esc chum.letters]) ++
  ch.banInfo.map (fun (mask, who) => sp [str "st ban", esc name, esc mask, esc who])

def enumFrom {α : Type} : Nat → List α → List (Nat × α)
  | _, [] => []
  | i, x :: xs => (i, x) :: enumFrom (i + 1) xs

def dumpConn (cn : Conn) : Str :=
  sp [str "st conn", natToStr cn.id, optTok cn.nick, optTok cn.name, optTok cn.realname,
      optTok cn.password, esc cn.hostname, esc cn.source, bit cn.authenticated, bit cn.registered,
      bit cn.capsNeg, bit cn.multiPrefix, bit cn.quit, bit cn.hasSender, bit cn.hasQuitSender,
      bit cn.hasPingSender, bit cn.pongPending]

def dumpWorld (w : World) : List Str :=
  w.users.map (fun (n, u) => dumpUser n u) ++
  w.channels.flatMap (fun (n, ch) => dumpChan n ch) ++
  [sp [str "st cnt", natToStr w.invisibleCount, natToStr w.operatorsCount, natToStr w.maxUsers,
       natToStr w.connsCount],
   sp [str "st wallops", setTok w.wallops]] ++
  w.histories.flatMap (fun (n, hs) => (enumFrom 0 hs).map (fun (i, e) =>
    sp [str "st hist", esc n, natToStr i, esc e.username, esc e.hostname, esc e.realname])) ++
  [sp [str "st srv", bit w.srvQuit]] ++
  w.conns.map dumpConn

end Irc
