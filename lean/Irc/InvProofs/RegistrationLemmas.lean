/-
  Irc.InvProofs.RegistrationLemmas — helper lemmas for Irc.InvProofs.Registration:
  list-level facts about `Map.insert` / `Map.erase`, replacing a connection record
  (`World.setConn`), re-keying one entry of a map, `Channel.renameUser`, `renameInChannels`.
-/
import Irc.InvProofs.Defs

namespace Irc

/-! ### `Map` as a list: insert / erase -/
namespace Map
variable {α : Type}

theorem insert_of_not_mem (k : Str) (v : α) (m : Map α) (h : k ∉ keys m) :
    insert k v m = m ++ [(k, v)] := by
  induction m with
  | nil => rfl
  | cons p m ih =>
    obtain ⟨k', v'⟩ := p
    simp only [keys, List.map_cons, List.mem_cons, not_or] at h
    have hne : ¬ k' = k := fun e => h.1 e.symm
    simp only [insert, hne, ↓reduceIte, List.cons_append, List.cons.injEq, true_and]
    exact ih (by simpa [keys] using h.2)

theorem not_mem_keys_of_lookup_none (k : Str) (m : Map α) (h : lookup k m = none) : k ∉ keys m := by
  intro hk
  obtain ⟨v, hv⟩ := (mem_keys_iff k m).mp hk
  rw [h] at hv; cases hv

theorem insert_of_lookup_none (k : Str) (v : α) (m : Map α) (h : lookup k m = none) :
    insert k v m = m ++ [(k, v)] :=
  insert_of_not_mem k v m (not_mem_keys_of_lookup_none k m h)

theorem keys_insert_of_lookup_none (k : Str) (v : α) (m : Map α) (h : lookup k m = none) :
    keys (insert k v m) = keys m ++ [k] := by
  rw [insert_of_lookup_none k v m h]; simp [keys]

theorem keys_insert_of_mem (k : Str) (v : α) (m : Map α) (h : k ∈ keys m) :
    keys (insert k v m) = keys m := by
  induction m with
  | nil => simp [keys] at h
  | cons p m ih =>
    obtain ⟨k', v'⟩ := p
    simp only [insert]
    split
    · rename_i e; simp [keys, e]
    · rename_i e
      simp only [keys, List.map_cons, List.mem_cons] at h
      have : k ∈ keys m := by
        rcases h with h | h
        · exact absurd h.symm e
        · simpa [keys] using h
      have := ih this
      simp only [keys] at this
      simp [keys, this]

theorem insert_ne_nil (k : Str) (v : α) (m : Map α) : insert k v m ≠ [] := by
  cases m with
  | nil => simp [insert]
  | cons p m => obtain ⟨k', v'⟩ := p; simp only [insert]; split <;> simp

theorem erase_of_not_mem (k : Str) (m : Map α) (h : k ∉ keys m) : erase k m = m := by
  induction m with
  | nil => rfl
  | cons p m ih =>
    obtain ⟨k', v'⟩ := p
    simp only [keys, List.map_cons, List.mem_cons, not_or] at h
    have hne : ¬ k' = k := fun e => h.1 e.symm
    simp only [erase, hne, ↓reduceIte, List.cons.injEq, true_and]
    exact ih (by simpa [keys] using h.2)

/-- with unique keys, `erase` removes exactly the one entry that `lookup` finds -/
theorem erase_split (k : Str) (v : α) (m : Map α) (hnd : (keys m).Nodup) (h : lookup k m = some v) :
    ∃ l1 l2, m = l1 ++ (k, v) :: l2 ∧ erase k m = l1 ++ l2 := by
  induction m with
  | nil => simp [lookup] at h
  | cons p m ih =>
    obtain ⟨k', v'⟩ := p
    simp only [keys, List.map_cons, List.nodup_cons] at hnd
    by_cases e : k' = k
    · subst e
      simp only [lookup, ↓reduceIte, Option.some.injEq] at h
      subst h
      refine ⟨[], m, rfl, ?_⟩
      simp only [erase, ↓reduceIte, List.nil_append]
      exact erase_of_not_mem k' m (by simpa [keys] using hnd.1)
    · simp only [lookup, e, ↓reduceIte] at h
      obtain ⟨l1, l2, h1, h2⟩ := ih (by simpa [keys] using hnd.2) h
      refine ⟨(k', v') :: l1, l2, by rw [h1]; rfl, ?_⟩
      simp only [erase, e, ↓reduceIte, h2, List.cons_append]

theorem keys_erase_nodup (k : Str) (m : Map α) (hnd : (keys m).Nodup) : (keys (erase k m)).Nodup := by
  rw [keys_erase]; exact hnd.filter _

theorem not_mem_keys_erase (k k' : Str) (m : Map α) (h : k ∉ keys m) : k ∉ keys (erase k' m) := by
  rw [keys_erase]; intro hm; exact h (List.mem_filter.mp hm).1

/-- re-keying one entry `old ↦ v` to `new ↦ v'` (`new` fresh): the lookup function -/
theorem lookup_rekey (old new n : Str) (v' : α) (m : Map α) :
    lookup n (insert new v' (erase old m)) =
      if new = n then some v' else if old = n then none else lookup n m := by
  rw [lookup_insert]
  split
  · rfl
  · rw [lookup_erase]

/-- re-keying keeps the keys unique -/
theorem keys_rekey_nodup (old new : Str) (v' : α) (m : Map α) (hnd : (keys m).Nodup)
    (hnew : lookup new m = none) : (keys (insert new v' (erase old m))).Nodup := by
  have h1 : new ∉ keys (erase old m) :=
    not_mem_keys_erase new old m (not_mem_keys_of_lookup_none new m hnew)
  rw [insert_of_not_mem _ _ _ h1]
  have : keys (erase old m ++ [(new, v')]) = keys (erase old m) ++ [new] := by simp [keys]
  rw [this]
  apply List.nodup_append.mpr
  refine ⟨keys_erase_nodup old m hnd, by simp, ?_⟩
  intro a ha b hb
  simp only [List.mem_singleton] at hb
  subst hb
  intro e; subst e; exact h1 ha

/-- re-keying one entry keeps every count that looks only at a value-property shared by the old and
    the new value -/
theorem filter_rekey_length (old new : Str) (v v' : α) (m : Map α) (p : Str × α → Bool)
    (hnd : (keys m).Nodup) (hold : lookup old m = some v) (hnew : lookup new m = none)
    (hp : p (new, v') = p (old, v)) :
    ((insert new v' (erase old m)).filter p).length = (m.filter p).length := by
  have h1 : new ∉ keys (erase old m) :=
    not_mem_keys_erase new old m (not_mem_keys_of_lookup_none new m hnew)
  rw [insert_of_not_mem _ _ _ h1]
  obtain ⟨l1, l2, e1, e2⟩ := erase_split old v m hnd hold
  rw [e2, e1]
  simp only [List.filter_append, List.length_append, List.filter_cons, List.filter_nil, hp]
  split <;> simp <;> omega

theorem length_rekey (old new : Str) (v v' : α) (m : Map α)
    (hnd : (keys m).Nodup) (hold : lookup old m = some v) (hnew : lookup new m = none) :
    (insert new v' (erase old m)).length = m.length := by
  have h1 : new ∉ keys (erase old m) :=
    not_mem_keys_erase new old m (not_mem_keys_of_lookup_none new m hnew)
  rw [insert_of_not_mem _ _ _ h1]
  obtain ⟨l1, l2, e1, e2⟩ := erase_split old v m hnd hold
  rw [e2, e1]
  simp only [List.length_append, List.length_cons, List.length_nil]
  omega

end Map

end Irc

namespace Irc

/-! ### connections: lookup and replacement -/

theorem conn_eq_of_id_eq {l : List Conn} (hnd : (l.map (·.id)).Nodup) {a b : Conn}
    (ha : a ∈ l) (hb : b ∈ l) (h : a.id = b.id) : a = b := by
  induction l with
  | nil => cases ha
  | cons x l ih =>
    simp only [List.map_cons, List.nodup_cons, List.mem_map, not_exists, not_and] at hnd
    rcases List.mem_cons.mp ha with ha | ha <;> rcases List.mem_cons.mp hb with hb | hb
    · rw [ha, hb]
    · rw [ha] at h; exact absurd h.symm (hnd.1 b hb)
    · rw [hb] at h; exact absurd h (hnd.1 a ha)
    · exact ih hnd.2 ha hb

theorem Ctx.conn_of_conn? {x : Ctx} {c : Nat} {cn : Conn} (h : x.w.conn? c = some cn) :
    x.conn c = cn := by
  unfold Ctx.conn; rw [h]; rfl

/-- with `Live`, `x.conn c` is an element of the connection list -/
theorem Ctx.conn_of_live {x : Ctx} {c : Nat} (hl : Live x.w c) :
    x.conn c ∈ x.w.conns ∧ (x.conn c).id = c := by
  obtain ⟨cn, h1, h2, h3⟩ := conn?_of_live hl
  rw [Ctx.conn_of_conn? h1]; exact ⟨h2, h3⟩

theorem World.setConn_conns (w : World) (cn : Conn) :
    (w.setConn cn).conns = w.conns.map (fun x => if x.id == cn.id then cn else x) := rfl

/-- `setConn` keeps the list of connection ids -/
theorem setConn_conns_ids (w : World) (cn : Conn) : SameConnIds w (w.setConn cn) := by
  unfold SameConnIds
  rw [World.setConn_conns, List.map_map]
  apply List.map_congr_left
  intro a _
  simp only [Function.comp]
  split
  · rename_i h; exact (beq_iff_eq.mp h).symm
  · rfl

theorem setConn_conns_length (w : World) (cn : Conn) : (w.setConn cn).conns.length = w.conns.length := by
  rw [World.setConn_conns, List.length_map]

/-- the elements after `setConn`: the new record, and every connection with another id -/
theorem mem_setConn {w : World} {cn cn' : Conn} (hm : cn ∈ w.conns) (hid : cn'.id = cn.id)
    (a : Conn) : a ∈ (w.setConn cn').conns ↔ a = cn' ∨ (a ∈ w.conns ∧ a.id ≠ cn.id) := by
  rw [World.setConn_conns, List.mem_map]
  constructor
  · rintro ⟨y, hy, rfl⟩
    split
    · left; rfl
    · rename_i hne
      right; refine ⟨hy, ?_⟩
      intro e; apply hne; rw [hid]; exact beq_iff_eq.mpr e
  · rintro (rfl | ⟨ha, hne⟩)
    · exact ⟨cn, hm, by simp [hid]⟩
    · refine ⟨a, ha, ?_⟩
      have : (a.id == cn'.id) = false := by rw [hid]; simpa using hne
      simp [this]

/-- every other connection is unchanged by `setConn` -/
theorem mem_setConn_other {w : World} {cn' a : Conn} (ha : a ∈ w.conns) (hne : a.id ≠ cn'.id) :
    a ∈ (w.setConn cn').conns := by
  rw [World.setConn_conns, List.mem_map]
  refine ⟨a, ha, ?_⟩
  have : (a.id == cn'.id) = false := by simpa using hne
  simp [this]

theorem setConn_setConn (w : World) (a b : Conn) (h : a.id = b.id) :
    (w.setConn a).setConn b = w.setConn b := by
  unfold World.setConn
  simp only [List.map_map]
  congr 1
  apply List.map_congr_left
  intro y _
  simp only [Function.comp]
  by_cases e : y.id = b.id
  · have e1 : (y.id == a.id) = true := by rw [h]; exact beq_iff_eq.mpr e
    have e2 : (y.id == b.id) = true := beq_iff_eq.mpr e
    have e3 : (a.id == b.id) = true := beq_iff_eq.mpr h
    simp only [e1, e2, e3, ↓reduceIte]
  · have e1 : (y.id == a.id) = false := by rw [h]; simpa using e
    have e2 : (y.id == b.id) = false := by simpa using e
    simp only [e1, e2, Bool.false_eq_true, ↓reduceIte]

theorem live_setConn {w : World} {c : Nat} (cn : Conn) (hl : Live w c) : Live (w.setConn cn) c :=
  Live.of_same (setConn_conns_ids w cn) hl

theorem find?_replace {l : List Conn} {c : Nat} {cn : Conn} (hid : cn.id = c)
    (hex : ∃ a, a ∈ l ∧ a.id = c) :
    (l.map (fun x => if x.id == cn.id then cn else x)).find? (·.id == c) = some cn := by
  induction l with
  | nil => obtain ⟨a, ha, _⟩ := hex; cases ha
  | cons y l ih =>
    simp only [List.map_cons, List.find?_cons]
    by_cases e : y.id = c
    · have e1 : (y.id == cn.id) = true := by rw [hid]; exact beq_iff_eq.mpr e
      have e2 : (cn.id == c) = true := beq_iff_eq.mpr hid
      simp only [e1, ↓reduceIte, e2]
    · have e1 : (y.id == cn.id) = false := by rw [hid]; simpa using e
      have e2 : (y.id == c) = false := by simpa using e
      simp only [e1, Bool.false_eq_true, ↓reduceIte, e2]
      obtain ⟨a, ha, hac⟩ := hex
      rcases List.mem_cons.mp ha with ha | ha
      · rw [ha] at hac; exact absurd hac e
      · exact ih ⟨a, ha, hac⟩

/-- after `setConn` of a record with id `c`, `conn? c` is that record -/
theorem conn?_setConn_live {w : World} {c : Nat} {cn : Conn} (hl : Live w c) (hid : cn.id = c) :
    (w.setConn cn).conn? c = some cn := by
  unfold World.conn?
  rw [World.setConn_conns]
  exact find?_replace hid hl

theorem Ctx.conn_setConn_live {x : Ctx} {c : Nat} {cn : Conn} (hl : Live x.w c) (hid : cn.id = c) :
    (x.setConn cn).conn c = cn :=
  Ctx.conn_of_conn? (by rw [Ctx.setConn_w]; exact conn?_setConn_live hl hid)

/-- no user is owned by an unauthenticated connection -/
theorem no_user_of_unauth {w : World} (h : InvCore w) {cn : Conn} (hm : cn ∈ w.conns)
    (hu : cn.authenticated = false) {n : Str} {u : User} (hn : Map.lookup n w.users = some u) :
    u.owner ≠ cn.id := by
  intro e
  obtain ⟨cn2, h2, hid2, ha2, _⟩ := h.userOwned n u hn
  have : cn2 = cn := conn_eq_of_id_eq h.connsNodup h2 hm (by rw [hid2, e])
  subst this
  rw [hu] at ha2; cases ha2

/-- the user found under the nick of an authenticated connection is the only one it owns -/
theorem owned_user_unique {w : World} (h : InvCore w) {cn : Conn} (hm : cn ∈ w.conns)
    {n : Str} {u : User} (hn : Map.lookup n w.users = some u) (ho : u.owner = cn.id) :
    cn.authenticated = true ∧ cn.nick = some n := by
  obtain ⟨cn2, h2, hid2, ha2, hn2⟩ := h.userOwned n u hn
  have : cn2 = cn := conn_eq_of_id_eq h.connsNodup h2 hm (by rw [hid2, ho])
  subst this
  exact ⟨ha2, hn2⟩

/-- **transfer lemma**: replacing the record of a live connection by one with the same id keeps
    `InvCore`, provided the four connection-related clauses hold for the new record. -/
theorem invCore_setConn {w : World} (h : InvCore w) {cn cn' : Conn} (hm : cn ∈ w.conns)
    (hid : cn'.id = cn.id)
    (hauth : cn'.authenticated = true →
      ∃ n u, cn'.nick = some n ∧ Map.lookup n w.users = some u ∧ u.owner = cn.id)
    (howned : ∀ n u, Map.lookup n w.users = some u → u.owner = cn.id →
      cn'.authenticated = true ∧ cn'.nick = some n)
    (hres : cn'.authenticated = false →
      cn'.hasSender = true ∧ cn'.hasQuitSender = true ∧ cn'.hasPingSender = true)
    (hkill : ∀ n u, Map.lookup n w.users = some u → u.owner = cn.id → u.killed = true →
      (cn'.killedBy.isSome = true ∨ cn'.quit = true)) :
    InvCore (w.setConn cn') := by
  have hmem := mem_setConn hm hid
  refine
    { noPanic := h.noPanic, usersNodup := h.usersNodup, chansNodup := h.chansNodup,
      connsNodup := ?_, membersNodup := h.membersNodup, userChansNodup := h.userChansNodup,
      authOwns := ?_, userOwned := ?_, memberSym := h.memberSym, memberIsUser := h.memberIsUser,
      rankMirror := h.rankMirror, noEmptyAdHoc := h.noEmptyAdHoc,
      invisibleCount := h.invisibleCount, operatorsCount := h.operatorsCount,
      wallopsSet := h.wallopsSet, maxUsers := h.maxUsers, resources := ?_, slots := ?_,
      killedFlagged := ?_ }
  · have := setConn_conns_ids w cn'
    unfold SameConnIds at this
    rw [this]; exact h.connsNodup
  · intro a ha haa
    rcases (hmem a).mp ha with rfl | ⟨ha, _⟩
    · obtain ⟨n, u, h1, h2, h3⟩ := hauth haa
      exact ⟨n, u, h1, h2, by rw [h3, hid]⟩
    · exact h.authOwns a ha haa
  · intro n u hn
    by_cases ho : u.owner = cn.id
    · obtain ⟨h1, h2⟩ := howned n u hn ho
      exact ⟨cn', (hmem cn').mpr (Or.inl rfl), by rw [hid, ho], h1, h2⟩
    · obtain ⟨cn2, h2, hid2, ha2, hn2⟩ := h.userOwned n u hn
      exact ⟨cn2, (hmem cn2).mpr (Or.inr ⟨h2, by rw [hid2]; exact ho⟩), hid2, ha2, hn2⟩
  · intro a ha
    rcases (hmem a).mp ha with rfl | ⟨ha, _⟩
    · exact hres
    · exact h.resources a ha
  · show w.connsCount = (w.setConn cn').conns.length
    rw [setConn_conns_length]; exact h.slots
  · intro n u hn hk
    by_cases ho : u.owner = cn.id
    · exact ⟨cn', (hmem cn').mpr (Or.inl rfl), by rw [hid, ho], hkill n u hn ho hk⟩
    · obtain ⟨cn2, h2, hid2, hk2⟩ := h.killedFlagged n u hn hk
      exact ⟨cn2, (hmem cn2).mpr (Or.inr ⟨h2, by rw [hid2]; exact ho⟩), hid2, hk2⟩

/-- special case: an unauthenticated connection stays unauthenticated and keeps its resources
    (any of `nick`, `name`, `realname`, `source`, `password`, `capsNeg`, `multiPrefix`, `registered`,
    `quit`, `pongPending`, `killedBy` may change) -/
theorem invCore_setConn_unauth {w : World} (h : InvCore w) {cn cn' : Conn} (hm : cn ∈ w.conns)
    (hid : cn'.id = cn.id) (hu : cn.authenticated = false) (hu' : cn'.authenticated = false)
    (hr1 : cn'.hasSender = cn.hasSender) (hr2 : cn'.hasQuitSender = cn.hasQuitSender)
    (hr3 : cn'.hasPingSender = cn.hasPingSender) : InvCore (w.setConn cn') := by
  apply invCore_setConn h hm hid
  · intro ha; rw [hu'] at ha; cases ha
  · intro n u hn ho; exact absurd ho (no_user_of_unauth h hm hu hn)
  · intro _; rw [hr1, hr2, hr3]; exact h.resources cn hm hu
  · intro n u hn ho; exact absurd ho (no_user_of_unauth h hm hu hn)

/-- special case: `authenticated`, `nick`, the resources and the stop flags are kept (monotonically
    for the stop flags); anything else may change -/
theorem invCore_setConn_same {w : World} (h : InvCore w) {cn cn' : Conn} (hm : cn ∈ w.conns)
    (hid : cn'.id = cn.id) (ha : cn'.authenticated = cn.authenticated) (hn : cn'.nick = cn.nick)
    (hr1 : cn'.hasSender = cn.hasSender) (hr2 : cn'.hasQuitSender = cn.hasQuitSender)
    (hr3 : cn'.hasPingSender = cn.hasPingSender)
    (hk : (cn.killedBy.isSome = true ∨ cn.quit = true) →
          (cn'.killedBy.isSome = true ∨ cn'.quit = true)) : InvCore (w.setConn cn') := by
  apply invCore_setConn h hm hid
  · intro haa; rw [ha] at haa
    obtain ⟨n, u, h1, h2, h3⟩ := h.authOwns cn hm haa
    exact ⟨n, u, by rw [hn]; exact h1, h2, h3⟩
  · intro n u hnu ho
    obtain ⟨h1, h2⟩ := owned_user_unique h hm hnu ho
    exact ⟨by rw [ha]; exact h1, by rw [hn]; exact h2⟩
  · intro hf; rw [hr1, hr2, hr3]; rw [ha] at hf; exact h.resources cn hm hf
  · intro n u hnu ho hkl
    obtain ⟨cn2, h2, hid2, hk2⟩ := h.killedFlagged n u hnu hkl
    have : cn2 = cn := conn_eq_of_id_eq h.connsNodup h2 hm (by rw [hid2, ho])
    subst this
    exact hk hk2

end Irc

namespace Irc

/-! ### `World.addUser` projections -/
section
variable (w : World) (nick : Str) (u : User)

local macro "adduser_proj" : tactic =>
  `(tactic| (unfold World.addUser
             cases u.modes.invisible <;> cases u.modes.wallops <;> cases u.modes.isLocalOper <;>
               simp only [Bool.false_eq_true, ↓reduceIte] <;> split <;> rfl))

theorem World.addUser_users : (w.addUser nick u).users = Map.insert nick u w.users := by
  adduser_proj
theorem World.addUser_channels : (w.addUser nick u).channels = w.channels := by
  adduser_proj
theorem World.addUser_conns : (w.addUser nick u).conns = w.conns := by
  adduser_proj
theorem World.addUser_connsCount : (w.addUser nick u).connsCount = w.connsCount := by
  adduser_proj
theorem World.addUser_panicked : (w.addUser nick u).panicked = w.panicked := by
  adduser_proj
theorem World.addUser_wallops :
    (w.addUser nick u).wallops = if u.modes.wallops then KSet.insert nick w.wallops else w.wallops := by
  adduser_proj
theorem World.addUser_invisibleCount :
    (w.addUser nick u).invisibleCount = w.invisibleCount + (if u.modes.invisible then 1 else 0) := by
  adduser_proj
theorem World.addUser_operatorsCount :
    (w.addUser nick u).operatorsCount = w.operatorsCount + (if u.modes.isLocalOper then 1 else 0) := by
  adduser_proj
theorem World.addUser_maxUsers :
    (w.addUser nick u).users.length ≤ (w.addUser nick u).maxUsers := by
  unfold World.addUser
  cases u.modes.invisible <;> cases u.modes.wallops <;> cases u.modes.isLocalOper <;>
    simp only [Bool.false_eq_true, ↓reduceIte] <;> split <;> simp only [] at * <;> omega
end

end Irc
