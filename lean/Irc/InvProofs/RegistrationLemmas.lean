/-
  Irc.InvProofs.RegistrationLemmas — helper lemmas for Irc.InvProofs.Registration:
  list-level facts about `Map.insert` / `Map.erase`, replacing a connection record
  (`World.setConn`), re-keying one entry of a map, `Channel.renameUser`, `renameInChannels`.
  Everything lives in `namespace Irc.Reg` (other proof files have helpers of the same names).
-/
import Irc.InvProofs.Defs

namespace Irc.Reg

/-! ### `Map` as a list: insert / erase -/
namespace Map
variable {α : Type}

theorem insert_of_not_mem (k : Str) (v : α) (m : Map α) (h : k ∉ Map.keys m) :
    Map.insert k v m = m ++ [(k, v)] := by
  induction m with
  | nil => rfl
  | cons p m ih =>
    obtain ⟨k', v'⟩ := p
    simp only [Map.keys, List.map_cons, List.mem_cons, not_or] at h
    have hne : ¬ k' = k := fun e => h.1 e.symm
    simp only [Map.insert, hne, ↓reduceIte, List.cons_append, List.cons.injEq, true_and]
    exact ih (by simpa [Map.keys] using h.2)

theorem not_mem_keys_of_lookup_none (k : Str) (m : Map α) (h : Map.lookup k m = none) : k ∉ Map.keys m := by
  intro hk
  obtain ⟨v, hv⟩ := (Map.mem_keys_iff k m).mp hk
  rw [h] at hv; cases hv

theorem insert_of_lookup_none (k : Str) (v : α) (m : Map α) (h : Map.lookup k m = none) :
    Map.insert k v m = m ++ [(k, v)] :=
  Map.insert_of_not_mem k v m (Map.not_mem_keys_of_lookup_none k m h)

theorem keys_insert_of_lookup_none (k : Str) (v : α) (m : Map α) (h : Map.lookup k m = none) :
    Map.keys (Map.insert k v m) = Map.keys m ++ [k] := by
  rw [Map.insert_of_lookup_none k v m h]; simp [Map.keys]

theorem keys_insert_of_mem (k : Str) (v : α) (m : Map α) (h : k ∈ Map.keys m) :
    Map.keys (Map.insert k v m) = Map.keys m := by
  induction m with
  | nil => simp [Map.keys] at h
  | cons p m ih =>
    obtain ⟨k', v'⟩ := p
    simp only [Map.insert]
    split
    · rename_i e; simp [Map.keys, e]
    · rename_i e
      simp only [Map.keys, List.map_cons, List.mem_cons] at h
      have : k ∈ Map.keys m := by
        rcases h with h | h
        · exact absurd h.symm e
        · simpa [Map.keys] using h
      have := ih this
      simp only [Map.keys] at this
      simp [Map.keys, this]

theorem insert_ne_nil (k : Str) (v : α) (m : Map α) : Map.insert k v m ≠ [] := by
  cases m with
  | nil => simp [Map.insert]
  | cons p m => obtain ⟨k', v'⟩ := p; simp only [Map.insert]; split <;> simp

theorem erase_of_not_mem (k : Str) (m : Map α) (h : k ∉ Map.keys m) : Map.erase k m = m := by
  induction m with
  | nil => rfl
  | cons p m ih =>
    obtain ⟨k', v'⟩ := p
    simp only [Map.keys, List.map_cons, List.mem_cons, not_or] at h
    have hne : ¬ k' = k := fun e => h.1 e.symm
    simp only [Map.erase, hne, ↓reduceIte, List.cons.injEq, true_and]
    exact ih (by simpa [Map.keys] using h.2)

/-- with unique Map.keys, `Map.erase` removes exactly the one entry that `Map.lookup` finds -/
theorem erase_split (k : Str) (v : α) (m : Map α) (hnd : (Map.keys m).Nodup) (h : Map.lookup k m = some v) :
    ∃ l1 l2, m = l1 ++ (k, v) :: l2 ∧ Map.erase k m = l1 ++ l2 := by
  induction m with
  | nil => simp [Map.lookup] at h
  | cons p m ih =>
    obtain ⟨k', v'⟩ := p
    simp only [Map.keys, List.map_cons, List.nodup_cons] at hnd
    by_cases e : k' = k
    · subst e
      simp only [Map.lookup, ↓reduceIte, Option.some.injEq] at h
      subst h
      refine ⟨[], m, rfl, ?_⟩
      simp only [Map.erase, ↓reduceIte, List.nil_append]
      exact Map.erase_of_not_mem k' m (by simpa [Map.keys] using hnd.1)
    · simp only [Map.lookup, e, ↓reduceIte] at h
      obtain ⟨l1, l2, h1, h2⟩ := ih (by simpa [Map.keys] using hnd.2) h
      refine ⟨(k', v') :: l1, l2, by rw [h1]; rfl, ?_⟩
      simp only [Map.erase, e, ↓reduceIte, h2, List.cons_append]

theorem keys_erase_nodup (k : Str) (m : Map α) (hnd : (Map.keys m).Nodup) : (Map.keys (Map.erase k m)).Nodup := by
  rw [Map.keys_erase]; exact hnd.filter _

theorem not_mem_keys_erase (k k' : Str) (m : Map α) (h : k ∉ Map.keys m) : k ∉ Map.keys (Map.erase k' m) := by
  rw [Map.keys_erase]; intro hm; exact h (List.mem_filter.mp hm).1

/-- re-keying one entry `old ↦ v` to `new ↦ v'` (`new` fresh): the Map.lookup function -/
theorem lookup_rekey (old new n : Str) (v' : α) (m : Map α) :
    Map.lookup n (Map.insert new v' (Map.erase old m)) =
      if new = n then some v' else if old = n then none else Map.lookup n m := by
  rw [Map.lookup_insert]
  split
  · rfl
  · rw [Map.lookup_erase]

/-- re-keying keeps the Map.keys unique -/
theorem keys_rekey_nodup (old new : Str) (v' : α) (m : Map α) (hnd : (Map.keys m).Nodup)
    (hnew : Map.lookup new m = none) : (Map.keys (Map.insert new v' (Map.erase old m))).Nodup := by
  have h1 : new ∉ Map.keys (Map.erase old m) :=
    Map.not_mem_keys_erase new old m (Map.not_mem_keys_of_lookup_none new m hnew)
  rw [Map.insert_of_not_mem _ _ _ h1]
  have : Map.keys (Map.erase old m ++ [(new, v')]) = Map.keys (Map.erase old m) ++ [new] := by simp [Map.keys]
  rw [this]
  apply List.nodup_append.mpr
  refine ⟨Map.keys_erase_nodup old m hnd, by simp, ?_⟩
  intro a ha b hb
  simp only [List.mem_singleton] at hb
  subst hb
  intro e; subst e; exact h1 ha

/-- re-keying one entry keeps every count that looks only at a value-property shared by the old and
    the new value -/
theorem filter_rekey_length (old new : Str) (v v' : α) (m : Map α) (p : Str × α → Bool)
    (hnd : (Map.keys m).Nodup) (hold : Map.lookup old m = some v) (hnew : Map.lookup new m = none)
    (hp : p (new, v') = p (old, v)) :
    ((Map.insert new v' (Map.erase old m)).filter p).length = (m.filter p).length := by
  have h1 : new ∉ Map.keys (Map.erase old m) :=
    Map.not_mem_keys_erase new old m (Map.not_mem_keys_of_lookup_none new m hnew)
  rw [Map.insert_of_not_mem _ _ _ h1]
  obtain ⟨l1, l2, e1, e2⟩ := Map.erase_split old v m hnd hold
  rw [e2, e1]
  simp only [List.filter_append, List.length_append, List.filter_cons, List.filter_nil, hp]
  split <;> simp <;> omega

theorem length_rekey (old new : Str) (v v' : α) (m : Map α)
    (hnd : (Map.keys m).Nodup) (hold : Map.lookup old m = some v) (hnew : Map.lookup new m = none) :
    (Map.insert new v' (Map.erase old m)).length = m.length := by
  have h1 : new ∉ Map.keys (Map.erase old m) :=
    Map.not_mem_keys_erase new old m (Map.not_mem_keys_of_lookup_none new m hnew)
  rw [Map.insert_of_not_mem _ _ _ h1]
  obtain ⟨l1, l2, e1, e2⟩ := Map.erase_split old v m hnd hold
  rw [e2, e1]
  simp only [List.length_append, List.length_cons, List.length_nil]
  omega

end Map

end Irc.Reg

namespace Irc.Reg

/-! ### connections: lookup and replacement -/

theorem conn_eq_of_id_eq {l : List Conn} (hnd : (l.map (·.id)).Nodup) {a b : Conn}
    (ha : a ∈ l) (hb : b ∈ l) (h : a.id = b.id) : a = b := by
  induction l with
  | nil => cases ha
  | cons x l ih =>
    simp only [List.map_cons, List.nodup_cons, List.mem_map, not_exists, not_and] at hnd
    rcases List.mem_cons.mp ha with ha | ha <;> rcases List.mem_cons.mp hb with hb | hb
    · rw [ha, hb]
    · rw [ha] at h; exact absurd h.symm (hnd.1 b hb)
    · rw [hb] at h; exact absurd h (hnd.1 a ha)
    · exact ih hnd.2 ha hb

theorem Ctx.conn_of_conn? {x : Ctx} {c : Nat} {cn : Conn} (h : x.w.conn? c = some cn) :
    x.conn c = cn := by
  unfold Ctx.conn; rw [h]; rfl

/-- with `Live`, `x.conn c` is an element of the connection list -/
theorem Ctx.conn_of_live {x : Ctx} {c : Nat} (hl : Live x.w c) :
    x.conn c ∈ x.w.conns ∧ (x.conn c).id = c := by
  obtain ⟨cn, h1, h2, h3⟩ := conn?_of_live hl
  rw [Ctx.conn_of_conn? h1]; exact ⟨h2, h3⟩

theorem World.setConn_conns (w : World) (cn : Conn) :
    (w.setConn cn).conns = w.conns.map (fun x => if x.id == cn.id then cn else x) := rfl

/-- `setConn` keeps the list of connection ids -/
theorem setConn_conns_ids (w : World) (cn : Conn) : SameConnIds w (w.setConn cn) := by
  unfold SameConnIds
  rw [World.setConn_conns, List.map_map]
  apply List.map_congr_left
  intro a _
  simp only [Function.comp]
  split
  · rename_i h; exact (beq_iff_eq.mp h).symm
  · rfl

theorem setConn_conns_length (w : World) (cn : Conn) : (w.setConn cn).conns.length = w.conns.length := by
  rw [World.setConn_conns, List.length_map]

/-- the elements after `setConn`: the new record, and every connection with another id -/
theorem mem_setConn {w : World} {cn cn' : Conn} (hm : cn ∈ w.conns) (hid : cn'.id = cn.id)
    (a : Conn) : a ∈ (w.setConn cn').conns ↔ a = cn' ∨ (a ∈ w.conns ∧ a.id ≠ cn.id) := by
  rw [World.setConn_conns, List.mem_map]
  constructor
  · rintro ⟨y, hy, rfl⟩
    split
    · left; rfl
    · rename_i hne
      right; refine ⟨hy, ?_⟩
      intro e; apply hne; rw [hid]; exact beq_iff_eq.mpr e
  · rintro (rfl | ⟨ha, hne⟩)
    · exact ⟨cn, hm, by simp [hid]⟩
    · refine ⟨a, ha, ?_⟩
      have : (a.id == cn'.id) = false := by rw [hid]; simpa using hne
      simp [this]

/-- every other connection is unchanged by `setConn` -/
theorem mem_setConn_other {w : World} {cn' a : Conn} (ha : a ∈ w.conns) (hne : a.id ≠ cn'.id) :
    a ∈ (w.setConn cn').conns := by
  rw [World.setConn_conns, List.mem_map]
  refine ⟨a, ha, ?_⟩
  have : (a.id == cn'.id) = false := by simpa using hne
  simp [this]

theorem setConn_setConn (w : World) (a b : Conn) (h : a.id = b.id) :
    (w.setConn a).setConn b = w.setConn b := by
  unfold World.setConn
  simp only [List.map_map]
  congr 1
  apply List.map_congr_left
  intro y _
  simp only [Function.comp]
  by_cases e : y.id = b.id
  · have e1 : (y.id == a.id) = true := by rw [h]; exact beq_iff_eq.mpr e
    have e2 : (y.id == b.id) = true := beq_iff_eq.mpr e
    have e3 : (a.id == b.id) = true := beq_iff_eq.mpr h
    simp only [e1, e2, e3, ↓reduceIte]
  · have e1 : (y.id == a.id) = false := by rw [h]; simpa using e
    have e2 : (y.id == b.id) = false := by simpa using e
    simp only [e1, e2, Bool.false_eq_true, ↓reduceIte]

theorem live_setConn {w : World} {c : Nat} (cn : Conn) (hl : Live w c) : Live (w.setConn cn) c :=
  Live.of_same (setConn_conns_ids w cn) hl

theorem find?_replace {l : List Conn} {c : Nat} {cn : Conn} (hid : cn.id = c)
    (hex : ∃ a, a ∈ l ∧ a.id = c) :
    (l.map (fun x => if x.id == cn.id then cn else x)).find? (·.id == c) = some cn := by
  induction l with
  | nil => obtain ⟨a, ha, _⟩ := hex; cases ha
  | cons y l ih =>
    simp only [List.map_cons, List.find?_cons]
    by_cases e : y.id = c
    · have e1 : (y.id == cn.id) = true := by rw [hid]; exact beq_iff_eq.mpr e
      have e2 : (cn.id == c) = true := beq_iff_eq.mpr hid
      simp only [e1, ↓reduceIte, e2]
    · have e1 : (y.id == cn.id) = false := by rw [hid]; simpa using e
      have e2 : (y.id == c) = false := by simpa using e
      simp only [e1, Bool.false_eq_true, ↓reduceIte, e2]
      obtain ⟨a, ha, hac⟩ := hex
      rcases List.mem_cons.mp ha with ha | ha
      · rw [ha] at hac; exact absurd hac e
      · exact ih ⟨a, ha, hac⟩

/-- after `setConn` of a record with id `c`, `conn? c` is that record -/
theorem conn?_setConn_live {w : World} {c : Nat} {cn : Conn} (hl : Live w c) (hid : cn.id = c) :
    (w.setConn cn).conn? c = some cn := by
  unfold World.conn?
  rw [World.setConn_conns]
  exact find?_replace hid hl

theorem Ctx.conn_setConn_live {x : Ctx} {c : Nat} {cn : Conn} (hl : Live x.w c) (hid : cn.id = c) :
    (x.setConn cn).conn c = cn :=
  Ctx.conn_of_conn? (by rw [Ctx.setConn_w]; exact conn?_setConn_live hl hid)

/-- no user is owned by an unauthenticated connection -/
theorem no_user_of_unauth {w : World} (h : InvCore w) {cn : Conn} (hm : cn ∈ w.conns)
    (hu : cn.authenticated = false) {n : Str} {u : User} (hn : Map.lookup n w.users = some u) :
    u.owner ≠ cn.id := by
  intro e
  obtain ⟨cn2, h2, hid2, ha2, _⟩ := h.userOwned n u hn
  have : cn2 = cn := conn_eq_of_id_eq h.connsNodup h2 hm (by rw [hid2, e])
  subst this
  rw [hu] at ha2; cases ha2

/-- the user found under the nick of an authenticated connection is the only one it owns -/
theorem owned_user_unique {w : World} (h : InvCore w) {cn : Conn} (hm : cn ∈ w.conns)
    {n : Str} {u : User} (hn : Map.lookup n w.users = some u) (ho : u.owner = cn.id) :
    cn.authenticated = true ∧ cn.nick = some n := by
  obtain ⟨cn2, h2, hid2, ha2, hn2⟩ := h.userOwned n u hn
  have : cn2 = cn := conn_eq_of_id_eq h.connsNodup h2 hm (by rw [hid2, ho])
  subst this
  exact ⟨ha2, hn2⟩

/-- **transfer lemma**: replacing the record of a live connection by one with the same id keeps
    `InvCore`, provided the four connection-related clauses hold for the new record. -/
theorem invCore_setConn {w : World} (h : InvCore w) {cn cn' : Conn} (hm : cn ∈ w.conns)
    (hid : cn'.id = cn.id)
    (hauth : cn'.authenticated = true →
      ∃ n u, cn'.nick = some n ∧ Map.lookup n w.users = some u ∧ u.owner = cn.id)
    (howned : ∀ n u, Map.lookup n w.users = some u → u.owner = cn.id →
      cn'.authenticated = true ∧ cn'.nick = some n)
    (hres : cn'.authenticated = false →
      cn'.hasSender = true ∧ cn'.hasQuitSender = true ∧ cn'.hasPingSender = true)
    (hkill : ∀ n u, Map.lookup n w.users = some u → u.owner = cn.id → u.killed = true →
      (cn'.killedBy.isSome = true ∨ cn'.quit = true)) :
    InvCore (w.setConn cn') := by
  have hmem := mem_setConn hm hid
  refine
    { noPanic := h.noPanic, usersNodup := h.usersNodup, chansNodup := h.chansNodup,
      connsNodup := ?_, membersNodup := h.membersNodup, userChansNodup := h.userChansNodup,
      authOwns := ?_, userOwned := ?_, memberSym := h.memberSym, memberIsUser := h.memberIsUser,
      rankMirror := h.rankMirror, noEmptyAdHoc := h.noEmptyAdHoc,
      invisibleCount := h.invisibleCount, operatorsCount := h.operatorsCount,
      wallopsSet := h.wallopsSet, maxUsers := h.maxUsers, resources := ?_, slots := ?_,
      killedFlagged := ?_ }
  · have := setConn_conns_ids w cn'
    unfold SameConnIds at this
    rw [this]; exact h.connsNodup
  · intro a ha haa
    rcases (hmem a).mp ha with rfl | ⟨ha, _⟩
    · obtain ⟨n, u, h1, h2, h3⟩ := hauth haa
      exact ⟨n, u, h1, h2, by rw [h3, hid]⟩
    · exact h.authOwns a ha haa
  · intro n u hn
    by_cases ho : u.owner = cn.id
    · obtain ⟨h1, h2⟩ := howned n u hn ho
      exact ⟨cn', (hmem cn').mpr (Or.inl rfl), by rw [hid, ho], h1, h2⟩
    · obtain ⟨cn2, h2, hid2, ha2, hn2⟩ := h.userOwned n u hn
      exact ⟨cn2, (hmem cn2).mpr (Or.inr ⟨h2, by rw [hid2]; exact ho⟩), hid2, ha2, hn2⟩
  · intro a ha
    rcases (hmem a).mp ha with rfl | ⟨ha, _⟩
    · exact hres
    · exact h.resources a ha
  · show w.connsCount = (w.setConn cn').conns.length
    rw [setConn_conns_length]; exact h.slots
  · intro n u hn hk
    by_cases ho : u.owner = cn.id
    · exact ⟨cn', (hmem cn').mpr (Or.inl rfl), by rw [hid, ho], hkill n u hn ho hk⟩
    · obtain ⟨cn2, h2, hid2, hk2⟩ := h.killedFlagged n u hn hk
      exact ⟨cn2, (hmem cn2).mpr (Or.inr ⟨h2, by rw [hid2]; exact ho⟩), hid2, hk2⟩

/-- special case: an unauthenticated connection stays unauthenticated and keeps its resources
    (any of `nick`, `name`, `realname`, `source`, `password`, `capsNeg`, `multiPrefix`, `registered`,
    `quit`, `pongPending`, `killedBy` may change) -/
theorem invCore_setConn_unauth {w : World} (h : InvCore w) {cn cn' : Conn} (hm : cn ∈ w.conns)
    (hid : cn'.id = cn.id) (hu : cn.authenticated = false) (hu' : cn'.authenticated = false)
    (hr1 : cn'.hasSender = cn.hasSender) (hr2 : cn'.hasQuitSender = cn.hasQuitSender)
    (hr3 : cn'.hasPingSender = cn.hasPingSender) : InvCore (w.setConn cn') := by
  apply invCore_setConn h hm hid
  · intro ha; rw [hu'] at ha; cases ha
  · intro n u hn ho; exact absurd ho (no_user_of_unauth h hm hu hn)
  · intro _; rw [hr1, hr2, hr3]; exact h.resources cn hm hu
  · intro n u hn ho; exact absurd ho (no_user_of_unauth h hm hu hn)

/-- special case: `authenticated`, `nick`, the resources and the stop flags are kept (monotonically
    for the stop flags); anything else may change -/
theorem invCore_setConn_same {w : World} (h : InvCore w) {cn cn' : Conn} (hm : cn ∈ w.conns)
    (hid : cn'.id = cn.id) (ha : cn'.authenticated = cn.authenticated) (hn : cn'.nick = cn.nick)
    (hr1 : cn'.hasSender = cn.hasSender) (hr2 : cn'.hasQuitSender = cn.hasQuitSender)
    (hr3 : cn'.hasPingSender = cn.hasPingSender)
    (hk : (cn.killedBy.isSome = true ∨ cn.quit = true) →
          (cn'.killedBy.isSome = true ∨ cn'.quit = true)) : InvCore (w.setConn cn') := by
  apply invCore_setConn h hm hid
  · intro haa; rw [ha] at haa
    obtain ⟨n, u, h1, h2, h3⟩ := h.authOwns cn hm haa
    exact ⟨n, u, by rw [hn]; exact h1, h2, h3⟩
  · intro n u hnu ho
    obtain ⟨h1, h2⟩ := owned_user_unique h hm hnu ho
    exact ⟨by rw [ha]; exact h1, by rw [hn]; exact h2⟩
  · intro hf; rw [hr1, hr2, hr3]; rw [ha] at hf; exact h.resources cn hm hf
  · intro n u hnu ho hkl
    obtain ⟨cn2, h2, hid2, hk2⟩ := h.killedFlagged n u hnu hkl
    have : cn2 = cn := conn_eq_of_id_eq h.connsNodup h2 hm (by rw [hid2, ho])
    subst this
    exact hk hk2

end Irc.Reg

namespace Irc.Reg

/-! ### `World.addUser` projections -/
section
variable (w : World) (nick : Str) (u : User)

local macro "adduser_proj" : tactic =>
  `(tactic| (unfold World.addUser
             cases u.modes.invisible <;> cases u.modes.wallops <;> cases u.modes.isLocalOper <;>
               simp only [Bool.false_eq_true, ↓reduceIte] <;> split <;> rfl))

theorem World.addUser_users : (w.addUser nick u).users = Map.insert nick u w.users := by
  adduser_proj
theorem World.addUser_channels : (w.addUser nick u).channels = w.channels := by
  adduser_proj
theorem World.addUser_conns : (w.addUser nick u).conns = w.conns := by
  adduser_proj
theorem World.addUser_connsCount : (w.addUser nick u).connsCount = w.connsCount := by
  adduser_proj
theorem World.addUser_panicked : (w.addUser nick u).panicked = w.panicked := by
  adduser_proj
theorem World.addUser_wallops :
    (w.addUser nick u).wallops = if u.modes.wallops then KSet.insert nick w.wallops else w.wallops := by
  adduser_proj
theorem World.addUser_invisibleCount :
    (w.addUser nick u).invisibleCount = w.invisibleCount + (if u.modes.invisible then 1 else 0) := by
  adduser_proj
theorem World.addUser_operatorsCount :
    (w.addUser nick u).operatorsCount = w.operatorsCount + (if u.modes.isLocalOper then 1 else 0) := by
  adduser_proj
theorem World.addUser_maxUsers :
    (w.addUser nick u).users.length ≤ (w.addUser nick u).maxUsers := by
  unfold World.addUser
  cases u.modes.invisible <;> cases u.modes.wallops <;> cases u.modes.isLocalOper <;>
    simp only [Bool.false_eq_true, ↓reduceIte] <;> split <;> simp only [] at * <;> omega
end

end Irc.Reg

namespace Irc.Reg

/-! ### registering a new user -/

/-- A world `w'` that differs from an `InvCore` world `w` by: the record of the unauthenticated
    connection `cn` replaced by an authenticated `cn'` with nick `nick` (free in `w`), and a fresh
    user `nick ↦ u` owned by it, counters bumped accordingly — satisfies `InvCore`. -/
theorem invCore_register {w w' : World} (h : InvCore w) {cn cn' : Conn} {nick : Str} {u : User}
    (hm : cn ∈ w.conns) (hu : cn.authenticated = false) (hfree : Map.lookup nick w.users = none)
    (hid : cn'.id = cn.id) (ha' : cn'.authenticated = true) (hn' : cn'.nick = some nick)
    (huo : u.owner = cn.id) (huc : u.channels = []) (huk : u.killed = false)
    (e_conns : w'.conns = (w.setConn cn').conns)
    (e_users : w'.users = Map.insert nick u w.users)
    (e_chans : w'.channels = w.channels)
    (e_wall : w'.wallops = if u.modes.wallops then KSet.insert nick w.wallops else w.wallops)
    (e_inv : w'.invisibleCount = w.invisibleCount + (if u.modes.invisible then 1 else 0))
    (e_op : w'.operatorsCount = w.operatorsCount + (if u.modes.isLocalOper then 1 else 0))
    (e_max : w'.users.length ≤ w'.maxUsers)
    (e_cc : w'.connsCount = w.connsCount)
    (e_p : w'.panicked = none) : InvCore w' := by
  have hmem := mem_setConn (w := w) hm hid
  have e_users' : w'.users = w.users ++ [(nick, u)] := by
    rw [e_users, Map.insert_of_lookup_none _ _ _ hfree]
  have hlk : ∀ n, Map.lookup n w'.users = if nick = n then some u else Map.lookup n w.users := by
    intro n; rw [e_users, Map.lookup_insert]
  have hlk_old : ∀ n v, Map.lookup n w.users = some v → Map.lookup n w'.users = some v := by
    intro n v hv
    rw [hlk]
    split
    · rename_i e; subst e; rw [hfree] at hv; cases hv
    · exact hv
  -- a connection that owns an old user is not `cn`
  have hother : ∀ n v, Map.lookup n w.users = some v → ∀ cn2, cn2 ∈ w.conns → cn2.id = v.owner →
      cn2 ∈ w'.conns := by
    intro n v hv cn2 h2 hid2
    rw [e_conns]
    exact (hmem cn2).mpr (Or.inr ⟨h2, by rw [hid2]; exact no_user_of_unauth h hm hu hv⟩)
  refine
    { noPanic := e_p, usersNodup := ?_, chansNodup := by rw [e_chans]; exact h.chansNodup,
      connsNodup := ?_, membersNodup := by rw [e_chans]; exact h.membersNodup,
      userChansNodup := ?_, authOwns := ?_, userOwned := ?_, memberSym := ?_, memberIsUser := ?_,
      rankMirror := by rw [e_chans]; exact h.rankMirror,
      noEmptyAdHoc := by rw [e_chans]; exact h.noEmptyAdHoc,
      invisibleCount := ?_, operatorsCount := ?_, wallopsSet := ?_, maxUsers := e_max,
      resources := ?_, slots := ?_, killedFlagged := ?_ }
  · -- usersNodup
    rw [e_users, Map.keys_insert_of_lookup_none _ _ _ hfree]
    apply List.nodup_append.mpr
    refine ⟨h.usersNodup, by simp, ?_⟩
    intro a ha b hb
    simp only [List.mem_singleton] at hb
    subst hb
    intro e; subst e
    exact Map.not_mem_keys_of_lookup_none _ _ hfree ha
  · -- connsNodup
    rw [e_conns]
    have := setConn_conns_ids w cn'
    unfold SameConnIds at this
    rw [this]; exact h.connsNodup
  · -- userChansNodup
    intro n v hv
    rw [hlk] at hv
    split at hv
    · cases hv; rw [huc]; exact List.nodup_nil
    · exact h.userChansNodup n v hv
  · -- authOwns
    intro a ha haa
    rw [e_conns] at ha
    rcases (hmem a).mp ha with rfl | ⟨ha, _⟩
    · exact ⟨nick, u, hn', by rw [hlk]; simp, by rw [huo, hid]⟩
    · obtain ⟨n, v, h1, h2, h3⟩ := h.authOwns a ha haa
      exact ⟨n, v, h1, hlk_old n v h2, h3⟩
  · -- userOwned
    intro n v hv
    rw [hlk] at hv
    split at hv
    · rename_i e; subst e; cases hv
      exact ⟨cn', by rw [e_conns]; exact (hmem cn').mpr (Or.inl rfl), by rw [hid, huo], ha', hn'⟩
    · obtain ⟨cn2, h2, hid2, ha2, hn2⟩ := h.userOwned n v hv
      exact ⟨cn2, hother n v hv cn2 h2 hid2, hid2, ha2, hn2⟩
  · -- memberSym
    intro n v ch hv
    rw [hlk] at hv
    rw [e_chans]
    split at hv
    · rename_i e; subst e; cases hv
      rw [huc]
      constructor
      · intro hf; simp [KSet.mem] at hf
      · rintro ⟨C, hC, hc⟩
        have := h.memberIsUser ch C nick hC hc
        rw [Map.contains_iff] at this
        obtain ⟨v, hv⟩ := this
        rw [hfree] at hv; cases hv
    · exact h.memberSym n v ch hv
  · -- memberIsUser
    intro ch C n hC hc
    rw [e_chans] at hC
    have := h.memberIsUser ch C n hC hc
    rw [Map.contains_iff] at this ⊢
    obtain ⟨v, hv⟩ := this
    exact ⟨v, hlk_old n v hv⟩
  · -- invisibleCount
    rw [e_inv, e_users', h.invisibleCount]
    simp only [List.filter_append, List.length_append, List.filter_cons, List.filter_nil]
    split <;> rfl
  · -- operatorsCount
    rw [e_op, e_users', h.operatorsCount]
    simp only [List.filter_append, List.length_append, List.filter_cons, List.filter_nil]
    split <;> rfl
  · -- wallopsSet
    intro n
    rw [e_wall, hlk]
    by_cases e : nick = n
    · subst e
      simp only [↓reduceIte, Option.some.injEq, exists_eq_left']
      by_cases hw : u.modes.wallops = true
      · simp [hw, KSet.mem_insert]
      · simp only [hw, Bool.false_eq_true, ↓reduceIte, iff_false]
        intro hf
        obtain ⟨v, hv, _⟩ := (h.wallopsSet nick).mp hf
        rw [hfree] at hv; cases hv
    · simp only [e, ↓reduceIte]
      rw [← h.wallopsSet n]
      split
      · have : ¬ n = nick := fun e' => e e'.symm
        simp [KSet.mem_insert, this]
      · exact Iff.rfl
  · -- resources
    intro a ha haf
    rw [e_conns] at ha
    rcases (hmem a).mp ha with rfl | ⟨ha, _⟩
    · rw [ha'] at haf; cases haf
    · exact h.resources a ha haf
  · -- slots
    rw [e_cc, e_conns, setConn_conns_length]; exact h.slots
  · -- killedFlagged
    intro n v hv hk
    rw [hlk] at hv
    split at hv
    · cases hv; rw [huk] at hk; cases hk
    · obtain ⟨cn2, h2, hid2, hk2⟩ := h.killedFlagged n v hv hk
      exact ⟨cn2, hother n v hv cn2 h2 hid2, hid2, hk2⟩

end Irc.Reg

namespace Irc.Reg

/-! ### renaming: rank lists, one channel, all channels of the user -/

theorem mem_renameIn (old new n : Str) (s : KSet) :
    KSet.mem n (renameIn old new s) =
      if KSet.mem old s then (decide (n = new) || (!decide (n = old) && KSet.mem n s))
      else KSet.mem n s := by
  unfold renameIn
  split
  · rw [KSet.mem_insert, KSet.mem_erase]
  · rfl

/-- a key set that mirrors a value-property of a map still mirrors it after re-keying one entry in
    both (used for the five rank lists of a channel and for `wallops`) -/
theorem renameIn_mirror {α : Type} {m : Map α} {s : KSet} {f : α → Bool} {old new : Str} {v v' : α}
    (hm : ∀ n, KSet.mem n s = true ↔ ∃ a, Map.lookup n m = some a ∧ f a = true)
    (hold : Map.lookup old m = some v) (hnew : Map.lookup new m = none) (hf : f v' = f v) :
    ∀ n, KSet.mem n (renameIn old new s) = true ↔
      ∃ a, Map.lookup n (Map.insert new v' (Map.erase old m)) = some a ∧ f a = true := by
  intro n
  have hne : old ≠ new := by intro e; rw [e, hnew] at hold; cases hold
  have hold_s : KSet.mem old s = true ↔ f v = true := by
    rw [hm old, hold]; simp
  have hnew_s : KSet.mem new s = false := by
    cases hx : KSet.mem new s with
    | false => rfl
    | true => obtain ⟨a, ha, _⟩ := (hm new).mp hx; rw [hnew] at ha; cases ha
  rw [mem_renameIn, Map.lookup_rekey]
  by_cases e1 : new = n
  · subst e1
    simp only [↓reduceIte, decide_true, Bool.true_or, Option.some.injEq, exists_eq_left', hf]
    by_cases hs : KSet.mem old s = true
    · simp only [hs, ↓reduceIte, true_iff]; exact hold_s.mp hs
    · simp only [hs, Bool.false_eq_true, ↓reduceIte, hnew_s, false_iff]
      intro hfv; exact hs (hold_s.mpr hfv)
  · have e1' : ¬ n = new := fun e => e1 e.symm
    simp only [e1, e1', ↓reduceIte, decide_false, Bool.false_or]
    by_cases e2 : old = n
    · subst e2
      simp only [↓reduceIte, decide_true, Bool.not_true, Bool.false_and, reduceCtorEq, false_and,
        exists_false, iff_false]
      split
      · simp
      · assumption
    · have e2' : ¬ n = old := fun e => e2 e.symm
      simp only [e2, e2', ↓reduceIte, decide_false, Bool.not_false, Bool.true_and, ite_self]
      exact hm n

theorem renameUser_of_lookup {C : Channel} {old new : Str} {chum : ChanUserModes}
    (h : Map.lookup old C.users = some chum) :
    C.renameUser old new = some { C with
      users := Map.insert new chum (Map.erase old C.users)
      modes := { C.modes with operators := renameIn old new C.modes.operators
                              halfOperators := renameIn old new C.modes.halfOperators
                              voices := renameIn old new C.modes.voices
                              founders := renameIn old new C.modes.founders
                              protecteds := renameIn old new C.modes.protecteds } } := by
  unfold Channel.renameUser; rw [h]

/-- what `renameUser` returns -/
theorem renameUser_some {C C' : Channel} {old new : Str} (h : C.renameUser old new = some C') :
    ∃ chum, Map.lookup old C.users = some chum ∧
      C'.users = Map.insert new chum (Map.erase old C.users) ∧
      C'.preconfigured = C.preconfigured := by
  cases hl : Map.lookup old C.users with
  | none => unfold Channel.renameUser at h; rw [hl] at h; cases h
  | some chum =>
    rw [renameUser_of_lookup hl] at h
    cases h
    exact ⟨chum, rfl, rfl, rfl⟩

/-- own copy of: the rank lists still mirror the member flags after `renameUser` to a fresh nick -/
theorem rankMirror_renameUser {C C' : Channel} {old new : Str} (hr : RankMirror C)
    (h : C.renameUser old new = some C') (hnew : Map.lookup new C.users = none) : RankMirror C' := by
  cases hl : Map.lookup old C.users with
  | none => unfold Channel.renameUser at h; rw [hl] at h; cases h
  | some chum =>
    rw [renameUser_of_lookup hl] at h
    cases h
    exact
      { founders := renameIn_mirror (f := (·.founder)) hr.founders hl hnew rfl
        protecteds := renameIn_mirror (f := (·.prot)) hr.protecteds hl hnew rfl
        operators := renameIn_mirror (f := (·.operator)) hr.operators hl hnew rfl
        halfOperators := renameIn_mirror (f := (·.halfOper)) hr.halfOperators hl hnew rfl
        voices := renameIn_mirror (f := (·.voice)) hr.voices hl hnew rfl }

/-- `renameInChannels` over a duplicate-free list of channels in each of which the rename succeeds:
    only `channels` changes, the keys stay, and exactly the listed channels are renamed. -/
theorem renameInChannels_spec (old new : Str) (chs : List Str) (w : World) (hnd : chs.Nodup)
    (hok : ∀ ch, ch ∈ chs → ∃ C C', Map.lookup ch w.channels = some C ∧ C.renameUser old new = some C') :
    ∃ chans', renameInChannels old new chs w = { w with channels := chans' } ∧
      Map.keys chans' = Map.keys w.channels ∧
      ∀ ch, Map.lookup ch chans' =
        if ch ∈ chs then (Map.lookup ch w.channels).bind (·.renameUser old new)
        else Map.lookup ch w.channels := by
  induction chs generalizing w with
  | nil => exact ⟨w.channels, rfl, rfl, fun ch => by simp⟩
  | cons a rest ih =>
    obtain ⟨C, C', hC, hC'⟩ := hok a (List.mem_cons_self ..)
    have hnd' := List.nodup_cons.mp hnd
    have hstep : renameInChannels old new (a :: rest) w =
        renameInChannels old new rest { w with channels := Map.insert a C' w.channels } := by
      unfold renameInChannels
      simp only [List.foldl_cons, hC, hC']
    have hok' : ∀ ch, ch ∈ rest → ∃ D D',
        Map.lookup ch ({ w with channels := Map.insert a C' w.channels } : World).channels = some D ∧
        D.renameUser old new = some D' := by
      intro ch hch
      obtain ⟨D, D', hD, hD'⟩ := hok ch (List.mem_cons_of_mem _ hch)
      have hne : a ≠ ch := fun e => hnd'.1 (e ▸ hch)
      exact ⟨D, D', by simp only []; rw [Map.lookup_insert_ne _ _ _ _ hne]; exact hD, hD'⟩
    obtain ⟨chans', h1, h2, h3⟩ := ih _ hnd'.2 hok'
    refine ⟨chans', by rw [hstep, h1], ?_, ?_⟩
    · rw [h2]
      exact Map.keys_insert_of_mem a C' w.channels ((Map.mem_keys_iff a _).mpr ⟨C, hC⟩)
    · intro ch
      rw [h3 ch]
      simp only [Map.lookup_insert, List.mem_cons]
      by_cases e : a = ch
      · subst e
        simp only [hnd'.1, ↓reduceIte, true_or, hC, Option.bind_some, hC']
      · have e' : ¬ ch = a := fun x => e x.symm
        simp only [e, e', ↓reduceIte, false_or]

end Irc.Reg

namespace Irc.Reg

/-! ### the world after a rename -/

/-- A world `w'` that differs from an `InvCore` world `w` by the rename `old → new` (`new` free) of
    the user of the authenticated connection `cn`: users / member maps / rank lists / `wallops`
    re-keyed, the connection's nick updated — satisfies `InvCore`. -/
theorem invCore_rename {w w' : World} (h : InvCore w) {cn cn' : Conn} {old new : Str}
    {user user' : User}
    (hm : cn ∈ w.conns) (ha : cn.authenticated = true) (hcn : cn.nick = some old)
    (hold : Map.lookup old w.users = some user) (hnew : Map.lookup new w.users = none)
    (hid : cn'.id = cn.id) (ha' : cn'.authenticated = true) (hn' : cn'.nick = some new)
    (hkb : cn'.killedBy = cn.killedBy) (hq : cn'.quit = cn.quit)
    (hu_ch : user'.channels = user.channels) (hu_modes : user'.modes = user.modes)
    (hu_owner : user'.owner = user.owner) (hu_killed : user'.killed = user.killed)
    (e_conns : w'.conns = (w.setConn cn').conns)
    (e_users : w'.users = Map.insert new user' (Map.erase old w.users))
    (e_keys : Map.keys w'.channels = Map.keys w.channels)
    (e_chans : ∀ ch, Map.lookup ch w'.channels =
        if KSet.mem ch user.channels = true then (Map.lookup ch w.channels).bind (·.renameUser old new)
        else Map.lookup ch w.channels)
    (e_wall : w'.wallops = renameIn old new w.wallops)
    (e_inv : w'.invisibleCount = w.invisibleCount)
    (e_op : w'.operatorsCount = w.operatorsCount)
    (e_max : w'.maxUsers = w.maxUsers)
    (e_cc : w'.connsCount = w.connsCount)
    (e_p : w'.panicked = none) : InvCore w' := by
  have hmem := mem_setConn (w := w) hm hid
  have hne : old ≠ new := by intro e; rw [e, hnew] at hold; cases hold
  have howner : user.owner = cn.id := by
    obtain ⟨n, u, h1, h2, h3⟩ := h.authOwns cn hm ha
    rw [hcn] at h1; cases h1; rw [hold] at h2; cases h2; exact h3
  have hlk : ∀ n, Map.lookup n w'.users =
      if new = n then some user' else if old = n then none else Map.lookup n w.users := by
    intro n; rw [e_users, Map.lookup_rekey]
  have hlk_other : ∀ n, n ≠ old → n ≠ new → Map.lookup n w'.users = Map.lookup n w.users := by
    intro n h1 h2
    rw [hlk, if_neg (fun e => h2 e.symm), if_neg (fun e => h1 e.symm)]
  -- `new` is not a member of any channel of `w`
  have hnew_ch : ∀ ch C, Map.lookup ch w.channels = some C → Map.lookup new C.users = none := by
    intro ch C hC
    cases hx : Map.lookup new C.users with
    | none => rfl
    | some m =>
      have := h.memberIsUser ch C new hC ((Map.contains_iff _ _).mpr ⟨m, hx⟩)
      obtain ⟨v, hv⟩ := (Map.contains_iff _ _).mp this
      rw [hnew] at hv; cases hv
  -- the shape of every channel of `w'`
  have hch : ∀ ch C', Map.lookup ch w'.channels = some C' →
      ∃ C, Map.lookup ch w.channels = some C ∧ C'.preconfigured = C.preconfigured ∧
        Map.lookup new C.users = none ∧
        ((KSet.mem ch user.channels = true ∧ C.renameUser old new = some C' ∧
            ∃ chum, Map.lookup old C.users = some chum ∧
              C'.users = Map.insert new chum (Map.erase old C.users)) ∨
         (KSet.mem ch user.channels = false ∧ C' = C ∧ Map.lookup old C.users = none)) := by
    intro ch C' hC'
    rw [e_chans] at hC'
    by_cases hmc : KSet.mem ch user.channels = true
    · rw [if_pos hmc] at hC'
      cases hC : Map.lookup ch w.channels with
      | none => rw [hC] at hC'; cases hC'
      | some C =>
        rw [hC, Option.bind_some] at hC'
        obtain ⟨chum, hc1, hc2, hc3⟩ := renameUser_some hC'
        exact ⟨C, rfl, hc3, hnew_ch ch C hC, Or.inl ⟨hmc, hC', chum, hc1, hc2⟩⟩
    · rw [if_neg hmc] at hC'
      refine ⟨C', hC', rfl, hnew_ch ch C' hC', Or.inr ⟨by simpa using hmc, rfl, ?_⟩⟩
      cases hx : Map.lookup old C'.users with
      | none => rfl
      | some m =>
        exact absurd ((h.memberSym old user ch hold).mpr
          ⟨C', hC', (Map.contains_iff _ _).mpr ⟨m, hx⟩⟩) hmc
  -- every channel of `w` has a counterpart in `w'`
  have hch' : ∀ ch C, Map.lookup ch w.channels = some C → ∃ C', Map.lookup ch w'.channels = some C' := by
    intro ch C hC
    have : ch ∈ Map.keys w'.channels := by rw [e_keys]; exact (Map.mem_keys_iff _ _).mpr ⟨C, hC⟩
    exact (Map.mem_keys_iff _ _).mp this
  -- membership of the other nicks is unchanged
  have hmemb : ∀ ch n, n ≠ old → n ≠ new →
      ((∃ C', Map.lookup ch w'.channels = some C' ∧ Map.contains n C'.users = true) ↔
       (∃ C, Map.lookup ch w.channels = some C ∧ Map.contains n C.users = true)) := by
    intro ch n h1 h2
    constructor
    · rintro ⟨C', hC', hc⟩
      obtain ⟨C, hC, _, _, hcase⟩ := hch ch C' hC'
      refine ⟨C, hC, ?_⟩
      rcases hcase with ⟨_, _, chum, _, hu⟩ | ⟨_, rfl, _⟩
      · unfold Map.contains at hc ⊢
        rw [hu, Map.lookup_rekey, if_neg (fun e => h2 e.symm), if_neg (fun e => h1 e.symm)] at hc
        exact hc
      · exact hc
    · rintro ⟨C, hC, hc⟩
      obtain ⟨C', hC'⟩ := hch' ch C hC
      obtain ⟨C2, hC2, _, _, hcase⟩ := hch ch C' hC'
      rw [hC] at hC2; cases hC2
      refine ⟨C', hC', ?_⟩
      rcases hcase with ⟨_, _, chum, _, hu⟩ | ⟨_, rfl, _⟩
      · unfold Map.contains at hc ⊢
        rw [hu, Map.lookup_rekey, if_neg (fun e => h2 e.symm), if_neg (fun e => h1 e.symm)]
        exact hc
      · exact hc
  have hmemb_new : ∀ ch, (∃ C', Map.lookup ch w'.channels = some C' ∧ Map.contains new C'.users = true) ↔
      KSet.mem ch user.channels = true := by
    intro ch
    constructor
    · rintro ⟨C', hC', hc⟩
      obtain ⟨C, hC, _, hn, hcase⟩ := hch ch C' hC'
      rcases hcase with ⟨hmc, _⟩ | ⟨_, rfl, _⟩
      · exact hmc
      · unfold Map.contains at hc; rw [hn] at hc; cases hc
    · intro hmc
      obtain ⟨C, hC, _⟩ := (h.memberSym old user ch hold).mp hmc
      obtain ⟨C', hC'⟩ := hch' ch C hC
      obtain ⟨C2, hC2, _, _, hcase⟩ := hch ch C' hC'
      refine ⟨C', hC', ?_⟩
      rcases hcase with ⟨_, _, chum, _, hu⟩ | ⟨hf, _⟩
      · unfold Map.contains; rw [hu, Map.lookup_insert_eq]; rfl
      · rw [hmc] at hf; cases hf
  have hmemb_old : ∀ ch C', Map.lookup ch w'.channels = some C' → Map.lookup old C'.users = none := by
    intro ch C' hC'
    obtain ⟨C, hC, _, _, hcase⟩ := hch ch C' hC'
    rcases hcase with ⟨_, _, chum, _, hu⟩ | ⟨_, rfl, ho⟩
    · rw [hu, Map.lookup_rekey, if_neg (fun e => hne e.symm), if_pos rfl]
    · exact ho
  -- connections other than `cn` are still there
  have hother : ∀ cn2, cn2 ∈ w.conns → cn2.id ≠ cn.id → cn2 ∈ w'.conns := by
    intro cn2 h2 hne2
    rw [e_conns]; exact (hmem cn2).mpr (Or.inr ⟨h2, hne2⟩)
  have hcn'_mem : cn' ∈ w'.conns := by rw [e_conns]; exact (hmem cn').mpr (Or.inl rfl)
  refine
    { noPanic := e_p, usersNodup := ?_, chansNodup := by rw [e_keys]; exact h.chansNodup,
      connsNodup := ?_, membersNodup := ?_, userChansNodup := ?_, authOwns := ?_, userOwned := ?_,
      memberSym := ?_, memberIsUser := ?_, rankMirror := ?_, noEmptyAdHoc := ?_,
      invisibleCount := ?_, operatorsCount := ?_, wallopsSet := ?_, maxUsers := ?_,
      resources := ?_, slots := ?_, killedFlagged := ?_ }
  · -- usersNodup
    rw [e_users]; exact Map.keys_rekey_nodup old new user' w.users h.usersNodup hnew
  · -- connsNodup
    rw [e_conns]
    have := setConn_conns_ids w cn'
    unfold SameConnIds at this
    rw [this]; exact h.connsNodup
  · -- membersNodup
    intro ch C' hC'
    obtain ⟨C, hC, _, hn, hcase⟩ := hch ch C' hC'
    rcases hcase with ⟨_, _, chum, _, hu⟩ | ⟨_, rfl, _⟩
    · rw [hu]; exact Map.keys_rekey_nodup old new chum C.users (h.membersNodup ch C hC) hn
    · exact h.membersNodup ch _ hC
  · -- userChansNodup
    intro n v hv
    rw [hlk] at hv
    split at hv
    · cases hv; rw [hu_ch]; exact h.userChansNodup old user hold
    · split at hv
      · cases hv
      · exact h.userChansNodup n v hv
  · -- authOwns
    intro a haa haut
    rw [e_conns] at haa
    rcases (hmem a).mp haa with rfl | ⟨haa, hane⟩
    · exact ⟨new, user', hn', by rw [hlk, if_pos rfl], by rw [hu_owner, howner, hid]⟩
    · obtain ⟨n, u, h1, h2, h3⟩ := h.authOwns a haa haut
      have hn1 : n ≠ old := by
        intro e; subst e; rw [hold] at h2; cases h2; exact hane (by rw [← h3, howner])
      have hn2 : n ≠ new := by intro e; subst e; rw [hnew] at h2; cases h2
      exact ⟨n, u, h1, by rw [hlk_other n hn1 hn2]; exact h2, h3⟩
  · -- userOwned
    intro n v hv
    rw [hlk] at hv
    split at hv
    · rename_i e; subst e; cases hv
      exact ⟨cn', hcn'_mem, by rw [hid, hu_owner, howner], ha', hn'⟩
    · split at hv
      · cases hv
      · rename_i e1 e2
        obtain ⟨cn2, h2, hid2, ha2, hn2⟩ := h.userOwned n v hv
        refine ⟨cn2, hother cn2 h2 ?_, hid2, ha2, hn2⟩
        intro e
        have : cn2 = cn := conn_eq_of_id_eq h.connsNodup h2 hm e
        subst this
        rw [hcn] at hn2; cases hn2; exact e2 rfl
  · -- memberSym
    intro n v ch hv
    rw [hlk] at hv
    split at hv
    · rename_i e; subst e; cases hv
      rw [hu_ch]; exact (hmemb_new ch).symm
    · split at hv
      · cases hv
      · rename_i e1 e2
        rw [hmemb ch n (fun e => e2 e.symm) (fun e => e1 e.symm)]
        exact h.memberSym n v ch hv
  · -- memberIsUser
    intro ch C' n hC' hc
    rw [Map.contains_iff]
    by_cases e1 : n = new
    · subst e1; exact ⟨user', by rw [hlk, if_pos rfl]⟩
    · by_cases e2 : n = old
      · subst e2
        unfold Map.contains at hc; rw [hmemb_old ch C' hC'] at hc; cases hc
      · obtain ⟨C, hC, hcc⟩ := (hmemb ch n e2 e1).mp ⟨C', hC', hc⟩
        have := h.memberIsUser ch C n hC hcc
        rw [Map.contains_iff] at this
        obtain ⟨v, hv⟩ := this
        exact ⟨v, by rw [hlk_other n e2 e1]; exact hv⟩
  · -- rankMirror
    intro ch C' hC'
    obtain ⟨C, hC, _, hn, hcase⟩ := hch ch C' hC'
    rcases hcase with ⟨_, hren, _⟩ | ⟨_, rfl, _⟩
    · exact rankMirror_renameUser (h.rankMirror ch C hC) hren hn
    · exact h.rankMirror ch _ hC
  · -- noEmptyAdHoc
    intro ch C' hC' hempty
    obtain ⟨C, hC, hpre, _, hcase⟩ := hch ch C' hC'
    rcases hcase with ⟨_, _, chum, _, hu⟩ | ⟨_, rfl, _⟩
    · rw [hu] at hempty; exact absurd hempty (Map.insert_ne_nil _ _ _)
    · exact h.noEmptyAdHoc ch _ hC hempty
  · -- invisibleCount
    rw [e_inv, e_users, h.invisibleCount]
    exact (Map.filter_rekey_length old new user user' w.users _ h.usersNodup hold hnew
      (by simp only [hu_modes])).symm
  · -- operatorsCount
    rw [e_op, e_users, h.operatorsCount]
    exact (Map.filter_rekey_length old new user user' w.users _ h.usersNodup hold hnew
      (by simp only [hu_modes])).symm
  · -- wallopsSet
    rw [e_wall, e_users]
    exact renameIn_mirror (f := fun u => u.modes.wallops) h.wallopsSet hold hnew
      (by show user'.modes.wallops = user.modes.wallops; rw [hu_modes])
  · -- maxUsers
    rw [e_max, e_users, Map.length_rekey old new user user' w.users h.usersNodup hold hnew]
    exact h.maxUsers
  · -- resources
    intro a haa haf
    rw [e_conns] at haa
    rcases (hmem a).mp haa with rfl | ⟨haa, _⟩
    · rw [ha'] at haf; cases haf
    · exact h.resources a haa haf
  · -- slots
    rw [e_cc, e_conns, setConn_conns_length]; exact h.slots
  · -- killedFlagged
    intro n v hv hk
    rw [hlk] at hv
    split at hv
    · cases hv
      rw [hu_killed] at hk
      obtain ⟨cn2, h2, hid2, hk2⟩ := h.killedFlagged old user hold hk
      have : cn2 = cn := conn_eq_of_id_eq h.connsNodup h2 hm (by rw [hid2, howner])
      subst this
      exact ⟨cn', hcn'_mem, by rw [hid, hu_owner, howner], by rw [hkb, hq]; exact hk2⟩
    · split at hv
      · cases hv
      · rename_i e1 e2
        obtain ⟨cn2, h2, hid2, hk2⟩ := h.killedFlagged n v hv hk
        refine ⟨cn2, hother cn2 h2 ?_, hid2, hk2⟩
        intro e
        obtain ⟨cn3, h3, hid3, _, hn3⟩ := h.userOwned n v hv
        have : cn3 = cn := conn_eq_of_id_eq h.connsNodup h3 hm (by rw [hid3, ← hid2, e])
        subst this
        rw [hcn] at hn3; cases hn3; exact e2 rfl

end Irc.Reg
