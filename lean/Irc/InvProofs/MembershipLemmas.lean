/-
  Irc.InvProofs.MembershipLemmas — helper lemmas for the invariant preservation of the
  membership-changing channel handlers (JOIN / PART / KICK).

  Vocabulary:
  * `World.memOf w ch m`  — `m` is a member of channel `ch` (channel side of the relation)
  * `MemInv w`            — the clauses of `InvCore` that talk about channels / membership
  * `Frame w w'`          — everything else is untouched (connections, counters, the
                            `modes`/`owner`/`killed` fields and the keys of the user table)
-/
import Irc.InvProofs.Defs

namespace Irc.Memb

/-! ### more association-list lemmas -/

theorem Map.mem_keys_insert {α : Type} (k k' : Str) (v : α) (m : Map α) :
    k ∈ Map.keys (Map.insert k' v m) ↔ k = k' ∨ k ∈ Map.keys m := by
  rw [Map.mem_keys_iff, Map.mem_keys_iff, Map.lookup_insert]
  by_cases h : k' = k
  · subst h; simp
  · have h' : ¬ k = k' := fun e => h e.symm
    simp [h, h']

theorem Map.keys_insert_nodup {α : Type} (k : Str) (v : α) (m : Map α) (h : (Map.keys m).Nodup) :
    (Map.keys (Map.insert k v m)).Nodup := by
  induction m with
  | nil => simp [Map.insert, Map.keys]
  | cons p m ih =>
    obtain ⟨k', v'⟩ := p
    have hk : Map.keys ((k', v') :: m) = k' :: Map.keys m := rfl
    rw [hk, List.nodup_cons] at h
    simp only [Map.insert]
    split
    · rename_i e; subst e
      show (k' :: Map.keys m).Nodup
      exact List.nodup_cons.mpr h
    · rename_i e
      show (k' :: Map.keys (Map.insert k v m)).Nodup
      refine List.nodup_cons.mpr ⟨?_, ih h.2⟩
      rw [Map.mem_keys_insert]
      rintro (e' | e')
      · exact e e'
      · exact h.1 e'

theorem Map.keys_erase_nodup {α : Type} (k : Str) (m : Map α) (h : (Map.keys m).Nodup) : (Map.keys (Map.erase k m)).Nodup := by
  rw [Map.keys_erase]; exact h.filter _

theorem Map.insert_idem {α : Type} (k : Str) (v : α) (m : Map α) : Map.insert k v (Map.insert k v m) = Map.insert k v m := by
  induction m with
  | nil => simp [Map.insert]
  | cons p m ih =>
    obtain ⟨k', v'⟩ := p
    by_cases h : k' = k
    · subst h; simp [Map.insert]
    · simp [Map.insert, h, ih]

theorem Map.lookup_mapVal {α β : Type} (g : α → β) (k : Str) (m : Map α) :
    Map.lookup k (m.map (fun p => (p.1, g p.2)) : Map β) = (Map.lookup k m).map g := by
  induction m with
  | nil => rfl
  | cons p m ih =>
    obtain ⟨k', v'⟩ := p
    simp only [List.map_cons, Map.lookup]
    split
    · rfl
    · exact ih

theorem Map.contains_insert {α : Type} (k k' : Str) (v : α) (m : Map α) :
    Map.contains k (Map.insert k' v m) = (decide (k = k') || Map.contains k m) := by
  unfold Map.contains
  rw [Map.lookup_insert]
  by_cases h : k' = k
  · subst h; simp
  · have h' : ¬ k = k' := fun e => h e.symm
    simp [h, h']

theorem Map.contains_erase {α : Type} (k k' : Str) (m : Map α) :
    Map.contains k (Map.erase k' m) = (!decide (k = k') && Map.contains k m) := by
  unfold Map.contains
  rw [Map.lookup_erase]
  by_cases h : k' = k
  · subst h; simp
  · have h' : ¬ k = k' := fun e => h e.symm
    simp [h, h']

theorem Map.contains_modify {α : Type} (k k' : Str) (f : α → α) (m : Map α) :
    Map.contains k (Map.modify k' f m) = Map.contains k m := by
  unfold Map.contains
  rw [Map.lookup_modify]
  split <;> simp

theorem Map.contains_of_mem_keys {α : Type} {k : Str} {m : Map α} (h : k ∈ Map.keys m) : Map.contains k m = true :=
  (Map.contains_iff k m).mpr ((Map.mem_keys_iff k m).mp h)

theorem Map.mem_keys_of_contains {α : Type} {k : Str} {m : Map α} (h : Map.contains k m = true) : k ∈ Map.keys m :=
  (Map.mem_keys_iff k m).mpr ((Map.contains_iff k m).mp h)

theorem Map.lookup_eq_none_of_erase_isEmpty {α : Type} {k n : Str} {m : Map α} (h : (Map.erase n m).isEmpty = true)
    (hk : k ≠ n) : Map.lookup k m = none := by
  rw [← Map.lookup_erase_ne k n m (fun e => hk e.symm)]
  have : Map.erase n m = [] := List.isEmpty_iff.mp h
  rw [this]; rfl



theorem KSet.insert_idem (k : Str) (s : KSet) : KSet.insert k (KSet.insert k s) = KSet.insert k s := by
  have : KSet.mem k (KSet.insert k s) = true := by rw [KSet.mem_insert]; simp
  generalize KSet.insert k s = t at this ⊢
  unfold KSet.insert
  simp [this]


/-! ### the frame: what the membership transformers do not touch -/

/-- the projection of the user table the connection clauses of `InvCore` depend on -/
def ucore (us : Map User) : Map (UserModes × Nat × Bool) :=
  us.map (fun p => (p.1, (p.2.modes, p.2.owner, p.2.killed)))

structure Frame (w w' : World) : Prop where
  conns : w'.conns = w.conns
  connsCount : w'.connsCount = w.connsCount
  ucore : ucore w'.users = ucore w.users
  wallops : w'.wallops = w.wallops
  invisibleCount : w'.invisibleCount = w.invisibleCount
  operatorsCount : w'.operatorsCount = w.operatorsCount
  maxUsers : w'.maxUsers = w.maxUsers

theorem Frame.refl (w : World) : Frame w w := ⟨rfl, rfl, rfl, rfl, rfl, rfl, rfl⟩

theorem Frame.trans {a b c : World} (h1 : Frame a b) (h2 : Frame b c) : Frame a c :=
  ⟨h2.conns.trans h1.conns, h2.connsCount.trans h1.connsCount, h2.ucore.trans h1.ucore,
   h2.wallops.trans h1.wallops, h2.invisibleCount.trans h1.invisibleCount,
   h2.operatorsCount.trans h1.operatorsCount, h2.maxUsers.trans h1.maxUsers⟩

theorem Frame.of_eq {w w' : World} (h : w' = w) : Frame w w' := by subst h; exact Frame.refl _

theorem Frame.sameConnIds {w w' : World} (f : Frame w w') : SameConnIds w w' := by
  unfold SameConnIds; rw [f.conns]

theorem ucore_keys (us : Map User) : Map.keys (ucore us) = Map.keys us := by
  simp [ucore, Map.keys, List.map_map, Function.comp_def]

theorem ucore_length (us : Map User) : (ucore us).length = us.length := by
  simp [ucore]

theorem ucore_lookup (n : Str) (us : Map User) :
    Map.lookup n (ucore us) = (Map.lookup n us).map (fun u => (u.modes, u.owner, u.killed)) :=
  Map.lookup_mapVal (fun u : User => (u.modes, u.owner, u.killed)) n us

theorem ucore_filter_length (q : UserModes → Bool) (us : Map User) :
    (us.filter (fun p => q p.2.modes)).length = ((ucore us).filter (fun p => q p.2.1)).length := by
  unfold ucore
  rw [List.filter_map, List.length_map]
  rfl

theorem ucore_modify (n : Str) (f : User → User) (us : Map User)
    (hf : ∀ u, (f u).modes = u.modes ∧ (f u).owner = u.owner ∧ (f u).killed = u.killed) :
    ucore (Map.modify n f us) = ucore us := by
  induction us with
  | nil => rfl
  | cons p us ih =>
    obtain ⟨k, u⟩ := p
    simp only [Map.modify]
    split
    · simp [ucore, hf u]
    · simp only [ucore, List.map_cons, List.cons.injEq, true_and]
      exact ih

/-- users correspond along a frame -/
theorem Frame.lookup_fwd {w w' : World} (f : Frame w w') {n : Str} {u : User}
    (h : Map.lookup n w.users = some u) :
    ∃ u', Map.lookup n w'.users = some u' ∧ u'.modes = u.modes ∧ u'.owner = u.owner ∧
      u'.killed = u.killed := by
  have h1 := ucore_lookup n w'.users
  rw [f.ucore, ucore_lookup, h] at h1
  cases h2 : Map.lookup n w'.users with
  | none => rw [h2] at h1; simp at h1
  | some u' =>
    rw [h2] at h1
    simp only [Option.map_some, Option.some.injEq, Prod.mk.injEq] at h1
    exact ⟨u', rfl, h1.1.symm, h1.2.1.symm, h1.2.2.symm⟩

theorem Frame.lookup_bwd {w w' : World} (f : Frame w w') {n : Str} {u' : User}
    (h : Map.lookup n w'.users = some u') :
    ∃ u, Map.lookup n w.users = some u ∧ u'.modes = u.modes ∧ u'.owner = u.owner ∧
      u'.killed = u.killed := by
  have h1 := ucore_lookup n w.users
  rw [← f.ucore, ucore_lookup, h] at h1
  cases h2 : Map.lookup n w.users with
  | none => rw [h2] at h1; simp at h1
  | some u =>
    rw [h2] at h1
    simp only [Option.map_some, Option.some.injEq, Prod.mk.injEq] at h1
    exact ⟨u, rfl, h1.1, h1.2.1, h1.2.2⟩

theorem Frame.contains {w w' : World} (f : Frame w w') (n : Str) :
    Map.contains n w'.users = Map.contains n w.users := by
  cases h : Map.lookup n w.users with
  | none =>
    cases h' : Map.lookup n w'.users with
    | none => simp [Map.contains, h, h']
    | some u' => obtain ⟨u, hu, _⟩ := f.lookup_bwd h'; rw [h] at hu; cases hu
  | some u =>
    obtain ⟨u', hu', _⟩ := f.lookup_fwd h
    simp [Map.contains, h, hu']

/-! ### the membership clauses -/

/-- channel side of the membership relation -/
def _root_.Irc.World.memOf (w : World) (ch m : Str) : Bool :=
  match Map.lookup ch w.channels with
  | some C => Map.contains m C.users
  | none => false

theorem World.memOf_iff (w : World) (ch m : Str) :
    w.memOf ch m = true ↔ ∃ C, Map.lookup ch w.channels = some C ∧ Map.contains m C.users = true := by
  unfold World.memOf
  cases Map.lookup ch w.channels <;> simp

theorem World.memOf_of_lookup {w : World} {ch : Str} {C : Channel} (h : Map.lookup ch w.channels = some C)
    (m : Str) : w.memOf ch m = Map.contains m C.users := by
  unfold World.memOf; rw [h]

theorem World.memOf_of_none {w : World} {ch : Str} (h : Map.lookup ch w.channels = none)
    (m : Str) : w.memOf ch m = false := by
  unfold World.memOf; rw [h]

theorem World.memOf_congr {w w' : World} {ch : Str}
    (h : Map.lookup ch w'.channels = Map.lookup ch w.channels) (m : Str) : w'.memOf ch m = w.memOf ch m := by
  unfold World.memOf; rw [h]

/-- the clauses of `InvCore` about channels and membership (plus the panic flag) -/
structure MemInv (w : World) : Prop where
  noPanic : w.panicked = none
  chansNodup : (Map.keys w.channels).Nodup
  membersNodup : ∀ ch C, Map.lookup ch w.channels = some C → (Map.keys C.users).Nodup
  userChansNodup : ∀ n u, Map.lookup n w.users = some u → u.channels.Nodup
  memberSym : ∀ n u ch, Map.lookup n w.users = some u →
    (KSet.mem ch u.channels = true ↔ w.memOf ch n = true)
  memberIsUser : ∀ ch n, w.memOf ch n = true → Map.contains n w.users = true
  rankMirror : ∀ ch C, Map.lookup ch w.channels = some C → RankMirror C
  noEmptyAdHoc : ∀ ch C, Map.lookup ch w.channels = some C → C.users = [] → C.preconfigured = true

theorem InvCore.memInv {w : World} (h : InvCore w) : MemInv w where
  noPanic := h.noPanic
  chansNodup := h.chansNodup
  membersNodup := h.membersNodup
  userChansNodup := h.userChansNodup
  memberSym := fun n u ch hu => by rw [World.memOf_iff]; exact h.memberSym n u ch hu
  memberIsUser := fun ch n hm => by
    obtain ⟨C, hC, hc⟩ := (World.memOf_iff w ch n).mp hm
    exact h.memberIsUser ch C n hC hc
  rankMirror := h.rankMirror
  noEmptyAdHoc := h.noEmptyAdHoc

/-- reassembly: the connection clauses follow along a frame -/
theorem InvCore.of_frame {w w' : World} (h : InvCore w) (f : Frame w w') (m : MemInv w') : InvCore w' where
  noPanic := m.noPanic
  usersNodup := by rw [← ucore_keys, f.ucore, ucore_keys]; exact h.usersNodup
  chansNodup := m.chansNodup
  connsNodup := by rw [f.conns]; exact h.connsNodup
  membersNodup := m.membersNodup
  userChansNodup := m.userChansNodup
  authOwns := fun cn hcn ha => by
    rw [f.conns] at hcn
    obtain ⟨n, u, hn, hu, ho⟩ := h.authOwns cn hcn ha
    obtain ⟨u', hu', _, ho', _⟩ := f.lookup_fwd hu
    exact ⟨n, u', hn, hu', ho'.trans ho⟩
  userOwned := fun n u' hu' => by
    obtain ⟨u, hu, _, ho, _⟩ := f.lookup_bwd hu'
    obtain ⟨cn, hcn, hid, ha, hnk⟩ := h.userOwned n u hu
    exact ⟨cn, by rw [f.conns]; exact hcn, hid.trans ho.symm, ha, hnk⟩
  memberSym := fun n u ch hu => by rw [← World.memOf_iff]; exact m.memberSym n u ch hu
  memberIsUser := fun ch C n hC hc => m.memberIsUser ch n ((World.memOf_iff w' ch n).mpr ⟨C, hC, hc⟩)
  rankMirror := m.rankMirror
  noEmptyAdHoc := m.noEmptyAdHoc
  invisibleCount := by
    rw [f.invisibleCount, h.invisibleCount,
      ucore_filter_length (fun m => m.invisible), ucore_filter_length (fun m => m.invisible), f.ucore]
  operatorsCount := by
    rw [f.operatorsCount, h.operatorsCount,
      ucore_filter_length (fun m => m.isLocalOper), ucore_filter_length (fun m => m.isLocalOper), f.ucore]
  wallopsSet := fun n => by
    rw [f.wallops, h.wallopsSet n]
    constructor
    · rintro ⟨u, hu, hw⟩
      obtain ⟨u', hu', hm, _⟩ := f.lookup_fwd hu
      exact ⟨u', hu', by rw [hm]; exact hw⟩
    · rintro ⟨u', hu', hw⟩
      obtain ⟨u, hu, hm, _⟩ := f.lookup_bwd hu'
      exact ⟨u, hu, by rw [← hm]; exact hw⟩
  maxUsers := by rw [f.maxUsers, ← ucore_length, f.ucore, ucore_length]; exact h.maxUsers
  resources := fun cn hcn => h.resources cn (by rw [← f.conns]; exact hcn)
  slots := by rw [f.connsCount, f.conns]; exact h.slots
  killedFlagged := fun n u' hu' hk => by
    obtain ⟨u, hu, _, ho, hkk⟩ := f.lookup_bwd hu'
    obtain ⟨cn, hcn, hid, hq⟩ := h.killedFlagged n u hu (by rw [← hkk]; exact hk)
    exact ⟨cn, by rw [f.conns]; exact hcn, hid.trans ho.symm, hq⟩

/-- `MemInv` is re-established after a change at one channel `ch` and one user `n` -/
theorem MemInv.update {w w' : World} {ch n : Str} (h : MemInv w)
    (hp : w'.panicked = none)
    (hcn : (Map.keys w'.channels).Nodup)
    (hch : ∀ ch', ch' ≠ ch → Map.lookup ch' w'.channels = Map.lookup ch' w.channels)
    (hus : ∀ m, m ≠ n → Map.lookup m w'.users = Map.lookup m w.users)
    (hun : ∀ u', Map.lookup n w'.users = some u' → ∃ u, Map.lookup n w.users = some u ∧
        (u.channels.Nodup → u'.channels.Nodup) ∧
        ∀ ch', ch' ≠ ch → KSet.mem ch' u'.channels = KSet.mem ch' u.channels)
    (hcont : ∀ m, Map.contains m w.users = true → Map.contains m w'.users = true)
    (hC : ∀ C', Map.lookup ch w'.channels = some C' →
        (Map.keys C'.users).Nodup ∧ RankMirror C' ∧ (C'.users = [] → C'.preconfigured = true))
    (hmo : ∀ m, m ≠ n → w'.memOf ch m = w.memOf ch m)
    (hmn : ∀ u', Map.lookup n w'.users = some u' →
        (KSet.mem ch u'.channels = true ↔ w'.memOf ch n = true))
    (hmu : w'.memOf ch n = true → Map.contains n w.users = true) : MemInv w' where
  noPanic := hp
  chansNodup := hcn
  membersNodup := fun chx C hC' => by
    by_cases e : chx = ch
    · subst e; exact (hC C hC').1
    · rw [hch chx e] at hC'; exact h.membersNodup chx C hC'
  userChansNodup := fun m u' hu' => by
    by_cases e2 : m = n
    · subst e2
      obtain ⟨u, hu, hnd, _⟩ := hun u' hu'
      exact hnd (h.userChansNodup m u hu)
    · rw [hus m e2] at hu'; exact h.userChansNodup m u' hu'
  memberSym := fun m u' chx hu' => by
    by_cases e : chx = ch
    · subst e
      by_cases e2 : m = n
      · subst e2; exact hmn u' hu'
      · rw [hus m e2] at hu'
        rw [hmo m e2]
        exact h.memberSym m u' chx hu'
    · rw [World.memOf_congr (hch chx e)]
      by_cases e2 : m = n
      · subst e2
        obtain ⟨u, hu, _, hk⟩ := hun u' hu'
        rw [hk chx e]
        exact h.memberSym m u chx hu
      · rw [hus m e2] at hu'
        exact h.memberSym m u' chx hu'
  memberIsUser := fun chx m hm => by
    by_cases e : chx = ch
    · subst e
      by_cases e2 : m = n
      · subst e2; exact hcont m (hmu hm)
      · rw [hmo m e2] at hm
        exact hcont m (h.memberIsUser chx m hm)
    · rw [World.memOf_congr (hch chx e)] at hm
      exact hcont m (h.memberIsUser chx m hm)
  rankMirror := fun chx C hC' => by
    by_cases e : chx = ch
    · subst e; exact (hC C hC').2.1
    · rw [hch chx e] at hC'; exact h.rankMirror chx C hC'
  noEmptyAdHoc := fun chx C hC' => by
    by_cases e : chx = ch
    · subst e; exact (hC C hC').2.2
    · rw [hch chx e] at hC'; exact h.noEmptyAdHoc chx C hC'

/-! ### rank lists under erase / insert of one member -/

theorem rank_erase {r : KSet} {us : Map ChanUserModes} {p : ChanUserModes → Bool} (n : Str)
    (h : ∀ m, KSet.mem m r = true ↔ ∃ cm, Map.lookup m us = some cm ∧ p cm = true) :
    ∀ m, KSet.mem m (KSet.erase n r) = true ↔
      ∃ cm, Map.lookup m (Map.erase n us) = some cm ∧ p cm = true := by
  intro m
  rw [KSet.mem_erase, Map.lookup_erase]
  by_cases e : m = n
  · subst e; simp
  · have e' : ¬ n = m := fun x => e x.symm
    simp only [e, decide_false, Bool.not_false, Bool.true_and, e', ↓reduceIte]
    exact h m

theorem rank_insert {r : KSet} {us : Map ChanUserModes} {p : ChanUserModes → Bool} (n : Str)
    (chum : ChanUserModes)
    (h : ∀ m, KSet.mem m r = true ↔ ∃ cm, Map.lookup m us = some cm ∧ p cm = true)
    (hn : Map.lookup n us = none) :
    ∀ m, KSet.mem m (if p chum = true then KSet.insert n r else r) = true ↔
      ∃ cm, Map.lookup m (Map.insert n chum us) = some cm ∧ p cm = true := by
  intro m
  rw [Map.lookup_insert]
  by_cases e : m = n
  · subst e
    simp only [↓reduceIte, Option.some.injEq, exists_eq_left']
    by_cases hp : p chum = true
    · simp [hp, KSet.mem_insert]
    · simp only [hp, Bool.false_eq_true, ↓reduceIte, iff_false]
      rw [h m, hn]; simp
  · have e' : ¬ n = m := fun x => e x.symm
    simp only [e', ↓reduceIte]
    rw [← h m]
    split
    · rw [KSet.mem_insert]; simp [e]
    · rfl

/-! ### `World.removeUserFromChannel` -/

/-- the channel after `Channel::remove_user` -/
def Channel.without (C : Channel) (n : Str) : Channel :=
  { C with
    users := Map.erase n C.users
    modes := { C.modes with operators := KSet.erase n C.modes.operators
                            halfOperators := KSet.erase n C.modes.halfOperators
                            founders := KSet.erase n C.modes.founders
                            voices := KSet.erase n C.modes.voices
                            protecteds := KSet.erase n C.modes.protecteds } }

theorem Channel.removeUser_of_member {C : Channel} {n : Str} (h : Map.contains n C.users = true) :
    C.removeUser n = some (Channel.without C n) := by
  simp [Channel.removeUser, h, Channel.without]

theorem Channel.removeUser_of_not_member {C : Channel} {n : Str} (h : Map.contains n C.users = false) :
    C.removeUser n = none := by
  simp [Channel.removeUser, h]

theorem RankMirror.without {C : Channel} (h : RankMirror C) (n : Str) : RankMirror (Channel.without C n) where
  founders := rank_erase (p := (·.founder)) n h.founders
  protecteds := rank_erase (p := (·.prot)) n h.protecteds
  operators := rank_erase (p := (·.operator)) n h.operators
  halfOperators := rank_erase (p := (·.halfOper)) n h.halfOperators
  voices := rank_erase (p := (·.voice)) n h.voices

/-- the user-table part of `removeUserFromChannel` -/
def dropChan (ch : Str) (u : User) : User := { u with channels := KSet.erase ch u.channels }

theorem rufc_users (w : World) (ch n : Str) :
    (w.removeUserFromChannel ch n).users = Map.modify n (dropChan ch) w.users := by
  unfold World.removeUserFromChannel
  cases Map.lookup ch w.channels with
  | none => rfl
  | some C =>
    dsimp only
    cases C.removeUser n with
    | none => rfl
    | some C' => dsimp only; split <;> rfl

theorem rufc_proj (w : World) (ch n : Str) :
    (w.removeUserFromChannel ch n).conns = w.conns ∧
    (w.removeUserFromChannel ch n).connsCount = w.connsCount ∧
    (w.removeUserFromChannel ch n).wallops = w.wallops ∧
    (w.removeUserFromChannel ch n).invisibleCount = w.invisibleCount ∧
    (w.removeUserFromChannel ch n).operatorsCount = w.operatorsCount ∧
    (w.removeUserFromChannel ch n).maxUsers = w.maxUsers := by
  unfold World.removeUserFromChannel
  cases Map.lookup ch w.channels with
  | none => exact ⟨rfl, rfl, rfl, rfl, rfl, rfl⟩
  | some C =>
    dsimp only
    cases C.removeUser n with
    | none => exact ⟨rfl, rfl, rfl, rfl, rfl, rfl⟩
    | some C' => dsimp only; split <;> exact ⟨rfl, rfl, rfl, rfl, rfl, rfl⟩

theorem rufc_frame (w : World) (ch n : Str) : Frame w (w.removeUserFromChannel ch n) := by
  obtain ⟨h1, h2, h3, h4, h5, h6⟩ := rufc_proj w ch n
  refine ⟨h1, h2, ?_, h3, h4, h5, h6⟩
  rw [rufc_users]; exact ucore_modify n _ w.users (fun u => ⟨rfl, rfl, rfl⟩)

theorem rufc_channels_none {w : World} {ch : Str} (n : Str) (h : Map.lookup ch w.channels = none) :
    (w.removeUserFromChannel ch n).channels = w.channels ∧
    (w.removeUserFromChannel ch n).panicked = w.panicked := by
  unfold World.removeUserFromChannel
  rw [h]; exact ⟨rfl, rfl⟩

theorem rufc_channels_not_member {w : World} {ch n : Str} {C : Channel}
    (h : Map.lookup ch w.channels = some C) (hm : Map.contains n C.users = false) :
    (w.removeUserFromChannel ch n).channels = w.channels := by
  unfold World.removeUserFromChannel
  rw [h]; dsimp only; rw [Channel.removeUser_of_not_member hm]; rfl

theorem rufc_channels_member {w : World} {ch n : Str} {C : Channel}
    (h : Map.lookup ch w.channels = some C) (hm : Map.contains n C.users = true) :
    (w.removeUserFromChannel ch n).channels =
      (if ((Channel.without C n).users.isEmpty && !(Channel.without C n).preconfigured) = true
       then Map.erase ch w.channels else Map.insert ch (Channel.without C n) w.channels) ∧
    (w.removeUserFromChannel ch n).panicked = w.panicked := by
  unfold World.removeUserFromChannel
  rw [h]; dsimp only; rw [Channel.removeUser_of_member hm]; dsimp only
  split <;> exact ⟨rfl, rfl⟩

theorem rufc_lookup_ne (w : World) {ch ch' : Str} (n : Str) (hne : ch' ≠ ch) :
    Map.lookup ch' (w.removeUserFromChannel ch n).channels = Map.lookup ch' w.channels := by
  have hne' : ch ≠ ch' := fun e => hne e.symm
  cases h : Map.lookup ch w.channels with
  | none => rw [(rufc_channels_none n h).1]
  | some C =>
    cases hm : Map.contains n C.users with
    | false => rw [rufc_channels_not_member h hm]
    | true =>
      rw [(rufc_channels_member h hm).1]
      split
      · exact Map.lookup_erase_ne ch' ch _ hne'
      · exact Map.lookup_insert_ne ch' ch _ _ hne'

/-- exact effect on the membership relation: only the pair `(ch, n)` is removed -/
theorem rufc_memOf (w : World) (ch n ch' m : Str) :
    (w.removeUserFromChannel ch n).memOf ch' m =
      (w.memOf ch' m && !(decide (ch' = ch) && decide (m = n))) := by
  by_cases e : ch' = ch
  · subst e
    cases h : Map.lookup ch' w.channels with
    | none =>
      rw [World.memOf_of_none h, World.memOf_of_none (by rw [(rufc_channels_none n h).1]; exact h)]
      rfl
    | some C =>
      rw [World.memOf_of_lookup h]
      cases hm : Map.contains n C.users with
      | false =>
        rw [World.memOf_of_lookup (by rw [rufc_channels_not_member h hm]; exact h)]
        by_cases e2 : m = n
        · subst e2; simp [hm]
        · simp [e2]
      | true =>
        have hc := (rufc_channels_member h hm).1
        by_cases hh : ((Channel.without C n).users.isEmpty && !(Channel.without C n).preconfigured) = true
        · rw [if_pos hh] at hc
          rw [World.memOf_of_none (by rw [hc]; exact Map.lookup_erase_eq _ _)]
          simp only [Bool.and_eq_true, Bool.not_eq_true'] at hh
          by_cases e2 : m = n
          · subst e2; simp
          · have : Map.lookup m C.users = none :=
              Map.lookup_eq_none_of_erase_isEmpty (by simpa [Channel.without] using hh.1) e2
            simp [Map.contains, this]
        · rw [if_neg hh] at hc
          rw [World.memOf_of_lookup (by rw [hc]; exact Map.lookup_insert_eq _ _ _)]
          show Map.contains m (Map.erase n C.users) = _
          rw [Map.contains_erase]
          by_cases e2 : m = n
          · subst e2; simp
          · simp [e2]
  · rw [World.memOf_congr (rufc_lookup_ne w n e)]
    simp [e]

theorem rufc_memInv {w : World} {ch n : Str} (h : MemInv w) (hm : w.memOf ch n = true) :
    MemInv (w.removeUserFromChannel ch n) := by
  obtain ⟨C, hC, hmC⟩ := (World.memOf_iff w ch n).mp hm
  have hch := rufc_channels_member hC hmC
  have hus := rufc_users w ch n
  refine h.update (ch := ch) (n := n) ?_ ?_ ?_ ?_ ?_ ?_ ?_ ?_ ?_ ?_
  · rw [hch.2]; exact h.noPanic
  · rw [hch.1]
    split
    · exact Map.keys_erase_nodup _ _ h.chansNodup
    · exact Map.keys_insert_nodup _ _ _ h.chansNodup
  · intro ch' hne; exact rufc_lookup_ne w n hne
  · intro m hne
    rw [hus, Map.lookup_modify, if_neg (fun e => hne e.symm)]
  · intro u' hu'
    rw [hus, Map.lookup_modify, if_pos rfl] at hu'
    cases hu : Map.lookup n w.users with
    | none => rw [hu] at hu'; cases hu'
    | some u =>
      rw [hu] at hu'
      simp only [Option.map_some, Option.some.injEq] at hu'
      subst hu'
      refine ⟨u, rfl, fun hnd => List.Pairwise.filter _ hnd, fun ch' hne => ?_⟩
      show KSet.mem ch' (KSet.erase ch u.channels) = _
      rw [KSet.mem_erase]; simp [hne]
  · intro m hc; rw [hus, Map.contains_modify]; exact hc
  · intro C' hC'
    rw [hch.1] at hC'
    split at hC'
    · rw [Map.lookup_erase_eq] at hC'; cases hC'
    · rename_i hh
      rw [Map.lookup_insert_eq] at hC'
      cases hC'
      refine ⟨?_, RankMirror.without (h.rankMirror ch C hC) n, ?_⟩
      · exact Map.keys_erase_nodup _ _ (h.membersNodup ch C hC)
      · intro he
        cases hp : (Channel.without C n).preconfigured with
        | true => rfl
        | false => exact absurd (by rw [he, hp]; rfl) hh
  · intro m hne; rw [rufc_memOf]; simp [hne]
  · intro u' hu'
    rw [hus, Map.lookup_modify, if_pos rfl] at hu'
    rw [rufc_memOf]
    cases hu : Map.lookup n w.users with
    | none => rw [hu] at hu'; cases hu'
    | some u =>
      rw [hu] at hu'
      simp only [Option.map_some, Option.some.injEq] at hu'
      subst hu'
      show KSet.mem ch (KSet.erase ch u.channels) = true ↔ _
      rw [KSet.mem_erase]; simp
  · intro hh; rw [rufc_memOf] at hh; simp at hh

/-! ### the acting connection; message folds -/

theorem sender_of_auth {x : Ctx} {c : Nat} (h : InvCore x.w) (hl : Live x.w c)
    (ha : (x.conn c).authenticated = true) :
    ∃ n u, (x.conn c).nick = some n ∧ Map.lookup n x.w.users = some u ∧ u.owner = c := by
  obtain ⟨cn, hcn, hm, hid⟩ := conn?_of_live hl
  have e : x.conn c = cn := by simp [Ctx.conn, hcn]
  rw [e] at ha ⊢
  obtain ⟨n, u, h1, h2, h3⟩ := h.authOwns cn hm ha
  exact ⟨n, u, h1, h2, h3.trans hid⟩

theorem sendDisplay_foldl_w (ns : List Str) (src t : Str) (x : Ctx)
    (h : ∀ n, n ∈ ns → Map.contains n x.w.users = true) :
    (ns.foldl (fun x n => x.sendDisplay n src t) x).w = x.w := by
  induction ns generalizing x with
  | nil => rfl
  | cons n ns ih =>
    simp only [List.foldl_cons]
    have h1 : (x.sendDisplay n src t).w = x.w := Ctx.sendDisplay_w_eq x n src t (h n (List.mem_cons_self ..))
    rw [ih (x.sendDisplay n src t) (by intro m hm; rw [h1]; exact h m (List.mem_cons_of_mem _ hm))]
    exact h1

theorem reply_foldl_w (cfg : Cfg) (es : List Str) (x : Ctx) :
    (es.foldl (fun x e => x.reply cfg e) x).w = x.w := by
  induction es generalizing x with
  | nil => rfl
  | cons e es ih => simp only [List.foldl_cons]; rw [ih]; rfl

theorem MemInv.keys_are_users {w : World} (h : MemInv w) {ch : Str} {C : Channel}
    (hC : Map.lookup ch w.channels = some C) :
    ∀ n, n ∈ Map.keys C.users → Map.contains n w.users = true := by
  intro n hn
  apply h.memberIsUser ch n
  rw [World.memOf_of_lookup hC]
  exact Map.contains_of_mem_keys hn

/-! ### PART -/

open Reply in
/-- the body of the loop of `processPart` -/
def partStep (cfg : Cfg) (cn : Conn) (nick : Str) (reason : Option Str) (x : Ctx) (chn : Str) : Ctx :=
  match Map.lookup chn x.w.channels with
  | some ch =>
    if Map.contains nick ch.users then
      let partMsg := match reason with
        | some r => str "PART " ++ chn ++ str " :" ++ r
        | none => str "PART " ++ chn
      let x := (Map.keys ch.users).foldl (fun x n => x.sendDisplay n cn.source partMsg) x
      x.modifyW (fun w => w.removeUserFromChannel chn nick)
    else x.reply cfg (ErrNotOnChannel442 cn.clientName chn)
  | none => x.reply cfg (ErrNoSuchChannel403 cn.clientName chn)

theorem processPart_eq (cfg : Cfg) (c : Nat) (channels : List Str) (reason : Option Str) (x : Ctx) :
    processPart cfg c channels reason x =
      match (x.conn c).nick with
      | none => x.panic "part: own nick unwrap"
      | some nick =>
        let x' := channels.foldl (partStep cfg (x.conn c) nick reason) x
        if Map.contains nick x'.w.users then x' else x'.panic "part: users.get_mut(nick).unwrap" := rfl

theorem partStep_w (cfg : Cfg) (cn : Conn) (nick : Str) (reason : Option Str) (x : Ctx) (chn : Str)
    (h : MemInv x.w) :
    (partStep cfg cn nick reason x chn).w =
      if x.w.memOf chn nick = true then x.w.removeUserFromChannel chn nick else x.w := by
  unfold partStep
  cases hC : Map.lookup chn x.w.channels with
  | none => rw [World.memOf_of_none hC]; rfl
  | some C =>
    rw [World.memOf_of_lookup hC]
    dsimp only
    cases hm : Map.contains nick C.users with
    | false => rfl
    | true =>
      simp only [↓reduceIte, Ctx.modifyW_w]
      rw [sendDisplay_foldl_w _ _ _ _ (h.keys_are_users hC)]

theorem partStep_inv (cfg : Cfg) (cn : Conn) (nick : Str) (reason : Option Str) (x : Ctx) (chn : Str)
    (h : MemInv x.w) :
    MemInv (partStep cfg cn nick reason x chn).w ∧ Frame x.w (partStep cfg cn nick reason x chn).w ∧
    ∀ ch m, (partStep cfg cn nick reason x chn).w.memOf ch m =
      (x.w.memOf ch m && !(decide (ch = chn) && decide (m = nick))) := by
  rw [partStep_w cfg cn nick reason x chn h]
  by_cases hm : x.w.memOf chn nick = true
  · rw [if_pos hm]
    exact ⟨rufc_memInv h hm, rufc_frame _ _ _, fun ch m => rufc_memOf _ _ _ _ _⟩
  · rw [if_neg hm]
    refine ⟨h, Frame.refl _, fun ch m => ?_⟩
    by_cases e : ch = chn ∧ m = nick
    · obtain ⟨e1, e2⟩ := e; subst e1; subst e2
      simp only [Bool.not_eq_true] at hm
      simp [hm]
    · have : (decide (ch = chn) && decide (m = nick)) = false := by
        simp only [Bool.and_eq_false_iff, decide_eq_false_iff_not]
        by_cases e1 : ch = chn
        · exact Or.inr (fun e2 => e ⟨e1, e2⟩)
        · exact Or.inl e1
      rw [this]; simp

theorem part_fold (cfg : Cfg) (cn : Conn) (nick : Str) (reason : Option Str) (channels : List Str)
    (x : Ctx) (h : MemInv x.w) :
    MemInv (channels.foldl (partStep cfg cn nick reason) x).w ∧
    Frame x.w (channels.foldl (partStep cfg cn nick reason) x).w ∧
    ∀ ch m, (channels.foldl (partStep cfg cn nick reason) x).w.memOf ch m =
      (x.w.memOf ch m && !(decide (ch ∈ channels) && decide (m = nick))) := by
  induction channels generalizing x with
  | nil => exact ⟨h, Frame.refl _, fun ch m => by simp⟩
  | cons chn chs ih =>
    simp only [List.foldl_cons]
    obtain ⟨h1, f1, e1⟩ := partStep_inv cfg cn nick reason x chn h
    obtain ⟨h2, f2, e2⟩ := ih _ h1
    refine ⟨h2, f1.trans f2, fun ch m => ?_⟩
    rw [e2, e1]
    by_cases a : ch = chn <;> by_cases b : m = nick <;> simp [a, b]

/-! ### KICK -/

/-- who may be kicked from `ch` (by a kicker that is only half-operator or not) -/
def Kickable (ch : Channel) (onlyHalfOp : Bool) (k : Str) : Prop :=
  ∃ chum, Map.lookup k ch.users = some chum ∧ chum.isProtected = false ∧
    (chum.isHalfOperator = false ∨ onlyHalfOp = false)

theorem kickSelect_spec (client channel : Str) (ch : Channel) (b : Bool) :
    ∀ (kus kicked : List Str), kicked.Nodup →
      (kickSelect client channel ch b kus kicked).1.Nodup ∧
      ∀ k, k ∈ (kickSelect client channel ch b kus kicked).1 ↔
        (k ∈ kicked ∨ (k ∈ kus ∧ Kickable ch b k)) := by
  intro kus
  induction kus with
  | nil => intro kicked hnd; simp [kickSelect, hnd]
  | cons ku rest ih =>
    intro kicked hnd
    simp only [kickSelect]
    cases hl : Map.lookup ku ch.users with
    | none =>
      dsimp only
      obtain ⟨i1, i2⟩ := ih kicked hnd
      refine ⟨i1, fun k => ?_⟩
      rw [i2 k]
      constructor
      · rintro (a | ⟨a, b⟩)
        · exact Or.inl a
        · exact Or.inr ⟨List.mem_cons_of_mem _ a, b⟩
      · rintro (a | ⟨a, b⟩)
        · exact Or.inl a
        · rcases List.mem_cons.mp a with e | a
          · subst e; obtain ⟨chum, hc, _⟩ := b; rw [hl] at hc; cases hc
          · exact Or.inr ⟨a, b⟩
    | some chum =>
      dsimp only
      by_cases hc : (!chum.isProtected && (!chum.isHalfOperator || !b)) = true
      · rw [if_pos hc]
        have hK : Kickable ch b ku := by
          refine ⟨chum, hl, ?_⟩
          simpa using hc
        by_cases hin : kicked.any (· == ku) = true
        · rw [if_pos hin]
          have hin' : ku ∈ kicked := by simpa using hin
          obtain ⟨i1, i2⟩ := ih kicked hnd
          refine ⟨i1, fun k => ?_⟩
          rw [i2 k]
          constructor
          · rintro (a | ⟨a, b⟩)
            · exact Or.inl a
            · exact Or.inr ⟨List.mem_cons_of_mem _ a, b⟩
          · rintro (a | ⟨a, b⟩)
            · exact Or.inl a
            · rcases List.mem_cons.mp a with e | a
              · subst e; exact Or.inl hin'
              · exact Or.inr ⟨a, b⟩
        · rw [if_neg hin]
          have hin' : ku ∉ kicked := by simpa using hin
          have hnd' : (kicked ++ [ku]).Nodup := by
            rw [List.nodup_append]
            refine ⟨hnd, by simp, ?_⟩
            intro a ha b hb
            simp only [List.mem_singleton] at hb
            subst hb
            intro e; subst e; exact hin' ha
          obtain ⟨i1, i2⟩ := ih (kicked ++ [ku]) hnd'
          refine ⟨i1, fun k => ?_⟩
          rw [i2 k]
          rw [List.mem_append, List.mem_singleton, List.mem_cons]
          constructor
          · rintro ((a | a) | ⟨a, b⟩)
            · exact Or.inl a
            · subst a; exact Or.inr ⟨Or.inl rfl, hK⟩
            · exact Or.inr ⟨Or.inr a, b⟩
          · rintro (a | ⟨a | a, b⟩)
            · exact Or.inl (Or.inl a)
            · exact Or.inl (Or.inr a)
            · exact Or.inr ⟨a, b⟩
      · rw [if_neg hc]
        dsimp only
        obtain ⟨i1, i2⟩ := ih kicked hnd
        refine ⟨i1, fun k => ?_⟩
        rw [i2 k]
        constructor
        · rintro (a | ⟨a, b⟩)
          · exact Or.inl a
          · exact Or.inr ⟨List.mem_cons_of_mem _ a, b⟩
        · rintro (a | ⟨a, b⟩)
          · exact Or.inl a
          · rcases List.mem_cons.mp a with e | a
            · subst e
              obtain ⟨chum', hc', h1, h2⟩ := b
              rw [hl] at hc'; cases hc'
              exfalso; apply hc
              rcases h2 with h2 | h2 <;> simp [h1, h2]
            · exact Or.inr ⟨a, b⟩

theorem kick_remove_fold (channel : Str) :
    ∀ (kicked : List Str) (w : World), MemInv w → kicked.Nodup →
      (∀ k, k ∈ kicked → w.memOf channel k = true) →
      MemInv (kicked.foldl (fun w ku => w.removeUserFromChannel channel ku) w) ∧
      Frame w (kicked.foldl (fun w ku => w.removeUserFromChannel channel ku) w) ∧
      ∀ ch m, (kicked.foldl (fun w ku => w.removeUserFromChannel channel ku) w).memOf ch m =
        (w.memOf ch m && !(decide (ch = channel) && decide (m ∈ kicked))) := by
  intro kicked
  induction kicked with
  | nil => intro w h _ _; exact ⟨h, Frame.refl _, fun ch m => by simp⟩
  | cons k ks ih =>
    intro w h hnd hmem
    simp only [List.foldl_cons]
    rw [List.nodup_cons] at hnd
    have h1 := rufc_memInv h (hmem k (List.mem_cons_self ..))
    have hm1 : ∀ k', k' ∈ ks → (w.removeUserFromChannel channel k).memOf channel k' = true := by
      intro k' hk'
      rw [rufc_memOf, hmem k' (List.mem_cons_of_mem _ hk')]
      have : k' ≠ k := fun e => hnd.1 (e ▸ hk')
      simp [this]
    obtain ⟨h2, f2, e2⟩ := ih _ h1 hnd.2 hm1
    refine ⟨h2, (rufc_frame _ _ _).trans f2, fun ch m => ?_⟩
    rw [e2, rufc_memOf]
    by_cases a : ch = channel <;> by_cases b : m = k <;> by_cases c : m ∈ ks <;> simp [a, b, c]

theorem kick_msgs_w (src : Str) (msg : Str → Str) (remaining : List Str) :
    ∀ (kicked : List Str) (x : Ctx),
      (∀ n, n ∈ remaining → Map.contains n x.w.users = true) →
      (∀ n, n ∈ kicked → Map.contains n x.w.users = true) →
      (kicked.foldl (fun x ku =>
        (remaining.foldl (fun x n => x.sendDisplay n src (msg ku)) x).sendDisplay ku src (msg ku)) x).w = x.w := by
  intro kicked
  induction kicked with
  | nil => intro x _ _; rfl
  | cons k ks ih =>
    intro x hr hk
    simp only [List.foldl_cons]
    have h1 : (remaining.foldl (fun x n => x.sendDisplay n src (msg k)) x).w = x.w :=
      sendDisplay_foldl_w remaining src (msg k) x hr
    have h2 : ((remaining.foldl (fun x n => x.sendDisplay n src (msg k)) x).sendDisplay k src (msg k)).w = x.w := by
      rw [Ctx.sendDisplay_w_eq _ _ _ _ (by rw [h1]; exact hk k (List.mem_cons_self ..))]; exact h1
    rw [ih _ (by rw [h2]; exact hr) (by rw [h2]; exact fun n hn => hk n (List.mem_cons_of_mem _ hn))]
    exact h2

/-- the body of `processKick` once the kicker's rank has been checked -/
def kickMain (cfg : Cfg) (cn : Conn) (channel : Str) (comment : Option Str)
    (kicked errs : List Str) (x : Ctx) : Ctx :=
  let x := errs.foldl (fun x e => x.reply cfg e) x
  let x := x.modifyW (fun w => kicked.foldl (fun w ku => w.removeUserFromChannel channel ku) w)
  let remaining : List Str := match Map.lookup channel x.w.channels with
    | some ch' => Map.keys ch'.users
    | none => []
  kicked.foldl (fun x ku =>
    let kickMsg := str "KICK " ++ channel ++ [' '] ++ ku ++ str " :" ++ comment.getD (str "Kicked")
    let x := remaining.foldl (fun x n => x.sendDisplay n cn.source kickMsg) x
    x.sendDisplay ku cn.source kickMsg) x

open Reply in
theorem processKick_eq (cfg : Cfg) (c : Nat) (channel : Str) (kickUsers : List Str)
    (comment : Option Str) (x : Ctx) :
    processKick cfg c channel kickUsers comment x =
      match (x.conn c).nick with
      | none => x.panic "kick: own nick unwrap"
      | some nick =>
        match Map.lookup channel x.w.channels with
        | some ch =>
          match Map.lookup nick ch.users with
          | some chum =>
            if chum.isHalfOperator then
              kickMain cfg (x.conn c) channel comment
                (kickSelect (x.conn c).clientName channel ch chum.isOnlyHalfOperator kickUsers []).1
                (kickSelect (x.conn c).clientName channel ch chum.isOnlyHalfOperator kickUsers []).2 x
            else x.reply cfg (ErrChanOpPrivsNeeded482 (x.conn c).clientName channel)
          | none => x.reply cfg (ErrNotOnChannel442 (x.conn c).clientName channel)
        | none => x.reply cfg (ErrNoSuchChannel403 (x.conn c).clientName channel) := rfl

theorem kickMain_w (cfg : Cfg) (cn : Conn) (channel : Str) (comment : Option Str)
    (kicked errs : List Str) (x : Ctx) (h : MemInv x.w) (hnd : kicked.Nodup)
    (hmem : ∀ k, k ∈ kicked → x.w.memOf channel k = true) :
    (kickMain cfg cn channel comment kicked errs x).w =
      kicked.foldl (fun w ku => w.removeUserFromChannel channel ku) x.w := by
  obtain ⟨h2, f2, _⟩ := kick_remove_fold channel kicked x.w h hnd hmem
  unfold kickMain
  dsimp only
  rw [kick_msgs_w]
  · simp only [Ctx.modifyW_w, reply_foldl_w]
  · simp only [Ctx.modifyW_w, reply_foldl_w]
    intro n hn
    split at hn
    · rename_i C hC; exact h2.keys_are_users hC n hn
    · cases hn
  · simp only [Ctx.modifyW_w, reply_foldl_w]
    intro n hn
    rw [f2.contains]
    exact h.memberIsUser channel n (hmem n hn)

/-! ### JOIN: one insertion -/

/-- user-table part of one JOIN insertion -/
def joinUser (chn : Str) (u : User) : User :=
  { u with channels := KSet.insert chn u.channels, invitedTo := KSet.erase chn u.invitedTo }

/-- one iteration of the second loop of `process_join` -/
def joinOne (nick chn : Str) (create : Bool) (w : World) : World :=
  let w := { w with users := Map.modify nick (joinUser chn) w.users }
  if create then
    { w with channels := Map.insert chn (Channel.newOnUserJoin nick) w.channels }
  else
    match Map.lookup chn w.channels with
    | some ch => { w with channels := Map.insert chn (ch.addUser nick) w.channels }
    | none => w.panic "join: channel vanished"

theorem joinApply_cons (nick : Str) (join create : Bool) (ds : List (Bool × Bool)) (chn : Str)
    (chs : List Str) (w : World) :
    joinApply nick ((join, create) :: ds) (chn :: chs) w =
      joinApply nick ds chs (if join then joinOne nick chn create w else w) := rfl

theorem joinOne_users (nick chn : Str) (create : Bool) (w : World) :
    (joinOne nick chn create w).users = Map.modify nick (joinUser chn) w.users := by
  unfold joinOne
  cases create with
  | true => rfl
  | false =>
    dsimp only
    cases Map.lookup chn w.channels <;> rfl

theorem joinOne_frame (nick chn : Str) (create : Bool) (w : World) :
    Frame w (joinOne nick chn create w) := by
  have hu : ucore (joinOne nick chn create w).users = ucore w.users := by
    rw [joinOne_users]; exact ucore_modify nick _ w.users (fun u => ⟨rfl, rfl, rfl⟩)
  have hr : (joinOne nick chn create w).conns = w.conns ∧
      (joinOne nick chn create w).connsCount = w.connsCount ∧
      (joinOne nick chn create w).wallops = w.wallops ∧
      (joinOne nick chn create w).invisibleCount = w.invisibleCount ∧
      (joinOne nick chn create w).operatorsCount = w.operatorsCount ∧
      (joinOne nick chn create w).maxUsers = w.maxUsers := by
    unfold joinOne
    cases create with
    | true => exact ⟨rfl, rfl, rfl, rfl, rfl, rfl⟩
    | false =>
      dsimp only
      cases Map.lookup chn w.channels <;> exact ⟨rfl, rfl, rfl, rfl, rfl, rfl⟩
  obtain ⟨h1, h2, h3, h4, h5, h6⟩ := hr
  exact ⟨h1, h2, hu, h3, h4, h5, h6⟩

theorem joinOne_create (nick chn : Str) (w : World) :
    (joinOne nick chn true w).channels = Map.insert chn (Channel.newOnUserJoin nick) w.channels ∧
    (joinOne nick chn true w).panicked = w.panicked := ⟨rfl, rfl⟩

theorem joinOne_add {nick chn : Str} {w : World} {C : Channel} (h : Map.lookup chn w.channels = some C) :
    (joinOne nick chn false w).channels = Map.insert chn (C.addUser nick) w.channels ∧
    (joinOne nick chn false w).panicked = w.panicked := by
  unfold joinOne
  dsimp only
  rw [h]
  exact ⟨rfl, rfl⟩

/-- the flags `Channel::add_user` gives to `n` -/
def Channel.defaultChum (C : Channel) (n : Str) : ChanUserModes :=
  { halfOper := KSet.mem n C.defaultModes.halfOperators
    operator := KSet.mem n C.defaultModes.operators
    founder := KSet.mem n C.defaultModes.founders
    voice := KSet.mem n C.defaultModes.voices
    prot := KSet.mem n C.defaultModes.protecteds }

theorem Channel.addUser_users (C : Channel) (n : Str) :
    (C.addUser n).users = Map.insert n (Channel.defaultChum C n) C.users := rfl

theorem Channel.addUser_preconfigured (C : Channel) (n : Str) :
    (C.addUser n).preconfigured = C.preconfigured := rfl

theorem RankMirror.addUser {C : Channel} (h : RankMirror C) {n : Str} (hn : Map.lookup n C.users = none) :
    RankMirror (C.addUser n) where
  founders := rank_insert (p := (·.founder)) n (Channel.defaultChum C n) h.founders hn
  protecteds := rank_insert (p := (·.prot)) n (Channel.defaultChum C n) h.protecteds hn
  operators := rank_insert (p := (·.operator)) n (Channel.defaultChum C n) h.operators hn
  halfOperators := rank_insert (p := (·.halfOper)) n (Channel.defaultChum C n) h.halfOperators hn
  voices := rank_insert (p := (·.voice)) n (Channel.defaultChum C n) h.voices hn

theorem Channel.addUser_idem (C : Channel) (n : Str) : (C.addUser n).addUser n = C.addUser n := by
  unfold Channel.addUser
  simp only [Map.insert_idem]
  cases KSet.mem n C.defaultModes.halfOperators <;> cases KSet.mem n C.defaultModes.operators <;>
    cases KSet.mem n C.defaultModes.founders <;> cases KSet.mem n C.defaultModes.voices <;>
    cases KSet.mem n C.defaultModes.protecteds <;> simp [KSet.insert_idem]

theorem rankMirror_newOnUserJoin (n : Str) : RankMirror (Channel.newOnUserJoin n) := by
  have hl : ∀ m, Map.lookup m (Channel.newOnUserJoin n).users =
      if n = m then some ChanUserModes.createdChannel else none := fun m => rfl
  have hm : ∀ m, KSet.mem m [n] = decide (n = m) := by
    intro m; by_cases e : n = m <;> simp [KSet.mem, e]
  have he : ∀ m, KSet.mem m [] = false := fun m => rfl
  constructor <;> intro m
  · show KSet.mem m [n] = true ↔ _
    rw [hm, hl]; by_cases e : n = m <;> simp [e, ChanUserModes.createdChannel]
  · show KSet.mem m [] = true ↔ _
    rw [he, hl]; by_cases e : n = m <;> simp [e, ChanUserModes.createdChannel]
  · show KSet.mem m [n] = true ↔ _
    rw [hm, hl]; by_cases e : n = m <;> simp [e, ChanUserModes.createdChannel]
  · show KSet.mem m [] = true ↔ _
    rw [he, hl]; by_cases e : n = m <;> simp [e, ChanUserModes.createdChannel]
  · show KSet.mem m [] = true ↔ _
    rw [he, hl]; by_cases e : n = m <;> simp [e, ChanUserModes.createdChannel]

theorem KSet.insert_nodup (k : Str) (s : KSet) (h : s.Nodup) : (KSet.insert k s).Nodup := by
  unfold KSet.insert
  split
  · exact h
  · rename_i hm
    rw [List.nodup_append]
    refine ⟨h, by simp, ?_⟩
    intro a ha b hb
    simp only [List.mem_singleton] at hb
    subst hb
    intro e; subst e
    exact hm ((KSet.mem_iff _ _).mpr ha)

/-- common part of the two `joinOne` cases -/
theorem joinOne_memInv_aux {w : World} {nick chn : Str} {create : Bool} {C' : Channel} (h : MemInv w)
    (hn : Map.contains nick w.users = true)
    (hch : (joinOne nick chn create w).channels = Map.insert chn C' w.channels)
    (hp : (joinOne nick chn create w).panicked = w.panicked)
    (hnd : (Map.keys C'.users).Nodup) (hrm : RankMirror C') (hne : C'.users ≠ [])
    (hself : Map.contains nick C'.users = true)
    (hoth : ∀ m, m ≠ nick → Map.contains m C'.users = w.memOf chn m) :
    MemInv (joinOne nick chn create w) := by
  have hus := joinOne_users nick chn create w
  have hlk : Map.lookup chn (joinOne nick chn create w).channels = some C' := by
    rw [hch]; exact Map.lookup_insert_eq _ _ _
  refine h.update (ch := chn) (n := nick) ?_ ?_ ?_ ?_ ?_ ?_ ?_ ?_ ?_ ?_
  · rw [hp]; exact h.noPanic
  · rw [hch]; exact Map.keys_insert_nodup _ _ _ h.chansNodup
  · intro ch' hne'; rw [hch]; exact Map.lookup_insert_ne ch' chn _ _ (fun e => hne' e.symm)
  · intro m hne'
    rw [hus, Map.lookup_modify, if_neg (fun e => hne' e.symm)]
  · intro u' hu'
    rw [hus, Map.lookup_modify, if_pos rfl] at hu'
    cases hu : Map.lookup nick w.users with
    | none => rw [hu] at hu'; cases hu'
    | some u =>
      rw [hu] at hu'
      simp only [Option.map_some, Option.some.injEq] at hu'
      subst hu'
      refine ⟨u, rfl, fun hnd' => KSet.insert_nodup _ _ hnd', fun ch' hne' => ?_⟩
      show KSet.mem ch' (KSet.insert chn u.channels) = _
      rw [KSet.mem_insert]; simp [hne']
  · intro m hc; rw [hus, Map.contains_modify]; exact hc
  · intro C'' hC''
    rw [hlk] at hC''; cases hC''
    exact ⟨hnd, hrm, fun e => absurd e hne⟩
  · intro m hne'; rw [World.memOf_of_lookup hlk]; exact hoth m hne'
  · intro u' hu'
    rw [hus, Map.lookup_modify, if_pos rfl] at hu'
    rw [World.memOf_of_lookup hlk, hself]
    cases hu : Map.lookup nick w.users with
    | none => rw [hu] at hu'; cases hu'
    | some u =>
      rw [hu] at hu'
      simp only [Option.map_some, Option.some.injEq] at hu'
      subst hu'
      show KSet.mem chn (KSet.insert chn u.channels) = true ↔ _
      rw [KSet.mem_insert]; simp
  · intro _; exact hn

theorem joinOne_memInv_create {w : World} {nick chn : Str} (h : MemInv w)
    (hn : Map.contains nick w.users = true)
    (hc : ∀ m, m ≠ nick → w.memOf chn m = false) :
    MemInv (joinOne nick chn true w) ∧
    ∀ ch m, (joinOne nick chn true w).memOf ch m =
      (w.memOf ch m || (decide (ch = chn) && decide (m = nick))) := by
  have hcr := joinOne_create nick chn w
  have hlk : Map.lookup chn (joinOne nick chn true w).channels = some (Channel.newOnUserJoin nick) := by
    rw [hcr.1]; exact Map.lookup_insert_eq _ _ _
  have hoth : ∀ m, m ≠ nick → Map.contains m (Channel.newOnUserJoin nick).users = w.memOf chn m := by
    intro m hne
    rw [hc m hne]
    simp [Channel.newOnUserJoin, Map.contains, Map.lookup, Ne.symm hne]
  have hself : Map.contains nick (Channel.newOnUserJoin nick).users = true := by
    simp [Channel.newOnUserJoin, Map.contains, Map.lookup]
  refine ⟨joinOne_memInv_aux h hn hcr.1 hcr.2 ?_ (rankMirror_newOnUserJoin nick) ?_ hself hoth, ?_⟩
  · simp [Channel.newOnUserJoin, Map.keys]
  · simp [Channel.newOnUserJoin]
  · intro ch m
    by_cases e : ch = chn
    · subst e
      rw [World.memOf_of_lookup hlk]
      by_cases e2 : m = nick
      · subst e2; rw [hself]; simp
      · rw [hoth m e2]; simp [e2]
    · rw [World.memOf_congr (w := w)
        (by rw [hcr.1]; exact Map.lookup_insert_ne ch chn _ _ (fun x => e x.symm))]
      simp [e]

theorem joinOne_memInv_add {w : World} {nick chn : Str} {C : Channel} (h : MemInv w)
    (hn : Map.contains nick w.users = true)
    (hC : Map.lookup chn w.channels = some C)
    (hcase : Map.contains nick C.users = false ∨ C.addUser nick = C) :
    MemInv (joinOne nick chn false w) ∧
    ∀ ch m, (joinOne nick chn false w).memOf ch m =
      (w.memOf ch m || (decide (ch = chn) && decide (m = nick))) := by
  have hcr := joinOne_add (nick := nick) hC
  have hlk : Map.lookup chn (joinOne nick chn false w).channels = some (C.addUser nick) := by
    rw [hcr.1]; exact Map.lookup_insert_eq _ _ _
  have hoth : ∀ m, m ≠ nick → Map.contains m (C.addUser nick).users = w.memOf chn m := by
    intro m hne
    rw [World.memOf_of_lookup hC, Channel.addUser_users, Map.contains_insert]
    simp [hne]
  have hself : Map.contains nick (C.addUser nick).users = true := by
    rw [Channel.addUser_users, Map.contains_insert]; simp
  refine ⟨joinOne_memInv_aux h hn hcr.1 hcr.2 ?_ ?_ ?_ hself hoth, ?_⟩
  · rw [Channel.addUser_users]
    exact Map.keys_insert_nodup _ _ _ (h.membersNodup chn C hC)
  · rcases hcase with hc | hc
    · exact RankMirror.addUser (h.rankMirror chn C hC) ((Map.contains_false_iff _ _).mp hc)
    · rw [hc]; exact h.rankMirror chn C hC
  · intro e
    rw [e] at hself
    simp [Map.contains, Map.lookup] at hself
  · intro ch m
    by_cases e : ch = chn
    · subst e
      rw [World.memOf_of_lookup hlk]
      by_cases e2 : m = nick
      · subst e2; rw [hself]; simp
      · rw [hoth m e2]; simp [e2]
    · rw [World.memOf_congr (w := w)
        (by rw [hcr.1]; exact Map.lookup_insert_ne ch chn _ _ (fun x => e x.symm))]
      simp [e]

/-! ### JOIN: the insertion loop -/

/-- what the decision list of `joinDecide` guarantees (relative to the pre-state `w0`) -/
def DecOK (w0 : World) (nick : Str) : List (Bool × Bool) → List Str → Prop
  | (join, create) :: ds, chn :: chs =>
      (join = true → if create = true then Map.lookup chn w0.channels = none
                     else ∃ C0, Map.lookup chn w0.channels = some C0 ∧
                            Map.contains nick C0.users = false) ∧
      DecOK w0 nick ds chs
  | _, _ => True

/-- `ch` is a listed channel whose decision is `true` -/
def joined (ds : List (Bool × Bool)) (chs : List Str) (ch : Str) : Bool :=
  (ds.zip chs).any (fun p => p.1.1 && decide (p.2 = ch))

/-- loop invariant of `joinApply` relative to the pre-state `w0` -/
structure JoinInv (w0 : World) (nick : Str) (w : World) : Prop where
  fresh : ∀ ch, Map.lookup ch w0.channels = none → ∀ m, m ≠ nick → w.memOf ch m = false
  old : ∀ ch C0, Map.lookup ch w0.channels = some C0 → Map.contains nick C0.users = false →
    Map.lookup ch w.channels = some C0 ∨ Map.lookup ch w.channels = some (C0.addUser nick)

theorem JoinInv.init (w0 : World) (nick : Str) : JoinInv w0 nick w0 where
  fresh := fun _ h m _ => World.memOf_of_none h m
  old := fun _ _ h _ => Or.inl h

theorem joinApply_inv (w0 : World) (nick : Str) :
    ∀ (ds : List (Bool × Bool)) (chs : List Str) (w : World), DecOK w0 nick ds chs → MemInv w →
      Map.contains nick w.users = true → JoinInv w0 nick w →
      MemInv (joinApply nick ds chs w) ∧ Frame w (joinApply nick ds chs w) ∧
      ∀ ch m, (joinApply nick ds chs w).memOf ch m =
        (w.memOf ch m || (decide (m = nick) && joined ds chs ch)) := by
  intro ds
  induction ds with
  | nil =>
    intro chs w _ h _ _
    have e : joinApply nick [] chs w = w := by cases chs <;> rfl
    rw [e]
    exact ⟨h, Frame.refl _, fun ch m => by simp [joined]⟩
  | cons d ds ih =>
    intro chs w hd h hn hj
    obtain ⟨join, create⟩ := d
    cases chs with
    | nil =>
      have e : joinApply nick ((join, create) :: ds) [] w = w := rfl
      rw [e]
      exact ⟨h, Frame.refl _, fun ch m => by simp [joined]⟩
    | cons chn chs =>
      rw [joinApply_cons]
      obtain ⟨hd1, hd2⟩ := hd
      have hjoined : ∀ ch, joined ((join, create) :: ds) (chn :: chs) ch =
          ((join && decide (chn = ch)) || joined ds chs ch) := fun ch => by
        simp [joined]
      cases join with
      | false =>
        simp only [Bool.false_eq_true, ↓reduceIte]
        obtain ⟨i1, i2, i3⟩ := ih chs w hd2 h hn hj
        refine ⟨i1, i2, fun ch m => ?_⟩
        rw [i3, hjoined]; simp
      | true =>
        simp only [↓reduceIte]
        have hd1 := hd1 rfl
        have key : MemInv (joinOne nick chn create w) ∧ JoinInv w0 nick (joinOne nick chn create w) ∧
            ∀ ch m, (joinOne nick chn create w).memOf ch m =
              (w.memOf ch m || (decide (ch = chn) && decide (m = nick))) := by
          cases create with
          | true =>
            simp only [↓reduceIte] at hd1
            obtain ⟨m1, e1⟩ := joinOne_memInv_create h hn (hj.fresh chn hd1)
            refine ⟨m1, ⟨?_, ?_⟩, e1⟩
            · intro ch hch m hm
              rw [e1, hj.fresh ch hch m hm]; simp [hm]
            · intro ch C0 hch hc
              have hne : chn ≠ ch := by
                intro e; subst e; rw [hd1] at hch; cases hch
              rw [(joinOne_create nick chn w).1, Map.lookup_insert_ne ch chn _ _ hne]
              exact hj.old ch C0 hch hc
          | false =>
            simp only [Bool.false_eq_true, ↓reduceIte] at hd1
            obtain ⟨C0, hC0, hnc⟩ := hd1
            have hcur : ∃ C, Map.lookup chn w.channels = some C ∧
                (Map.contains nick C.users = false ∨ C.addUser nick = C) ∧
                C.addUser nick = C0.addUser nick := by
              rcases hj.old chn C0 hC0 hnc with hc | hc
              · exact ⟨C0, hc, Or.inl hnc, rfl⟩
              · exact ⟨C0.addUser nick, hc, Or.inr (Channel.addUser_idem _ _), Channel.addUser_idem _ _⟩
            obtain ⟨C, hC, hcase, hidem⟩ := hcur
            obtain ⟨m1, e1⟩ := joinOne_memInv_add h hn hC hcase
            refine ⟨m1, ⟨?_, ?_⟩, e1⟩
            · intro ch hch m hm
              rw [e1, hj.fresh ch hch m hm]; simp [hm]
            · intro ch C0' hch hc
              rw [(joinOne_add (nick := nick) hC).1]
              by_cases hne : chn = ch
              · subst hne
                rw [hC0] at hch; cases hch
                rw [Map.lookup_insert_eq, hidem]
                exact Or.inr rfl
              · rw [Map.lookup_insert_ne ch chn _ _ hne]
                exact hj.old ch C0' hch hc
        obtain ⟨m1, j1, e1⟩ := key
        have f1 := joinOne_frame nick chn create w
        obtain ⟨i1, i2, i3⟩ := ih chs _ hd2 m1 (by rw [f1.contains]; exact hn) j1
        refine ⟨i1, f1.trans i2, fun ch m => ?_⟩
        rw [i3, e1, hjoined]
        by_cases a : ch = chn
        · subst a; by_cases b : m = nick <;> simp [b]
        · have a' : ¬ chn = ch := fun e => a e.symm
          by_cases b : m = nick <;> simp [a, a', b]

/-! ### JOIN: the decision loop -/

theorem joinCheckExisting_true {ch : Channel} {chname : Str} {key : Option (Option Str)}
    {source nick client : Str} {inv : KSet}
    (h : (joinCheckExisting ch chname key source nick client inv).1 = true) :
    Map.contains nick ch.users = false := by
  unfold joinCheckExisting at h
  simp only [Bool.and_eq_true, Bool.not_eq_true'] at h
  exact h.2

theorem joinDecide_ok (cfg : Cfg) (w : World) (cn : Conn) (nick : Str) (inv : KSet) :
    ∀ (channels : List Str) (keys : List (Option Str)) (cnt : Nat),
      DecOK w nick (joinDecide cfg w cn nick inv channels keys cnt).1 channels := by
  intro channels
  induction channels with
  | nil => intro keys cnt; trivial
  | cons chn rest ih =>
    intro keys cnt
    unfold joinDecide
    dsimp only
    cases hl : Map.lookup chn w.channels with
    | none =>
      dsimp only
      cases hmj : cfg.maxJoins with
      | none =>
        dsimp only
        exact ⟨fun _ => by simp [hl], ih _ _⟩
      | some mj =>
        dsimp only
        exact ⟨fun _ => by simp [hl], ih _ _⟩
    | some C =>
      dsimp only
      cases hmj : cfg.maxJoins with
      | none =>
        dsimp only
        refine ⟨fun hj => ?_, ih _ _⟩
        simp only [Bool.false_eq_true, ↓reduceIte]
        exact ⟨C, hl, joinCheckExisting_true hj⟩
      | some mj =>
        dsimp only
        refine ⟨fun hj => ?_, ih _ _⟩
        simp only [Bool.false_eq_true, ↓reduceIte]
        simp only [Bool.and_eq_true] at hj
        exact ⟨C, hl, joinCheckExisting_true hj.1⟩

/-! ### JOIN: the announcement loop (and NAMES) -/

section
open Reply

theorem reply_foldl_w' {β : Type} (cfg : Cfg) (f : β → Str) (es : List β) (x : Ctx) :
    (es.foldl (fun x e => x.reply cfg (f e)) x).w = x.w := by
  induction es generalizing x with
  | nil => rfl
  | cons e es ih => simp only [List.foldl_cons]; rw [ih]; rfl

theorem ite_some_isNone {α : Type} (b : Bool) (a a' : α) :
    (if b = true then some a else some a').isNone = false := by cases b <;> rfl

theorem names_visible_ok (cn : Conn) (ch : Channel) (users : Map User) (inCh : Bool)
    (h : ∀ n, n ∈ Map.keys ch.users → Map.contains n users = true) :
    (ch.users.map (fun (p : Str × ChanUserModes) =>
      match Map.lookup p.1 users with
      | none => (none : Option (Str × Str))
      | some u => if (!u.modes.invisible || inCh) = true
                  then some (p.2.prefixStr cn.multiPrefix, p.1) else some ([], []))).any (·.isNone) = false := by
  rw [List.any_eq_false]
  intro o ho
  obtain ⟨⟨unick, chum⟩, hp, rfl⟩ := List.mem_map.mp ho
  have hk : unick ∈ Map.keys ch.users := List.mem_map.mpr ⟨(unick, chum), hp, rfl⟩
  obtain ⟨u, hu⟩ := (Map.contains_iff _ _).mp (h unick hk)
  dsimp only
  rw [hu]
  dsimp only
  rw [ite_some_isNone]
  simp

theorem namesLines_w (cfg : Cfg) (cn : Conn) (chname : Str) (ch : Channel) (users : Map User) (x : Ctx)
    (h : ∀ n, n ∈ Map.keys ch.users → Map.contains n users = true) :
    (namesLines cfg cn chname ch users x).w = x.w := by
  unfold namesLines
  dsimp only
  rw [reply_foldl_w']
  cases cn.nick with
  | none =>
    dsimp only
    split
    · rename_i hany
      exact Bool.noConfusion (hany.symm.trans (names_visible_ok cn ch users false h))
    · rfl
  | some n =>
    dsimp only
    split
    · rename_i hany
      exact Bool.noConfusion (hany.symm.trans (names_visible_ok cn ch users (Map.contains n ch.users) h))
    · rfl

theorem sendNamesFromChannel_w (cfg : Cfg) (c : Nat) (chname : Str) (ch : Channel) (e : Bool) (x : Ctx)
    (h : ∀ n, n ∈ Map.keys ch.users → Map.contains n x.w.users = true) :
    (sendNamesFromChannel cfg c chname ch e x).w = x.w := by
  have hnl := namesLines_w cfg (x.conn c) chname ch x.w.users x h
  unfold sendNamesFromChannel
  dsimp only
  generalize x.conn c = cn at hnl ⊢
  cases cn.nick <;> dsimp only <;> split <;> (try split) <;>
    first | rfl | exact hnl | (rw [Ctx.reply_w]; exact hnl)

theorem sendOthers_foldl_w (ns : List Str) (nick src t : Str) (x : Ctx)
    (h : ∀ n, n ∈ ns → Map.contains n x.w.users = true) :
    (ns.foldl (fun x n => if (n != nick) = true then x.sendDisplay n src t else x) x).w = x.w := by
  induction ns generalizing x with
  | nil => rfl
  | cons n ns ih =>
    simp only [List.foldl_cons]
    have h1 : (if (n != nick) = true then x.sendDisplay n src t else x).w = x.w := by
      split
      · exact Ctx.sendDisplay_w_eq x n src t (h n (List.mem_cons_self ..))
      · rfl
    rw [ih _ (by intro m hm; rw [h1]; exact h m (List.mem_cons_of_mem _ hm))]
    exact h1

/-- one iteration of the third loop of `process_join` -/
def announceOne (cfg : Cfg) (c : Nat) (nick : Str) (join : Bool) (chn : Str) (x : Ctx) : Ctx :=
  if join then
    match Map.lookup chn x.w.channels with
    | none => x.panic "join: channels.get(chname).unwrap"
    | some ch =>
      let cn := x.conn c
      let joinMsg := str "JOIN " ++ chn
      let x := x.replySrc cn.source joinMsg
      let x := match ch.topic with
        | some t => x.reply cfg (RplTopic332 cn.clientName chn t.topic)
        | none => x
      let x := sendNamesFromChannel cfg c chn ch true x
      (Map.keys ch.users).foldl (fun x n =>
        if n != nick then x.sendDisplay n cn.source joinMsg else x) x
  else x

theorem joinAnnounce_cons (cfg : Cfg) (c : Nat) (nick : Str) (join create : Bool)
    (ds : List (Bool × Bool)) (chn : Str) (chs : List Str) (x : Ctx) :
    joinAnnounce cfg c nick ((join, create) :: ds) (chn :: chs) x =
      joinAnnounce cfg c nick ds chs (announceOne cfg c nick join chn x) := rfl

theorem announceOne_w (cfg : Cfg) (c : Nat) (nick : Str) (join : Bool) (chn : Str) (x : Ctx)
    (h : MemInv x.w) (hc : join = true → Map.contains chn x.w.channels = true) :
    (announceOne cfg c nick join chn x).w = x.w := by
  unfold announceOne
  cases join with
  | false => rfl
  | true =>
    simp only [↓reduceIte]
    obtain ⟨C, hC⟩ := (Map.contains_iff _ _).mp (hc rfl)
    rw [hC]
    dsimp only
    have hk := h.keys_are_users hC
    have h1 : (match C.topic with
        | some t => (x.replySrc (x.conn c).source (str "JOIN " ++ chn)).reply cfg
            (RplTopic332 (x.conn c).clientName chn t.topic)
        | none => x.replySrc (x.conn c).source (str "JOIN " ++ chn)).w = x.w := by
      split <;> rfl
    rw [sendOthers_foldl_w, sendNamesFromChannel_w, h1]
    · rw [h1]; exact hk
    · rw [sendNamesFromChannel_w, h1]
      · exact hk
      · rw [h1]; exact hk

theorem joinAnnounce_w (cfg : Cfg) (c : Nat) (nick : Str) :
    ∀ (ds : List (Bool × Bool)) (chs : List Str) (x : Ctx), MemInv x.w →
      (∀ ch, joined ds chs ch = true → Map.contains ch x.w.channels = true) →
      (joinAnnounce cfg c nick ds chs x).w = x.w := by
  intro ds
  induction ds with
  | nil => intro chs x _ _; cases chs <;> rfl
  | cons d ds ih =>
    intro chs x h hj
    obtain ⟨join, create⟩ := d
    cases chs with
    | nil => rfl
    | cons chn chs =>
      rw [joinAnnounce_cons]
      have hjoined : ∀ ch, joined ((join, create) :: ds) (chn :: chs) ch =
          ((join && decide (chn = ch)) || joined ds chs ch) := fun ch => by
        simp [joined]
      have hstep := announceOne_w cfg c nick join chn x h
        (fun e => hj chn (by rw [hjoined, e]; simp))
      rw [ih chs _ (by rw [hstep]; exact h)
        (by rw [hstep]; intro ch hch; exact hj ch (by rw [hjoined, hch]; simp))]
      exact hstep

/-- the key list `process_join` hands to the decision loop -/
def joinKeyList (keys : Option (List Str)) : List (Option Str) :=
  match keys with
  | some ks => ks.map some
  | none => []

/-- the decision list of a JOIN by `nick` (user record `user`) in context `x` -/
def joinDecisions (cfg : Cfg) (c : Nat) (channels : List Str) (keys : Option (List Str)) (x : Ctx)
    (nick : Str) (user : User) : List (Bool × Bool) :=
  (joinDecide cfg x.w (x.conn c) nick user.invitedTo channels (joinKeyList keys) user.channels.length).1

theorem processJoin_eq (cfg : Cfg) (c : Nat) (channels : List Str) (keys : Option (List Str)) (x : Ctx) :
    processJoin cfg c channels keys x =
      match (x.conn c).nick with
      | none => x.panic "join: own nick unwrap"
      | some nick =>
        match Map.lookup nick x.w.users with
        | none => x.panic "join: users.get(nick).unwrap"
        | some user =>
          joinAnnounce cfg c nick (joinDecisions cfg c channels keys x nick user) channels
            (((joinDecide cfg x.w (x.conn c) nick user.invitedTo channels (joinKeyList keys)
                user.channels.length).2.1.foldl (fun x e => x.reply cfg e) x).modifyW
              (joinApply nick (joinDecisions cfg c channels keys x nick user) channels)) := rfl
end

end Irc.Memb
