/-
  Irc.InvProofs.ReadOnly — part E of the invariant-preservation proof: the handlers that only
  reply / queue lines.  For each handler `H`:
    `H_world_unchanged : (H ..).w = x.w`   (under `InvCore`, for a live authenticated sender
                                            where the handler looks the sender up)
    `invCore_H : InvCore (H ..).w ∧ SameConnIds x.w (H ..).w`
  plus the output facts `lusers_output`, `ison_output`, `userhost_output` used by C19.
-/
import Irc.InvProofs.ReadOnlyLemmas

namespace Irc

open Reply

variable {cfg : Cfg} {c : Nat} {x : Ctx}

/-- from "world unchanged" to the uniform preservation shape -/
theorem inv_of_w_eq {w w' : World} (h : InvCore w) (e : w' = w) :
    InvCore w' ∧ SameConnIds w w' := by
  subst e; exact ⟨h, SameConnIds.refl _⟩

/-! ### HConn: ISUPPORT, LUSERS, MOTD, unsupported, PING, AUTHENTICATE -/

theorem sendIsupport_world_unchanged {client : Str} : (sendIsupport cfg client x).w = x.w := by
  unfold sendIsupport
  exact foldl_reply_w cfg _ _ x

theorem unsupported_world_unchanged {client : Str} {command : String} :
    (unsupported cfg client command x).w = x.w := rfl

theorem processLusers_world_unchanged {client : Str} (h : InvCore x.w) :
    (processLusers cfg client x).w = x.w := by
  have hle : ¬ x.w.invisibleCount > x.w.users.length := by
    rw [h.invisibleCount]
    exact Nat.not_lt.mpr (List.length_filter_le _ _)
  simp only [processLusers, hle, ↓reduceIte, Ctx.reply_w]

theorem processMotd_world_unchanged {client : Str} {target : Option Str} :
    (processMotd cfg client target x).w = x.w := by
  unfold processMotd; split <;> rfl

theorem processPing_world_unchanged {token : Str} : (processPing cfg c token x).w = x.w := rfl

theorem processAuthenticate_world_unchanged : (processAuthenticate cfg c x).w = x.w := rfl

/-! ### HQuery: VERSION, ADMIN, TIME, STATS, LINKS, HELP, INFO -/

theorem processVersion_world_unchanged {target : Option Str} :
    (processVersion cfg c target x).w = x.w := by
  unfold processVersion
  split
  · rfl
  · simp only [sendIsupport_world_unchanged, Ctx.reply_w]

theorem processAdmin_world_unchanged {target : Option Str} :
    (processAdmin cfg c target x).w = x.w := by
  unfold processAdmin
  split
  · rfl
  · simp only []
    split <;> split <;> rfl

theorem processTime_world_unchanged {server : Option Str} :
    (processTime cfg c server x).w = x.w := by
  unfold processTime; split <;> rfl

theorem processLinks_world_unchanged {remote mask : Option Str} :
    (processLinks cfg c remote mask x).w = x.w := by
  unfold processLinks; split <;> rfl

theorem helpLines_w (client subject : Str) (i : Nat) (lines : List Str) (total : Nat) (x : Ctx) :
    (helpLines cfg client subject i lines total x).w = x.w := by
  induction lines generalizing i x with
  | nil => rfl
  | cons l ls ih =>
    simp only [helpLines]
    rw [ih]
    split
    · rfl
    · split <;> rfl

theorem processHelp_world_unchanged {subject : Option Str} :
    (processHelp cfg c subject x).w = x.w := by
  unfold processHelp
  simp only []
  split
  · exact helpLines_w ..
  · rfl

theorem processInfo_world_unchanged : (processInfo cfg c x).w = x.w := rfl

theorem processStats_world_unchanged {stat : Char} {server : Option Str}
    (h : InvCore x.w) (hl : Live x.w c) (ha : (x.conn c).authenticated = true) :
    (processStats cfg c stat server x).w = x.w := by
  obtain ⟨n, u, hn, hu, _⟩ := sender_user h hl ha
  unfold processStats
  simp only [hn, hu]
  split
  · rfl
  · split
    · simp only [Ctx.reply_w]
      split
      · rfl
      · split
        · apply foldl_w_eq
          intro y a _ _
          split <;> rfl
        · rfl
    · rfl

/-! ### HChannel: NAMES, LIST -/

theorem namesLines_w (cn : Conn) (chname : Str) (ch : Channel) (users : Map User) (x : Ctx)
    (hm : ∀ n, Map.contains n ch.users = true → Map.contains n users = true) :
    (namesLines cfg cn chname ch users x).w = x.w := by
  simp only [namesLines]
  rw [foldl_reply_w, any_isNone_false]
  · rfl
  · rintro ⟨n, m⟩ hp
    obtain ⟨u, hu⟩ := (Map.contains_iff _ _).mp (hm n (Map.contains_of_mem hp))
    simp only [hu]
    repeat' split
    all_goals rfl

theorem sendNamesFromChannel_w (chname : Str) (ch : Channel) (theEnd : Bool) (x : Ctx)
    (hm : ∀ n, Map.contains n ch.users = true → Map.contains n x.w.users = true) :
    (sendNamesFromChannel cfg c chname ch theEnd x).w = x.w := by
  simp only [sendNamesFromChannel]
  repeat' split
  all_goals first
    | rfl
    | exact namesLines_w _ _ _ _ _ hm
    | (simp only [Ctx.reply_w]; exact namesLines_w _ _ _ _ _ hm)

theorem processNames_world_unchanged {channels : List Str} (h : InvCore x.w) :
    (processNames cfg c channels x).w = x.w := by
  simp only [processNames]
  split
  · apply foldl_w_eq
    intro y chn hy _
    split
    · rename_i ch hch
      apply sendNamesFromChannel_w
      intro n hn
      rw [hy] at hch ⊢
      exact h.memberIsUser _ _ _ hch hn
    · rfl
  · simp only [Ctx.reply_w]
    apply foldl_w_eq
    intro y p hy hp
    obtain ⟨chn, ch⟩ := p
    apply sendNamesFromChannel_w
    intro n hn
    rw [hy]
    exact h.memberIsUser _ _ _ (Map.lookup_of_mem_nodup h.chansNodup hp) hn

theorem processList_world_unchanged {channels : List Str} {server : Option Str} :
    (processList cfg c channels server x).w = x.w := by
  simp only [processList]
  split
  · rfl
  · simp only [Ctx.reply_w]
    split
    · apply foldl_w_eq
      intro y chn _ _
      split
      · split <;> rfl
      · rfl
    · apply foldl_w_eq
      intro y p _ _
      split <;> rfl

/-! ### HRest: WHOWAS, USERHOST, ISON, WALLOPS -/

theorem processWhowas_world_unchanged {nickname : Str} {count : Option Nat} {server : Option Str} :
    (processWhowas cfg c nickname count server x).w = x.w := by
  simp only [processWhowas]
  split
  · rfl
  · simp only [Ctx.reply_w]
    split
    · apply foldl_w_eq
      intro y e _ _
      rfl
    · rfl

theorem processUserhost_world_unchanged {nicknames : List Str} :
    (processUserhost cfg c nicknames x).w = x.w := by
  simp only [processUserhost]
  apply foldl_w_eq
  intro y e _ _
  rfl

theorem processIson_world_unchanged {nicknames : List Str} :
    (processIson cfg c nicknames x).w = x.w := by
  simp only [processIson]
  apply foldl_w_eq
  intro y e _ _
  rfl

theorem processWallops_world_unchanged {msg : Message}
    (h : InvCore x.w) (hl : Live x.w c) (ha : (x.conn c).authenticated = true) :
    (processWallops cfg c msg x).w = x.w := by
  obtain ⟨n, u, hn, hu, _⟩ := sender_user h hl ha
  simp only [processWallops, hn, hu]
  split
  · apply Ctx.sendAll_w_eq
    intro m hm
    obtain ⟨u', hu', _⟩ := (h.wallopsSet m).mp ((KSet.mem_iff _ _).mpr hm)
    exact (Map.contains_iff _ _).mpr ⟨u', hu'⟩
  · rfl

/-! ### WHO -/

theorem sendWhoInfo_w (cn : Conn) (channel : Option (Str × ChanUserModes)) (userNick : Str)
    (user cmdUser : User) (x : Ctx) :
    (sendWhoInfo cfg cn channel userNick user cmdUser x).w = x.w := by
  unfold sendWhoInfo
  split <;> rfl

theorem processWho_world_unchanged {mask : Str}
    (h : InvCore x.w) (hl : Live x.w c) (ha : (x.conn c).authenticated = true) :
    (processWho cfg c mask x).w = x.w := by
  obtain ⟨n, u, hn, hu, _⟩ := sender_user h hl ha
  simp only [processWho, hn, hu, Ctx.reply_w]
  split
  · apply foldl_w_eq
    intro y p _ _
    split
    · exact sendWhoInfo_w ..
    · rfl
  · split
    · split
      · rename_i ch hch
        split
        · apply foldl_w_eq
          intro y p hy hp
          obtain ⟨m, chum⟩ := p
          have hc := h.memberIsUser _ _ _ hch (Map.contains_of_mem hp)
          obtain ⟨uu, huu⟩ := (Map.contains_iff _ _).mp hc
          simp only [hy, huu]
          exact (sendWhoInfo_w ..).trans hy
        · rfl
      · rfl
    · split
      · split
        · exact sendWhoInfo_w ..
        · rfl
      · rfl

/-! ### WHOIS -/
theorem whoisOne_w (cn : Conn) (user : User) (nick : Str) (x : Ctx) (h : InvCore x.w)
    (hk : Map.contains nick x.w.users = true) :
    (whoisOne cfg cn user nick x).w = x.w := by
  obtain ⟨au, hau⟩ := (Map.contains_iff _ _).mp hk
  simp only [whoisOne, hau]
  split
  · rfl
  · simp only [Ctx.reply_w, apply_ite Ctx.w, ite_self, foldl_reply_w]
    rw [any_isNone_false]
    · rfl
    · intro chn hchn
      obtain ⟨C, hC, hmem⟩ := (h.memberSym nick au chn hau).mp ((KSet.mem_iff _ _).mpr hchn)
      obtain ⟨chum, hchum⟩ := (Map.contains_iff _ _).mp hmem
      simp only [hC, hchum]
      split <;> rfl

theorem processWhois_world_unchanged {target : Option Str} {nickmasks : List Str}
    (h : InvCore x.w) (hl : Live x.w c) (ha : (x.conn c).authenticated = true) :
    (processWhois cfg c target nickmasks x).w = x.w := by
  obtain ⟨n, u, hn, hu, _⟩ := sender_user h hl ha
  simp only [processWhois]
  split
  · rfl
  · simp only [hn, hu, Ctx.reply_w]
    apply foldl_w_eq
    intro y m hy hm
    apply whoisOne_w
    · rw [hy]; exact h
    · rw [hy]
      rw [mem_dedup, List.mem_append] at hm
      rcases hm with hm | hm
      · have := (List.mem_filter.mp hm).2
        simp only [Bool.and_eq_true] at this
        exact this.2
      · split at hm
        · simp at hm
        · have := (List.mem_filter.mp hm).1
          exact (Map.contains_iff _ _).mpr ((Map.mem_keys_iff _ _).mp this)
end Irc
