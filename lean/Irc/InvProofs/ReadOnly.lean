/-
  Irc.InvProofs.ReadOnly — part E of the invariant-preservation proof: the handlers that only
  reply / queue lines.  For each handler `H`:
    `H_world_unchanged : (H ..).w = x.w`   (under `InvCore`, for a live authenticated sender
                                            where the handler looks the sender up)
    `invCore_H : InvCore (H ..).w ∧ SameConnIds x.w (H ..).w`
  plus the output facts `lusers_output`, `ison_output`, `userhost_output` used by C19.
-/
import Irc.InvProofs.ReadOnlyLemmas

namespace Irc

open Reply RO

variable {cfg : Cfg} {c : Nat} {x : Ctx}

/-- from "world unchanged" to the uniform preservation shape -/
theorem RO.inv_of_w_eq {w w' : World} (h : InvCore w) (e : w' = w) :
    InvCore w' ∧ SameConnIds w w' := by
  subst e; exact ⟨h, SameConnIds.refl _⟩

/-! ### HConn: ISUPPORT, LUSERS, MOTD, unsupported, PING, AUTHENTICATE -/

theorem sendIsupport_world_unchanged {client : Str} : (sendIsupport cfg client x).w = x.w := by
  unfold sendIsupport
  exact foldl_reply_w cfg _ _ x

theorem unsupported_world_unchanged {client : Str} {command : String} :
    (unsupported cfg client command x).w = x.w := rfl

theorem processLusers_world_unchanged {client : Str} (h : InvCore x.w) :
    (processLusers cfg client x).w = x.w := by
  have hle : ¬ x.w.invisibleCount > x.w.users.length := by
    rw [h.invisibleCount]
    exact Nat.not_lt.mpr (List.length_filter_le _ _)
  simp only [processLusers, hle, ↓reduceIte, Ctx.reply_w]

theorem processMotd_world_unchanged {client : Str} {target : Option Str} :
    (processMotd cfg client target x).w = x.w := by
  unfold processMotd; split <;> rfl

theorem processPing_world_unchanged {token : Str} : (processPing cfg c token x).w = x.w := rfl

theorem processAuthenticate_world_unchanged : (processAuthenticate cfg c x).w = x.w := rfl

/-! ### HQuery: VERSION, ADMIN, TIME, STATS, LINKS, HELP, INFO -/

theorem processVersion_world_unchanged {target : Option Str} :
    (processVersion cfg c target x).w = x.w := by
  unfold processVersion
  split
  · rfl
  · simp only [sendIsupport_world_unchanged, Ctx.reply_w]

theorem processAdmin_world_unchanged {target : Option Str} :
    (processAdmin cfg c target x).w = x.w := by
  unfold processAdmin
  split
  · rfl
  · simp only []
    split <;> split <;> rfl

theorem processTime_world_unchanged {server : Option Str} :
    (processTime cfg c server x).w = x.w := by
  unfold processTime; split <;> rfl

theorem processLinks_world_unchanged {remote mask : Option Str} :
    (processLinks cfg c remote mask x).w = x.w := by
  unfold processLinks; split <;> rfl

theorem RO.helpLines_w (client subject : Str) (i : Nat) (lines : List Str) (total : Nat) (x : Ctx) :
    (helpLines cfg client subject i lines total x).w = x.w := by
  induction lines generalizing i x with
  | nil => rfl
  | cons l ls ih =>
    simp only [helpLines]
    rw [ih]
    split
    · rfl
    · split <;> rfl

theorem processHelp_world_unchanged {subject : Option Str} :
    (processHelp cfg c subject x).w = x.w := by
  unfold processHelp
  simp only []
  split
  · exact helpLines_w ..
  · rfl

theorem processInfo_world_unchanged : (processInfo cfg c x).w = x.w := rfl

theorem processStats_world_unchanged {stat : Char} {server : Option Str}
    (h : InvCore x.w) (hl : Live x.w c) (ha : (x.conn c).authenticated = true) :
    (processStats cfg c stat server x).w = x.w := by
  obtain ⟨n, u, hn, hu, _⟩ := sender_user h hl ha
  unfold processStats
  simp only [hn, hu]
  split
  · rfl
  · split
    · simp only [Ctx.reply_w]
      split
      · rfl
      · split
        · apply foldl_w_eq
          intro y a _ _
          split <;> rfl
        · rfl
    · rfl

/-! ### HChannel: NAMES, LIST -/

theorem RO.namesLines_w (cn : Conn) (chname : Str) (ch : Channel) (users : Map User) (x : Ctx)
    (hm : ∀ n, Map.contains n ch.users = true → Map.contains n users = true) :
    (namesLines cfg cn chname ch users x).w = x.w := by
  simp only [namesLines]
  rw [foldl_reply_w, any_isNone_false]
  · rfl
  · rintro ⟨n, m⟩ hp
    obtain ⟨u, hu⟩ := (Map.contains_iff _ _).mp (hm n (map_contains_of_mem hp))
    simp only [hu]
    repeat' split
    all_goals rfl

theorem RO.sendNamesFromChannel_w (chname : Str) (ch : Channel) (theEnd : Bool) (x : Ctx)
    (hm : ∀ n, Map.contains n ch.users = true → Map.contains n x.w.users = true) :
    (sendNamesFromChannel cfg c chname ch theEnd x).w = x.w := by
  simp only [sendNamesFromChannel]
  repeat' split
  all_goals first
    | rfl
    | exact namesLines_w _ _ _ _ _ hm
    | (simp only [Ctx.reply_w]; exact namesLines_w _ _ _ _ _ hm)

theorem processNames_world_unchanged {channels : List Str} (h : InvCore x.w) :
    (processNames cfg c channels x).w = x.w := by
  simp only [processNames]
  split
  · apply foldl_w_eq
    intro y chn hy _
    split
    · rename_i ch hch
      apply sendNamesFromChannel_w
      intro n hn
      rw [hy] at hch ⊢
      exact h.memberIsUser _ _ _ hch hn
    · rfl
  · simp only [Ctx.reply_w]
    apply foldl_w_eq
    intro y p hy hp
    obtain ⟨chn, ch⟩ := p
    apply sendNamesFromChannel_w
    intro n hn
    rw [hy]
    exact h.memberIsUser _ _ _ (map_lookup_of_mem_nodup h.chansNodup hp) hn

theorem processList_world_unchanged {channels : List Str} {server : Option Str} :
    (processList cfg c channels server x).w = x.w := by
  simp only [processList]
  split
  · rfl
  · simp only [Ctx.reply_w]
    split
    · apply foldl_w_eq
      intro y chn _ _
      split
      · split <;> rfl
      · rfl
    · apply foldl_w_eq
      intro y p _ _
      split <;> rfl

/-! ### HRest: WHOWAS, USERHOST, ISON, WALLOPS -/

theorem processWhowas_world_unchanged {nickname : Str} {count : Option Nat} {server : Option Str} :
    (processWhowas cfg c nickname count server x).w = x.w := by
  simp only [processWhowas]
  split
  · rfl
  · simp only [Ctx.reply_w]
    split
    · apply foldl_w_eq
      intro y e _ _
      rfl
    · rfl

theorem processUserhost_world_unchanged {nicknames : List Str} :
    (processUserhost cfg c nicknames x).w = x.w := by
  simp only [processUserhost]
  apply foldl_w_eq
  intro y e _ _
  rfl

theorem processIson_world_unchanged {nicknames : List Str} :
    (processIson cfg c nicknames x).w = x.w := by
  simp only [processIson]
  apply foldl_w_eq
  intro y e _ _
  rfl

theorem processWallops_world_unchanged {msg : Message}
    (h : InvCore x.w) (hl : Live x.w c) (ha : (x.conn c).authenticated = true) :
    (processWallops cfg c msg x).w = x.w := by
  obtain ⟨n, u, hn, hu, _⟩ := sender_user h hl ha
  simp only [processWallops, hn, hu]
  split
  · apply Ctx.sendAll_w_eq
    intro m hm
    obtain ⟨u', hu', _⟩ := (h.wallopsSet m).mp ((KSet.mem_iff _ _).mpr hm)
    exact (Map.contains_iff _ _).mpr ⟨u', hu'⟩
  · rfl

/-! ### WHO -/

theorem RO.sendWhoInfo_w (cn : Conn) (channel : Option (Str × ChanUserModes)) (userNick : Str)
    (user cmdUser : User) (x : Ctx) :
    (sendWhoInfo cfg cn channel userNick user cmdUser x).w = x.w := by
  unfold sendWhoInfo
  split <;> rfl

theorem processWho_world_unchanged {mask : Str}
    (h : InvCore x.w) (hl : Live x.w c) (ha : (x.conn c).authenticated = true) :
    (processWho cfg c mask x).w = x.w := by
  obtain ⟨n, u, hn, hu, _⟩ := sender_user h hl ha
  simp only [processWho, hn, hu, Ctx.reply_w]
  split
  · apply foldl_w_eq
    intro y p _ _
    split
    · exact sendWhoInfo_w ..
    · rfl
  · split
    · split
      · rename_i ch hch
        split
        · apply foldl_w_eq
          intro y p hy hp
          obtain ⟨m, chum⟩ := p
          have hc := h.memberIsUser _ _ _ hch (map_contains_of_mem hp)
          obtain ⟨uu, huu⟩ := (Map.contains_iff _ _).mp hc
          simp only [hy, huu]
          exact (sendWhoInfo_w ..).trans hy
        · rfl
      · rfl
    · split
      · split
        · exact sendWhoInfo_w ..
        · rfl
      · rfl

/-! ### WHOIS -/
theorem RO.whoisOne_w (cn : Conn) (user : User) (nick : Str) (x : Ctx) (h : InvCore x.w)
    (hk : Map.contains nick x.w.users = true) :
    (whoisOne cfg cn user nick x).w = x.w := by
  obtain ⟨au, hau⟩ := (Map.contains_iff _ _).mp hk
  simp only [whoisOne, hau]
  split
  · rfl
  · simp only [Ctx.reply_w, apply_ite Ctx.w, ite_self, foldl_reply_w]
    rw [any_isNone_false]
    · rfl
    · intro chn hchn
      obtain ⟨C, hC, hmem⟩ := (h.memberSym nick au chn hau).mp ((KSet.mem_iff _ _).mpr hchn)
      obtain ⟨chum, hchum⟩ := (Map.contains_iff _ _).mp hmem
      simp only [hC, hchum]
      split <;> rfl

theorem processWhois_world_unchanged {target : Option Str} {nickmasks : List Str}
    (h : InvCore x.w) (hl : Live x.w c) (ha : (x.conn c).authenticated = true) :
    (processWhois cfg c target nickmasks x).w = x.w := by
  obtain ⟨n, u, hn, hu, _⟩ := sender_user h hl ha
  simp only [processWhois]
  split
  · rfl
  · simp only [hn, hu, Ctx.reply_w]
    apply foldl_w_eq
    intro y m hy hm
    apply whoisOne_w
    · rw [hy]; exact h
    · rw [hy]
      rw [mem_dedup, List.mem_append] at hm
      rcases hm with hm | hm
      · have := (List.mem_filter.mp hm).2
        simp only [Bool.and_eq_true] at this
        exact this.2
      · split at hm
        · simp at hm
        · have := (List.mem_filter.mp hm).1
          exact (Map.contains_iff _ _).mpr ((Map.mem_keys_iff _ _).mp this)
/-! ### PRIVMSG / NOTICE -/

theorem RO.privmsgTarget_w (nick : Str) (notice : Bool) (text target : Str) (x : Ctx) (h : InvCore x.w) :
    (privmsgTarget cfg c nick notice text target x).1.w = x.w := by
  simp only [privmsgTarget]
  generalize getPrivmsgTargetType target = p
  generalize ((if notice = true then str "NOTICE " else str "PRIVMSG ") ++ target ++ str " :" ++ text) = ms
  split
  · split
    · rename_i ch hch
      split
      · simp only []
        apply foldl_sendDisplay_w
        intro n hn
        apply h.memberIsUser _ _ _ hch
        split at hn
        · exact specialRecipients_members _ _ _ (h.rankMirror _ _ hch) n hn
        · have := (List.mem_filter.mp hn).1
          exact (Map.contains_iff _ _).mpr ((Map.mem_keys_iff _ _).mp this)
      · simp only []
        split <;> rfl
    · simp only []
      split <;> rfl
  · split
    · rename_i u hu
      have hk : Map.contains target x.w.users = true := (Map.contains_iff _ _).mpr ⟨u, hu⟩
      simp only []
      split
      · split
        · simp only [Ctx.reply_w]
          exact Ctx.sendDisplay_w_eq _ _ _ _ hk
        · exact Ctx.sendDisplay_w_eq _ _ _ _ hk
      · exact Ctx.sendDisplay_w_eq _ _ _ _ hk
    · simp only []
      split <;> rfl

theorem processPrivmsgNotice_world_unchanged {targets : List Str} {text : Str} {notice : Bool}
    (h : InvCore x.w) (hl : Live x.w c) (ha : (x.conn c).authenticated = true) :
    (processPrivmsgNotice cfg c targets text notice x).w = x.w := by
  obtain ⟨n, u, hn, hu, _⟩ := sender_user h hl ha
  simp only [processPrivmsgNotice, hn]
  have hw : ((dedup targets).foldl (fun (x : Ctx × Bool) t =>
      ((privmsgTarget cfg c n notice text t x.fst).fst,
        x.snd || (privmsgTarget cfg c n notice text t x.fst).snd)) (x, false)).fst.w = x.w := by
    apply foldl_proj_eq (fun (s : Ctx × Bool) => s.1.w)
    intro t a ht _
    simp only [] at ht ⊢
    apply privmsgTarget_w
    rw [ht]; exact h
  have hc : Map.contains n x.w.users = true := (Map.contains_iff _ _).mpr ⟨u, hu⟩
  simp only [hw, hc, Bool.not_true, Bool.and_false, Bool.false_eq_true, ↓reduceIte]
/-! ### the uniform preservation corollaries

The five corollaries for `sendIsupport`, `processLusers`, `processMotd`, `processPing`,
`processAuthenticate` live in namespace `Irc.RO` because `Irc.InvProofs.Registration` (part B, which
needs them for the welcome burst) already states theorems with the plain names. -/

theorem RO.invCore_sendIsupport {client : Str} (h : InvCore x.w) :
    InvCore (sendIsupport cfg client x).w ∧ SameConnIds x.w (sendIsupport cfg client x).w :=
  inv_of_w_eq h (sendIsupport_world_unchanged)

theorem invCore_unsupported {client : Str} {command : String} (h : InvCore x.w) :
    InvCore (unsupported cfg client command x).w ∧ SameConnIds x.w (unsupported cfg client command x).w :=
  inv_of_w_eq h (unsupported_world_unchanged)

theorem RO.invCore_processLusers {client : Str} (h : InvCore x.w) :
    InvCore (processLusers cfg client x).w ∧ SameConnIds x.w (processLusers cfg client x).w :=
  inv_of_w_eq h (processLusers_world_unchanged h)

theorem RO.invCore_processMotd {client : Str} {target : Option Str} (h : InvCore x.w) :
    InvCore (processMotd cfg client target x).w ∧ SameConnIds x.w (processMotd cfg client target x).w :=
  inv_of_w_eq h (processMotd_world_unchanged)

theorem RO.invCore_processPing {token : Str} (h : InvCore x.w) :
    InvCore (processPing cfg c token x).w ∧ SameConnIds x.w (processPing cfg c token x).w :=
  inv_of_w_eq h (processPing_world_unchanged)

theorem RO.invCore_processAuthenticate (h : InvCore x.w) :
    InvCore (processAuthenticate cfg c x).w ∧ SameConnIds x.w (processAuthenticate cfg c x).w :=
  inv_of_w_eq h (processAuthenticate_world_unchanged)

theorem invCore_processVersion {target : Option Str} (h : InvCore x.w) :
    InvCore (processVersion cfg c target x).w ∧ SameConnIds x.w (processVersion cfg c target x).w :=
  inv_of_w_eq h (processVersion_world_unchanged)

theorem invCore_processAdmin {target : Option Str} (h : InvCore x.w) :
    InvCore (processAdmin cfg c target x).w ∧ SameConnIds x.w (processAdmin cfg c target x).w :=
  inv_of_w_eq h (processAdmin_world_unchanged)

theorem invCore_processTime {server : Option Str} (h : InvCore x.w) :
    InvCore (processTime cfg c server x).w ∧ SameConnIds x.w (processTime cfg c server x).w :=
  inv_of_w_eq h (processTime_world_unchanged)

theorem invCore_processStats {stat : Char} {server : Option Str} (h : InvCore x.w) (hl : Live x.w c)
    (ha : (x.conn c).authenticated = true) :
    InvCore (processStats cfg c stat server x).w ∧ SameConnIds x.w (processStats cfg c stat server x).w :=
  inv_of_w_eq h (processStats_world_unchanged h hl ha)

theorem invCore_processLinks {remote mask : Option Str} (h : InvCore x.w) :
    InvCore (processLinks cfg c remote mask x).w ∧ SameConnIds x.w (processLinks cfg c remote mask x).w :=
  inv_of_w_eq h (processLinks_world_unchanged)

theorem invCore_processHelp {subject : Option Str} (h : InvCore x.w) :
    InvCore (processHelp cfg c subject x).w ∧ SameConnIds x.w (processHelp cfg c subject x).w :=
  inv_of_w_eq h (processHelp_world_unchanged)

theorem invCore_processInfo (h : InvCore x.w) :
    InvCore (processInfo cfg c x).w ∧ SameConnIds x.w (processInfo cfg c x).w :=
  inv_of_w_eq h (processInfo_world_unchanged)

theorem invCore_processNames {channels : List Str} (h : InvCore x.w) :
    InvCore (processNames cfg c channels x).w ∧ SameConnIds x.w (processNames cfg c channels x).w :=
  inv_of_w_eq h (processNames_world_unchanged h)

theorem invCore_processList {channels : List Str} {server : Option Str} (h : InvCore x.w) :
    InvCore (processList cfg c channels server x).w ∧ SameConnIds x.w (processList cfg c channels server x).w :=
  inv_of_w_eq h (processList_world_unchanged)

theorem invCore_processPrivmsgNotice {targets : List Str} {text : Str} {notice : Bool} (h : InvCore x.w) (hl : Live x.w c)
    (ha : (x.conn c).authenticated = true) :
    InvCore (processPrivmsgNotice cfg c targets text notice x).w ∧ SameConnIds x.w (processPrivmsgNotice cfg c targets text notice x).w :=
  inv_of_w_eq h (processPrivmsgNotice_world_unchanged h hl ha)

theorem invCore_processWho {mask : Str} (h : InvCore x.w) (hl : Live x.w c)
    (ha : (x.conn c).authenticated = true) :
    InvCore (processWho cfg c mask x).w ∧ SameConnIds x.w (processWho cfg c mask x).w :=
  inv_of_w_eq h (processWho_world_unchanged h hl ha)

theorem invCore_processWhois {target : Option Str} {nickmasks : List Str} (h : InvCore x.w) (hl : Live x.w c)
    (ha : (x.conn c).authenticated = true) :
    InvCore (processWhois cfg c target nickmasks x).w ∧ SameConnIds x.w (processWhois cfg c target nickmasks x).w :=
  inv_of_w_eq h (processWhois_world_unchanged h hl ha)

theorem invCore_processWhowas {nickname : Str} {count : Option Nat} {server : Option Str} (h : InvCore x.w) :
    InvCore (processWhowas cfg c nickname count server x).w ∧ SameConnIds x.w (processWhowas cfg c nickname count server x).w :=
  inv_of_w_eq h (processWhowas_world_unchanged)

theorem invCore_processUserhost {nicknames : List Str} (h : InvCore x.w) :
    InvCore (processUserhost cfg c nicknames x).w ∧ SameConnIds x.w (processUserhost cfg c nicknames x).w :=
  inv_of_w_eq h (processUserhost_world_unchanged)

theorem invCore_processWallops {msg : Message} (h : InvCore x.w) (hl : Live x.w c)
    (ha : (x.conn c).authenticated = true) :
    InvCore (processWallops cfg c msg x).w ∧ SameConnIds x.w (processWallops cfg c msg x).w :=
  inv_of_w_eq h (processWallops_world_unchanged h hl ha)

theorem invCore_processIson {nicknames : List Str} (h : InvCore x.w) :
    InvCore (processIson cfg c nicknames x).w ∧ SameConnIds x.w (processIson cfg c nicknames x).w :=
  inv_of_w_eq h (processIson_world_unchanged)

/-! ### output facts (for C19) -/

/-- a server-originated line: `":" ++ cfg.name ++ " " ++ t` -/
def srvLine (cfg : Cfg) (t : Str) : Str := str ":" ++ cfg.name ++ str " " ++ t

theorem srvLine_eq (cfg : Cfg) (t : Str) : srvLine cfg t = ':' :: (cfg.name ++ ' ' :: t) := by
  simp [srvLine, str]

theorem lusers_output {client : Str} :
    (processLusers cfg client x).direct = x.direct ++
      [ srvLine cfg (RplLUserClient251 client (x.w.users.length - x.w.invisibleCount) x.w.invisibleCount 1),
        srvLine cfg (RplLUserOp252 client x.w.operatorsCount),
        srvLine cfg (RplLUserUnknown253 client 0),
        srvLine cfg (RplLUserChannels254 client x.w.channels.length),
        srvLine cfg (RplLUserMe255 client x.w.users.length 1),
        srvLine cfg (RplLocalUsers265 client x.w.users.length x.w.maxUsers),
        srvLine cfg (RplGlobalUsers266 client x.w.users.length x.w.maxUsers) ] := by
  simp only [processLusers, srvLine_eq, Ctx.reply_direct, List.append_assoc, List.cons_append, List.nil_append]
  split <;> rfl

theorem ison_output_chunks {nicknames : List Str} :
    (processIson cfg c nicknames x).direct = x.direct ++
      (chunks 20 nicknames).map (fun nicks => srvLine cfg
        (RplIson303 (x.conn c).clientName (nicks.filter (fun n => Map.contains n x.w.users)))) := by
  simp only [processIson, srvLine_eq]
  exact foldl_reply_dep_direct cfg
    (fun w (nicks : List Str) => RplIson303 (x.conn c).clientName (nicks.filter (fun n => Map.contains n w.users))) _ x

theorem ison_output {nicknames : List Str} (hne : nicknames ≠ []) (hlen : nicknames.length ≤ 20) :
    (processIson cfg c nicknames x).direct = x.direct ++
      [srvLine cfg (RplIson303 (x.conn c).clientName
        (nicknames.filter (fun n => Map.contains n x.w.users)))] := by
  rw [ison_output_chunks, chunks_le 20 nicknames hlen hne]
  rfl

/-- one USERHOST reply entry: `nick[*]=±~name@host` -/
def userhostEntry (n : Str) (u : User) : Str :=
  n ++ (if u.modes.isLocalOper then str "*" else []) ++ str "=" ++
    (if u.away.isSome then str "-" else str "+") ++ str "~" ++ u.name ++ str "@" ++ u.hostname

def userhostEntries (users : Map User) (nicks : List Str) : List Str :=
  nicks.filterMap (fun n => (Map.lookup n users).map (userhostEntry n))

theorem userhost_output_chunks {nicknames : List Str} :
    (processUserhost cfg c nicknames x).direct = x.direct ++
      (chunks 20 nicknames).map (fun nicks => srvLine cfg
        (RplUserHost302 (x.conn c).clientName (userhostEntries x.w.users nicks))) := by
  simp only [processUserhost, srvLine_eq]
  have := foldl_reply_dep_direct cfg
    (fun w (nicks : List Str) => RplUserHost302 (x.conn c).clientName (userhostEntries w.users nicks)) (chunks 20 nicknames) x
  rw [← this]
  congr 2
  funext y nicks
  congr 2
  unfold userhostEntries
  congr 1
  funext n
  cases Map.lookup n y.w.users with
  | none => rfl
  | some u =>
    simp only [Option.map_some, userhostEntry, str]
    cases u.away <;> simp

/-- the nicks listed over all 303 lines, in order, are exactly the queried nicks that are users -/
theorem ison_listed (users : Map User) (nicknames : List Str) :
    ((chunks 20 nicknames).map (fun nicks => nicks.filter (fun n => Map.contains n users))).flatten =
      nicknames.filter (fun n => Map.contains n users) := by
  rw [← List.filter_flatten, chunks_flatten 20 (by decide)]

theorem userhost_output {nicknames : List Str} (hne : nicknames ≠ []) (hlen : nicknames.length ≤ 20) :
    (processUserhost cfg c nicknames x).direct = x.direct ++
      [srvLine cfg (RplUserHost302 (x.conn c).clientName (userhostEntries x.w.users nicknames))] := by
  rw [userhost_output_chunks, chunks_le 20 nicknames hlen hne]
  rfl

/-- the entries over all 302 lines, in order, are exactly the entries of the queried nicks that are users -/
theorem userhost_listed (users : Map User) (nicknames : List Str) :
    ((chunks 20 nicknames).map (userhostEntries users)).flatten = userhostEntries users nicknames := by
  unfold userhostEntries
  rw [← List.filterMap_flatten, chunks_flatten 20 (by decide)]

/-- a nick is listed iff it is queried and a key of `users` -/
theorem mem_userhostEntries (users : Map User) (nicks : List Str) (e : Str) :
    e ∈ userhostEntries users nicks ↔
      ∃ n u, n ∈ nicks ∧ Map.lookup n users = some u ∧ e = userhostEntry n u := by
  simp only [userhostEntries, List.mem_filterMap, Option.map_eq_some_iff]
  constructor
  · rintro ⟨n, hn, u, hu, rfl⟩; exact ⟨n, u, hn, hu, rfl⟩
  · rintro ⟨n, u, hn, hu, rfl⟩; exact ⟨n, hn, u, hu, rfl⟩

/-! ### non-vacuity: the hypotheses are satisfiable (world `RO.Ex.w`: users alice (connection 1,
invisible operator with +w, away) and bob (connection 2), both on `#c`) and the handlers do
produce output there -/

example : InvCore Ex.x.w ∧ Live Ex.x.w 1 ∧ (Ex.x.conn 1).authenticated = true :=
  ⟨Ex.inv, Ex.live1, Ex.auth1⟩

example : (processLusers Ex.cfg (str "alice") Ex.x).w = Ex.x.w :=
  processLusers_world_unchanged Ex.inv
example : (processLusers Ex.cfg (str "alice") Ex.x).direct.map String.ofList =
    [":irc.irc 251 alice :There are 1 users and 1 invisible on 1 servers",
     ":irc.irc 252 alice 1 :operator(s) online", ":irc.irc 253 alice 0 :unknown connection(s)",
     ":irc.irc 254 alice 1 :channels formed", ":irc.irc 255 alice :I have 2 clients and 1 servers",
     ":irc.irc 265 alice 2 2 :Current local users 2, max 2",
     ":irc.irc 266 alice 2 2 :Current global users 2, max 2"] := by decide
example : (processStats Ex.cfg 1 'u' none Ex.x).direct.length = 2 := by decide
example : (processNames Ex.cfg 1 [] Ex.x).direct.length = 2 := by decide
example : (processNames Ex.cfg 1 [Ex.chan] Ex.x).direct.length = 2 := by decide
example : (processWho Ex.cfg 1 Ex.chan Ex.x).direct.length = 3 := by decide
example : (processWhois Ex.cfg 1 none [Ex.bob, str "a*"] Ex.x).direct.length = 12 := by decide
example : (processPrivmsgNotice Ex.cfg 1 [Ex.chan] (str "hi") false Ex.x).queued =
    [(2, str ":alice!~al@h1 PRIVMSG #c :hi")] := by decide
example : (processPrivmsgNotice Ex.cfg 1 [str "+#c", Ex.bob] (str "hi") true Ex.x).queued.length = 2 := by
  decide
example : (processWallops Ex.cfg 1 ⟨none, str "WALLOPS", [str "x"]⟩ Ex.x).queued.length = 1 := by decide
example : (processIson Ex.cfg 1 [Ex.bob, str "zed", Ex.alice] Ex.x).direct.map String.ofList =
    [":irc.irc 303 alice :bob alice"] := by decide
example : (processUserhost Ex.cfg 1 [Ex.bob, str "zed", Ex.alice] Ex.x).direct.map String.ofList =
    [":irc.irc 302 alice :bob=+~bo@h2 alice*=-~al@h1"] := by decide
/-- the guard of LUSERS is a real one: without the invariant the subtraction does underflow -/
example : (processLusers Ex.cfg (str "a") { w := { invisibleCount := 1 } }).w.panicked ≠ none := by decide

end Irc
