/-
  Irc.InvProofs.Modes — part D of the invariant-preservation proof: MODE (channel and user),
  OPER, TOPIC, INVITE, AWAY, KILL, DIE, SQUIT.
-/
import Irc.InvProofs.ModesLemmas

namespace Irc
open Modes

variable {cfg : Cfg} {c : Nat} {x : Ctx}

/-! ### AWAY -/

theorem invCore_processAway {text : Option Str} (h : InvCore x.w) (hl : Live x.w c)
    (ha : (x.conn c).authenticated = true) :
    InvCore (processAway cfg c text x).w ∧ SameConnIds x.w (processAway cfg c text x).w := by
  obtain ⟨n, u, hn, hu, _⟩ := sender_user h hl ha
  have hcont := Map.contains_of_lookup hu
  have key : (processAway cfg c text x).w =
      { x.w with users := Map.modify n (fun u => { u with away := text }) x.w.users } := by
    unfold processAway
    simp only [hn, hcont]
    cases text <;> rfl
  rw [key]
  exact invCore_user_modify h hu _ rfl rfl rfl rfl rfl rfl rfl rfl rfl rfl rfl rfl rfl

/-! ### INVITE -/

theorem invCore_processInvite {nickname channel : Str} {msg : Message} (h : InvCore x.w)
    (hl : Live x.w c) (ha : (x.conn c).authenticated = true) :
    InvCore (processInvite cfg c nickname channel msg x).w ∧
      SameConnIds x.w (processInvite cfg c nickname channel msg x).w := by
  obtain ⟨n, u, hn, hu, _⟩ := sender_user h hl ha
  unfold processInvite
  simp only [hn]
  split
  · split
    · split
      · exact invCore_of_w_eq h rfl
      · split
        · exact invCore_of_w_eq h rfl
        · split
          · rename_i v hv
            rw [Ctx.send_w_eq]
            · exact invCore_user_modify h hv _ rfl rfl rfl rfl rfl rfl rfl rfl rfl rfl rfl rfl rfl
            · simp only [Ctx.reply_w, Ctx.modifyW_w]
              rw [Map.contains_modify]; exact Map.contains_of_lookup hv
          · exact invCore_of_w_eq h rfl
    · exact invCore_of_w_eq h rfl
  · exact invCore_of_w_eq h rfl

/-! ### TOPIC -/

theorem Modes.rankMirror_of_eq {C C' : Channel} (h : RankMirror C) (hm : C'.modes = C.modes)
    (hu : C'.users = C.users) : RankMirror C' := by
  obtain ⟨a, b, c, d, e⟩ := h
  constructor <;> rw [hm, hu] <;> assumption

theorem invCore_processTopic {channel : Str} {topic : Option Str} {msg : Message}
    (h : InvCore x.w) (hl : Live x.w c) (ha : (x.conn c).authenticated = true) :
    InvCore (processTopic cfg c channel topic msg x).w ∧
      SameConnIds x.w (processTopic cfg c channel topic msg x).w := by
  obtain ⟨n, u, hn, hu, _⟩ := sender_user h hl ha
  unfold processTopic
  simp only [hn]
  cases topic with
  | none => simp only; repeat' split
            all_goals exact invCore_of_w_eq h rfl
  | some t =>
    simp only
    cases hch : Map.lookup channel x.w.channels with
    | none => exact invCore_of_w_eq h rfl
    | some ch =>
      simp only
      cases hchum : Map.lookup n ch.users with
      | none => exact invCore_of_w_eq h rfl
      | some chum =>
        simp only
        split
        · rw [Ctx.sendAll_w_eq]
          · refine ⟨?_, sameConnIds_of_conns rfl⟩
            refine invCore_channel_update h hch ?_ ?_ ?_ rfl rfl rfl rfl rfl rfl rfl rfl rfl
            · rfl
            · exact rankMirror_of_eq (h.rankMirror _ _ hch) rfl rfl
            · rfl
          · intro m hm
            have := (Map.mem_keys_iff m ch.users).mp hm
            exact h.memberIsUser channel ch m hch ((Map.contains_iff _ _).mpr this)
        · exact invCore_of_w_eq h rfl

/-! ### OPER -/

/-- the world after a successful OPER -/
theorem Modes.invCore_oper_world {w : World} (h : InvCore w) {n : Str} {u : User}
    (hu : Map.lookup n w.users = some u) :
    let w1 : World := { w with users := Map.insert n { u with modes := { u.modes with oper := true } } w.users }
    let w' : World := if !u.modes.isLocalOper then { w1 with operatorsCount := w1.operatorsCount + 1 } else w1
    InvCore w' ∧ SameConnIds w w' := by
  intro w1 w'
  have hcn : w'.conns = w.conns := by
    simp only [w', w1]; split <;> rfl
  refine ⟨?_, sameConnIds_of_conns hcn⟩
  refine invCore_user_update h hu (u' := { u with modes := { u.modes with oper := true } })
    rfl rfl ?_ ?_ ?_ ?_ hcn ?_ ?_ ?_ ?_ ?_
  · intro hk; exact h.killedFlagged n u hu hk
  · rw [← Map.insert_eq_modify _ _ _ (Map.contains_of_lookup hu)]
    simp only [w', w1]; split <;> rfl
  · simp only [w', w1]; split <;> rfl
  · simp only [w', w1]; split <;> rfl
  · simp only [w', w1]; split <;> rfl
  · simp only [w', w1]; split <;> rfl
  · simp only [w', w1]; split <;> rfl
  · rcases Bool.eq_false_or_eq_true u.modes.localOper with h1 | h1 <;>
      rcases Bool.eq_false_or_eq_true u.modes.oper with h2 | h2 <;>
      simp [w', w1, UserModes.isLocalOper, h1, h2]
  · intro k
    have : w'.wallops = w.wallops := by simp only [w', w1]; split <;> rfl
    rw [this]
    by_cases e : k = n
    · subst e; simp only [↓reduceIte]
      rw [h.wallopsSet k]
      constructor
      · rintro ⟨v, hv, hw'⟩; rw [hu] at hv; cases hv; exact hw'
      · intro hw'; exact ⟨u, hu, hw'⟩
    · simp [e]

theorem invCore_processOper {name password : Str} (h : InvCore x.w) (hl : Live x.w c)
    (ha : (x.conn c).authenticated = true) :
    InvCore (processOper cfg c name password x).w ∧
      SameConnIds x.w (processOper cfg c name password x).w := by
  obtain ⟨n, u, hn, hu, _⟩ := sender_user h hl ha
  unfold processOper
  simp only [hn, hu]
  repeat' split
  all_goals first
    | exact invCore_of_w_eq h rfl
    | (rename_i hb; have := invCore_oper_world h hu; simp only [hb, ↓reduceIte] at this; exact this)

/-! ### KILL / DIE / SQUIT -/

theorem Modes.invCore_fireKill {w : World} (killer comment nick : Str) (h : InvCore w) :
    InvCore (fireKill killer comment nick w) ∧ SameConnIds w (fireKill killer comment nick w) := by
  unfold fireKill
  cases hu : Map.lookup nick w.users with
  | none => exact ⟨h, SameConnIds.refl _⟩
  | some u =>
    simp only
    split
    · exact ⟨h, SameConnIds.refl _⟩
    · obtain ⟨cn0, hm0, hid0, _⟩ := h.userOwned nick u hu
      obtain ⟨cn, hcn, hm, hid⟩ := conn?_of_live (w := w) ⟨cn0, hm0, hid0⟩
      have e : World.conn? { w with users := Map.insert nick { u with killed := true } w.users } u.owner
          = some cn := hcn
      rw [e]
      simp only
      obtain ⟨h2, hs2⟩ := invCore_setConn_killedBy h hm (some (killer, comment)) (fun _ => rfl)
      refine ⟨?_, hs2⟩
      refine invCore_user_update h2 (n := nick) (u := u) (u' := { u with killed := true }) hu rfl rfl
        ?_ ?_ rfl rfl rfl rfl rfl (by rfl) (by rfl) ?_
      · intro _
        have := setConn_mem (cn' := { cn with killedBy := some (killer, comment) }) hm
        simp only [↓reduceIte] at this
        exact ⟨_, this, hid, Or.inl rfl⟩
      · show Map.insert nick _ w.users = _
        rw [Map.insert_eq_modify _ _ _ (Map.contains_of_lookup hu)]
        rfl
      · intro k
        show KSet.mem k w.wallops = true ↔ _
        by_cases e : k = nick
        · subst e; simp only [↓reduceIte]
          rw [h.wallopsSet k]
          constructor
          · rintro ⟨v, hv, hw'⟩; rw [hu] at hv; cases hv; exact hw'
          · intro hw'; exact ⟨u, hu, hw'⟩
        · simp [e]

theorem Modes.invCore_fireKill_fold {w : World} (killer comment : Str) (ns : List Str) (h : InvCore w) :
    InvCore (ns.foldl (fun w n => fireKill killer comment n w) w) ∧
      SameConnIds w (ns.foldl (fun w n => fireKill killer comment n w) w) := by
  induction ns generalizing w with
  | nil => exact ⟨h, SameConnIds.refl _⟩
  | cons n ns ih =>
    simp only [List.foldl_cons]
    obtain ⟨h1, s1⟩ := invCore_fireKill killer comment n h
    obtain ⟨h2, s2⟩ := ih h1
    exact ⟨h2, s1.trans s2⟩

theorem invCore_processKill {nickname comment : Str} (h : InvCore x.w) (hl : Live x.w c)
    (ha : (x.conn c).authenticated = true) :
    InvCore (processKill cfg c nickname comment x).w ∧
      SameConnIds x.w (processKill cfg c nickname comment x).w := by
  obtain ⟨n, u, hn, hu, _⟩ := sender_user h hl ha
  unfold processKill
  simp only [hn, hu]
  repeat' split
  all_goals first
    | exact invCore_of_w_eq h rfl
    | exact invCore_fireKill _ _ _ h

theorem invCore_processDie {message : Option Str} (h : InvCore x.w) (hl : Live x.w c)
    (ha : (x.conn c).authenticated = true) :
    InvCore (processDie cfg c message x).w ∧ SameConnIds x.w (processDie cfg c message x).w := by
  obtain ⟨n, u, hn, hu, _⟩ := sender_user h hl ha
  unfold processDie
  simp only [hn, hu]
  split
  · obtain ⟨h1, s1⟩ := invCore_fireKill_fold n (message.getD (str "Quitting from DIE"))
      (Map.keys x.w.users) h
    exact ⟨invCore_of_fields h1 rfl rfl rfl rfl rfl rfl rfl rfl rfl, s1⟩
  · exact invCore_of_w_eq h rfl

theorem invCore_processSquit {server comment : Str} (h : InvCore x.w) (hl : Live x.w c)
    (ha : (x.conn c).authenticated = true) :
    InvCore (processSquit cfg c server comment x).w ∧
      SameConnIds x.w (processSquit cfg c server comment x).w := by
  unfold processSquit
  split
  · exact invCore_of_w_eq h rfl
  · exact invCore_processDie h hl ha

/-! ### MODE (user) -/

theorem Modes.umode_fold_inv {cn : Conn} {w0 : World} {target : Str} {ui uo : Nat}
    (hbi : ui ≤ w0.invisibleCount) (hbo : uo ≤ w0.operatorsCount)
    (modes : List (Str × List Str)) {a : UModeAcc} (h : UAccInv w0 target ui uo a) :
    UAccInv w0 target ui uo (modes.foldl (fun a g =>
        g.1.foldl (umodeChar cfg cn target) { a with modeSet := false }) a) := by
  induction modes generalizing a with
  | nil => exact h
  | cons g gs ih =>
    simp only [List.foldl_cons]
    apply ih
    have h0 : UAccInv w0 target ui uo { a with modeSet := false } :=
      ⟨h.1, h.2, h.3, h.4, h.5, h.6, h.7, h.8, h.9⟩
    generalize ({ a with modeSet := false } : UModeAcc) = b at h0
    induction g.1 generalizing b with
    | nil => exact h0
    | cons ch cs ih2 => simp only [List.foldl_cons]; exact ih2 _ (umodeChar_inv hbi hbo h0 ch)

theorem invCore_processModeUser {target : Str} {modes : List (Str × List Str)} {u : User}
    (h : InvCore x.w) (hu : Map.lookup target x.w.users = some u) :
    InvCore (processModeUser cfg c target modes x).w ∧
      SameConnIds x.w (processModeUser cfg c target modes x).w := by
  unfold processModeUser
  simp only [hu]
  split
  · exact invCore_of_w_eq h rfl
  · have hbi : u.modes.invisible.toNat ≤ x.w.invisibleCount := by
      rw [h.invisibleCount]
      rcases Bool.eq_false_or_eq_true u.modes.invisible with e | e
      · have := Map.filter_pos_of_lookup (fun v : User => v.modes.invisible) target _ u hu e
        rw [e]; exact this
      · rw [e]; exact Nat.zero_le _
    have hbo : u.modes.isLocalOper.toNat ≤ x.w.operatorsCount := by
      rw [h.operatorsCount]
      rcases Bool.eq_false_or_eq_true u.modes.isLocalOper with e | e
      · have := Map.filter_pos_of_lookup (fun v : User => v.modes.isLocalOper) target _ u hu e
        rw [e]; exact this
      · rw [e]; exact Nat.zero_le _
    have h0 : UAccInv x.w target u.modes.invisible.toNat u.modes.isLocalOper.toNat
        { x := x, modes := u.modes } := by
      refine ⟨rfl, rfl, rfl, rfl, rfl, rfl, rfl, rfl, ?_⟩
      intro k
      by_cases e : k = target
      · subst e; simp only [↓reduceIte]
        rw [h.wallopsSet k]
        constructor
        · rintro ⟨v, hv, hw'⟩; rw [hu] at hv; cases hv; exact hw'
        · intro hw'; exact ⟨u, hu, hw'⟩
      · simp [e]
    have hf := umode_fold_inv (cfg := cfg) (cn := x.conn c) hbi hbo modes h0
    generalize (modes.foldl (fun a g =>
        g.1.foldl (umodeChar cfg (x.conn c) target) { a with modeSet := false })
        ({ x := x, modes := u.modes } : UModeAcc)) = a at hf
    have key : InvCore ({ a.x.w with users := Map.modify target (fun u => { u with modes := a.modes }) a.x.w.users } : World) ∧
        SameConnIds x.w { a.x.w with users := Map.modify target (fun u => { u with modes := a.modes }) a.x.w.users } := by
      refine ⟨?_, sameConnIds_of_conns hf.conns⟩
      refine invCore_user_update h hu (u' := { u with modes := a.modes }) rfl rfl ?_ ?_
        hf.panicked hf.channels hf.conns hf.maxUsers hf.connsCount hf.inv hf.ops hf.wl
      · intro hk; exact h.killedFlagged _ _ hu hk
      · show Map.modify _ _ a.x.w.users = _
        rw [hf.users]; exact Map.modify_congr_of_lookup _ _ _ _ hu
    split <;> exact key

/-- C19: after a user MODE command the three user-mode counters are exact -/
theorem umode_counters_exact {target : Str} {modes : List (Str × List Str)} (h : InvCore x.w) :
    let w' := (processModeUser cfg c target modes x).w
    w'.invisibleCount = (w'.users.filter (fun p => p.2.modes.invisible)).length ∧
    w'.operatorsCount = (w'.users.filter (fun p => p.2.modes.isLocalOper)).length ∧
    ∀ n, KSet.mem n w'.wallops = true ↔ ∃ u, Map.lookup n w'.users = some u ∧ u.modes.wallops = true := by
  intro w'
  cases hu : Map.lookup target x.w.users with
  | none =>
    have : w' = x.w.panic "mode: users.get_mut(target).unwrap" := by
      simp only [w', processModeUser, hu]; rfl
    rw [this]
    exact ⟨h.invisibleCount, h.operatorsCount, h.wallopsSet⟩
  | some u =>
    have h' := (invCore_processModeUser (cfg := cfg) (c := c) (modes := modes) h hu).1
    exact ⟨h'.invisibleCount, h'.operatorsCount, h'.wallopsSet⟩

/-- C19: after OPER the operator counter is exact -/
theorem oper_counter_exact {name password : Str} (h : InvCore x.w) :
    let w' := (processOper cfg c name password x).w
    w'.operatorsCount = (w'.users.filter (fun p => p.2.modes.isLocalOper)).length := by
  intro w'
  have hgoal : ∀ w'' : World, w''.operatorsCount = x.w.operatorsCount → w''.users = x.w.users →
      w''.operatorsCount = (w''.users.filter (fun p => p.2.modes.isLocalOper)).length := by
    intro w'' e1 e2; rw [e1, e2]; exact h.operatorsCount
  simp only [w']
  unfold processOper
  simp only
  cases (x.conn c).nick with
  | none => exact hgoal _ rfl rfl
  | some n =>
    simp only
    cases cfg.findOper name with
    | none => exact hgoal _ rfl rfl
    | some op =>
      simp only
      cases hu : Map.lookup n x.w.users with
      | none => exact hgoal _ rfl rfl
      | some u =>
        simp only
        repeat' split
        all_goals first
          | exact hgoal _ rfl rfl
          | (rename_i hb; have := (invCore_oper_world h hu).1.operatorsCount
             simp only [hb, ↓reduceIte] at this; exact this)

/-! ### MODE (channel) -/

/-- **the simulation lemma**: a channel MODE whose mode string passed `validateChannelmodes`
    never reaches the panic sites of `modeChar` ("rank letter without argument", "+l without
    argument", "+l parse unwrap", "+k without argument", "add/remove rank unwrap") — the world
    component is untouched by the whole loop -/
theorem modeGroup_no_arg_panic {cn : Conn} {target t : Str} {chum : ChanUserModes} {ch : Channel}
    {modes : List (Str × List Str)} (hrm : RankMirror ch)
    (hv : validateChannelmodes t modes = .ok ()) :
    (modes.foldl (modeGroup cfg cn target chum) { x := x, ch := ch, args := [] }).x.w = x.w :=
  (modeGroups_inv (w0 := x.w) (ch0 := ch) modes hv ⟨rfl, rfl, hrm, rfl⟩).w

theorem invCore_processModeChannel {target t : Str} {ch : Channel} {chum : ChanUserModes}
    {modes : List (Str × List Str)} (h : InvCore x.w)
    (hch : Map.lookup target x.w.channels = some ch)
    (hv : validateChannelmodes t modes = .ok ()) :
    InvCore (processModeChannel cfg c target ch modes chum x).w ∧
      SameConnIds x.w (processModeChannel cfg c target ch modes chum x).w := by
  unfold processModeChannel
  simp only
  split
  · exact invCore_of_w_eq h rfl
  · have hf := modeGroups_inv (cfg := cfg) (cn := x.conn c) (target := target) (chum := chum)
      (w0 := x.w) (ch0 := ch) modes hv (a := { x := x, ch := ch, args := [] })
      ⟨rfl, rfl, h.rankMirror _ _ hch, rfl⟩
    generalize (modes.foldl (modeGroup cfg (x.conn c) target chum)
      ({ x := x, ch := ch, args := [] } : ModeAcc)) = a at hf
    have hw : InvCore ({ a.x.w with channels := Map.insert target a.ch a.x.w.channels } : World) := by
      refine invCore_channel_update h hch hf.keys hf.rm hf.pre ?_ ?_ ?_ ?_ ?_ ?_ ?_ ?_ ?_ <;>
        simp only [hf.w]
    have hs : SameConnIds x.w ({ a.x.w with channels := Map.insert target a.ch a.x.w.channels } : World) :=
      sameConnIds_of_conns (by simp only [hf.w])
    split
    · rename_i line _
      have := Ctx.sendAll_w_eq
        (a.x.modifyW (fun w => { w with channels := Map.insert target a.ch w.channels }))
        (Map.keys a.ch.users) (':' :: ((x.conn c).source ++ ' ' :: line)) (by
          intro n hn
          have hc := (Map.contains_iff _ _).mpr ((Map.mem_keys_iff n a.ch.users).mp hn)
          exact hw.memberIsUser target a.ch n (by simp) hc)
      unfold Ctx.sendAll at this
      unfold Ctx.sendDisplay
      rw [this]
      exact ⟨hw, hs⟩
    · exact ⟨hw, hs⟩

/-! ### MODE -/

theorem invCore_processMode {target : Str} {modes : List (Str × List Str)} (h : InvCore x.w)
    (hl : Live x.w c) (ha : (x.conn c).authenticated = true)
    (hv : Command.validate (.MODE target modes) = .ok ()) :
    InvCore (processMode cfg c target modes x).w ∧
      SameConnIds x.w (processMode cfg c target modes x).w := by
  obtain ⟨n, u, hn, hu, _⟩ := sender_user h hl ha
  unfold processMode
  simp only [hn]
  unfold Command.validate at hv
  by_cases hvc : validateChannel target = true
  · simp only [hvc, ↓reduceIte] at hv ⊢
    cases hch : Map.lookup target x.w.channels with
    | none => exact invCore_of_w_eq h rfl
    | some ch =>
      simp only
      cases hcu : Map.lookup n ch.users with
      | none => exact invCore_of_w_eq h rfl
      | some chum => exact invCore_processModeChannel h hch hv
  · simp only [hvc, Bool.false_eq_true, ↓reduceIte]
    split
    · rename_i e
      have e' : n = target := by simpa using e
      subst e'
      exact invCore_processModeUser h hu
    · split <;> exact invCore_of_w_eq h rfl

end Irc

/-! ### the hypotheses are satisfiable, the conclusions are not trivial -/

namespace Irc.Modes.Ex
open Irc Irc.Modes

def mkUser (owner : Nat) (chs : KSet) : User :=
  { hostname := [], name := [], realname := [], source := [], modes := {}, history := ⟨[], [], []⟩,
    owner := owner, channels := chs }
def mkConn (id : Nat) (nick : Str) : Conn :=
  { id := id, hostname := [], nick := some nick, source := nick, authenticated := true,
    registered := true, hasSender := false, hasQuitSender := false, hasPingSender := false }

def na : Str := ['a']
def nb : Str := ['b']
def hc : Str := ['#', 'c']
def chanC : Channel :=
  { users := [(na, { founder := true, operator := true })],
    modes := { founders := [na], operators := [na] } }

/-- users `a` (connection 1, founder and operator of `#c`) and `b` (connection 2) -/
def w0 : World :=
  { users := [(na, mkUser 1 [hc]), (nb, mkUser 2 [])], conns := [mkConn 1 na, mkConn 2 nb],
    channels := [(hc, chanC)], connsCount := 2, maxUsers := 2 }

theorem w0_users {n : Str} {u : User} (h : Map.lookup n w0.users = some u) :
    (n = na ∧ u = mkUser 1 [hc]) ∨ (n = nb ∧ u = mkUser 2 []) := by
  simp only [w0, Map.lookup] at h
  split at h
  · rename_i e; cases h; exact Or.inl ⟨e.symm, rfl⟩
  · split at h
    · rename_i e; cases h; exact Or.inr ⟨e.symm, rfl⟩
    · cases h

theorem w0_chans {ch : Str} {C : Channel} (h : Map.lookup ch w0.channels = some C) :
    ch = hc ∧ C = chanC := by
  simp only [w0, Map.lookup] at h
  split at h
  · rename_i e; cases h; exact ⟨e.symm, rfl⟩
  · cases h

theorem chanC_members {n : Str} {m : ChanUserModes} (h : Map.lookup n chanC.users = some m) :
    n = na ∧ m = { founder := true, operator := true } := by
  simp only [chanC, Map.lookup] at h
  split at h
  · rename_i e; cases h; exact ⟨e.symm, rfl⟩
  · cases h

theorem w0_conns {cn : Conn} (h : cn ∈ w0.conns) : cn = mkConn 1 na ∨ cn = mkConn 2 nb := by
  simpa [w0] using h

theorem mem_singleton (n k : Str) : KSet.mem n [k] = true ↔ n = k := by
  simp only [KSet.mem, List.any_cons, List.any_nil, Bool.or_false, beq_iff_eq]; exact eq_comm

theorem rankMirror_chanC : RankMirror chanC where
  founders := fun n => by
    show KSet.mem n [na] = true ↔ _
    rw [mem_singleton]
    constructor
    · rintro rfl; exact ⟨_, rfl, rfl⟩
    · rintro ⟨m, h, _⟩; exact (chanC_members h).1
  operators := fun n => by
    show KSet.mem n [na] = true ↔ _
    rw [mem_singleton]
    constructor
    · rintro rfl; exact ⟨_, rfl, rfl⟩
    · rintro ⟨m, h, _⟩; exact (chanC_members h).1
  protecteds := fun n => by
    constructor
    · intro h; cases h
    · rintro ⟨m, h, hf⟩; obtain ⟨_, rfl⟩ := chanC_members h; cases hf
  halfOperators := fun n => by
    constructor
    · intro h; cases h
    · rintro ⟨m, h, hf⟩; obtain ⟨_, rfl⟩ := chanC_members h; cases hf
  voices := fun n => by
    constructor
    · intro h; cases h
    · rintro ⟨m, h, hf⟩; obtain ⟨_, rfl⟩ := chanC_members h; cases hf

theorem invCore_w0 : InvCore w0 where
  noPanic := rfl
  usersNodup := by decide
  chansNodup := by decide
  connsNodup := by decide
  membersNodup := fun ch C h => by obtain ⟨_, rfl⟩ := w0_chans h; decide
  userChansNodup := fun n u h => by
    rcases w0_users h with ⟨_, rfl⟩ | ⟨_, rfl⟩ <;> decide
  authOwns := fun cn hcn _ => by
    rcases w0_conns hcn with rfl | rfl
    · exact ⟨na, _, rfl, rfl, rfl⟩
    · exact ⟨nb, _, rfl, rfl, rfl⟩
  userOwned := fun n u h => by
    rcases w0_users h with ⟨rfl, rfl⟩ | ⟨rfl, rfl⟩
    · exact ⟨mkConn 1 na, by simp [w0], rfl, rfl, rfl⟩
    · exact ⟨mkConn 2 nb, by simp [w0], rfl, rfl, rfl⟩
  memberSym := fun n u ch h => by
    rcases w0_users h with ⟨rfl, rfl⟩ | ⟨rfl, rfl⟩
    · show KSet.mem ch [hc] = true ↔ _
      rw [mem_singleton]
      constructor
      · rintro rfl; exact ⟨chanC, rfl, rfl⟩
      · rintro ⟨C, h, _⟩; exact (w0_chans h).1
    · constructor
      · intro h; cases h
      · rintro ⟨C, h, hm⟩; obtain ⟨_, rfl⟩ := w0_chans h; cases hm
  memberIsUser := fun ch C n h hm => by
    obtain ⟨_, rfl⟩ := w0_chans h
    obtain ⟨m, hm⟩ := (Map.contains_iff _ _).mp hm
    obtain ⟨rfl, _⟩ := chanC_members hm
    rfl
  rankMirror := fun ch C h => by obtain ⟨_, rfl⟩ := w0_chans h; exact rankMirror_chanC
  noEmptyAdHoc := fun ch C h he => by obtain ⟨_, rfl⟩ := w0_chans h; cases he
  invisibleCount := rfl
  operatorsCount := rfl
  wallopsSet := fun n => by
    constructor
    · intro h; cases h
    · rintro ⟨u, h, hw⟩
      rcases w0_users h with ⟨rfl, rfl⟩ | ⟨rfl, rfl⟩ <;> cases hw
  maxUsers := by decide
  resources := fun cn hcn hf => by
    rcases w0_conns hcn with rfl | rfl <;> cases hf
  slots := rfl
  killedFlagged := fun n u h hk => by
    rcases w0_users h with ⟨rfl, rfl⟩ | ⟨rfl, rfl⟩ <;> cases hk

theorem live_1 : Live w0 1 := ⟨mkConn 1 na, by simp [w0], rfl⟩

def cfgE : Cfg := { operators := [{ name := na, password := ['p'], mask := none }] }
def ctx (w : World) : Ctx := ⟨w, [], []⟩
def msg0 : Message := ⟨none, [], []⟩

-- AWAY: hypotheses satisfiable, the away text is really stored
example : InvCore (processAway cfgE 1 (some ['x']) (ctx w0)).w :=
  (invCore_processAway (x := ctx w0) invCore_w0 live_1 (by decide)).1
example : (Map.lookup na (processAway cfgE 1 (some ['x']) (ctx w0)).w.users).map (·.away)
    = some (some ['x']) := by decide

-- INVITE: `a` invites `b` to `#c`
example : InvCore (processInvite cfgE 1 nb hc msg0 (ctx w0)).w :=
  (invCore_processInvite (x := ctx w0) invCore_w0 live_1 (by decide)).1
example : (Map.lookup nb (processInvite cfgE 1 nb hc msg0 (ctx w0)).w.users).map (·.invitedTo)
    = some [hc] := by decide

-- TOPIC
example : InvCore (processTopic cfgE 1 hc (some ['t']) msg0 (ctx w0)).w :=
  (invCore_processTopic (x := ctx w0) invCore_w0 live_1 (by decide)).1
example : (Map.lookup hc (processTopic cfgE 1 hc (some ['t']) msg0 (ctx w0)).w.channels).map (·.topic)
    = some (some ⟨['t'], na⟩) := by decide

-- OPER: `a` becomes operator, the counter moves from 0 to 1
def w1 : World := (processOper cfgE 1 na ['p'] (ctx w0)).w
theorem inv_w1 : InvCore w1 ∧ SameConnIds w0 w1 :=
  invCore_processOper (x := ctx w0) invCore_w0 live_1 (by decide)
theorem live_w1 : Live w1 1 := Live.of_same inv_w1.2 live_1
example : w0.operatorsCount = 0 ∧ w1.operatorsCount = 1 ∧
    (Map.lookup na w1.users).map (·.modes.oper) = some true := by decide

-- MODE (user): `MODE a +iw-o` on the operator `a`
def umodes : List (Str × List Str) := [(['+', 'i', 'w', '-', 'o'], [])]
example : InvCore (processMode cfgE 1 na umodes (ctx w1)).w :=
  (invCore_processMode (x := ctx w1) inv_w1.1 live_w1 (by decide) (by decide)).1
example : (processMode cfgE 1 na umodes (ctx w1)).w.invisibleCount = 1 ∧
    (processMode cfgE 1 na umodes (ctx w1)).w.operatorsCount = 0 ∧
    (processMode cfgE 1 na umodes (ctx w1)).w.wallops = [na] ∧
    (Map.lookup na (processMode cfgE 1 na umodes (ctx w1)).w.users).map (·.modes)
      = some { invisible := true, wallops := true } := by decide

-- MODE (channel): `MODE #c +tlvb 5 a x` by the founder `a`
def cmodes : List (Str × List Str) := [(['+', 't', 'l', 'v', 'b'], [['5'], na, ['x']])]
example : Command.validate (.MODE hc cmodes) = .ok () := by decide
example : InvCore (processMode cfgE 1 hc cmodes (ctx w0)).w :=
  (invCore_processMode (x := ctx w0) invCore_w0 live_1 (by decide) (by decide)).1
example : (Map.lookup hc (processMode cfgE 1 hc cmodes (ctx w0)).w.channels).map
      (fun C => (C.modes.protectedTopic, C.modes.clientLimit, C.modes.voices, C.modes.ban.length,
        (Map.lookup na C.users).map (·.voice)))
    = some (true, some 5, [na], 1, some true) := by decide
-- without the validation hypothesis the statement is false: `MODE #c +o` (no argument) panics
example : (processMode cfgE 1 hc [(['+', 'o'], [])] (ctx w0)).w.panicked.isSome = true := by decide
example : Command.validate (.MODE hc [(['+', 'o'], [])]) ≠ .ok () := by decide

-- KILL: the operator `a` kills `b`
example : InvCore (processKill cfgE 1 nb ['x'] (ctx w1)).w :=
  (invCore_processKill (x := ctx w1) inv_w1.1 live_w1 (by decide)).1
example : (Map.lookup nb (processKill cfgE 1 nb ['x'] (ctx w1)).w.users).map (·.killed) = some true ∧
    ((processKill cfgE 1 nb ['x'] (ctx w1)).w.conn? 2).map (·.killedBy) = some (some (na, ['x'])) := by
  decide

-- DIE / SQUIT: every user is killed, the server quits
example : InvCore (processDie cfgE 1 none (ctx w1)).w :=
  (invCore_processDie (x := ctx w1) inv_w1.1 live_w1 (by decide)).1
example : (processDie cfgE 1 none (ctx w1)).w.srvQuit = true ∧
    (processDie cfgE 1 none (ctx w1)).w.users.all (·.2.killed) = true ∧
    (processDie cfgE 1 none (ctx w1)).w.conns.all (·.killedBy.isSome) = true := by decide
example : InvCore (processSquit cfgE 1 cfgE.name ['x'] (ctx w1)).w :=
  (invCore_processSquit (x := ctx w1) inv_w1.1 live_w1 (by decide)).1
example : (processSquit cfgE 1 cfgE.name ['x'] (ctx w1)).w.srvQuit = true := by decide

end Irc.Modes.Ex
