/-
  Irc.InvProofs.Modes — part D of the invariant-preservation proof: MODE (channel and user),
  OPER, TOPIC, INVITE, AWAY, KILL, DIE, SQUIT.
-/
import Irc.InvProofs.ModesLemmas

namespace Irc

variable {cfg : Cfg} {c : Nat} {x : Ctx}

/-! ### AWAY -/

theorem invCore_processAway {text : Option Str} (h : InvCore x.w) (hl : Live x.w c)
    (ha : (x.conn c).authenticated = true) :
    InvCore (processAway cfg c text x).w ∧ SameConnIds x.w (processAway cfg c text x).w := by
  obtain ⟨n, u, hn, hu, _⟩ := sender_user h hl ha
  have hcont := Map.contains_of_lookup hu
  have key : (processAway cfg c text x).w =
      { x.w with users := Map.modify n (fun u => { u with away := text }) x.w.users } := by
    unfold processAway
    simp only [hn, hcont]
    cases text <;> rfl
  rw [key]
  exact invCore_user_modify h hu _ rfl rfl rfl rfl rfl rfl rfl rfl rfl rfl rfl rfl rfl

/-! ### INVITE -/

theorem invCore_processInvite {nickname channel : Str} {msg : Message} (h : InvCore x.w)
    (hl : Live x.w c) (ha : (x.conn c).authenticated = true) :
    InvCore (processInvite cfg c nickname channel msg x).w ∧
      SameConnIds x.w (processInvite cfg c nickname channel msg x).w := by
  obtain ⟨n, u, hn, hu, _⟩ := sender_user h hl ha
  unfold processInvite
  simp only [hn]
  split
  · split
    · split
      · exact invCore_of_w_eq h rfl
      · split
        · exact invCore_of_w_eq h rfl
        · split
          · rename_i v hv
            rw [Ctx.send_w_eq]
            · exact invCore_user_modify h hv _ rfl rfl rfl rfl rfl rfl rfl rfl rfl rfl rfl rfl rfl
            · simp only [Ctx.reply_w, Ctx.modifyW_w]
              rw [Map.contains_modify]; exact Map.contains_of_lookup hv
          · exact invCore_of_w_eq h rfl
    · exact invCore_of_w_eq h rfl
  · exact invCore_of_w_eq h rfl

/-! ### TOPIC -/

theorem rankMirror_of_eq {C C' : Channel} (h : RankMirror C) (hm : C'.modes = C.modes)
    (hu : C'.users = C.users) : RankMirror C' := by
  obtain ⟨a, b, c, d, e⟩ := h
  constructor <;> rw [hm, hu] <;> assumption

theorem invCore_processTopic {channel : Str} {topic : Option Str} {msg : Message}
    (h : InvCore x.w) (hl : Live x.w c) (ha : (x.conn c).authenticated = true) :
    InvCore (processTopic cfg c channel topic msg x).w ∧
      SameConnIds x.w (processTopic cfg c channel topic msg x).w := by
  obtain ⟨n, u, hn, hu, _⟩ := sender_user h hl ha
  unfold processTopic
  simp only [hn]
  cases topic with
  | none => simp only; repeat' split
            all_goals exact invCore_of_w_eq h rfl
  | some t =>
    simp only
    cases hch : Map.lookup channel x.w.channels with
    | none => exact invCore_of_w_eq h rfl
    | some ch =>
      simp only
      cases hchum : Map.lookup n ch.users with
      | none => exact invCore_of_w_eq h rfl
      | some chum =>
        simp only
        split
        · rw [Ctx.sendAll_w_eq]
          · refine ⟨?_, SameConnIds.of_conns rfl⟩
            refine invCore_channel_update h hch ?_ ?_ ?_ rfl rfl rfl rfl rfl rfl rfl rfl rfl
            · rfl
            · exact rankMirror_of_eq (h.rankMirror _ _ hch) rfl rfl
            · rfl
          · intro m hm
            have := (Map.mem_keys_iff m ch.users).mp hm
            exact h.memberIsUser channel ch m hch ((Map.contains_iff _ _).mpr this)
        · exact invCore_of_w_eq h rfl

/-! ### OPER -/

/-- the world after a successful OPER -/
theorem invCore_oper_world {w : World} (h : InvCore w) {n : Str} {u : User}
    (hu : Map.lookup n w.users = some u) :
    let w1 : World := { w with users := Map.insert n { u with modes := { u.modes with oper := true } } w.users }
    let w' : World := if !u.modes.isLocalOper then { w1 with operatorsCount := w1.operatorsCount + 1 } else w1
    InvCore w' ∧ SameConnIds w w' := by
  intro w1 w'
  have hcn : w'.conns = w.conns := by
    simp only [w', w1]; split <;> rfl
  refine ⟨?_, SameConnIds.of_conns hcn⟩
  refine invCore_user_update h hu (u' := { u with modes := { u.modes with oper := true } })
    rfl rfl ?_ ?_ ?_ ?_ hcn ?_ ?_ ?_ ?_ ?_
  · intro hk; exact h.killedFlagged n u hu hk
  · rw [← Map.insert_eq_modify _ _ _ (Map.contains_of_lookup hu)]
    simp only [w', w1]; split <;> rfl
  · simp only [w', w1]; split <;> rfl
  · simp only [w', w1]; split <;> rfl
  · simp only [w', w1]; split <;> rfl
  · simp only [w', w1]; split <;> rfl
  · simp only [w', w1]; split <;> rfl
  · rcases Bool.eq_false_or_eq_true u.modes.localOper with h1 | h1 <;>
      rcases Bool.eq_false_or_eq_true u.modes.oper with h2 | h2 <;>
      simp [w', w1, UserModes.isLocalOper, h1, h2]
  · intro k
    have : w'.wallops = w.wallops := by simp only [w', w1]; split <;> rfl
    rw [this]
    by_cases e : k = n
    · subst e; simp only [↓reduceIte]
      rw [h.wallopsSet k]
      constructor
      · rintro ⟨v, hv, hw'⟩; rw [hu] at hv; cases hv; exact hw'
      · intro hw'; exact ⟨u, hu, hw'⟩
    · simp [e]

theorem invCore_processOper {name password : Str} (h : InvCore x.w) (hl : Live x.w c)
    (ha : (x.conn c).authenticated = true) :
    InvCore (processOper cfg c name password x).w ∧
      SameConnIds x.w (processOper cfg c name password x).w := by
  obtain ⟨n, u, hn, hu, _⟩ := sender_user h hl ha
  unfold processOper
  simp only [hn, hu]
  repeat' split
  all_goals first
    | exact invCore_of_w_eq h rfl
    | (rename_i hb; have := invCore_oper_world h hu; simp only [hb, ↓reduceIte] at this; exact this)

/-! ### KILL / DIE / SQUIT -/

theorem invCore_fireKill {w : World} (killer comment nick : Str) (h : InvCore w) :
    InvCore (fireKill killer comment nick w) ∧ SameConnIds w (fireKill killer comment nick w) := by
  unfold fireKill
  cases hu : Map.lookup nick w.users with
  | none => exact ⟨h, SameConnIds.refl _⟩
  | some u =>
    simp only
    split
    · exact ⟨h, SameConnIds.refl _⟩
    · obtain ⟨cn0, hm0, hid0, _⟩ := h.userOwned nick u hu
      obtain ⟨cn, hcn, hm, hid⟩ := conn?_of_live (w := w) ⟨cn0, hm0, hid0⟩
      have e : World.conn? { w with users := Map.insert nick { u with killed := true } w.users } u.owner
          = some cn := hcn
      rw [e]
      simp only
      obtain ⟨h2, hs2⟩ := invCore_setConn_killedBy h hm (some (killer, comment)) (fun _ => rfl)
      refine ⟨?_, hs2⟩
      refine invCore_user_update h2 (n := nick) (u := u) (u' := { u with killed := true }) hu rfl rfl
        ?_ ?_ rfl rfl rfl rfl rfl (by rfl) (by rfl) ?_
      · intro _
        have := setConn_mem (cn' := { cn with killedBy := some (killer, comment) }) hm
        simp only [↓reduceIte] at this
        exact ⟨_, this, hid, Or.inl rfl⟩
      · show Map.insert nick _ w.users = _
        rw [Map.insert_eq_modify _ _ _ (Map.contains_of_lookup hu)]
        rfl
      · intro k
        show KSet.mem k w.wallops = true ↔ _
        by_cases e : k = nick
        · subst e; simp only [↓reduceIte]
          rw [h.wallopsSet k]
          constructor
          · rintro ⟨v, hv, hw'⟩; rw [hu] at hv; cases hv; exact hw'
          · intro hw'; exact ⟨u, hu, hw'⟩
        · simp [e]

theorem invCore_fireKill_fold {w : World} (killer comment : Str) (ns : List Str) (h : InvCore w) :
    InvCore (ns.foldl (fun w n => fireKill killer comment n w) w) ∧
      SameConnIds w (ns.foldl (fun w n => fireKill killer comment n w) w) := by
  induction ns generalizing w with
  | nil => exact ⟨h, SameConnIds.refl _⟩
  | cons n ns ih =>
    simp only [List.foldl_cons]
    obtain ⟨h1, s1⟩ := invCore_fireKill killer comment n h
    obtain ⟨h2, s2⟩ := ih h1
    exact ⟨h2, s1.trans s2⟩

theorem invCore_processKill {nickname comment : Str} (h : InvCore x.w) (hl : Live x.w c)
    (ha : (x.conn c).authenticated = true) :
    InvCore (processKill cfg c nickname comment x).w ∧
      SameConnIds x.w (processKill cfg c nickname comment x).w := by
  obtain ⟨n, u, hn, hu, _⟩ := sender_user h hl ha
  unfold processKill
  simp only [hn, hu]
  repeat' split
  all_goals first
    | exact invCore_of_w_eq h rfl
    | exact invCore_fireKill _ _ _ h

theorem invCore_processDie {message : Option Str} (h : InvCore x.w) (hl : Live x.w c)
    (ha : (x.conn c).authenticated = true) :
    InvCore (processDie cfg c message x).w ∧ SameConnIds x.w (processDie cfg c message x).w := by
  obtain ⟨n, u, hn, hu, _⟩ := sender_user h hl ha
  unfold processDie
  simp only [hn, hu]
  split
  · obtain ⟨h1, s1⟩ := invCore_fireKill_fold n (message.getD (str "Quitting from DIE"))
      (Map.keys x.w.users) h
    exact ⟨h1.of_fields rfl rfl rfl rfl rfl rfl rfl rfl rfl, s1⟩
  · exact invCore_of_w_eq h rfl

theorem invCore_processSquit {server comment : Str} (h : InvCore x.w) (hl : Live x.w c)
    (ha : (x.conn c).authenticated = true) :
    InvCore (processSquit cfg c server comment x).w ∧
      SameConnIds x.w (processSquit cfg c server comment x).w := by
  unfold processSquit
  split
  · exact invCore_of_w_eq h rfl
  · exact invCore_processDie h hl ha

end Irc
