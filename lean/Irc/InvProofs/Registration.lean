/-
  Irc.InvProofs.Registration — part B of the preservation proof of `InvCore`: the registration
  handlers (CAP, PASS, NICK, USER, AUTHENTICATE, `authenticate`, welcome burst) and PING, PONG,
  QUIT, plus the registered NICK (rename).
-/
import Irc.InvProofs.RegistrationLemmas

namespace Irc

open Reply Reg

/-! ### handlers that only write replies -/

theorem Reg.sendIsupport_w (cfg : Cfg) (client : Str) (x : Ctx) : (sendIsupport cfg client x).w = x.w := by
  unfold sendIsupport
  generalize chunks 10 (sortStrs (supportTokens cfg)) = l
  induction l generalizing x with
  | nil => rfl
  | cons t l ih => simp only [List.foldl_cons]; rw [ih]; rfl

theorem Reg.processLusers_w (cfg : Cfg) (client : Str) (x : Ctx)
    (h : x.w.invisibleCount ≤ x.w.users.length) : (processLusers cfg client x).w = x.w := by
  unfold processLusers
  have : ¬ x.w.invisibleCount > x.w.users.length := by omega
  simp only [this, ↓reduceIte, Ctx.reply_w]

theorem Reg.processMotd_w (cfg : Cfg) (client : Str) (t : Option Str) (x : Ctx) :
    (processMotd cfg client t x).w = x.w := by
  unfold processMotd unsupported
  split <;> rfl

theorem Reg.welcomeBurst_w (cfg : Cfg) (cn : Conn) (um : Str) (x : Ctx)
    (h : x.w.invisibleCount ≤ x.w.users.length) : (welcomeBurst cfg cn um x).w = x.w := by
  unfold welcomeBurst
  simp only [Ctx.reply_w, processMotd_w]
  rw [processLusers_w, sendIsupport_w]
  · rfl
  · rw [sendIsupport_w]; exact h

theorem Reg.invisible_le {w : World} (h : InvCore w) : w.invisibleCount ≤ w.users.length := by
  rw [h.invisibleCount]; exact List.length_filter_le _ _

theorem invCore_sendIsupport {cfg : Cfg} {client : Str} {x : Ctx} (h : InvCore x.w) :
    InvCore (sendIsupport cfg client x).w ∧ SameConnIds x.w (sendIsupport cfg client x).w := by
  rw [sendIsupport_w]; exact ⟨h, SameConnIds.refl _⟩

/-- the guarded subtraction of LUSERS never underflows in an `InvCore` world -/
theorem invCore_processLusers {cfg : Cfg} {client : Str} {x : Ctx} (h : InvCore x.w) :
    InvCore (processLusers cfg client x).w ∧ SameConnIds x.w (processLusers cfg client x).w := by
  rw [processLusers_w _ _ _ (invisible_le h)]; exact ⟨h, SameConnIds.refl _⟩

theorem invCore_processMotd {cfg : Cfg} {client : Str} {t : Option Str} {x : Ctx} (h : InvCore x.w) :
    InvCore (processMotd cfg client t x).w ∧ SameConnIds x.w (processMotd cfg client t x).w := by
  rw [processMotd_w]; exact ⟨h, SameConnIds.refl _⟩

theorem invCore_welcomeBurst {cfg : Cfg} {cn : Conn} {um : Str} {x : Ctx} (h : InvCore x.w) :
    InvCore (welcomeBurst cfg cn um x).w ∧ SameConnIds x.w (welcomeBurst cfg cn um x).w := by
  rw [welcomeBurst_w _ _ _ _ (invisible_le h)]; exact ⟨h, SameConnIds.refl _⟩

theorem invCore_processAuthenticate {cfg : Cfg} {c : Nat} {x : Ctx} (h : InvCore x.w) :
    InvCore (processAuthenticate cfg c x).w ∧ SameConnIds x.w (processAuthenticate cfg c x).w :=
  ⟨h, SameConnIds.refl _⟩

theorem invCore_processPing {cfg : Cfg} {c : Nat} {t : Str} {x : Ctx} (h : InvCore x.w) :
    InvCore (processPing cfg c t x).w ∧ SameConnIds x.w (processPing cfg c t x).w :=
  ⟨h, SameConnIds.refl _⟩

/-! ### handlers that only touch the acting connection's record -/

theorem invCore_processPong {cfg : Cfg} {c : Nat} {x : Ctx} (h : InvCore x.w) (hl : Live x.w c) :
    InvCore (processPong cfg c x).w ∧ SameConnIds x.w (processPong cfg c x).w := by
  obtain ⟨hm, hid⟩ := Ctx.conn_of_live hl
  unfold processPong
  refine ⟨?_, setConn_conns_ids _ _⟩
  exact invCore_setConn_same h hm rfl rfl rfl rfl rfl rfl id

theorem invCore_processQuit {cfg : Cfg} {c : Nat} {x : Ctx} (h : InvCore x.w) (hl : Live x.w c) :
    InvCore (processQuit cfg c x).w ∧ SameConnIds x.w (processQuit cfg c x).w := by
  obtain ⟨hm, hid⟩ := Ctx.conn_of_live hl
  unfold processQuit
  refine ⟨?_, setConn_conns_ids _ _⟩
  exact invCore_setConn_same h hm rfl rfl rfl rfl rfl rfl (fun _ => Or.inr rfl)

/-! ### `authenticate` -/

theorem Reg.authDecision_decided_nick {cfg : Cfg} {cn : Conn} {g r : Bool}
    (h : authDecision cfg cn = .decided g r) : ∃ n, cn.nick = some n := by
  unfold authDecision at h
  split at h
  · cases h
  · split at h
    · cases h
    · exact ⟨_, by assumption⟩

/-- the connection record between `add_user` and the ping waker -/
def Reg.regConn1 (cn : Conn) (r : Bool) : Conn :=
  { cn with authenticated := true, registered := r, hasSender := false, hasQuitSender := false }
/-- the connection record after a successful registration -/
def Reg.regConn (cn : Conn) (r : Bool) : Conn :=
  { cn with authenticated := true, registered := r, hasSender := false, hasQuitSender := false,
            hasPingSender := false }
/-- the user record created by a successful registration -/
def Reg.regUser (cfg : Cfg) (cn : Conn) (r : Bool) : User :=
  { hostname := cn.hostname, name := cn.name.getD [], realname := cn.realname.getD [],
    source := cn.source,
    modes := { cfg.defaultUserModes with registered := cfg.defaultUserModes.registered || r },
    history := { username := cn.name.getD [], hostname := cn.hostname, realname := cn.realname.getD [] },
    owner := cn.id }

/-- The three possible effects of `authenticate` (called for a live, unauthenticated connection of
    an `InvCore` world) on the world: nothing; only the own record changes and stays
    unauthenticated; or registration succeeds under the own, free nick. -/
theorem Reg.authenticate_w_cases (cfg : Cfg) (c : Nat) (x : Ctx) (h : InvCore x.w) (hl : Live x.w c)
    (hu : (x.conn c).authenticated = false) :
    (authenticate cfg c x).w = x.w ∨
    (∃ cn', (authenticate cfg c x).w = x.w.setConn cn' ∧
        cn'.id = (x.conn c).id ∧ cn'.authenticated = false ∧ cn'.hasSender = (x.conn c).hasSender ∧
        cn'.hasQuitSender = (x.conn c).hasQuitSender ∧ cn'.hasPingSender = (x.conn c).hasPingSender) ∨
    (∃ nick r, (x.conn c).nick = some nick ∧ Map.lookup nick x.w.users = none ∧
        (authenticate cfg c x).w =
          ((x.w.setConn (regConn1 (x.conn c) r)).addUser nick (regUser cfg (x.conn c) r)).setConn
            (regConn (x.conn c) r)) := by
  obtain ⟨hm, hid⟩ := Ctx.conn_of_live hl
  unfold authenticate
  generalize x.conn c = cn at *
  simp only []
  cases hd : authDecision cfg cn with
  | notReady => exact Or.inl rfl
  | maskMismatch => exact Or.inl rfl
  | decided good registered =>
    obtain ⟨nick, hnick⟩ := authDecision_decided_nick hd
    simp only []
    cases good with
    | false =>
      simp only [Bool.false_eq_true, ↓reduceIte]
      exact Or.inr (Or.inl ⟨_, rfl, rfl, rfl, rfl, rfl, rfl⟩)
    | true =>
      simp only [↓reduceIte, hnick]
      by_cases hc : Map.contains nick x.w.users = true
      · simp only [hc, Bool.not_true, Bool.false_eq_true, ↓reduceIte]
        exact Or.inr (Or.inl ⟨_, rfl, rfl, rfl, rfl, rfl, rfl⟩)
      · obtain ⟨r1, r2, r3⟩ := h.resources cn hm hu
        have hc' : Map.contains nick x.w.users = false := by simpa using hc
        have hfree := (Map.contains_false_iff _ _).mp hc'
        simp only [hc', r1, r2, r3, Bool.not_false, Bool.not_true, Bool.or_self, Bool.false_eq_true,
          ↓reduceIte]
        refine Or.inr (Or.inr ⟨nick, registered, rfl, hfree, ?_⟩)
        rw [Ctx.setConn_w, welcomeBurst_w]
        · subst hid
          unfold regConn1 regConn regUser
          simp only [r3, hnick]
          rfl
        · simp only [Ctx.modifyW_w, Ctx.setConn_w, World.addUser_invisibleCount, World.addUser_users,
            World.setConn_invisibleCount, World.setConn_users]
          rw [Map.insert_of_lookup_none _ _ _ hfree]
          have := (invisible_le h)
          simp only [List.length_append, List.length_cons, List.length_nil]
          split <;> omega

theorem invCore_authenticate {cfg : Cfg} {c : Nat} {x : Ctx} (h : InvCore x.w) (hl : Live x.w c)
    (hu : (x.conn c).authenticated = false) :
    InvCore (authenticate cfg c x).w ∧ SameConnIds x.w (authenticate cfg c x).w := by
  obtain ⟨hm, hid⟩ := Ctx.conn_of_live hl
  rcases authenticate_w_cases cfg c x h hl hu with e | ⟨cn', e, h1, h2, h3, h4, h5⟩ |
      ⟨nick, r, hn, hfree, e⟩
  · rw [e]; exact ⟨h, SameConnIds.refl _⟩
  · rw [e]
    exact ⟨invCore_setConn_unauth h hm h1 hu h2 h3 h4 h5, setConn_conns_ids _ _⟩
  · rw [e]
    generalize x.conn c = cn at *
    have e_conns : (((x.w.setConn (regConn1 cn r)).addUser nick (regUser cfg cn r)).setConn
        (regConn cn r)).conns = (x.w.setConn (regConn cn r)).conns := by
      rw [World.setConn_conns, World.addUser_conns, ← World.setConn_conns,
        setConn_setConn x.w (regConn1 cn r) (regConn cn r) rfl]
    constructor
    · apply invCore_register h hm hu hfree (cn' := regConn cn r) (u := regUser cfg cn r) rfl rfl hn rfl rfl rfl
        e_conns
      · rw [World.setConn_users, World.addUser_users, World.setConn_users]
      · rw [World.setConn_channels, World.addUser_channels, World.setConn_channels]
      · rw [World.setConn_wallops, World.addUser_wallops, World.setConn_wallops]
      · rw [World.setConn_invisibleCount, World.addUser_invisibleCount, World.setConn_invisibleCount]
      · rw [World.setConn_operatorsCount, World.addUser_operatorsCount, World.setConn_operatorsCount]
      · rw [World.setConn_users, World.setConn_maxUsers]; exact World.addUser_maxUsers _ _ _
      · rw [World.setConn_connsCount, World.addUser_connsCount, World.setConn_connsCount]
      · rw [World.setConn_panicked, World.addUser_panicked, World.setConn_panicked]; exact h.noPanic
    · unfold SameConnIds
      rw [e_conns]
      exact setConn_conns_ids _ _

/-- `World.addUser` on its own breaks `userOwned` (nobody owns the new user yet); together with the
    update of the registering connection's record it preserves `InvCore`: `cn` live and
    unauthenticated, `nick` free, the new record `cn'` authenticated under `nick`, the new user owned
    by it, in no channel, not killed. -/
theorem invCore_addUser {w : World} (h : InvCore w) {cn cn' : Conn} {nick : Str} {u : User}
    (hm : cn ∈ w.conns) (hu : cn.authenticated = false) (hfree : Map.lookup nick w.users = none)
    (hid : cn'.id = cn.id) (ha' : cn'.authenticated = true) (hn' : cn'.nick = some nick)
    (huo : u.owner = cn.id) (huc : u.channels = []) (huk : u.killed = false) :
    InvCore ((w.addUser nick u).setConn cn') ∧ SameConnIds w ((w.addUser nick u).setConn cn') := by
  have e_conns : ((w.addUser nick u).setConn cn').conns = (w.setConn cn').conns := by
    rw [World.setConn_conns, World.addUser_conns, ← World.setConn_conns]
  constructor
  · apply invCore_register h hm hu hfree hid ha' hn' huo huc huk e_conns
    · rw [World.setConn_users, World.addUser_users]
    · rw [World.setConn_channels, World.addUser_channels]
    · rw [World.setConn_wallops, World.addUser_wallops]
    · rw [World.setConn_invisibleCount, World.addUser_invisibleCount]
    · rw [World.setConn_operatorsCount, World.addUser_operatorsCount]
    · rw [World.setConn_users, World.setConn_maxUsers]; exact World.addUser_maxUsers _ _ _
    · rw [World.setConn_connsCount, World.addUser_connsCount]
    · rw [World.setConn_panicked, World.addUser_panicked]; exact h.noPanic
  · unfold SameConnIds
    rw [e_conns]
    exact setConn_conns_ids _ _

/-- an unauthenticated connection updates its own record (staying unauthenticated, keeping its
    resources) and then tries to register -/
theorem Reg.invCore_setConn_authenticate {cfg : Cfg} {c : Nat} {x : Ctx} {cn' : Conn} (h : InvCore x.w)
    (hl : Live x.w c) (hu : (x.conn c).authenticated = false) (hid : cn'.id = c)
    (hu' : cn'.authenticated = false) (hr1 : cn'.hasSender = (x.conn c).hasSender)
    (hr2 : cn'.hasQuitSender = (x.conn c).hasQuitSender)
    (hr3 : cn'.hasPingSender = (x.conn c).hasPingSender) :
    InvCore (authenticate cfg c (x.setConn cn')).w ∧
      SameConnIds x.w (authenticate cfg c (x.setConn cn')).w := by
  obtain ⟨hm, hcid⟩ := Ctx.conn_of_live hl
  have h1 : InvCore (x.setConn cn').w :=
    invCore_setConn_unauth h hm (by rw [hid, hcid]) hu hu' hr1 hr2 hr3
  have hl1 : Live (x.setConn cn').w c := live_setConn cn' hl
  have hc1 : (x.setConn cn').conn c = cn' := Ctx.conn_setConn_live hl hid
  obtain ⟨h2, s2⟩ := invCore_authenticate (cfg := cfg) h1 hl1 (by rw [hc1]; exact hu')
  exact ⟨h2, SameConnIds.trans (setConn_conns_ids _ _) s2⟩

/-! ### CAP / PASS / USER / unregistered NICK -/

theorem invCore_processCap {cfg : Cfg} {c : Nat} {sub : CapCommand} {caps : Option (List Str)} {x : Ctx}
    (h : InvCore x.w) (hl : Live x.w c) :
    InvCore (processCap cfg c sub caps x).w ∧ SameConnIds x.w (processCap cfg c sub caps x).w := by
  obtain ⟨hm, hcid⟩ := Ctx.conn_of_live hl
  unfold processCap
  cases sub with
  | LS =>
    exact ⟨invCore_setConn_same h hm rfl rfl rfl rfl rfl rfl id, setConn_conns_ids _ _⟩
  | LIST => exact ⟨h, SameConnIds.refl _⟩
  | REQ =>
    simp only []
    have h1 : InvCore (x.w.setConn { x.conn c with capsNeg := true }) ∧
        SameConnIds x.w (x.w.setConn { x.conn c with capsNeg := true }) :=
      ⟨invCore_setConn_same h hm rfl rfl rfl rfl rfl rfl id, setConn_conns_ids _ _⟩
    cases caps with
    | none => exact h1
    | some cs =>
      simp only []
      split
      · simp only [Ctx.reply_w, Ctx.setConn_w]
        rw [setConn_setConn _ _ _ (by split <;> rfl)]
        refine ⟨?_, setConn_conns_ids _ _⟩
        split
        · exact h1.1
        · exact invCore_setConn_same h hm rfl rfl rfl rfl rfl rfl id
      · exact h1
  | END =>
    simp only []
    by_cases ha : (x.conn c).authenticated = true
    · simp only [ha, Bool.not_true, Bool.false_eq_true, ↓reduceIte]
      exact ⟨invCore_setConn_same h hm rfl ha.symm rfl rfl rfl rfl id, setConn_conns_ids _ _⟩
    · have ha' : (x.conn c).authenticated = false := by simpa using ha
      simp only [ha', Bool.not_false, ↓reduceIte]
      exact invCore_setConn_authenticate h hl ha' hcid rfl rfl rfl rfl

theorem invCore_processPass {cfg : Cfg} {c : Nat} {pass : Str} {x : Ctx}
    (h : InvCore x.w) (hl : Live x.w c) :
    InvCore (processPass cfg c pass x).w ∧ SameConnIds x.w (processPass cfg c pass x).w := by
  obtain ⟨hm, hcid⟩ := Ctx.conn_of_live hl
  unfold processPass
  by_cases ha : (x.conn c).authenticated = true
  · simp only [ha, Bool.not_true, Bool.false_eq_true, ↓reduceIte]
    exact ⟨h, SameConnIds.refl _⟩
  · have ha' : (x.conn c).authenticated = false := by simpa using ha
    simp only [ha', Bool.not_false, ↓reduceIte]
    exact invCore_setConn_authenticate h hl ha' hcid rfl rfl rfl rfl

theorem invCore_processUser {cfg : Cfg} {c : Nat} {username realname : Str} {x : Ctx}
    (h : InvCore x.w) (hl : Live x.w c) :
    InvCore (processUser cfg c username realname x).w ∧
      SameConnIds x.w (processUser cfg c username realname x).w := by
  obtain ⟨hm, hcid⟩ := Ctx.conn_of_live hl
  unfold processUser
  by_cases ha : (x.conn c).authenticated = true
  · simp only [ha, Bool.not_true, Bool.false_eq_true, ↓reduceIte]
    exact ⟨h, SameConnIds.refl _⟩
  · have ha' : (x.conn c).authenticated = false := by simpa using ha
    simp only [ha', Bool.not_false, ↓reduceIte]
    exact invCore_setConn_authenticate h hl ha' hcid ha' rfl rfl rfl

/-! ### NICK -/

/-- the write-lock part of a registered NICK, as a function of the world -/
def Reg.renameWorld (old new : Str) (user : User) (w : World) : World :=
  let w := { w with users := Map.erase old w.users }
  let w := renameInChannels old new user.channels w
  let w := w.pushHistory old user.history
  let w := { w with users := Map.insert new user w.users }
  if KSet.mem old w.wallops then
    { w with wallops := KSet.insert new (KSet.erase old w.wallops) }
  else w

/-- the rename branch of `processNick`, in terms of `renameWorld` -/
theorem Reg.processNick_rename_eq {cfg : Cfg} {c : Nat} {nick : Str} {msg : Message} {x : Ctx}
    {old : Str} {user : User}
    (ha : (x.conn c).authenticated = true) (hnick : (x.conn c).nick = some old) (hne : nick ≠ old)
    (hfree : Map.contains nick x.w.users = false) (hold : Map.lookup old x.w.users = some user) :
    processNick cfg c nick msg x =
      (((x.setConn ((x.conn c).setNick nick)).modifyW
          (renameWorld old nick { user with source := ((x.conn c).setNick nick).source })).sendAll
        (Map.keys ((x.setConn ((x.conn c).setNick nick)).modifyW
          (renameWorld old nick { user with source := ((x.conn c).setNick nick).source })).w.users)
        (msg.render (x.conn c).source)) := by
  unfold processNick
  have : (nick != old) = true := by simpa using hne
  simp only [ha, Bool.not_true, Bool.false_eq_true, ↓reduceIte, hnick, this, hfree, Bool.not_false, hold]
  rfl

/-- `renameWorld` when every `unwrap` succeeds: the four re-keyed components -/
theorem Reg.renameWorld_spec (old new : Str) (u : User) (w : World) (hnd : u.channels.Nodup)
    (hok : ∀ ch, ch ∈ u.channels →
      ∃ C C', Map.lookup ch w.channels = some C ∧ C.renameUser old new = some C') :
    ∃ chans', renameWorld old new u w =
        { w with users := Map.insert new u (Map.erase old w.users)
                 channels := chans'
                 wallops := renameIn old new w.wallops
                 histories := (w.pushHistory old u.history).histories } ∧
      Map.keys chans' = Map.keys w.channels ∧
      ∀ ch, Map.lookup ch chans' =
        if ch ∈ u.channels then (Map.lookup ch w.channels).bind (·.renameUser old new)
        else Map.lookup ch w.channels := by
  obtain ⟨chans', h1, h2, h3⟩ :=
    renameInChannels_spec old new u.channels { w with users := Map.erase old w.users } hnd hok
  refine ⟨chans', ?_, h2, h3⟩
  unfold renameWorld
  simp only [h1]
  unfold renameIn World.pushHistory
  simp only []
  split <;> rfl

/-- In an `InvCore` world the rename of the user of a live authenticated connection hits no
    `unwrap`: description of the resulting world. -/
theorem Reg.processNick_rename_w {cfg : Cfg} {c : Nat} {nick : Str} {msg : Message} {x : Ctx}
    {old : Str} {user : User} (h : InvCore x.w)
    (ha : (x.conn c).authenticated = true) (hnick : (x.conn c).nick = some old) (hne : nick ≠ old)
    (hfree : Map.contains nick x.w.users = false) (hold : Map.lookup old x.w.users = some user) :
    ∃ chans', (processNick cfg c nick msg x).w =
        { x.w.setConn ((x.conn c).setNick nick) with
            users := Map.insert nick { user with source := ((x.conn c).setNick nick).source }
                      (Map.erase old x.w.users)
            channels := chans'
            wallops := renameIn old nick x.w.wallops
            histories := (x.w.pushHistory old user.history).histories } ∧
      Map.keys chans' = Map.keys x.w.channels ∧
      ∀ ch, Map.lookup ch chans' =
        if KSet.mem ch user.channels = true then
          (Map.lookup ch x.w.channels).bind (·.renameUser old nick)
        else Map.lookup ch x.w.channels := by
  rw [processNick_rename_eq ha hnick hne hfree hold]
  generalize x.conn c = cn at *
  have hok : ∀ ch, ch ∈ user.channels →
      ∃ C C', Map.lookup ch (x.w.setConn (cn.setNick nick)).channels = some C ∧
        C.renameUser old nick = some C' := by
    intro ch hch
    obtain ⟨C, hC, hc⟩ := (h.memberSym old user ch hold).mp ((KSet.mem_iff _ _).mpr hch)
    obtain ⟨chum, hchum⟩ := (Map.contains_iff _ _).mp hc
    exact ⟨C, _, hC, renameUser_of_lookup hchum⟩
  obtain ⟨chans', h1, h2, h3⟩ :=
    renameWorld_spec old nick { user with source := (cn.setNick nick).source }
      (x.w.setConn (cn.setNick nick)) (h.userChansNodup old user hold) hok
  refine ⟨chans', ?_, h2, fun ch => by rw [h3 ch]; simp only [KSet.mem_iff]; rfl⟩
  rw [Ctx.sendAll_w_eq]
  · rw [Ctx.modifyW_w, Ctx.setConn_w, h1]; rfl
  · intro n hn
    exact (Map.contains_iff _ _).mpr ((Map.mem_keys_iff _ _).mp hn)

/-- NICK, both before registration (set the nick, try to register) and after (rename). -/
theorem invCore_processNick {cfg : Cfg} {c : Nat} {nick : Str} {msg : Message} {x : Ctx}
    (h : InvCore x.w) (hl : Live x.w c) :
    InvCore (processNick cfg c nick msg x).w ∧ SameConnIds x.w (processNick cfg c nick msg x).w := by
  obtain ⟨hm, hcid⟩ := Ctx.conn_of_live hl
  by_cases ha : (x.conn c).authenticated = true
  · obtain ⟨old, user, hnick, hold, howner⟩ := h.authOwns _ hm ha
    by_cases hne : nick = old
    · have : processNick cfg c nick msg x = x := by
        unfold processNick
        simp only [ha, Bool.not_true, Bool.false_eq_true, ↓reduceIte, hnick, hne, bne_self_eq_false]
      rw [this]; exact ⟨h, SameConnIds.refl _⟩
    · by_cases hc : Map.contains nick x.w.users = true
      · have : (processNick cfg c nick msg x).w = x.w := by
          unfold processNick
          have : (nick != old) = true := by simpa using hne
          simp only [ha, Bool.not_true, Bool.false_eq_true, ↓reduceIte, hnick, this, hc, Ctx.reply_w]
        rw [this]; exact ⟨h, SameConnIds.refl _⟩
      · have hc' : Map.contains nick x.w.users = false := by simpa using hc
        obtain ⟨chans', hW, hkeys, hch⟩ :=
          processNick_rename_w (cfg := cfg) (msg := msg) h ha hnick hne hc' hold
        rw [hW]
        constructor
        · exact invCore_rename h hm ha hnick hold ((Map.contains_false_iff _ _).mp hc')
            (cn' := (x.conn c).setNick nick)
            (user' := { user with source := ((x.conn c).setNick nick).source })
            rfl ha rfl rfl rfl rfl rfl rfl rfl rfl rfl hkeys hch rfl rfl rfl rfl rfl h.noPanic
        · exact setConn_conns_ids _ _
  · have ha' : (x.conn c).authenticated = false := by simpa using ha
    unfold processNick
    simp only [ha', Bool.not_false, ↓reduceIte]
    split
    · exact invCore_setConn_authenticate h hl ha' hcid ha' rfl rfl rfl
    · exact ⟨h, SameConnIds.refl _⟩

/-! ### exported corollaries about `users` -/

theorem Reg.processLusers_users (cfg : Cfg) (client : Str) (x : Ctx) :
    (processLusers cfg client x).w.users = x.w.users := by
  unfold processLusers
  simp only [Ctx.reply_w]
  split <;> rfl

theorem Reg.welcomeBurst_users (cfg : Cfg) (cn : Conn) (um : Str) (x : Ctx) :
    (welcomeBurst cfg cn um x).w.users = x.w.users := by
  unfold welcomeBurst
  simp only [Ctx.reply_w, processMotd_w, processLusers_users, sendIsupport_w]

/-- `authenticate` (any state, any connection) either leaves `users` unchanged or inserts exactly one
    entry, under the connection's own nick, which was free, with `owner = c` and no channels. -/
theorem authenticate_users_grow_only (cfg : Cfg) (c : Nat) (x : Ctx) :
    (authenticate cfg c x).w.users = x.w.users ∨
    ∃ nick u, (x.conn c).nick = some nick ∧ Map.lookup nick x.w.users = none ∧ u.owner = c ∧
      u.channels = [] ∧ (authenticate cfg c x).w.users = Map.insert nick u x.w.users := by
  unfold authenticate
  generalize x.conn c = cn
  simp only []
  split
  · exact Or.inl rfl
  · exact Or.inl rfl
  · rename_i good registered _
    cases good with
    | false => exact Or.inl rfl
    | true =>
      simp only [↓reduceIte]
      split
      · exact Or.inl rfl
      · rename_i nick hnick
        split
        · rename_i hc
          have hfree : Map.lookup nick x.w.users = none :=
            (Map.contains_false_iff _ _).mp (by simpa using hc)
          split
          · exact Or.inl rfl
          · refine Or.inr ⟨nick, ?u, hnick, hfree, ?o, ?ch, ?e⟩
            case e =>
              split
              · rw [Ctx.setConn_w, World.setConn_users, welcomeBurst_users, Ctx.modifyW_w,
                  World.addUser_users]
                rfl
              · rw [Ctx.panic_w, World.panic_users, welcomeBurst_users, Ctx.modifyW_w,
                  World.addUser_users]
                rfl
            case o => rfl
            case ch => rfl
        · exact Or.inl rfl

/-- the effect of a registration command of connection `c` on the registered users: none, and the
    connection is still unregistered; or exactly one new user under a free nick, owned by `c`,
    which is now registered under that nick.  Channels are never touched. -/
def RegEffect (c : Nat) (x y : Ctx) : Prop :=
  y.w.channels = x.w.channels ∧
  ((y.w.users = x.w.users ∧ (y.conn c).authenticated = false) ∨
   (∃ nick u, Map.lookup nick x.w.users = none ∧ u.owner = c ∧ u.channels = [] ∧
      y.w.users = Map.insert nick u x.w.users ∧
      (y.conn c).authenticated = true ∧ (y.conn c).nick = some nick))

/-- a registration that does not complete has no effect on `users` -/
theorem RegEffect.users_eq_of_unauth {c : Nat} {x y : Ctx} (h : RegEffect c x y)
    (hu : (y.conn c).authenticated = false) : y.w.users = x.w.users := by
  rcases h.2 with ⟨e, _⟩ | ⟨_, _, _, _, _, _, ha, _⟩
  · exact e
  · rw [hu] at ha; cases ha

/-- in any case every registered user keeps its record -/
theorem RegEffect.lookup_preserved {c : Nat} {x y : Ctx} (h : RegEffect c x y) {n : Str} {u : User}
    (hn : Map.lookup n x.w.users = some u) : Map.lookup n y.w.users = some u := by
  rcases h.2 with ⟨e, _⟩ | ⟨nick, u', hfree, _, _, e, _, _⟩
  · rw [e]; exact hn
  · rw [e, Map.lookup_insert]
    split
    · rename_i e2; subst e2; rw [hfree] at hn; cases hn
    · exact hn

theorem Reg.regEffect_refl_of_unauth {c : Nat} {x y : Ctx} (hw : y.w = x.w)
    (hu : (x.conn c).authenticated = false) : RegEffect c x y := by
  have : y.conn c = x.conn c := by unfold Ctx.conn; rw [hw]
  exact ⟨by rw [hw], Or.inl ⟨by rw [hw], by rw [this]; exact hu⟩⟩

theorem Reg.authenticate_regEffect {cfg : Cfg} {c : Nat} {x : Ctx} (h : InvCore x.w) (hl : Live x.w c)
    (hu : (x.conn c).authenticated = false) : RegEffect c x (authenticate cfg c x) := by
  obtain ⟨hm, hid⟩ := Ctx.conn_of_live hl
  rcases authenticate_w_cases cfg c x h hl hu with e | ⟨cn', e, h1, h2, h3, h4, h5⟩ |
      ⟨nick, r, hn, hfree, e⟩
  · exact regEffect_refl_of_unauth e hu
  · have hc : (authenticate cfg c x).conn c = cn' :=
      Ctx.conn_of_conn? (by rw [e]; exact conn?_setConn_live hl (by rw [h1, hid]))
    exact ⟨by rw [e]; rfl, Or.inl ⟨by rw [e]; rfl, by rw [hc]; exact h2⟩⟩
  · have hl1 : Live ((x.w.setConn (regConn1 (x.conn c) r)).addUser nick (regUser cfg (x.conn c) r)) c := by
      apply Live.of_same _ hl
      unfold SameConnIds
      rw [World.addUser_conns]
      exact setConn_conns_ids _ _
    have hc : (authenticate cfg c x).conn c = regConn (x.conn c) r :=
      Ctx.conn_of_conn? (by rw [e]; exact conn?_setConn_live hl1 hid)
    refine ⟨by rw [e, World.setConn_channels, World.addUser_channels, World.setConn_channels], Or.inr
      ⟨nick, regUser cfg (x.conn c) r, hfree, hid, rfl, ?_, by rw [hc]; rfl, by rw [hc]; exact hn⟩⟩
    rw [e, World.setConn_users, World.addUser_users, World.setConn_users]

theorem Reg.setConn_authenticate_regEffect {cfg : Cfg} {c : Nat} {x : Ctx} {cn' : Conn} (h : InvCore x.w)
    (hl : Live x.w c) (hu : (x.conn c).authenticated = false) (hid : cn'.id = c)
    (hu' : cn'.authenticated = false) (hr1 : cn'.hasSender = (x.conn c).hasSender)
    (hr2 : cn'.hasQuitSender = (x.conn c).hasQuitSender)
    (hr3 : cn'.hasPingSender = (x.conn c).hasPingSender) :
    RegEffect c x (authenticate cfg c (x.setConn cn')) := by
  obtain ⟨hm, hcid⟩ := Ctx.conn_of_live hl
  have h1 : InvCore (x.setConn cn').w :=
    invCore_setConn_unauth h hm (by rw [hid, hcid]) hu hu' hr1 hr2 hr3
  have hl1 : Live (x.setConn cn').w c := live_setConn cn' hl
  have hc1 : (x.setConn cn').conn c = cn' := Ctx.conn_setConn_live hl hid
  exact authenticate_regEffect (cfg := cfg) h1 hl1 (by rw [hc1]; exact hu')

theorem Reg.setConn_regEffect {c : Nat} {x : Ctx} {cn' : Conn} (hl : Live x.w c) (hid : cn'.id = c)
    (hu' : cn'.authenticated = false) : RegEffect c x (x.setConn cn') :=
  ⟨rfl, Or.inl ⟨rfl, by rw [Ctx.conn_setConn_live hl hid]; exact hu'⟩⟩

/-- For an unauthenticated live connection in an `InvCore` world, NICK / USER / PASS / CAP change
    `users` only by completing the registration (`RegEffect`): if the connection is still
    unregistered afterwards, no registered user is affected (`RegEffect.users_eq_of_unauth`), and in
    any case every registered user keeps its record (`RegEffect.lookup_preserved`). -/
theorem unregistered_nick_user_pass_cap_keep_users {cfg : Cfg} {c : Nat} {x : Ctx}
    (h : InvCore x.w) (hl : Live x.w c) (hu : (x.conn c).authenticated = false)
    (nick : Str) (msg : Message) (username realname pass : Str) (sub : CapCommand)
    (caps : Option (List Str)) :
    RegEffect c x (processNick cfg c nick msg x) ∧
    RegEffect c x (processUser cfg c username realname x) ∧
    RegEffect c x (processPass cfg c pass x) ∧
    RegEffect c x (processCap cfg c sub caps x) := by
  obtain ⟨hm, hcid⟩ := Ctx.conn_of_live hl
  refine ⟨?_, ?_, ?_, ?_⟩
  · unfold processNick
    simp only [hu, Bool.not_false, ↓reduceIte]
    split
    · exact setConn_authenticate_regEffect h hl hu hcid hu rfl rfl rfl
    · exact regEffect_refl_of_unauth rfl hu
  · unfold processUser
    simp only [hu, Bool.not_false, ↓reduceIte]
    exact setConn_authenticate_regEffect h hl hu hcid hu rfl rfl rfl
  · unfold processPass
    simp only [hu, Bool.not_false, ↓reduceIte]
    exact setConn_authenticate_regEffect h hl hu hcid rfl rfl rfl rfl
  · unfold processCap
    cases sub with
    | LS => exact setConn_regEffect hl hcid hu
    | LIST => exact regEffect_refl_of_unauth rfl hu
    | REQ =>
      simp only []
      have h1 : RegEffect c x (x.setConn { x.conn c with capsNeg := true }) :=
        setConn_regEffect hl hcid hu
      cases caps with
      | none => exact h1
      | some cs =>
        simp only []
        split
        · have : RegEffect c x ((x.setConn { x.conn c with capsNeg := true }).setConn
              (if cs.isEmpty then { x.conn c with capsNeg := true }
               else { x.conn c with capsNeg := true, multiPrefix := true })) := by
            refine ⟨rfl, Or.inl ⟨rfl, ?_⟩⟩
            rw [Ctx.conn_setConn_live (live_setConn _ hl) (by split <;> exact hcid)]
            split <;> exact hu
          exact this
        · exact h1
    | END =>
      simp only [hu, Bool.not_false, ↓reduceIte]
      exact setConn_authenticate_regEffect h hl hu hcid rfl rfl rfl rfl

/-- exact effect of a NICK of a registered connection on `users`: nothing, or the own entry moves
    from `old` to the free `nick` with only `source` updated -/
theorem registered_nick_users {cfg : Cfg} {c : Nat} {nick : Str} {msg : Message} {x : Ctx}
    (h : InvCore x.w) (hl : Live x.w c) (ha : (x.conn c).authenticated = true) :
    ∃ old user, (x.conn c).nick = some old ∧ Map.lookup old x.w.users = some user ∧ user.owner = c ∧
      ((processNick cfg c nick msg x).w.users = x.w.users ∨
       (nick ≠ old ∧ Map.lookup nick x.w.users = none ∧
        (processNick cfg c nick msg x).w.users =
          Map.insert nick { user with source := ((x.conn c).setNick nick).source }
            (Map.erase old x.w.users))) := by
  obtain ⟨hm, hcid⟩ := Ctx.conn_of_live hl
  obtain ⟨old, user, hnick, hold, howner⟩ := h.authOwns _ hm ha
  refine ⟨old, user, hnick, hold, by rw [howner, hcid], ?_⟩
  by_cases hne : nick = old
  · left
    unfold processNick
    simp only [ha, Bool.not_true, Bool.false_eq_true, ↓reduceIte, hnick, hne, bne_self_eq_false]
  · by_cases hc : Map.contains nick x.w.users = true
    · left
      unfold processNick
      have : (nick != old) = true := by simpa using hne
      simp only [ha, Bool.not_true, Bool.false_eq_true, ↓reduceIte, hnick, this, hc, Ctx.reply_w]
    · have hc' : Map.contains nick x.w.users = false := by simpa using hc
      obtain ⟨chans', hW, _, _⟩ :=
        processNick_rename_w (cfg := cfg) (msg := msg) h ha hnick hne hc' hold
      exact Or.inr ⟨hne, (Map.contains_false_iff _ _).mp hc', by rw [hW]⟩

/-- the rename changes `users` only at the keys `old` and `new` -/
theorem registered_nick_only_own_key {cfg : Cfg} {c : Nat} {nick old : Str} {msg : Message} {x : Ctx}
    (h : InvCore x.w) (hl : Live x.w c) (ha : (x.conn c).authenticated = true)
    (hnick : (x.conn c).nick = some old) :
    ∀ n, n ≠ old → n ≠ nick →
      Map.lookup n (processNick cfg c nick msg x).w.users = Map.lookup n x.w.users := by
  intro n h1 h2
  obtain ⟨old', user, hnick', _, _, hcase⟩ :=
    registered_nick_users (cfg := cfg) (nick := nick) (msg := msg) h hl ha
  rw [hnick] at hnick'; cases hnick'
  rcases hcase with e | ⟨_, _, e⟩
  · rw [e]
  · rw [e, Map.lookup_rekey, if_neg (fun e => h2 e.symm), if_neg (fun e => h1 e.symm)]

/-! ### non-vacuity: the hypotheses are satisfiable and the conclusions say something

A concrete run: two fresh connections; connection 1 sends NICK a / USER a, connection 2 sends
NICK c / USER c, then connection 1 renames itself to b. -/

/-- two fresh connections, nobody registered -/
def Reg.exW0 : World := { conns := [Conn.new 1 (str "h"), Conn.new 2 (str "g")], connsCount := 2 }

theorem Reg.exW0_inv : InvCore exW0 := by
  refine
    { noPanic := rfl, usersNodup := List.nodup_nil, chansNodup := List.nodup_nil,
      connsNodup := by decide, membersNodup := ?_, userChansNodup := ?_, authOwns := ?_,
      userOwned := ?_, memberSym := ?_, memberIsUser := ?_, rankMirror := ?_, noEmptyAdHoc := ?_,
      invisibleCount := rfl, operatorsCount := rfl, wallopsSet := ?_, maxUsers := Nat.le_refl _,
      resources := ?_, slots := rfl, killedFlagged := ?_ }
  · intro ch C h; cases h
  · intro n u h; cases h
  · intro cn hm ha
    simp only [exW0, List.mem_cons, List.not_mem_nil, or_false] at hm
    rcases hm with rfl | rfl <;> cases ha
  · intro n u h; cases h
  · intro n u ch h; cases h
  · intro ch C n h; cases h
  · intro ch C h; cases h
  · intro ch C h; cases h
  · intro n
    constructor
    · intro h; cases h
    · rintro ⟨u, h, _⟩; cases h
  · intro cn hm _
    simp only [exW0, List.mem_cons, List.not_mem_nil, or_false] at hm
    rcases hm with rfl | rfl <;> exact ⟨rfl, rfl, rfl⟩
  · intro n u h; cases h

def Reg.exMsg (n : String) : Message := ⟨none, str "NICK", [str n]⟩
def Reg.exX1 : Ctx := processNick {} 1 (str "a") (exMsg "a") { w := exW0 }
def Reg.exX2 : Ctx := processUser {} 1 (str "a") (str "r") exX1
def Reg.exX3 : Ctx := processNick {} 2 (str "c") (exMsg "c") exX2
def Reg.exX4 : Ctx := processUser {} 2 (str "c") (str "r") exX3
def Reg.exX5 : Ctx := processNick {} 1 (str "b") (exMsg "b") exX4

theorem Reg.exW0_live (c : Nat) (hc : c = 1 ∨ c = 2) : Live exW0 c := by
  rcases hc with rfl | rfl
  · exact ⟨_, List.mem_cons_self .., rfl⟩
  · exact ⟨_, List.mem_cons_of_mem _ (List.mem_cons_self ..), rfl⟩

/-- every state of the run satisfies `InvCore` and keeps both connections (by the theorems above) -/
theorem Reg.ex_run_inv (c : Nat) (hc : c = 1 ∨ c = 2) :
    (InvCore exX1.w ∧ Live exX1.w c) ∧ (InvCore exX2.w ∧ Live exX2.w c) ∧
    (InvCore exX3.w ∧ Live exX3.w c) ∧ (InvCore exX4.w ∧ Live exX4.w c) ∧
    (InvCore exX5.w ∧ Live exX5.w c) := by
  have l0 : ∀ c, c = 1 ∨ c = 2 → Live exW0 c := exW0_live
  have s1 := invCore_processNick (cfg := {}) (nick := str "a") (msg := exMsg "a")
    (x := { w := exW0 }) exW0_inv (l0 1 (Or.inl rfl))
  have l1 : ∀ c, c = 1 ∨ c = 2 → Live exX1.w c := fun c hc => Live.of_same s1.2 (l0 c hc)
  have s2 := invCore_processUser (cfg := {}) (username := str "a") (realname := str "r")
    (x := exX1) s1.1 (l1 1 (Or.inl rfl))
  have l2 : ∀ c, c = 1 ∨ c = 2 → Live exX2.w c := fun c hc => Live.of_same s2.2 (l1 c hc)
  have s3 := invCore_processNick (cfg := {}) (nick := str "c") (msg := exMsg "c")
    (x := exX2) s2.1 (l2 2 (Or.inr rfl))
  have l3 : ∀ c, c = 1 ∨ c = 2 → Live exX3.w c := fun c hc => Live.of_same s3.2 (l2 c hc)
  have s4 := invCore_processUser (cfg := {}) (username := str "c") (realname := str "r")
    (x := exX3) s3.1 (l3 2 (Or.inr rfl))
  have l4 : ∀ c, c = 1 ∨ c = 2 → Live exX4.w c := fun c hc => Live.of_same s4.2 (l3 c hc)
  have s5 := invCore_processNick (cfg := {}) (nick := str "b") (msg := exMsg "b")
    (x := exX4) s4.1 (l4 1 (Or.inl rfl))
  have l5 : ∀ c, c = 1 ∨ c = 2 → Live exX5.w c := fun c hc => Live.of_same s5.2 (l4 c hc)
  exact ⟨⟨s1.1, l1 c hc⟩, ⟨s2.1, l2 c hc⟩, ⟨s3.1, l3 c hc⟩, ⟨s4.1, l4 c hc⟩, ⟨s5.1, l5 c hc⟩⟩

-- `invCore_authenticate`, `authenticate_users_grow_only`, `unregistered_…`: an unauthenticated live
-- connection exists (conn 1 in `exX1`); the first alternative happens (NICK alone: still
-- unregistered, `users` untouched) …
example : (exX1.conn 1).authenticated = false ∧ exX1.w.users = [] := by decide
-- … and the second alternative happens (USER completes the registration: one new user `a`, owner 1)
example : (exX1.conn 1).authenticated = false ∧ (exX2.conn 1).authenticated = true ∧
    Map.keys exX2.w.users = [str "a"] ∧ (Map.lookup (str "a") exX2.w.users).map (·.owner) = some 1 := by
  decide
-- the registration of connection 2 leaves the record of user `a` alone (`RegEffect.lookup_preserved`)
example : (Map.lookup (str "a") exX2.w.users).isSome = true ∧
    Map.lookup (str "a") exX4.w.users = Map.lookup (str "a") exX2.w.users ∧
    Map.keys exX4.w.users = [str "a", str "c"] := by decide
-- `registered_nick_*`: connection 1 is live and authenticated with nick `a` in `exX4`; the rename to
-- `b` changes `users` (keys `a`, `b`) and keeps the entry of `c`
example : (exX4.conn 1).authenticated = true ∧ (exX4.conn 1).nick = some (str "a") ∧
    Map.keys exX5.w.users = [str "c", str "b"] ∧ (Map.lookup (str "c") exX5.w.users).isSome = true ∧
    Map.lookup (str "c") exX5.w.users = Map.lookup (str "c") exX4.w.users ∧
    (exX5.conn 1).nick = some (str "b") := by decide

-- a rename of a channel member (hand-made world: `a` is operator of `#c`): no `unwrap` fails, the
-- member map and the rank list are re-keyed
def Reg.exU6 : User :=
  { hostname := str "h"
    name := str "a"
    realname := str "r"
    source := str "a!~a@h"
    modes := {}
    channels := [str "#c"]
    history := ⟨str "a", str "h", str "r"⟩
    owner := 1 }
def Reg.exC6 : Conn :=
  { id := 1
    hostname := str "h"
    nick := some (str "a")
    name := some (str "a")
    source := str "a!~a@h"
    authenticated := true
    hasSender := false
    hasQuitSender := false
    hasPingSender := false }
def Reg.exW6 : World :=
  { users := [(str "a", exU6)]
    channels := [(str "#c", { users := [(str "a", { operator := true })]
                              modes := { operators := [str "a"] } })]
    conns := [exC6]
    connsCount := 1
    maxUsers := 1 }
example :
    let w := (processNick {} 1 (str "b") (exMsg "b") { w := exW6 }).w
    w.panicked = none ∧ Map.keys w.users = [str "b"] ∧
    (Map.lookup (str "#c") w.channels).map (fun C => (Map.keys C.users, C.modes.operators)) =
      some ([str "b"], [str "b"]) := by decide

end Irc
