/-
  Irc.InvProofs.Registration — part B of the preservation proof of `InvCore`: the registration
  handlers (CAP, PASS, NICK, USER, AUTHENTICATE, `authenticate`, welcome burst) and PING, PONG,
  QUIT, plus the registered NICK (rename).
-/
import Irc.InvProofs.RegistrationLemmas

namespace Irc

open Reply

/-! ### handlers that only write replies -/

theorem sendIsupport_w (cfg : Cfg) (client : Str) (x : Ctx) : (sendIsupport cfg client x).w = x.w := by
  unfold sendIsupport
  generalize chunks 10 (sortStrs (supportTokens cfg)) = l
  induction l generalizing x with
  | nil => rfl
  | cons t l ih => simp only [List.foldl_cons]; rw [ih]; rfl

theorem processLusers_w (cfg : Cfg) (client : Str) (x : Ctx)
    (h : x.w.invisibleCount ≤ x.w.users.length) : (processLusers cfg client x).w = x.w := by
  unfold processLusers
  have : ¬ x.w.invisibleCount > x.w.users.length := by omega
  simp only [this, ↓reduceIte, Ctx.reply_w]

theorem processMotd_w (cfg : Cfg) (client : Str) (t : Option Str) (x : Ctx) :
    (processMotd cfg client t x).w = x.w := by
  unfold processMotd unsupported
  split <;> rfl

theorem welcomeBurst_w (cfg : Cfg) (cn : Conn) (um : Str) (x : Ctx)
    (h : x.w.invisibleCount ≤ x.w.users.length) : (welcomeBurst cfg cn um x).w = x.w := by
  unfold welcomeBurst
  simp only [Ctx.reply_w, processMotd_w]
  rw [processLusers_w, sendIsupport_w]
  · rfl
  · rw [sendIsupport_w]; exact h

theorem InvCore.invisible_le {w : World} (h : InvCore w) : w.invisibleCount ≤ w.users.length := by
  rw [h.invisibleCount]; exact List.length_filter_le _ _

theorem invCore_sendIsupport {cfg : Cfg} {client : Str} {x : Ctx} (h : InvCore x.w) :
    InvCore (sendIsupport cfg client x).w ∧ SameConnIds x.w (sendIsupport cfg client x).w := by
  rw [sendIsupport_w]; exact ⟨h, SameConnIds.refl _⟩

/-- the guarded subtraction of LUSERS never underflows in an `InvCore` world -/
theorem invCore_processLusers {cfg : Cfg} {client : Str} {x : Ctx} (h : InvCore x.w) :
    InvCore (processLusers cfg client x).w ∧ SameConnIds x.w (processLusers cfg client x).w := by
  rw [processLusers_w _ _ _ h.invisible_le]; exact ⟨h, SameConnIds.refl _⟩

theorem invCore_processMotd {cfg : Cfg} {client : Str} {t : Option Str} {x : Ctx} (h : InvCore x.w) :
    InvCore (processMotd cfg client t x).w ∧ SameConnIds x.w (processMotd cfg client t x).w := by
  rw [processMotd_w]; exact ⟨h, SameConnIds.refl _⟩

theorem invCore_welcomeBurst {cfg : Cfg} {cn : Conn} {um : Str} {x : Ctx} (h : InvCore x.w) :
    InvCore (welcomeBurst cfg cn um x).w ∧ SameConnIds x.w (welcomeBurst cfg cn um x).w := by
  rw [welcomeBurst_w _ _ _ _ h.invisible_le]; exact ⟨h, SameConnIds.refl _⟩

theorem invCore_processAuthenticate {cfg : Cfg} {c : Nat} {x : Ctx} (h : InvCore x.w) :
    InvCore (processAuthenticate cfg c x).w ∧ SameConnIds x.w (processAuthenticate cfg c x).w :=
  ⟨h, SameConnIds.refl _⟩

theorem invCore_processPing {cfg : Cfg} {c : Nat} {t : Str} {x : Ctx} (h : InvCore x.w) :
    InvCore (processPing cfg c t x).w ∧ SameConnIds x.w (processPing cfg c t x).w :=
  ⟨h, SameConnIds.refl _⟩

/-! ### handlers that only touch the acting connection's record -/

theorem invCore_processPong {cfg : Cfg} {c : Nat} {x : Ctx} (h : InvCore x.w) (hl : Live x.w c) :
    InvCore (processPong cfg c x).w ∧ SameConnIds x.w (processPong cfg c x).w := by
  obtain ⟨hm, hid⟩ := Ctx.conn_of_live hl
  unfold processPong
  refine ⟨?_, setConn_conns_ids _ _⟩
  exact invCore_setConn_same h hm rfl rfl rfl rfl rfl rfl id

theorem invCore_processQuit {cfg : Cfg} {c : Nat} {x : Ctx} (h : InvCore x.w) (hl : Live x.w c) :
    InvCore (processQuit cfg c x).w ∧ SameConnIds x.w (processQuit cfg c x).w := by
  obtain ⟨hm, hid⟩ := Ctx.conn_of_live hl
  unfold processQuit
  refine ⟨?_, setConn_conns_ids _ _⟩
  exact invCore_setConn_same h hm rfl rfl rfl rfl rfl rfl (fun _ => Or.inr rfl)

end Irc
