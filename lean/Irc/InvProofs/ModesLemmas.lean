/-
  Irc.InvProofs.ModesLemmas — helper lemmas for Irc.InvProofs.Modes (part D of the
  invariant-preservation proof): map facts, three "master" lemmas (replace one user record /
  replace one channel record / replace one connection record) and the frame lemma
  `InvCore.of_fields`.
-/
import Irc.InvProofs.Defs

namespace Irc

/-! ### more map facts -/
namespace Map
variable {α : Type}

theorem insert_eq_modify (k : Str) (v : α) (m : Map α) (h : contains k m = true) :
    insert k v m = modify k (fun _ => v) m := by
  induction m with
  | nil => simp [contains, lookup] at h
  | cons p m ih =>
    obtain ⟨k', v'⟩ := p
    by_cases hk : k' = k
    · subst hk; simp [insert, modify]
    · have : contains k m = true := by simpa [contains, lookup, hk] using h
      simp [insert, modify, hk, ih this]

theorem keys_insert_of_contains (k : Str) (v : α) (m : Map α) (h : contains k m = true) :
    keys (insert k v m) = keys m := by
  rw [insert_eq_modify k v m h, keys_modify]

theorem contains_eq_of_keys_eq {β : Type} (k : Str) (m : Map α) (m' : Map β) (h : keys m = keys m') :
    contains k m = contains k m' := by
  have h1 := mem_keys_iff k m
  have h2 := mem_keys_iff k m'
  rw [h] at h1
  cases hc : contains k m <;> cases hc' : contains k m' <;> try rfl
  · have := (contains_iff k m').mp hc'
    have := (contains_iff k m).mpr (h1.mp (h2.mpr this))
    simp [hc] at this
  · have := (contains_iff k m).mp hc
    have := (contains_iff k m').mpr (h2.mp (h1.mpr this))
    simp [hc'] at this

theorem contains_modify (k k' : Str) (f : α → α) (m : Map α) :
    contains k (modify k' f m) = contains k m :=
  contains_eq_of_keys_eq k _ _ (keys_modify k' f m)

theorem modify_congr_of_lookup (k : Str) (f : α → α) (m : Map α) (u : α) (h : lookup k m = some u) :
    modify k f m = modify k (fun _ => f u) m := by
  induction m with
  | nil => rfl
  | cons p m ih =>
    obtain ⟨k', v'⟩ := p
    by_cases hk : k' = k
    · subst hk
      have : v' = u := by simpa [lookup] using h
      subst this
      simp [modify]
    · have hl : lookup k m = some u := by simpa [lookup, hk] using h
      simp [modify, hk, ih hl]

theorem length_modify (k : Str) (f : α → α) (m : Map α) : (modify k f m).length = m.length := by
  have := congrArg List.length (keys_modify k f m)
  simpa [keys] using this

theorem eq_nil_of_keys_eq {β : Type} (m : Map α) (m' : Map β) (h : keys m = keys m') (h' : m = []) :
    m' = [] := by
  subst h'
  cases m' with
  | nil => rfl
  | cons p m' => simp [keys] at h

theorem contains_of_lookup {k : Str} {m : Map α} {v : α} (h : lookup k m = some v) :
    contains k m = true := (contains_iff k m).mpr ⟨v, h⟩

/-- counting the entries satisfying `P` after replacing the value at `k` -/
theorem filter_modify_length (P : α → Bool) (k : Str) (f : α → α) (m : Map α) (u : α)
    (h : lookup k m = some u) :
    ((modify k f m).filter (fun p => P p.2)).length + (P u).toNat =
      (m.filter (fun p => P p.2)).length + (P (f u)).toNat := by
  induction m with
  | nil => simp [lookup] at h
  | cons p m ih =>
    obtain ⟨k', v'⟩ := p
    by_cases hk : k' = k
    · subst hk
      have : v' = u := by simpa [lookup] using h
      subst this
      simp only [modify, ↓reduceIte, List.filter_cons]
      cases h1 : P v' <;> cases h2 : P (f v') <;> simp
    · have hl : lookup k m = some u := by simpa [lookup, hk] using h
      have := ih hl
      simp only [modify, hk, ↓reduceIte, List.filter_cons]
      cases h1 : P v' <;> simp <;> omega

theorem filter_pos_of_lookup (P : α → Bool) (k : Str) (m : Map α) (u : α)
    (h : lookup k m = some u) (hp : P u = true) : 0 < (m.filter (fun p => P p.2)).length := by
  induction m with
  | nil => simp [lookup] at h
  | cons p m ih =>
    obtain ⟨k', v'⟩ := p
    by_cases hk : k' = k
    · subst hk
      have : v' = u := by simpa [lookup] using h
      subst this
      simp [hp]
    · have hl : lookup k m = some u := by simpa [lookup, hk] using h
      have := ih hl
      simp only [List.filter_cons]
      split
      · simp
      · exact this

end Map

/-! ### connections -/

theorem conn_of_live {x : Ctx} {c : Nat} (hl : Live x.w c) :
    x.conn c ∈ x.w.conns ∧ (x.conn c).id = c ∧ x.w.conn? c = some (x.conn c) := by
  obtain ⟨cn, h1, h2, h3⟩ := conn?_of_live hl
  unfold Ctx.conn
  rw [h1]
  exact ⟨h2, h3, rfl⟩

theorem conn_id_inj {l : List Conn} (hn : (l.map (·.id)).Nodup) {a b : Conn}
    (ha : a ∈ l) (hb : b ∈ l) (hid : a.id = b.id) : a = b := by
  induction l with
  | nil => cases ha
  | cons x xs ih =>
    simp only [List.map_cons, List.nodup_cons, List.mem_map, not_exists, not_and] at hn
    rcases List.mem_cons.mp ha with rfl | ha' <;> rcases List.mem_cons.mp hb with rfl | hb'
    · rfl
    · exact absurd hid.symm (hn.1 b hb')
    · exact absurd hid (hn.1 a ha')
    · exact ih hn.2 ha' hb'

/-- the sender of a command is registered: it has a nick and owns the user of that nick -/
theorem sender_user {x : Ctx} {c : Nat} (h : InvCore x.w) (hl : Live x.w c)
    (ha : (x.conn c).authenticated = true) :
    ∃ n u, (x.conn c).nick = some n ∧ Map.lookup n x.w.users = some u ∧ u.owner = c := by
  obtain ⟨hm, hid, _⟩ := conn_of_live hl
  obtain ⟨n, u, h1, h2, h3⟩ := h.authOwns _ hm ha
  exact ⟨n, u, h1, h2, by rw [h3, hid]⟩

/-! ### frame: `InvCore` only reads nine fields -/

theorem InvCore.of_fields {w w' : World} (h : InvCore w)
    (hp : w'.panicked = w.panicked) (hu : w'.users = w.users) (hc : w'.channels = w.channels)
    (hcn : w'.conns = w.conns) (hi : w'.invisibleCount = w.invisibleCount)
    (ho : w'.operatorsCount = w.operatorsCount) (hw : w'.wallops = w.wallops)
    (hm : w'.maxUsers = w.maxUsers) (hs : w'.connsCount = w.connsCount) : InvCore w' := by
  obtain ⟨a1, a2, a3, a4, a5, a5', a6, a7, a8, a9, a10, a11, a12, a13, a14, a15, a16, a17, a18⟩ := h
  constructor <;> simp only [hp, hu, hc, hcn, hi, ho, hw, hm, hs] <;> assumption

theorem SameConnIds.of_conns {w w' : World} (h : w'.conns = w.conns) : SameConnIds w w' := by
  unfold SameConnIds; rw [h]

/-- a handler result whose world is the old one -/
theorem invCore_of_w_eq {w w' : World} (h : InvCore w) (e : w' = w) :
    InvCore w' ∧ SameConnIds w w' := by
  subst e; exact ⟨h, SameConnIds.refl _⟩

/-! ### master lemma: one user record replaced -/

theorem invCore_user_update {w w' : World} (h : InvCore w) {n : Str} {u u' : User}
    (hu : Map.lookup n w.users = some u)
    (hown : u'.owner = u.owner) (hchs : u'.channels = u.channels)
    (hk : u'.killed = true →
      ∃ cn, cn ∈ w.conns ∧ cn.id = u.owner ∧ (cn.killedBy.isSome = true ∨ cn.quit = true))
    (husers : w'.users = Map.modify n (fun _ => u') w.users)
    (hp : w'.panicked = w.panicked) (hc : w'.channels = w.channels) (hcn : w'.conns = w.conns)
    (hm : w'.maxUsers = w.maxUsers) (hs : w'.connsCount = w.connsCount)
    (hic : w'.invisibleCount + u.modes.invisible.toNat = w.invisibleCount + u'.modes.invisible.toNat)
    (hoc : w'.operatorsCount + u.modes.isLocalOper.toNat =
      w.operatorsCount + u'.modes.isLocalOper.toNat)
    (hwl : ∀ k, KSet.mem k w'.wallops = true ↔
      (if k = n then u'.modes.wallops = true else KSet.mem k w.wallops = true)) :
    InvCore w' := by
  have hlk : ∀ k, Map.lookup k w'.users = if n = k then some u' else Map.lookup k w.users := by
    intro k
    rw [husers, Map.lookup_modify]
    split
    · rename_i e; subst e; simp [hu]
    · rfl
  constructor
  · rw [hp]; exact h.noPanic
  · rw [husers, Map.keys_modify]; exact h.usersNodup
  · rw [hc]; exact h.chansNodup
  · rw [hcn]; exact h.connsNodup
  · rw [hc]; exact h.membersNodup
  · intro k v hv
    rw [hlk] at hv
    by_cases e : n = k
    · subst e
      simp at hv; subst hv
      rw [hchs]; exact h.userChansNodup n u hu
    · simp [e] at hv; exact h.userChansNodup k v hv
  · intro cn hm' ha
    rw [hcn] at hm'
    obtain ⟨n0, u0, h1, h2, h3⟩ := h.authOwns cn hm' ha
    by_cases e : n = n0
    · subst e
      refine ⟨n, u', h1, by rw [hlk]; simp, ?_⟩
      rw [hown]; rw [hu] at h2; cases h2; exact h3
    · exact ⟨n0, u0, h1, by rw [hlk]; simp [e, h2], h3⟩
  · intro k v hv
    rw [hlk] at hv
    rw [hcn]
    by_cases e : n = k
    · subst e
      simp at hv; subst hv
      rw [hown]; exact h.userOwned n u hu
    · simp [e] at hv; exact h.userOwned k v hv
  · intro k v ch hv
    rw [hlk] at hv
    rw [hc]
    by_cases e : n = k
    · subst e
      simp at hv; subst hv
      rw [hchs]; exact h.memberSym n u ch hu
    · simp [e] at hv; exact h.memberSym k v ch hv
  · intro ch C k hC hk'
    rw [hc] at hC
    rw [husers, Map.contains_modify]
    exact h.memberIsUser ch C k hC hk'
  · rw [hc]; exact h.rankMirror
  · rw [hc]; exact h.noEmptyAdHoc
  · have := Map.filter_modify_length (fun v : User => v.modes.invisible) n (fun _ => u') w.users u hu
    rw [husers]
    have h0 := h.invisibleCount
    omega
  · have := Map.filter_modify_length (fun v : User => v.modes.isLocalOper) n (fun _ => u') w.users u hu
    rw [husers]
    have h0 := h.operatorsCount
    omega
  · intro k
    rw [hwl k, hlk]
    by_cases e : k = n
    · subst e; simp
    · have e' : ¬ n = k := fun e' => e e'.symm
      simp only [e, e', ↓reduceIte]
      exact h.wallopsSet k
  · rw [husers, Map.length_modify, hm]; exact h.maxUsers
  · rw [hcn]; exact h.resources
  · rw [hs, hcn]; exact h.slots
  · intro k v hv hkil
    rw [hlk] at hv
    rw [hcn]
    by_cases e : n = k
    · subst e
      simp at hv; subst hv
      rw [hown]; exact hk hkil
    · simp [e] at hv; exact h.killedFlagged k v hv hkil

/-- a user record changed in fields the invariant does not read -/
theorem invCore_user_modify {w w' : World} (h : InvCore w) {n : Str} {u : User}
    (hu : Map.lookup n w.users = some u) (f : User → User)
    (hmodes : (f u).modes = u.modes) (hown : (f u).owner = u.owner)
    (hchs : (f u).channels = u.channels) (hkil : (f u).killed = u.killed)
    (husers : w'.users = Map.modify n f w.users)
    (hp : w'.panicked = w.panicked) (hc : w'.channels = w.channels) (hcn : w'.conns = w.conns)
    (hm : w'.maxUsers = w.maxUsers) (hs : w'.connsCount = w.connsCount)
    (hi : w'.invisibleCount = w.invisibleCount) (ho : w'.operatorsCount = w.operatorsCount)
    (hw : w'.wallops = w.wallops) : InvCore w' ∧ SameConnIds w w' := by
  refine ⟨?_, SameConnIds.of_conns hcn⟩
  refine invCore_user_update h hu hown hchs ?_
    (by rw [husers]; exact Map.modify_congr_of_lookup n f _ u hu) hp hc hcn hm hs
    (by rw [hi, hmodes]) (by rw [ho, hmodes]) ?_
  · intro hk; rw [hkil] at hk; exact h.killedFlagged n u hu hk
  · intro k
    rw [hw, hmodes]
    by_cases e : k = n
    · subst e; simp only [↓reduceIte]
      rw [h.wallopsSet k]
      constructor
      · rintro ⟨v, hv, hw'⟩; rw [hu] at hv; cases hv; exact hw'
      · intro hw'; exact ⟨u, hu, hw'⟩
    · simp [e]

/-! ### master lemma: one channel record replaced (same member keys) -/

theorem invCore_channel_update {w w' : World} (h : InvCore w) {t : Str} {ch ch' : Channel}
    (hch : Map.lookup t w.channels = some ch)
    (hkeys : Map.keys ch'.users = Map.keys ch.users)
    (hrm : RankMirror ch') (hpre : ch'.preconfigured = ch.preconfigured)
    (hchans : w'.channels = Map.insert t ch' w.channels)
    (hp : w'.panicked = w.panicked) (hu : w'.users = w.users) (hcn : w'.conns = w.conns)
    (hi : w'.invisibleCount = w.invisibleCount) (ho : w'.operatorsCount = w.operatorsCount)
    (hw : w'.wallops = w.wallops) (hm : w'.maxUsers = w.maxUsers)
    (hs : w'.connsCount = w.connsCount) : InvCore w' := by
  have hcont : Map.contains t w.channels = true := Map.contains_of_lookup hch
  have hlk : ∀ k, Map.lookup k w'.channels = if t = k then some ch' else Map.lookup k w.channels := by
    intro k; rw [hchans, Map.lookup_insert]
  have hce : ∀ k, Map.contains k ch'.users = Map.contains k ch.users :=
    fun k => Map.contains_eq_of_keys_eq k _ _ hkeys
  constructor
  · rw [hp]; exact h.noPanic
  · rw [hu]; exact h.usersNodup
  · rw [hchans, Map.keys_insert_of_contains _ _ _ hcont]; exact h.chansNodup
  · rw [hcn]; exact h.connsNodup
  · intro k C hC
    rw [hlk] at hC
    by_cases e : t = k
    · subst e; simp at hC; subst hC
      rw [hkeys]; exact h.membersNodup t ch hch
    · simp [e] at hC; exact h.membersNodup k C hC
  · rw [hu]; exact h.userChansNodup
  · rw [hcn, hu]; exact h.authOwns
  · rw [hcn, hu]; exact h.userOwned
  · intro n u k hn
    rw [hu] at hn
    rw [h.memberSym n u k hn]
    by_cases e : t = k
    · subst e
      constructor
      · rintro ⟨C, hC, hm'⟩
        rw [hch] at hC; cases hC
        exact ⟨ch', by rw [hlk]; simp, by rw [hce]; exact hm'⟩
      · rintro ⟨C, hC, hm'⟩
        rw [hlk] at hC; simp at hC; subst hC
        exact ⟨ch, hch, by rw [← hce]; exact hm'⟩
    · constructor
      · rintro ⟨C, hC, hm'⟩
        exact ⟨C, by rw [hlk]; simp [e, hC], hm'⟩
      · rintro ⟨C, hC, hm'⟩
        rw [hlk] at hC; simp [e] at hC
        exact ⟨C, hC, hm'⟩
  · intro k C n hC hn
    rw [hlk] at hC
    rw [hu]
    by_cases e : t = k
    · subst e; simp at hC; subst hC
      rw [hce] at hn
      exact h.memberIsUser t ch n hch hn
    · simp [e] at hC; exact h.memberIsUser k C n hC hn
  · intro k C hC
    rw [hlk] at hC
    by_cases e : t = k
    · subst e; simp at hC; subst hC; exact hrm
    · simp [e] at hC; exact h.rankMirror k C hC
  · intro k C hC hemp
    rw [hlk] at hC
    by_cases e : t = k
    · subst e; simp at hC; subst hC
      rw [hpre]
      exact h.noEmptyAdHoc t ch hch (Map.eq_nil_of_keys_eq _ _ hkeys hemp)
    · simp [e] at hC; exact h.noEmptyAdHoc k C hC hemp
  · rw [hi, hu]; exact h.invisibleCount
  · rw [ho, hu]; exact h.operatorsCount
  · rw [hw, hu]; exact h.wallopsSet
  · rw [hu, hm]; exact h.maxUsers
  · rw [hcn]; exact h.resources
  · rw [hs, hcn]; exact h.slots
  · rw [hu, hcn]; exact h.killedFlagged

/-! ### master lemma: one connection record replaced (only `killedBy` set) -/

theorem setConn_ids (w : World) (cn' : Conn) :
    (w.setConn cn').conns.map (·.id) = w.conns.map (·.id) := by
  unfold World.setConn
  simp only [List.map_map]
  apply List.map_congr_left
  intro x _
  simp only [Function.comp]
  split
  · rename_i e; simp at e; exact e.symm
  · rfl

theorem mem_setConn {w : World} {cn' y : Conn} (hy : y ∈ (w.setConn cn').conns) :
    (y ∈ w.conns ∧ y.id ≠ cn'.id) ∨ (y = cn' ∧ ∃ x, x ∈ w.conns ∧ x.id = cn'.id) := by
  unfold World.setConn at hy
  obtain ⟨x, hx, e⟩ := List.mem_map.mp hy
  by_cases hid : x.id = cn'.id
  · right; simp [hid] at e; exact ⟨e.symm, x, hx, hid⟩
  · left; simp [hid] at e; subst e; exact ⟨hx, hid⟩

theorem setConn_mem {w : World} {cn' x : Conn} (hx : x ∈ w.conns) :
    (if x.id = cn'.id then cn' else x) ∈ (w.setConn cn').conns := by
  unfold World.setConn
  refine List.mem_map.mpr ⟨x, hx, ?_⟩
  by_cases hid : x.id = cn'.id <;> simp [hid]

theorem invCore_setConn_killedBy {w : World} (h : InvCore w) {cn : Conn} (hm : cn ∈ w.conns)
    (kb : Option (Str × Str)) (hkb : cn.killedBy.isSome = true → kb.isSome = true) :
    InvCore (w.setConn { cn with killedBy := kb }) ∧
      SameConnIds w (w.setConn { cn with killedBy := kb }) := by
  refine ⟨?_, setConn_ids w _⟩
  have key : ∀ y, y ∈ (w.setConn { cn with killedBy := kb }).conns →
      ∃ x, x ∈ w.conns ∧ y.id = x.id ∧ y.nick = x.nick ∧ y.authenticated = x.authenticated ∧
        y.hasSender = x.hasSender ∧ y.hasQuitSender = x.hasQuitSender ∧
        y.hasPingSender = x.hasPingSender := by
    intro y hy
    rcases mem_setConn hy with ⟨h1, _⟩ | ⟨h1, _⟩
    · exact ⟨y, h1, rfl, rfl, rfl, rfl, rfl, rfl⟩
    · subst h1; exact ⟨cn, hm, rfl, rfl, rfl, rfl, rfl, rfl⟩
  have key2 : ∀ x, x ∈ w.conns → ∃ y, y ∈ (w.setConn { cn with killedBy := kb }).conns ∧
      y.id = x.id ∧ y.nick = x.nick ∧ y.authenticated = x.authenticated ∧ y.quit = x.quit ∧
      (x.killedBy.isSome = true → y.killedBy.isSome = true) := by
    intro x hx
    have := setConn_mem (cn' := { cn with killedBy := kb }) hx
    by_cases hid : x.id = cn.id
    · have e := conn_id_inj h.connsNodup hx hm hid
      subst e
      simp only [↓reduceIte] at this
      exact ⟨_, this, rfl, rfl, rfl, rfl, hkb⟩
    · have hid' : ¬ x.id = ({ cn with killedBy := kb } : Conn).id := hid
      simp only [hid', ↓reduceIte] at this
      exact ⟨x, this, rfl, rfl, rfl, rfl, id⟩
  constructor
  · exact h.noPanic
  · exact h.usersNodup
  · exact h.chansNodup
  · rw [setConn_ids]; exact h.connsNodup
  · exact h.membersNodup
  · exact h.userChansNodup
  · intro y hy hay
    obtain ⟨x, hx, e1, e2, e3, _⟩ := key y hy
    rw [e3] at hay
    obtain ⟨n, u, a1, a2, a3⟩ := h.authOwns x hx hay
    exact ⟨n, u, by rw [e2]; exact a1, a2, by rw [e1]; exact a3⟩
  · intro n u hu
    obtain ⟨x, hx, a1, a2, a3⟩ := h.userOwned n u hu
    obtain ⟨y, hy, e1, e2, e3, _⟩ := key2 x hx
    exact ⟨y, hy, by rw [e1]; exact a1, by rw [e3]; exact a2, by rw [e2]; exact a3⟩
  · exact h.memberSym
  · exact h.memberIsUser
  · exact h.rankMirror
  · exact h.noEmptyAdHoc
  · exact h.invisibleCount
  · exact h.operatorsCount
  · exact h.wallopsSet
  · exact h.maxUsers
  · intro y hy hay
    obtain ⟨x, hx, e1, e2, e3, e4, e5, e6⟩ := key y hy
    rw [e3] at hay
    rw [e4, e5, e6]
    exact h.resources x hx hay
  · show w.connsCount = (w.setConn _).conns.length
    have := congrArg List.length (setConn_ids w { cn with killedBy := kb })
    simp only [List.length_map] at this
    rw [this]; exact h.slots
  · intro n u hu hk
    obtain ⟨x, hx, a1, a2⟩ := h.killedFlagged n u hu hk
    obtain ⟨y, hy, e1, _, _, e4, e5⟩ := key2 x hx
    refine ⟨y, hy, by rw [e1]; exact a1, ?_⟩
    rcases a2 with a2 | a2
    · left; exact e5 a2
    · right; rw [e4]; exact a2

end Irc
