/-
  Irc.InvProofs.ModesLemmas — helper lemmas for Irc.InvProofs.Modes (part D of the
  invariant-preservation proof): map facts, three "master" lemmas (replace one user record /
  replace one channel record / replace one connection record) and the frame lemma
  `invCore_of_fields`.  Everything here lives in `namespace Irc.Modes`.
-/
import Irc.InvProofs.Defs

namespace Irc.Modes

/-! ### more map facts -/
variable {α : Type}

theorem Map.insert_eq_modify (k : Str) (v : α) (m : Map α) (h : Map.contains k m = true) :
    Map.insert k v m = Map.modify k (fun _ => v) m := by
  induction m with
  | nil => simp [Map.contains, Map.lookup] at h
  | cons p m ih =>
    obtain ⟨k', v'⟩ := p
    by_cases hk : k' = k
    · subst hk; simp [Map.insert, Map.modify]
    · have : Map.contains k m = true := by simpa [Map.contains, Map.lookup, hk] using h
      simp [Map.insert, Map.modify, hk, ih this]

theorem Map.keys_insert_of_contains (k : Str) (v : α) (m : Map α) (h : Map.contains k m = true) :
    Map.keys (Map.insert k v m) = Map.keys m := by
  rw [Map.insert_eq_modify k v m h, Map.keys_modify]

theorem Map.contains_eq_of_keys_eq {β : Type} (k : Str) (m : Map α) (m' : Map β) (h : Map.keys m = Map.keys m') :
    Map.contains k m = Map.contains k m' := by
  have h1 := Map.mem_keys_iff k m
  have h2 := Map.mem_keys_iff k m'
  rw [h] at h1
  cases hc : Map.contains k m <;> cases hc' : Map.contains k m' <;> try rfl
  · have := (Map.contains_iff k m').mp hc'
    have := (Map.contains_iff k m).mpr (h1.mp (h2.mpr this))
    simp [hc] at this
  · have := (Map.contains_iff k m).mp hc
    have := (Map.contains_iff k m').mpr (h2.mp (h1.mpr this))
    simp [hc'] at this

theorem Map.contains_modify (k k' : Str) (f : α → α) (m : Map α) :
    Map.contains k (Map.modify k' f m) = Map.contains k m :=
  Map.contains_eq_of_keys_eq k _ _ (Map.keys_modify k' f m)

theorem Map.modify_congr_of_lookup (k : Str) (f : α → α) (m : Map α) (u : α) (h : Map.lookup k m = some u) :
    Map.modify k f m = Map.modify k (fun _ => f u) m := by
  induction m with
  | nil => rfl
  | cons p m ih =>
    obtain ⟨k', v'⟩ := p
    by_cases hk : k' = k
    · subst hk
      have : v' = u := by simpa [Map.lookup] using h
      subst this
      simp [Map.modify]
    · have hl : Map.lookup k m = some u := by simpa [Map.lookup, hk] using h
      simp [Map.modify, hk, ih hl]

theorem Map.length_modify (k : Str) (f : α → α) (m : Map α) : (Map.modify k f m).length = m.length := by
  have := congrArg List.length (Map.keys_modify k f m)
  simpa [Map.keys] using this

theorem Map.eq_nil_of_keys_eq {β : Type} (m : Map α) (m' : Map β) (h : Map.keys m = Map.keys m') (h' : m = []) :
    m' = [] := by
  subst h'
  cases m' with
  | nil => rfl
  | cons p m' => simp [Map.keys] at h

theorem Map.contains_of_lookup {k : Str} {m : Map α} {v : α} (h : Map.lookup k m = some v) :
    Map.contains k m = true := (Map.contains_iff k m).mpr ⟨v, h⟩

/-- counting the entries satisfying `P` after replacing the value at `k` -/
theorem Map.filter_modify_length (P : α → Bool) (k : Str) (f : α → α) (m : Map α) (u : α)
    (h : Map.lookup k m = some u) :
    ((Map.modify k f m).filter (fun p => P p.2)).length + (P u).toNat =
      (m.filter (fun p => P p.2)).length + (P (f u)).toNat := by
  induction m with
  | nil => simp [Map.lookup] at h
  | cons p m ih =>
    obtain ⟨k', v'⟩ := p
    by_cases hk : k' = k
    · subst hk
      have : v' = u := by simpa [Map.lookup] using h
      subst this
      simp only [Map.modify, ↓reduceIte, List.filter_cons]
      cases h1 : P v' <;> cases h2 : P (f v') <;> simp
    · have hl : Map.lookup k m = some u := by simpa [Map.lookup, hk] using h
      have := ih hl
      simp only [Map.modify, hk, ↓reduceIte, List.filter_cons]
      cases h1 : P v' <;> simp <;> omega

theorem Map.filter_pos_of_lookup (P : α → Bool) (k : Str) (m : Map α) (u : α)
    (h : Map.lookup k m = some u) (hp : P u = true) : 0 < (m.filter (fun p => P p.2)).length := by
  induction m with
  | nil => simp [Map.lookup] at h
  | cons p m ih =>
    obtain ⟨k', v'⟩ := p
    by_cases hk : k' = k
    · subst hk
      have : v' = u := by simpa [Map.lookup] using h
      subst this
      simp [hp]
    · have hl : Map.lookup k m = some u := by simpa [Map.lookup, hk] using h
      have := ih hl
      simp only [List.filter_cons]
      split
      · simp
      · exact this


/-! ### connections -/

theorem conn_of_live {x : Ctx} {c : Nat} (hl : Live x.w c) :
    x.conn c ∈ x.w.conns ∧ (x.conn c).id = c ∧ x.w.conn? c = some (x.conn c) := by
  obtain ⟨cn, h1, h2, h3⟩ := conn?_of_live hl
  unfold Ctx.conn
  rw [h1]
  exact ⟨h2, h3, rfl⟩

theorem conn_id_inj {l : List Conn} (hn : (l.map (·.id)).Nodup) {a b : Conn}
    (ha : a ∈ l) (hb : b ∈ l) (hid : a.id = b.id) : a = b := by
  induction l with
  | nil => cases ha
  | cons x xs ih =>
    simp only [List.map_cons, List.nodup_cons, List.mem_map, not_exists, not_and] at hn
    rcases List.mem_cons.mp ha with rfl | ha' <;> rcases List.mem_cons.mp hb with rfl | hb'
    · rfl
    · exact absurd hid.symm (hn.1 b hb')
    · exact absurd hid (hn.1 a ha')
    · exact ih hn.2 ha' hb'

/-- the sender of a command is registered: it has a nick and owns the user of that nick -/
theorem sender_user {x : Ctx} {c : Nat} (h : InvCore x.w) (hl : Live x.w c)
    (ha : (x.conn c).authenticated = true) :
    ∃ n u, (x.conn c).nick = some n ∧ Map.lookup n x.w.users = some u ∧ u.owner = c := by
  obtain ⟨hm, hid, _⟩ := conn_of_live hl
  obtain ⟨n, u, h1, h2, h3⟩ := h.authOwns _ hm ha
  exact ⟨n, u, h1, h2, by rw [h3, hid]⟩

/-! ### frame: `InvCore` only reads nine fields -/

theorem invCore_of_fields {w w' : World} (h : InvCore w)
    (hp : w'.panicked = w.panicked) (hu : w'.users = w.users) (hc : w'.channels = w.channels)
    (hcn : w'.conns = w.conns) (hi : w'.invisibleCount = w.invisibleCount)
    (ho : w'.operatorsCount = w.operatorsCount) (hw : w'.wallops = w.wallops)
    (hm : w'.maxUsers = w.maxUsers) (hs : w'.connsCount = w.connsCount) : InvCore w' := by
  obtain ⟨a1, a2, a3, a4, a5, a5', a6, a7, a8, a9, a10, a11, a12, a13, a14, a15, a16, a17, a18⟩ := h
  constructor <;> simp only [hp, hu, hc, hcn, hi, ho, hw, hm, hs] <;> assumption

theorem sameConnIds_of_conns {w w' : World} (h : w'.conns = w.conns) : SameConnIds w w' := by
  unfold SameConnIds; rw [h]

/-- a handler result whose world is the old one -/
theorem invCore_of_w_eq {w w' : World} (h : InvCore w) (e : w' = w) :
    InvCore w' ∧ SameConnIds w w' := by
  subst e; exact ⟨h, SameConnIds.refl _⟩

/-! ### master lemma: one user record replaced -/

theorem invCore_user_update {w w' : World} (h : InvCore w) {n : Str} {u u' : User}
    (hu : Map.lookup n w.users = some u)
    (hown : u'.owner = u.owner) (hchs : u'.channels = u.channels)
    (hk : u'.killed = true →
      ∃ cn, cn ∈ w.conns ∧ cn.id = u.owner ∧ (cn.killedBy.isSome = true ∨ cn.quit = true))
    (husers : w'.users = Map.modify n (fun _ => u') w.users)
    (hp : w'.panicked = w.panicked) (hc : w'.channels = w.channels) (hcn : w'.conns = w.conns)
    (hm : w'.maxUsers = w.maxUsers) (hs : w'.connsCount = w.connsCount)
    (hic : w'.invisibleCount + u.modes.invisible.toNat = w.invisibleCount + u'.modes.invisible.toNat)
    (hoc : w'.operatorsCount + u.modes.isLocalOper.toNat =
      w.operatorsCount + u'.modes.isLocalOper.toNat)
    (hwl : ∀ k, KSet.mem k w'.wallops = true ↔
      (if k = n then u'.modes.wallops = true else KSet.mem k w.wallops = true)) :
    InvCore w' := by
  have hlk : ∀ k, Map.lookup k w'.users = if n = k then some u' else Map.lookup k w.users := by
    intro k
    rw [husers, Map.lookup_modify]
    split
    · rename_i e; subst e; simp [hu]
    · rfl
  constructor
  · rw [hp]; exact h.noPanic
  · rw [husers, Map.keys_modify]; exact h.usersNodup
  · rw [hc]; exact h.chansNodup
  · rw [hcn]; exact h.connsNodup
  · rw [hc]; exact h.membersNodup
  · intro k v hv
    rw [hlk] at hv
    by_cases e : n = k
    · subst e
      simp at hv; subst hv
      rw [hchs]; exact h.userChansNodup n u hu
    · simp [e] at hv; exact h.userChansNodup k v hv
  · intro cn hm' ha
    rw [hcn] at hm'
    obtain ⟨n0, u0, h1, h2, h3⟩ := h.authOwns cn hm' ha
    by_cases e : n = n0
    · subst e
      refine ⟨n, u', h1, by rw [hlk]; simp, ?_⟩
      rw [hown]; rw [hu] at h2; cases h2; exact h3
    · exact ⟨n0, u0, h1, by rw [hlk]; simp [e, h2], h3⟩
  · intro k v hv
    rw [hlk] at hv
    rw [hcn]
    by_cases e : n = k
    · subst e
      simp at hv; subst hv
      rw [hown]; exact h.userOwned n u hu
    · simp [e] at hv; exact h.userOwned k v hv
  · intro k v ch hv
    rw [hlk] at hv
    rw [hc]
    by_cases e : n = k
    · subst e
      simp at hv; subst hv
      rw [hchs]; exact h.memberSym n u ch hu
    · simp [e] at hv; exact h.memberSym k v ch hv
  · intro ch C k hC hk'
    rw [hc] at hC
    rw [husers, Map.contains_modify]
    exact h.memberIsUser ch C k hC hk'
  · rw [hc]; exact h.rankMirror
  · rw [hc]; exact h.noEmptyAdHoc
  · have := Map.filter_modify_length (fun v : User => v.modes.invisible) n (fun _ => u') w.users u hu
    rw [husers]
    have h0 := h.invisibleCount
    omega
  · have := Map.filter_modify_length (fun v : User => v.modes.isLocalOper) n (fun _ => u') w.users u hu
    rw [husers]
    have h0 := h.operatorsCount
    omega
  · intro k
    rw [hwl k, hlk]
    by_cases e : k = n
    · subst e; simp
    · have e' : ¬ n = k := fun e' => e e'.symm
      simp only [e, e', ↓reduceIte]
      exact h.wallopsSet k
  · rw [husers, Map.length_modify, hm]; exact h.maxUsers
  · rw [hcn]; exact h.resources
  · rw [hs, hcn]; exact h.slots
  · intro k v hv hkil
    rw [hlk] at hv
    rw [hcn]
    by_cases e : n = k
    · subst e
      simp at hv; subst hv
      rw [hown]; exact hk hkil
    · simp [e] at hv; exact h.killedFlagged k v hv hkil

/-- a user record changed in fields the invariant does not read -/
theorem invCore_user_modify {w w' : World} (h : InvCore w) {n : Str} {u : User}
    (hu : Map.lookup n w.users = some u) (f : User → User)
    (hmodes : (f u).modes = u.modes) (hown : (f u).owner = u.owner)
    (hchs : (f u).channels = u.channels) (hkil : (f u).killed = u.killed)
    (husers : w'.users = Map.modify n f w.users)
    (hp : w'.panicked = w.panicked) (hc : w'.channels = w.channels) (hcn : w'.conns = w.conns)
    (hm : w'.maxUsers = w.maxUsers) (hs : w'.connsCount = w.connsCount)
    (hi : w'.invisibleCount = w.invisibleCount) (ho : w'.operatorsCount = w.operatorsCount)
    (hw : w'.wallops = w.wallops) : InvCore w' ∧ SameConnIds w w' := by
  refine ⟨?_, sameConnIds_of_conns hcn⟩
  refine invCore_user_update h hu hown hchs ?_
    (by rw [husers]; exact Map.modify_congr_of_lookup n f _ u hu) hp hc hcn hm hs
    (by rw [hi, hmodes]) (by rw [ho, hmodes]) ?_
  · intro hk; rw [hkil] at hk; exact h.killedFlagged n u hu hk
  · intro k
    rw [hw, hmodes]
    by_cases e : k = n
    · subst e; simp only [↓reduceIte]
      rw [h.wallopsSet k]
      constructor
      · rintro ⟨v, hv, hw'⟩; rw [hu] at hv; cases hv; exact hw'
      · intro hw'; exact ⟨u, hu, hw'⟩
    · simp [e]

/-! ### master lemma: one channel record replaced (same member keys) -/

theorem invCore_channel_update {w w' : World} (h : InvCore w) {t : Str} {ch ch' : Channel}
    (hch : Map.lookup t w.channels = some ch)
    (hkeys : Map.keys ch'.users = Map.keys ch.users)
    (hrm : RankMirror ch') (hpre : ch'.preconfigured = ch.preconfigured)
    (hchans : w'.channels = Map.insert t ch' w.channels)
    (hp : w'.panicked = w.panicked) (hu : w'.users = w.users) (hcn : w'.conns = w.conns)
    (hi : w'.invisibleCount = w.invisibleCount) (ho : w'.operatorsCount = w.operatorsCount)
    (hw : w'.wallops = w.wallops) (hm : w'.maxUsers = w.maxUsers)
    (hs : w'.connsCount = w.connsCount) : InvCore w' := by
  have hcont : Map.contains t w.channels = true := Map.contains_of_lookup hch
  have hlk : ∀ k, Map.lookup k w'.channels = if t = k then some ch' else Map.lookup k w.channels := by
    intro k; rw [hchans, Map.lookup_insert]
  have hce : ∀ k, Map.contains k ch'.users = Map.contains k ch.users :=
    fun k => Map.contains_eq_of_keys_eq k _ _ hkeys
  constructor
  · rw [hp]; exact h.noPanic
  · rw [hu]; exact h.usersNodup
  · rw [hchans, Map.keys_insert_of_contains _ _ _ hcont]; exact h.chansNodup
  · rw [hcn]; exact h.connsNodup
  · intro k C hC
    rw [hlk] at hC
    by_cases e : t = k
    · subst e; simp at hC; subst hC
      rw [hkeys]; exact h.membersNodup t ch hch
    · simp [e] at hC; exact h.membersNodup k C hC
  · rw [hu]; exact h.userChansNodup
  · rw [hcn, hu]; exact h.authOwns
  · rw [hcn, hu]; exact h.userOwned
  · intro n u k hn
    rw [hu] at hn
    rw [h.memberSym n u k hn]
    by_cases e : t = k
    · subst e
      constructor
      · rintro ⟨C, hC, hm'⟩
        rw [hch] at hC; cases hC
        exact ⟨ch', by rw [hlk]; simp, by rw [hce]; exact hm'⟩
      · rintro ⟨C, hC, hm'⟩
        rw [hlk] at hC; simp at hC; subst hC
        exact ⟨ch, hch, by rw [← hce]; exact hm'⟩
    · constructor
      · rintro ⟨C, hC, hm'⟩
        exact ⟨C, by rw [hlk]; simp [e, hC], hm'⟩
      · rintro ⟨C, hC, hm'⟩
        rw [hlk] at hC; simp [e] at hC
        exact ⟨C, hC, hm'⟩
  · intro k C n hC hn
    rw [hlk] at hC
    rw [hu]
    by_cases e : t = k
    · subst e; simp at hC; subst hC
      rw [hce] at hn
      exact h.memberIsUser t ch n hch hn
    · simp [e] at hC; exact h.memberIsUser k C n hC hn
  · intro k C hC
    rw [hlk] at hC
    by_cases e : t = k
    · subst e; simp at hC; subst hC; exact hrm
    · simp [e] at hC; exact h.rankMirror k C hC
  · intro k C hC hemp
    rw [hlk] at hC
    by_cases e : t = k
    · subst e; simp at hC; subst hC
      rw [hpre]
      exact h.noEmptyAdHoc t ch hch (Map.eq_nil_of_keys_eq _ _ hkeys hemp)
    · simp [e] at hC; exact h.noEmptyAdHoc k C hC hemp
  · rw [hi, hu]; exact h.invisibleCount
  · rw [ho, hu]; exact h.operatorsCount
  · rw [hw, hu]; exact h.wallopsSet
  · rw [hu, hm]; exact h.maxUsers
  · rw [hcn]; exact h.resources
  · rw [hs, hcn]; exact h.slots
  · rw [hu, hcn]; exact h.killedFlagged

/-! ### master lemma: one connection record replaced (only `killedBy` set) -/

theorem setConn_ids (w : World) (cn' : Conn) :
    (w.setConn cn').conns.map (·.id) = w.conns.map (·.id) := by
  unfold World.setConn
  simp only [List.map_map]
  apply List.map_congr_left
  intro x _
  simp only [Function.comp]
  split
  · rename_i e; simp at e; exact e.symm
  · rfl

theorem mem_setConn {w : World} {cn' y : Conn} (hy : y ∈ (w.setConn cn').conns) :
    (y ∈ w.conns ∧ y.id ≠ cn'.id) ∨ (y = cn' ∧ ∃ x, x ∈ w.conns ∧ x.id = cn'.id) := by
  unfold World.setConn at hy
  obtain ⟨x, hx, e⟩ := List.mem_map.mp hy
  by_cases hid : x.id = cn'.id
  · right; simp [hid] at e; exact ⟨e.symm, x, hx, hid⟩
  · left; simp [hid] at e; subst e; exact ⟨hx, hid⟩

theorem setConn_mem {w : World} {cn' x : Conn} (hx : x ∈ w.conns) :
    (if x.id = cn'.id then cn' else x) ∈ (w.setConn cn').conns := by
  unfold World.setConn
  refine List.mem_map.mpr ⟨x, hx, ?_⟩
  by_cases hid : x.id = cn'.id <;> simp [hid]

theorem invCore_setConn_killedBy {w : World} (h : InvCore w) {cn : Conn} (hm : cn ∈ w.conns)
    (kb : Option (Str × Str)) (hkb : cn.killedBy.isSome = true → kb.isSome = true) :
    InvCore (w.setConn { cn with killedBy := kb }) ∧
      SameConnIds w (w.setConn { cn with killedBy := kb }) := by
  refine ⟨?_, setConn_ids w _⟩
  have key : ∀ y, y ∈ (w.setConn { cn with killedBy := kb }).conns →
      ∃ x, x ∈ w.conns ∧ y.id = x.id ∧ y.nick = x.nick ∧ y.authenticated = x.authenticated ∧
        y.hasSender = x.hasSender ∧ y.hasQuitSender = x.hasQuitSender ∧
        y.hasPingSender = x.hasPingSender := by
    intro y hy
    rcases mem_setConn hy with ⟨h1, _⟩ | ⟨h1, _⟩
    · exact ⟨y, h1, rfl, rfl, rfl, rfl, rfl, rfl⟩
    · subst h1; exact ⟨cn, hm, rfl, rfl, rfl, rfl, rfl, rfl⟩
  have key2 : ∀ x, x ∈ w.conns → ∃ y, y ∈ (w.setConn { cn with killedBy := kb }).conns ∧
      y.id = x.id ∧ y.nick = x.nick ∧ y.authenticated = x.authenticated ∧ y.quit = x.quit ∧
      (x.killedBy.isSome = true → y.killedBy.isSome = true) := by
    intro x hx
    have := setConn_mem (cn' := { cn with killedBy := kb }) hx
    by_cases hid : x.id = cn.id
    · have e := conn_id_inj h.connsNodup hx hm hid
      subst e
      simp only [↓reduceIte] at this
      exact ⟨_, this, rfl, rfl, rfl, rfl, hkb⟩
    · have hid' : ¬ x.id = ({ cn with killedBy := kb } : Conn).id := hid
      simp only [hid', ↓reduceIte] at this
      exact ⟨x, this, rfl, rfl, rfl, rfl, id⟩
  constructor
  · exact h.noPanic
  · exact h.usersNodup
  · exact h.chansNodup
  · rw [setConn_ids]; exact h.connsNodup
  · exact h.membersNodup
  · exact h.userChansNodup
  · intro y hy hay
    obtain ⟨x, hx, e1, e2, e3, _⟩ := key y hy
    rw [e3] at hay
    obtain ⟨n, u, a1, a2, a3⟩ := h.authOwns x hx hay
    exact ⟨n, u, by rw [e2]; exact a1, a2, by rw [e1]; exact a3⟩
  · intro n u hu
    obtain ⟨x, hx, a1, a2, a3⟩ := h.userOwned n u hu
    obtain ⟨y, hy, e1, e2, e3, _⟩ := key2 x hx
    exact ⟨y, hy, by rw [e1]; exact a1, by rw [e3]; exact a2, by rw [e2]; exact a3⟩
  · exact h.memberSym
  · exact h.memberIsUser
  · exact h.rankMirror
  · exact h.noEmptyAdHoc
  · exact h.invisibleCount
  · exact h.operatorsCount
  · exact h.wallopsSet
  · exact h.maxUsers
  · intro y hy hay
    obtain ⟨x, hx, e1, e2, e3, e4, e5, e6⟩ := key y hy
    rw [e3] at hay
    rw [e4, e5, e6]
    exact h.resources x hx hay
  · show w.connsCount = (w.setConn _).conns.length
    have := congrArg List.length (setConn_ids w { cn with killedBy := kb })
    simp only [List.length_map] at this
    rw [this]; exact h.slots
  · intro n u hu hk
    obtain ⟨x, hx, a1, a2⟩ := h.killedFlagged n u hu hk
    obtain ⟨y, hy, e1, _, _, e4, e5⟩ := key2 x hx
    refine ⟨y, hy, by rw [e1]; exact a1, ?_⟩
    rcases a2 with a2 | a2
    · left; exact e5 a2
    · right; rw [e4]; exact a2

/-! ### user MODE: the loop invariant -/

structure UAccInv (w0 : World) (target : Str) (ui uo : Nat) (a : UModeAcc) : Prop where
  panicked : a.x.w.panicked = w0.panicked
  users : a.x.w.users = w0.users
  channels : a.x.w.channels = w0.channels
  conns : a.x.w.conns = w0.conns
  maxUsers : a.x.w.maxUsers = w0.maxUsers
  connsCount : a.x.w.connsCount = w0.connsCount
  inv : a.x.w.invisibleCount + ui = w0.invisibleCount + a.modes.invisible.toNat
  ops : a.x.w.operatorsCount + uo =
    w0.operatorsCount + a.modes.isLocalOper.toNat
  wl : ∀ k, KSet.mem k a.x.w.wallops = true ↔
    (if k = target then a.modes.wallops = true else KSet.mem k w0.wallops = true)

theorem umodeChar_inv {cfg : Cfg} {cn : Conn} {w0 : World} {target : Str} {ui uo : Nat} {a : UModeAcc}
    (hbi : ui ≤ w0.invisibleCount)
    (hbo : uo ≤ w0.operatorsCount)
    (h : UAccInv w0 target ui uo a) (ch : Char) : UAccInv w0 target ui uo (umodeChar cfg cn target a ch) := by
  obtain ⟨h1, h2, h3, h4, h5, h6, h7, h8, h9⟩ := h
  unfold umodeChar
  simp only
  by_cases c1 : ch = '+'
  · rw [if_pos c1]; exact ⟨h1, h2, h3, h4, h5, h6, h7, h8, h9⟩
  rw [if_neg c1]
  by_cases c2 : ch = '-'
  · rw [if_pos c2]; exact ⟨h1, h2, h3, h4, h5, h6, h7, h8, h9⟩
  rw [if_neg c2]
  by_cases c3 : ch = 'i'
  · rw [if_pos c3]
    rcases Bool.eq_false_or_eq_true a.modeSet with hs | hs <;>
    rcases Bool.eq_false_or_eq_true a.modes.invisible with hm | hm <;>
    simp only [hs, hm, ↓reduceIte, Bool.not_true, Bool.not_false, Bool.false_eq_true]
    · exact ⟨h1, h2, h3, h4, h5, h6, h7, h8, h9⟩
    · refine ⟨h1, h2, h3, h4, h5, h6, ?_, h8, h9⟩
      simp only [Ctx.modifyW_w, Bool.toNat_true, Bool.toNat_false, hm] at h7 ⊢
      omega
    · have hne : ¬ a.x.w.invisibleCount = 0 := by
        simp only [hm, Bool.toNat_true] at h7; omega
      refine ⟨?_, ?_, ?_, ?_, ?_, ?_, ?_, ?_, ?_⟩ <;> simp only [Ctx.modifyW_w, hne, ↓reduceIte]
      · exact h1
      · exact h2
      · exact h3
      · exact h4
      · exact h5
      · exact h6
      · simp only [hm, Bool.toNat_true, Bool.toNat_false] at h7 ⊢; omega
      · exact h8
      · exact h9
    · exact ⟨h1, h2, h3, h4, h5, h6, h7, h8, h9⟩
  rw [if_neg c3]
  by_cases c4 : ch = 'r'
  · rw [if_pos c4]
    repeat' split
    all_goals exact ⟨h1, h2, h3, h4, h5, h6, h7, h8, h9⟩
  rw [if_neg c4]
  by_cases c5 : ch = 'w'
  · rw [if_pos c5]
    rcases Bool.eq_false_or_eq_true a.modeSet with hs | hs <;>
    rcases Bool.eq_false_or_eq_true a.modes.wallops with hm | hm <;>
    simp only [hs, hm, ↓reduceIte, Bool.not_true, Bool.not_false, Bool.false_eq_true]
    · exact ⟨h1, h2, h3, h4, h5, h6, h7, h8, h9⟩
    · refine ⟨h1, h2, h3, h4, h5, h6, h7, h8, ?_⟩
      intro k
      simp only [Ctx.modifyW_w, KSet.mem_insert]
      have := h9 k
      by_cases e : k = target
      · simp [e]
      · simp only [e, ↓reduceIte, decide_false, Bool.false_or] at this ⊢; exact this
    · refine ⟨h1, h2, h3, h4, h5, h6, h7, h8, ?_⟩
      intro k
      simp only [Ctx.modifyW_w, KSet.mem_erase]
      have := h9 k
      by_cases e : k = target
      · simp [e]
      · simp only [e, ↓reduceIte, decide_false, Bool.not_false, Bool.true_and] at this ⊢; exact this
    · exact ⟨h1, h2, h3, h4, h5, h6, h7, h8, h9⟩
  rw [if_neg c5]
  by_cases c6 : ch = 'o'
  · rw [if_pos c6]
    rcases Bool.eq_false_or_eq_true a.modeSet with hs | hs <;>
    rcases Bool.eq_false_or_eq_true a.modes.oper with hm | hm <;>
    rcases Bool.eq_false_or_eq_true a.modes.localOper with hlo | hlo <;>
    simp only [hs, hm, hlo, ↓reduceIte, Bool.not_true, Bool.not_false, Bool.false_eq_true]
    all_goals first
      | exact ⟨h1, h2, h3, h4, h5, h6, h7, h8, h9⟩
      | (refine ⟨h1, h2, h3, h4, h5, h6, h7, ?_, h9⟩
         simp only [UserModes.isLocalOper, hm, hlo] at h8 ⊢; exact h8)
      | (have hne : ¬ a.x.w.operatorsCount = 0 := by
           simp only [UserModes.isLocalOper, hm, hlo, Bool.or_true, Bool.toNat_true] at h8; omega
         refine ⟨?_, ?_, ?_, ?_, ?_, ?_, ?_, ?_, ?_⟩ <;> simp only [Ctx.modifyW_w, hne, ↓reduceIte]
         · exact h1
         · exact h2
         · exact h3
         · exact h4
         · exact h5
         · exact h6
         · exact h7
         · simp only [UserModes.isLocalOper, hm, hlo, Bool.or_true, Bool.or_false, Bool.toNat_true,
             Bool.toNat_false] at h8 ⊢; omega
         · exact h9)
  rw [if_neg c6]
  by_cases c7 : ch = 'O'
  · rw [if_pos c7]
    rcases Bool.eq_false_or_eq_true a.modeSet with hs | hs <;>
    rcases Bool.eq_false_or_eq_true a.modes.oper with hm | hm <;>
    rcases Bool.eq_false_or_eq_true a.modes.localOper with hlo | hlo <;>
    simp only [hs, hm, hlo, ↓reduceIte, Bool.not_true, Bool.not_false, Bool.false_eq_true]
    all_goals first
      | exact ⟨h1, h2, h3, h4, h5, h6, h7, h8, h9⟩
      | (refine ⟨h1, h2, h3, h4, h5, h6, h7, ?_, h9⟩
         simp only [UserModes.isLocalOper, hm, hlo] at h8 ⊢; exact h8)
      | (have hne : ¬ a.x.w.operatorsCount = 0 := by
           simp only [UserModes.isLocalOper, hm, hlo, Bool.or_true, Bool.toNat_true] at h8; omega
         refine ⟨?_, ?_, ?_, ?_, ?_, ?_, ?_, ?_, ?_⟩ <;> simp only [Ctx.modifyW_w, hne, ↓reduceIte]
         · exact h1
         · exact h2
         · exact h3
         · exact h4
         · exact h5
         · exact h6
         · exact h7
         · simp only [UserModes.isLocalOper, hm, hlo, Bool.or_true, Bool.or_false, Bool.toNat_true,
             Bool.toNat_false] at h8 ⊢; omega
         · exact h9)
  rw [if_neg c7]
  exact ⟨h1, h2, h3, h4, h5, h6, h7, h8, h9⟩

/-! ### channel MODE: `Channel.setRank` keeps `RankMirror` -/

theorem mirror_insert {s s' : KSet} {users : Map ChanUserModes} {nick : Str} {chum' : ChanUserModes}
    (flag : ChanUserModes → Bool)
    (hold : ∀ n, KSet.mem n s = true ↔ ∃ m, Map.lookup n users = some m ∧ flag m = true)
    (hs : ∀ n, KSet.mem n s' = true ↔ if n = nick then flag chum' = true else KSet.mem n s = true) :
    ∀ n, KSet.mem n s' = true ↔ ∃ m, Map.lookup n (Map.insert nick chum' users) = some m ∧ flag m = true := by
  intro n
  rw [hs n, Map.lookup_insert]
  by_cases e : n = nick
  · subst e; simp
  · have e' : ¬ nick = n := fun h => e h.symm
    simp only [e, e', ↓reduceIte]; exact hold n

theorem mirror_same {s : KSet} {users : Map ChanUserModes} {nick : Str} {chum chum' : ChanUserModes}
    (flag : ChanUserModes → Bool) (hl : Map.lookup nick users = some chum)
    (hold : ∀ n, KSet.mem n s = true ↔ ∃ m, Map.lookup n users = some m ∧ flag m = true)
    (hf : flag chum' = flag chum) :
    ∀ n, KSet.mem n s = true ↔ ∃ m, Map.lookup n (Map.insert nick chum' users) = some m ∧ flag m = true := by
  apply mirror_insert flag hold
  intro n
  by_cases e : n = nick
  · subst e; simp only [↓reduceIte]; rw [hold n, hf]
    constructor
    · rintro ⟨m, h1, h2⟩; rw [hl] at h1; cases h1; exact h2
    · intro h; exact ⟨chum, hl, h⟩
  · simp [e]

theorem mirror_upd {s : KSet} {users : Map ChanUserModes} {nick : Str} {chum' : ChanUserModes}
    (flag : ChanUserModes → Bool) (on : Bool)
    (hold : ∀ n, KSet.mem n s = true ↔ ∃ m, Map.lookup n users = some m ∧ flag m = true)
    (hf : flag chum' = on) :
    ∀ n, KSet.mem n (if on = true then KSet.insert nick s else KSet.erase nick s) = true ↔
      ∃ m, Map.lookup n (Map.insert nick chum' users) = some m ∧ flag m = true := by
  apply mirror_insert flag hold
  intro n
  cases on
  · simp only [Bool.false_eq_true, ↓reduceIte, KSet.mem_erase, hf]
    by_cases e : n = nick <;> simp [e]
  · simp only [↓reduceIte, KSet.mem_insert, hf]
    by_cases e : n = nick <;> simp [e]

theorem setRank_spec {C : Channel} (hrm : RankMirror C) {nick : Str}
    (hc : Map.contains nick C.users = true) (letter : Char) (on : Bool) :
    ∃ C', C.setRank letter nick on = some C' ∧ RankMirror C' ∧
      Map.keys C'.users = Map.keys C.users ∧ C'.preconfigured = C.preconfigured := by
  obtain ⟨chum, hl⟩ := (Map.contains_iff _ _).mp hc
  unfold Channel.setRank
  simp only [hl]
  refine ⟨_, rfl, ?_, Map.keys_insert_of_contains _ _ _ hc, rfl⟩
  obtain ⟨r1, r2, r3, r4, r5⟩ := hrm
  by_cases c1 : letter = 'o'
  · simp only [c1, ↓reduceIte]
    exact ⟨mirror_same (·.founder) hl r1 rfl, mirror_same (·.prot) hl r2 rfl,
      mirror_upd (·.operator) on r3 rfl, mirror_same (·.halfOper) hl r4 rfl,
      mirror_same (·.voice) hl r5 rfl⟩
  simp only [c1, ↓reduceIte]
  by_cases c2 : letter = 'h'
  · simp only [c2, ↓reduceIte]
    exact ⟨mirror_same (·.founder) hl r1 rfl, mirror_same (·.prot) hl r2 rfl,
      mirror_same (·.operator) hl r3 rfl, mirror_upd (·.halfOper) on r4 rfl,
      mirror_same (·.voice) hl r5 rfl⟩
  simp only [c2, ↓reduceIte]
  by_cases c3 : letter = 'v'
  · simp only [c3, ↓reduceIte]
    exact ⟨mirror_same (·.founder) hl r1 rfl, mirror_same (·.prot) hl r2 rfl,
      mirror_same (·.operator) hl r3 rfl, mirror_same (·.halfOper) hl r4 rfl,
      mirror_upd (·.voice) on r5 rfl⟩
  simp only [c3, ↓reduceIte]
  by_cases c4 : letter = 'q'
  · simp only [c4, ↓reduceIte]
    exact ⟨mirror_upd (·.founder) on r1 rfl, mirror_same (·.prot) hl r2 rfl,
      mirror_same (·.operator) hl r3 rfl, mirror_same (·.halfOper) hl r4 rfl,
      mirror_same (·.voice) hl r5 rfl⟩
  simp only [c4, ↓reduceIte]
  by_cases c5 : letter = 'a'
  · simp only [c5, ↓reduceIte]
    exact ⟨mirror_same (·.founder) hl r1 rfl, mirror_upd (·.prot) on r2 rfl,
      mirror_same (·.operator) hl r3 rfl, mirror_same (·.halfOper) hl r4 rfl,
      mirror_same (·.voice) hl r5 rfl⟩
  simp only [c5, ↓reduceIte]
  exact ⟨mirror_same (·.founder) hl r1 rfl, mirror_same (·.prot) hl r2 rfl,
      mirror_same (·.operator) hl r3 rfl, mirror_same (·.halfOper) hl r4 rfl,
      mirror_same (·.voice) hl r5 rfl⟩

/-! ### channel MODE: the loop invariant and the validation/execution simulation -/

structure CAccInv (w0 : World) (ch0 : Channel) (a : ModeAcc) : Prop where
  w : a.x.w = w0
  keys : Map.keys a.ch.users = Map.keys ch0.users
  rm : RankMirror a.ch
  pre : a.ch.preconfigured = ch0.preconfigured

def ArgRel (halfOp : Bool) (eargs vargs : List Str) : Prop :=
  if halfOp then eargs = vargs else vargs.length ≤ eargs.length

def ModeInv (hop : Bool) (w0 : World) (ch0 : Channel) (t : Str) (p : Nat) (cs : Str) (a : ModeAcc) : Prop :=
  ∃ vargs, chanModeChars t p a.modeSet vargs cs = .ok () ∧ ArgRel hop a.args vargs ∧ CAccInv w0 ch0 a

theorem foldl_reply_w {β : Type} (cfg : Cfg) (g : β → Str) (l : List β) (x : Ctx) :
    (l.foldl (fun x b => x.reply cfg (g b)) x).w = x.w := by
  induction l generalizing x with
  | nil => rfl
  | cons b l ih => simp only [List.foldl_cons]; rw [ih]; rfl

theorem ArgRel.drop1 {hop : Bool} {e : Str} {es vargs : List Str} (h : ArgRel hop (e :: es) vargs) :
    ArgRel hop es vargs.tail := by
  unfold ArgRel at *
  cases hop
  · simp only [Bool.false_eq_true, ↓reduceIte, List.length_cons, List.length_tail] at h ⊢; omega
  · simp only [↓reduceIte] at h ⊢; subst h; rfl

theorem ArgRel.nil_drop {hop : Bool} {vargs : List Str} (h : ArgRel hop [] vargs) :
    ArgRel hop [] vargs.tail := by
  unfold ArgRel at *
  cases hop
  · simp only [Bool.false_eq_true, ↓reduceIte, List.length_nil, List.length_tail] at h ⊢; omega
  · simp only [↓reduceIte] at h ⊢; subst h; rfl

theorem modeChar_step {cfg : Cfg} {cn : Conn} {target t : Str} {p : Nat} {chum : ChanUserModes}
    {w0 : World} {ch0 : Channel} {a : ModeAcc} {ch : Char} {cs : Str}
    (h : ModeInv chum.isHalfOperator w0 ch0 t p (ch :: cs) a) :
    ModeInv chum.isHalfOperator w0 ch0 t p cs (modeChar cfg cn target chum a ch) := by
  obtain ⟨vargs, hv, hrel, hI⟩ := h
  unfold modeChar
  extract_lets +onlyGivenNames client nick err482 preChecked a1
  have e1 : a1.modeSet = a.modeSet := by simp only [a1]; split <;> rfl
  have e2 : a1.args = a.args := by simp only [a1]; split <;> rfl
  have e3 : a1.ch = a.ch := by simp only [a1]; split <;> rfl
  have e4 : a1.x.w = a.x.w := by simp only [a1]; split <;> rfl
  rw [← e1] at hv; rw [← e2] at hrel
  have hI1 : CAccInv w0 ch0 a1 := ⟨by rw [e4]; exact hI.w, by rw [e3]; exact hI.keys, by rw [e3]; exact hI.rm, by rw [e3]; exact hI.pre⟩
  clear_value a1
  clear e1 e2 e3 e4 hI preChecked a
  simp only []
  by_cases c1 : ch = '+'
  · rw [if_pos c1]; subst c1
    simp [chanModeChars] at hv
    exact ⟨vargs, hv, hrel, ⟨hI1.w, hI1.keys, hI1.rm, hI1.pre⟩⟩
  rw [if_neg c1]
  by_cases c2 : ch = '-'
  · rw [if_pos c2]; subst c2
    simp [chanModeChars] at hv
    exact ⟨vargs, hv, hrel, ⟨hI1.w, hI1.keys, hI1.rm, hI1.pre⟩⟩
  rw [if_neg c2]
  by_cases c3 : ch = 'b'
  · rw [if_pos c3]; subst c3
    simp [chanModeChars] at hv
    cases hargs : a1.args with
    | nil =>
      simp only
      rw [hargs] at hrel
      refine ⟨vargs.tail, hv, hrel.nil_drop, ⟨?_, hI1.keys, hI1.rm, hI1.pre⟩⟩
      simp only [Ctx.reply_w, foldl_reply_w]; exact hI1.w
    | cons e es =>
      simp only
      rw [hargs] at hrel
      split
      · split
        · exact ⟨vargs.tail, hv, hrel.drop1, ⟨hI1.w, hI1.keys, ⟨hI1.rm.1, hI1.rm.2, hI1.rm.3, hI1.rm.4, hI1.rm.5⟩, hI1.pre⟩⟩
        · exact ⟨vargs.tail, hv, hrel.drop1, ⟨hI1.w, hI1.keys, ⟨hI1.rm.1, hI1.rm.2, hI1.rm.3, hI1.rm.4, hI1.rm.5⟩, hI1.pre⟩⟩
      · exact ⟨vargs.tail, hv, hrel.drop1, ⟨hI1.w, hI1.keys, hI1.rm, hI1.pre⟩⟩
  rw [if_neg c3]
  by_cases c4 : ch = 'e'
  · rw [if_pos c4]; subst c4
    simp [chanModeChars] at hv
    cases hargs : a1.args with
    | nil =>
      simp only
      rw [hargs] at hrel
      refine ⟨vargs.tail, hv, hrel.nil_drop, ⟨?_, hI1.keys, hI1.rm, hI1.pre⟩⟩
      simp only [Ctx.reply_w, foldl_reply_w]; exact hI1.w
    | cons e es =>
      simp only
      rw [hargs] at hrel
      split
      · exact ⟨vargs.tail, hv, hrel.drop1, ⟨hI1.w, hI1.keys, ⟨hI1.rm.1, hI1.rm.2, hI1.rm.3, hI1.rm.4, hI1.rm.5⟩, hI1.pre⟩⟩
      · exact ⟨vargs.tail, hv, hrel.drop1, ⟨hI1.w, hI1.keys, hI1.rm, hI1.pre⟩⟩
  rw [if_neg c4]
  by_cases c5 : ch = 'I'
  · rw [if_pos c5]; subst c5
    simp [chanModeChars] at hv
    cases hargs : a1.args with
    | nil =>
      simp only
      rw [hargs] at hrel
      refine ⟨vargs.tail, hv, hrel.nil_drop, ⟨?_, hI1.keys, hI1.rm, hI1.pre⟩⟩
      simp only [Ctx.reply_w, foldl_reply_w]; exact hI1.w
    | cons e es =>
      simp only
      rw [hargs] at hrel
      split
      · exact ⟨vargs.tail, hv, hrel.drop1, ⟨hI1.w, hI1.keys, ⟨hI1.rm.1, hI1.rm.2, hI1.rm.3, hI1.rm.4, hI1.rm.5⟩, hI1.pre⟩⟩
      · exact ⟨vargs.tail, hv, hrel.drop1, ⟨hI1.w, hI1.keys, hI1.rm, hI1.pre⟩⟩
  rw [if_neg c5]
  by_cases c6 : (decide (ch = 'o') || decide (ch = 'v') || decide (ch = 'h') || decide (ch = 'q') || decide (ch = 'a')) = true
  · rw [if_pos c6]
    have hv' : ∃ arg args', vargs = arg :: args' ∧ chanModeChars t p a1.modeSet args' cs = .ok () := by
      simp only [Bool.or_eq_true, decide_eq_true_eq] at c6
      rcases c6 with ((((e | e) | e) | e) | e) <;> subst e <;> (
        cases vargs with
        | nil => simp [chanModeChars] at hv
        | cons arg args' =>
          refine ⟨arg, args', rfl, ?_⟩
          simp [chanModeChars] at hv
          split at hv
          · exact absurd hv (by simp)
          · exact hv)
    obtain ⟨varg, vargs', rfl, hv'⟩ := hv'
    have hne : a1.args ≠ [] := by
      intro e; rw [e] at hrel; unfold ArgRel at hrel
      cases chum.isHalfOperator <;> simp at hrel
    cases hargs : a1.args with
    | nil => exact absurd hargs hne
    | cons e es =>
      simp only
      rw [hargs] at hrel
      have hrel' : ArgRel chum.isHalfOperator es vargs' := hrel.drop1
      split
      · split
        · rename_i hc _
          obtain ⟨C', hC', hrm', hk', hp'⟩ := setRank_spec hI1.rm hc ch a1.modeSet
          rw [hC']
          exact ⟨vargs', hv', hrel', ⟨hI1.w, by rw [← hI1.keys]; exact hk', hrm', by rw [← hI1.pre]; exact hp'⟩⟩
        · exact ⟨vargs', hv', hrel', ⟨hI1.w, hI1.keys, hI1.rm, hI1.pre⟩⟩
      · exact ⟨vargs', hv', hrel', ⟨hI1.w, hI1.keys, hI1.rm, hI1.pre⟩⟩
  rw [if_neg c6]
  by_cases c7 : ch = 'l'
  · rw [if_pos c7]; subst c7
    have hvl : (a1.modeSet = true ∧ ∃ arg args' n, vargs = arg :: args' ∧
          parseUnsigned usizeMax arg = .ok n ∧ chanModeChars t p a1.modeSet args' cs = .ok ()) ∨
        (a1.modeSet = false ∧ vargs = [] ∧ chanModeChars t p a1.modeSet [] cs = .ok ()) := by
      rcases Bool.eq_false_or_eq_true a1.modeSet with hs | hs
      · left
        refine ⟨hs, ?_⟩
        rw [hs] at hv ⊢
        cases vargs with
        | nil => simp [chanModeChars] at hv
        | cons arg args' =>
          simp [chanModeChars] at hv
          cases hp : parseUnsigned usizeMax arg with
          | error e => rw [hp] at hv; simp at hv
          | ok n => rw [hp] at hv; exact ⟨arg, args', n, rfl, hp, hv⟩
      · right
        refine ⟨hs, ?_⟩
        rw [hs] at hv ⊢
        cases vargs with
        | nil => simp [chanModeChars] at hv; exact ⟨rfl, hv⟩
        | cons arg args' => simp [chanModeChars] at hv
    clear hv
    rcases Bool.eq_false_or_eq_true chum.isHalfOperator with hh | hh
    · rw [hh] at hrel ⊢
      simp only [ArgRel, ↓reduceIte] at hrel
      simp only [↓reduceIte]
      rcases hvl with ⟨hs, arg, args', n, rfl, hp, hv⟩ | ⟨hs, rfl, hv⟩
      · simp only [hs, hrel, hp, ↓reduceIte]
        exact ⟨args', by simpa [hs] using hv, by simp [ArgRel], ⟨hI1.w, hI1.keys, ⟨hI1.rm.1, hI1.rm.2, hI1.rm.3, hI1.rm.4, hI1.rm.5⟩, hI1.pre⟩⟩
      · simp only [hs, Bool.false_eq_true, ↓reduceIte]
        exact ⟨[], by simpa [hs] using hv, by simp [ArgRel, hrel], ⟨hI1.w, hI1.keys, ⟨hI1.rm.1, hI1.rm.2, hI1.rm.3, hI1.rm.4, hI1.rm.5⟩, hI1.pre⟩⟩
    · rw [hh] at hrel ⊢
      simp only [ArgRel, Bool.false_eq_true, ↓reduceIte] at hrel
      simp only [Bool.false_eq_true, ↓reduceIte]
      rcases hvl with ⟨hs, arg, args', n, rfl, hp, hv⟩ | ⟨hs, rfl, hv⟩
      · exact ⟨args', hv, by simp only [ArgRel, Bool.false_eq_true, ↓reduceIte, List.length_cons] at hrel ⊢; omega, hI1⟩
      · exact ⟨[], hv, by simp [ArgRel], hI1⟩
  rw [if_neg c7]
  by_cases c8 : ch = 'k'
  · rw [if_pos c8]; subst c8
    have hvl : (a1.modeSet = true ∧ ∃ arg args', vargs = arg :: args' ∧
          chanModeChars t p a1.modeSet args' cs = .ok ()) ∨
        (a1.modeSet = false ∧ vargs = [] ∧ chanModeChars t p a1.modeSet [] cs = .ok ()) := by
      rcases Bool.eq_false_or_eq_true a1.modeSet with hs | hs
      · left
        refine ⟨hs, ?_⟩
        rw [hs] at hv ⊢
        cases vargs with
        | nil => simp [chanModeChars] at hv
        | cons arg args' =>
          simp [chanModeChars] at hv
          exact ⟨arg, args', rfl, hv⟩
      · right
        refine ⟨hs, ?_⟩
        rw [hs] at hv ⊢
        cases vargs with
        | nil => simp [chanModeChars] at hv; exact ⟨rfl, hv⟩
        | cons arg args' => simp [chanModeChars] at hv
    clear hv
    rcases Bool.eq_false_or_eq_true chum.isHalfOperator with hh | hh
    · rw [hh] at hrel ⊢
      simp only [ArgRel, ↓reduceIte] at hrel
      simp only [↓reduceIte]
      rcases hvl with ⟨hs, arg, args', rfl, hv⟩ | ⟨hs, rfl, hv⟩
      · simp only [hs, hrel, ↓reduceIte]
        exact ⟨args', by simpa [hs] using hv, by simp [ArgRel], ⟨hI1.w, hI1.keys, ⟨hI1.rm.1, hI1.rm.2, hI1.rm.3, hI1.rm.4, hI1.rm.5⟩, hI1.pre⟩⟩
      · simp only [hs, Bool.false_eq_true, ↓reduceIte]
        exact ⟨[], by simpa [hs] using hv, by simp [ArgRel, hrel], ⟨hI1.w, hI1.keys, ⟨hI1.rm.1, hI1.rm.2, hI1.rm.3, hI1.rm.4, hI1.rm.5⟩, hI1.pre⟩⟩
    · rw [hh] at hrel ⊢
      simp only [ArgRel, Bool.false_eq_true, ↓reduceIte] at hrel
      simp only [Bool.false_eq_true, ↓reduceIte]
      rcases hvl with ⟨hs, arg, args', rfl, hv⟩ | ⟨hs, rfl, hv⟩
      · exact ⟨args', hv, by simp only [ArgRel, Bool.false_eq_true, ↓reduceIte, List.length_cons] at hrel ⊢; omega, hI1⟩
      · exact ⟨[], hv, by simp [ArgRel], hI1⟩
  rw [if_neg c8]
  by_cases c9 : (decide (ch = 'i') || decide (ch = 'm') || decide (ch = 't') || decide (ch = 'n') || decide (ch = 's')) = true
  · rw [if_pos c9]
    have hv' : chanModeChars t p a1.modeSet vargs cs = .ok () := by
      simp only [Bool.or_eq_true, decide_eq_true_eq] at c9
      rcases c9 with ((((e | e) | e) | e) | e) <;> subst e <;> simp [chanModeChars] at hv <;> exact hv
    split
    · split
      · refine ⟨vargs, hv', hrel, ⟨hI1.w, hI1.keys, ?_, hI1.pre⟩⟩
        obtain ⟨r1, r2, r3, r4, r5⟩ := hI1.rm
        repeat' split
        all_goals exact ⟨r1, r2, r3, r4, r5⟩
      · refine ⟨vargs, hv', hrel, ⟨hI1.w, hI1.keys, ?_, hI1.pre⟩⟩
        obtain ⟨r1, r2, r3, r4, r5⟩ := hI1.rm
        repeat' split
        all_goals exact ⟨r1, r2, r3, r4, r5⟩
    · exact ⟨vargs, hv', hrel, hI1⟩
  rw [if_neg c9]
  exfalso
  simp only [Bool.or_eq_true, decide_eq_true_eq, not_or] at c6 c9
  simp [chanModeChars, c1, c2, c3, c4, c5, c6, c7, c8, c9] at hv


theorem modeChars_fold {cfg : Cfg} {cn : Conn} {target t : Str} {p : Nat} {chum : ChanUserModes}
    {w0 : World} {ch0 : Channel} (cs : Str) {a : ModeAcc}
    (h : ModeInv chum.isHalfOperator w0 ch0 t p cs a) :
    CAccInv w0 ch0 (cs.foldl (modeChar cfg cn target chum) a) := by
  induction cs generalizing a with
  | nil => exact h.choose_spec.2.2
  | cons ch cs ih => simp only [List.foldl_cons]; exact ih (modeChar_step h)

/-- one `(modechars, args)` group that passed validation keeps the loop invariant (in particular:
    none of the argument-related panic sites of `modeChar` is reached) -/
theorem modeGroup_inv {cfg : Cfg} {cn : Conn} {target t : Str} {p : Nat} {chum : ChanUserModes}
    {w0 : World} {ch0 : Channel} {a : ModeAcc} {g : Str × List Str}
    (hv : chanModeChars t p false g.2 g.1 = .ok ()) (h : CAccInv w0 ch0 a) :
    CAccInv w0 ch0 (modeGroup cfg cn target chum a g) := by
  unfold modeGroup
  apply modeChars_fold (t := t) (p := p)
  refine ⟨g.2, hv, ?_, ⟨h.w, h.keys, h.rm, h.pre⟩⟩
  unfold ArgRel; split
  · rfl
  · exact Nat.le_refl _

theorem modeGroups_inv {cfg : Cfg} {cn : Conn} {target t : Str} {chum : ChanUserModes}
    {w0 : World} {ch0 : Channel} (modes : List (Str × List Str)) {p : Nat} {a : ModeAcc}
    (hv : validateChannelmodesFrom t p modes = .ok ()) (h : CAccInv w0 ch0 a) :
    CAccInv w0 ch0 (modes.foldl (modeGroup cfg cn target chum) a) := by
  induction modes generalizing p a with
  | nil => exact h
  | cons g gs ih =>
    obtain ⟨ms, margs⟩ := g
    simp only [List.foldl_cons]
    unfold validateChannelmodesFrom at hv
    split at hv
    · split at hv
      · exact absurd hv (by simp)
      · rename_i hg
        exact ih hv (modeGroup_inv (g := (ms, margs)) hg h)
    · exact absurd hv (by simp)

end Irc.Modes
