/-
  Irc.InvProofs.Step — the keystone: the global invariant `Inv` is preserved by every `step`
  (assembled from the per-handler lemmas of Teardown / ReadOnly / Membership / Modes /
  Registration), hence holds in every reachable world.
-/
import Irc.InvProofs.Teardown
import Irc.InvProofs.ReadOnly
import Irc.InvProofs.Membership
import Irc.InvProofs.Modes
import Irc.InvProofs.Registration

namespace Irc

/-! ### 0. small facts about the dispatcher skeleton -/

/-- `Command.fromMessage` = parse, then validate: an accepted command is a validated one -/
theorem fromMessage_ok_validate {msg : Message} {cmd : Command}
    (h : Command.fromMessage msg = .ok cmd) : cmd.validate = .ok () := by
  unfold Command.fromMessage at h
  split at h
  · rename_i y _
    split at h
    · rename_i hv
      cases h
      exact hv
    · cases h
  · cases h

/-- `bumpCount` touches only `cmdCounts`, which `InvCore` does not mention -/
theorem invCore_bumpCount {w : World} (h : InvCore w) (i : Nat) : InvCore (bumpCount w i) :=
  { noPanic := h.noPanic
    usersNodup := h.usersNodup
    chansNodup := h.chansNodup
    connsNodup := h.connsNodup
    membersNodup := h.membersNodup
    userChansNodup := h.userChansNodup
    authOwns := h.authOwns
    userOwned := h.userOwned
    memberSym := h.memberSym
    memberIsUser := h.memberIsUser
    rankMirror := h.rankMirror
    noEmptyAdHoc := h.noEmptyAdHoc
    invisibleCount := h.invisibleCount
    operatorsCount := h.operatorsCount
    wallopsSet := h.wallopsSet
    maxUsers := h.maxUsers
    resources := h.resources
    slots := h.slots
    killedFlagged := h.killedFlagged }

theorem bumpCount_conns (w : World) (i : Nat) : (bumpCount w i).conns = w.conns := rfl

theorem sameConnIds_bumpCount (w : World) (i : Nat) : SameConnIds w (bumpCount w i) := rfl

theorem Ctx.conn_modifyW_bumpCount (x : Ctx) (i c : Nat) :
    (x.modifyW (fun w => bumpCount w i)).conn c = x.conn c := rfl

/-! ### 1. the dispatcher -/

theorem invCore_dispatch {cfg : Cfg} {c : Nat} {msg : Message} {cmd : Command} {x : Ctx}
    (h : InvCore x.w) (hl : Live x.w c) (hcmd : Command.fromMessage msg = .ok cmd)
    (hgate : allowedUnregistered cmd = true ∨ (x.conn c).authenticated = true) :
    InvCore (dispatch cfg c msg cmd x).w ∧ SameConnIds x.w (dispatch cfg c msg cmd x).w := by
  have hv := fromMessage_ok_validate hcmd
  cases cmd with
  | CAP sub caps v => exact invCore_processCap (cfg := cfg) h hl
  | AUTHENTICATE => exact invCore_processAuthenticate (cfg := cfg) (c := c) h
  | PASS p => exact invCore_processPass (cfg := cfg) h hl
  | NICK n => exact invCore_processNick (cfg := cfg) h hl
  | USER u a b r => exact invCore_processUser (cfg := cfg) h hl
  | QUIT => exact invCore_processQuit (cfg := cfg) h hl
  | PING t => exact invCore_processPing (cfg := cfg) (c := c) h
  | PONG t => exact invCore_processPong (cfg := cfg) h hl
  | MOTD t => exact invCore_processMotd (cfg := cfg) h
  | LUSERS => exact invCore_processLusers (cfg := cfg) h
  | CONNECT a b d => exact invCore_unsupported (cfg := cfg) h
  | REHASH => exact invCore_unsupported (cfg := cfg) h
  | RESTART => exact invCore_unsupported (cfg := cfg) h
  | NAMES chs => exact invCore_processNames (cfg := cfg) h
  | LIST chs s => exact invCore_processList (cfg := cfg) h
  | VERSION t => exact invCore_processVersion (cfg := cfg) h
  | ADMIN t => exact invCore_processAdmin (cfg := cfg) h
  | TIME s => exact invCore_processTime (cfg := cfg) h
  | LINKS r m => exact invCore_processLinks (cfg := cfg) h
  | HELP s => exact invCore_processHelp (cfg := cfg) h
  | INFO => exact invCore_processInfo (cfg := cfg) h
  | WHOWAS n cnt s => exact invCore_processWhowas (cfg := cfg) h
  | USERHOST ns => exact invCore_processUserhost (cfg := cfg) h
  | ISON ns => exact invCore_processIson (cfg := cfg) h
  | OPER n p =>
    have ha := hgate.resolve_left (by simp [allowedUnregistered])
    exact invCore_processOper (cfg := cfg) h hl ha
  | JOIN chs keys =>
    have ha := hgate.resolve_left (by simp [allowedUnregistered])
    exact invCore_processJoin (cfg := cfg) h hl ha
  | PART chs r =>
    have ha := hgate.resolve_left (by simp [allowedUnregistered])
    exact invCore_processPart (cfg := cfg) h hl ha
  | TOPIC ch t =>
    have ha := hgate.resolve_left (by simp [allowedUnregistered])
    exact invCore_processTopic (cfg := cfg) h hl ha
  | INVITE n ch =>
    have ha := hgate.resolve_left (by simp [allowedUnregistered])
    exact invCore_processInvite (cfg := cfg) h hl ha
  | KICK ch us cm =>
    have ha := hgate.resolve_left (by simp [allowedUnregistered])
    exact invCore_processKick (cfg := cfg) h hl ha
  | STATS q s =>
    have ha := hgate.resolve_left (by simp [allowedUnregistered])
    exact invCore_processStats (cfg := cfg) h hl ha
  | MODE t ms =>
    have ha := hgate.resolve_left (by simp [allowedUnregistered])
    exact invCore_processMode (cfg := cfg) h hl ha hv
  | PRIVMSG ts t =>
    have ha := hgate.resolve_left (by simp [allowedUnregistered])
    exact invCore_processPrivmsgNotice (cfg := cfg) h hl ha
  | NOTICE ts t =>
    have ha := hgate.resolve_left (by simp [allowedUnregistered])
    exact invCore_processPrivmsgNotice (cfg := cfg) h hl ha
  | WHO m =>
    have ha := hgate.resolve_left (by simp [allowedUnregistered])
    exact invCore_processWho (cfg := cfg) h hl ha
  | WHOIS t ns =>
    have ha := hgate.resolve_left (by simp [allowedUnregistered])
    exact invCore_processWhois (cfg := cfg) h hl ha
  | KILL n cm =>
    have ha := hgate.resolve_left (by simp [allowedUnregistered])
    exact invCore_processKill (cfg := cfg) h hl ha
  | SQUIT s cm =>
    have ha := hgate.resolve_left (by simp [allowedUnregistered])
    exact invCore_processSquit (cfg := cfg) h hl ha
  | AWAY t =>
    have ha := hgate.resolve_left (by simp [allowedUnregistered])
    exact invCore_processAway (cfg := cfg) h hl ha
  | WALLOPS t =>
    have ha := hgate.resolve_left (by simp [allowedUnregistered])
    exact invCore_processWallops (cfg := cfg) h hl ha
  | DIE m =>
    have ha := hgate.resolve_left (by simp [allowedUnregistered])
    exact invCore_processDie (cfg := cfg) h hl ha

/-! ### 2. one decoded line -/

theorem invCore_handleLine {cfg : Cfg} {c : Nat} {s : Str} {x : Ctx}
    (h : InvCore x.w) (hl : Live x.w c) :
    InvCore (handleLine cfg c s x).w ∧ SameConnIds x.w (handleLine cfg c s x).w := by
  unfold handleLine
  simp only
  split
  · exact ⟨h, SameConnIds.refl _⟩
  · exact ⟨h, SameConnIds.refl _⟩
  · exact ⟨h, SameConnIds.refl _⟩
  · rename_i msg _
    split
    · exact ⟨h, SameConnIds.refl _⟩
    · rename_i cmd hcmd
      have hb : InvCore (x.modifyW (fun w => bumpCount w cmd.id.index)).w :=
        invCore_bumpCount h _
      have hlb : Live (x.modifyW (fun w => bumpCount w cmd.id.index)).w c := hl
      split
      · exact ⟨hb, sameConnIds_bumpCount _ _⟩
      · rename_i hg
        have hgate : allowedUnregistered cmd = true ∨
            ((x.modifyW (fun w => bumpCount w cmd.id.index)).conn c).authenticated = true := by
          rw [Ctx.conn_modifyW_bumpCount]
          simp only [Bool.and_eq_true, Bool.not_eq_true', not_and, Bool.not_eq_false] at hg
          cases ha : allowedUnregistered cmd with
          | true => exact Or.inl rfl
          | false => exact Or.inr (hg ha)
        obtain ⟨h1, h2⟩ := invCore_dispatch (cfg := cfg) (msg := msg) hb hlb hcmd hgate
        exact ⟨h1, SameConnIds.trans (sameConnIds_bumpCount x.w _) h2⟩

/-! ### 3. one harness operation -/

theorem inv_step {cfg : Cfg} {w : World} {e : Event} (h : Inv w) (hs : Sched w e) :
    Inv (step cfg w e).w := by
  cases e with
  | connect c ip => exact inv_step_connect h hs
  | line c s =>
    cases hc : w.conn? c with
    | none => exact Tear.inv_step_line_dead h hc
    | some cn =>
      obtain ⟨hm, hid⟩ := Tear.conn?_some hc
      have hl : Live w c := ⟨cn, hm, hid⟩
      exact Tear.inv_step_line_of_handler
        (invCore_handleLine (x := { w := w }) h.toInvCore hl).1 h
  | tooLong c => exact inv_step_tooLong h
  | badUtf8 c => exact inv_step_badUtf8 h
  | eof c => exact inv_step_eof h
  | reset c => exact inv_step_reset h
  | partialLine c s => exact inv_step_partial h

/-! ### 4. reachable worlds -/

/-- the harness' scheduling discipline along a run that starts in `w` -/
def SchedFrom (cfg : Cfg) : World → List Event → Prop
  | _, [] => True
  | w, e :: es => Sched w e ∧ SchedFrom cfg (step cfg w e).w es

/-- `Sched` lifted along the run from the initial world -/
def SchedAll (cfg : Cfg) (evs : List Event) : Prop := SchedFrom cfg (World.init cfg) evs

/-- `w` is the state of the server after some well-scheduled sequence of events -/
def Reachable (cfg : Cfg) (w : World) : Prop := ∃ evs, SchedAll cfg evs ∧ w = run cfg evs

instance instDecidableSched (w : World) : (e : Event) → Decidable (Sched w e)
  | .connect c _ => inferInstanceAs (Decidable (∀ cn, cn ∈ w.conns → cn.id ≠ c))
  | .line .. => isTrue trivial
  | .tooLong _ => isTrue trivial
  | .badUtf8 _ => isTrue trivial
  | .eof _ => isTrue trivial
  | .reset _ => isTrue trivial
  | .partialLine .. => isTrue trivial

instance instDecidableSchedFrom (cfg : Cfg) : (w : World) → (evs : List Event) →
    Decidable (SchedFrom cfg w evs)
  | _, [] => isTrue trivial
  | w, e :: es =>
    have := instDecidableSchedFrom cfg (step cfg w e).w es
    inferInstanceAs (Decidable (Sched w e ∧ SchedFrom cfg (step cfg w e).w es))

instance (cfg : Cfg) (evs : List Event) : Decidable (SchedAll cfg evs) :=
  inferInstanceAs (Decidable (SchedFrom cfg (World.init cfg) evs))

theorem inv_runFrom {cfg : Cfg} {w : World} {evs : List Event} (h : Inv w)
    (hs : SchedFrom cfg w evs) : Inv (evs.foldl (fun w e => (step cfg w e).w) w) := by
  induction evs generalizing w with
  | nil => exact h
  | cons e es ih =>
    rw [List.foldl_cons]
    exact ih (inv_step h hs.1) hs.2

theorem inv_run {cfg : Cfg} {evs : List Event} (hs : SchedAll cfg evs) : Inv (run cfg evs) :=
  inv_runFrom (inv_init cfg) hs

theorem inv_reachable {cfg : Cfg} {w : World} (hr : Reachable cfg w) : Inv w := by
  obtain ⟨evs, hs, rfl⟩ := hr
  exact inv_run hs

/-- the initial world is reachable, and reachability is closed under well-scheduled steps -/
theorem Reachable.init (cfg : Cfg) : Reachable cfg (World.init cfg) := ⟨[], trivial, rfl⟩

theorem schedFrom_append {cfg : Cfg} {w : World} {evs : List Event} {e : Event}
    (hs : SchedFrom cfg w evs) (he : Sched (evs.foldl (fun w e => (step cfg w e).w) w) e) :
    SchedFrom cfg w (evs ++ [e]) := by
  induction evs generalizing w with
  | nil => exact ⟨he, trivial⟩
  | cons a es ih => exact ⟨hs.1, ih hs.2 he⟩

theorem Reachable.step {cfg : Cfg} {w : World} {e : Event} (hr : Reachable cfg w)
    (hs : Sched w e) : Reachable cfg (step cfg w e).w := by
  obtain ⟨evs, hss, rfl⟩ := hr
  refine ⟨evs ++ [e], schedFrom_append hss hs, ?_⟩
  unfold run
  rw [List.foldl_append]
  rfl

/-! ### non-vacuity: a concrete well-scheduled run (two connections register, both JOIN `#c`, a
  PRIVMSG to the channel, a third connection arrives, a QUIT) -/

namespace StepEx

def cfg0 : Cfg := {}

def evs : List Event :=
  [ .connect 1 (str "10.0.0.1"),
    .line 1 (str "NICK alice"),
    .line 1 (str "USER alice 0 * :Alice A"),
    .connect 2 (str "10.0.0.2"),
    .line 2 (str "NICK bob"),
    .line 2 (str "USER bob 0 * :Bob B"),
    .line 1 (str "JOIN #c"),
    .line 2 (str "JOIN #c"),
    .line 1 (str "PRIVMSG #c :hello"),
    .connect 3 (str "10.0.0.3"),
    .line 2 (str "QUIT :bye"),
    .line 3 (str "garbage \x01 line") ]

theorem evs_sched : SchedAll cfg0 evs := by decide

theorem evs_inv : Inv (run cfg0 evs) := inv_run evs_sched

theorem evs_reachable : Reachable cfg0 (run cfg0 evs) := ⟨evs, evs_sched, rfl⟩

-- the run is not trivial: alice is registered and alone on `#c`, bob is gone, connection 3 is waiting
example : Map.keys (run cfg0 evs).users = [str "alice"] ∧
    (run cfg0 evs).conns.map (·.id) = [1, 3] ∧
    (Map.lookup (str "#c") (run cfg0 evs).channels).map (fun C => Map.keys C.users) = some [str "alice"] ∧
    (run cfg0 evs).panicked = none := by decide

-- `Sched` really restricts: re-using a live id is not schedulable
example : ¬ SchedAll cfg0 [.connect 1 (str "a"), .connect 1 (str "b")] := by decide

end StepEx

end Irc
