/-
  Irc.InvProofs.Membership — part C of the preservation proof of `InvCore`: the
  membership-changing channel handlers JOIN, PART, KICK.
  Helper lemmas: `Irc/InvProofs/MembershipLemmas.lean`.
-/
import Irc.InvProofs.MembershipLemmas
import Irc.InvCheck

namespace Irc

namespace Memb
/-- `m` is a legitimate victim of a KICK by `n` on `channel`: the kicker is at least
    half-operator, the victim is a member that is not protected/founder, and a kicker that is
    only half-operator cannot kick (half-)operators. -/
def KickVictim (w : World) (channel n m : Str) : Prop :=
  ∃ C cn cm, Map.lookup channel w.channels = some C ∧ Map.lookup n C.users = some cn ∧
    cn.isHalfOperator = true ∧ Map.lookup m C.users = some cm ∧ cm.isProtected = false ∧
    (cm.isHalfOperator = false ∨ cn.isOnlyHalfOperator = false)

end Memb

open Memb

/-! ## PART -/

theorem Memb.part_all {cfg : Cfg} {c : Nat} {channels : List Str} {reason : Option Str} {x : Ctx}
    (h : InvCore x.w) (hl : Live x.w c) (ha : (x.conn c).authenticated = true) :
    ∃ n, (x.conn c).nick = some n ∧
      MemInv (processPart cfg c channels reason x).w ∧
      Frame x.w (processPart cfg c channels reason x).w ∧
      ∀ ch m, (processPart cfg c channels reason x).w.memOf ch m =
        (x.w.memOf ch m && !(decide (ch ∈ channels) && decide (m = n))) := by
  obtain ⟨n, u, hn, hu, _⟩ := sender_of_auth h hl ha
  refine ⟨n, hn, ?_⟩
  rw [processPart_eq, hn]
  dsimp only
  obtain ⟨h1, f1, e1⟩ := part_fold cfg (x.conn c) n reason channels x (InvCore.memInv h)
  have hc : Map.contains n (channels.foldl (partStep cfg (x.conn c) n reason) x).w.users = true := by
    rw [f1.contains]; exact (Map.contains_iff _ _).mpr ⟨u, hu⟩
  rw [if_pos hc]
  exact ⟨h1, f1, e1⟩

theorem invCore_processPart {cfg : Cfg} {c : Nat} {channels : List Str} {reason : Option Str} {x : Ctx}
    (h : InvCore x.w) (hl : Live x.w c) (ha : (x.conn c).authenticated = true) :
    InvCore (processPart cfg c channels reason x).w ∧
    SameConnIds x.w (processPart cfg c channels reason x).w := by
  obtain ⟨n, _, h1, f1, _⟩ := part_all (cfg := cfg) (channels := channels) (reason := reason) h hl ha
  exact ⟨InvCore.of_frame h f1 h1, f1.sameConnIds⟩

/-- PART removes exactly the memberships of the sender `n` in the listed channels; nobody
    else's membership changes (channel side; the user side follows by `InvCore.memberSym`). -/
theorem part_membership_effect {cfg : Cfg} {c : Nat} {channels : List Str} {reason : Option Str} {x : Ctx}
    (h : InvCore x.w) (hl : Live x.w c) (ha : (x.conn c).authenticated = true) :
    ∃ n, (x.conn c).nick = some n ∧ ∀ ch m,
      ((processPart cfg c channels reason x).w.memOf ch m = true ↔
        (x.w.memOf ch m = true ∧ ¬ (ch ∈ channels ∧ m = n))) := by
  obtain ⟨n, hn, _, _, e⟩ := part_all (cfg := cfg) (channels := channels) (reason := reason) h hl ha
  refine ⟨n, hn, fun ch m => ?_⟩
  rw [e]
  simp only [Bool.and_eq_true, Bool.not_eq_true', Bool.and_eq_false_iff, decide_eq_false_iff_not]
  constructor
  · rintro ⟨h1, h2⟩; exact ⟨h1, fun ⟨a, b⟩ => h2.elim (· a) (· b)⟩
  · rintro ⟨h1, h2⟩
    refine ⟨h1, ?_⟩
    by_cases a : ch ∈ channels
    · exact Or.inr (fun b => h2 ⟨a, b⟩)
    · exact Or.inl a

/-! ## KICK -/

theorem Memb.kick_all {cfg : Cfg} {c : Nat} {channel : Str} {kickUsers : List Str} {comment : Option Str}
    {x : Ctx} (h : InvCore x.w) (hl : Live x.w c) (ha : (x.conn c).authenticated = true) :
    ∃ n, (x.conn c).nick = some n ∧
      MemInv (processKick cfg c channel kickUsers comment x).w ∧
      Frame x.w (processKick cfg c channel kickUsers comment x).w ∧
      ∀ ch m, ((processKick cfg c channel kickUsers comment x).w.memOf ch m = true ↔
        (x.w.memOf ch m = true ∧ ¬ (ch = channel ∧ m ∈ kickUsers ∧ KickVictim x.w channel n m))) := by
  obtain ⟨n, u, hn, hu, _⟩ := sender_of_auth h hl ha
  refine ⟨n, hn, ?_⟩
  have hM := (InvCore.memInv h)
  rw [processKick_eq, hn]
  dsimp only
  cases hC : Map.lookup channel x.w.channels with
  | none =>
    refine ⟨hM, Frame.refl _, fun ch m => ?_⟩
    simp only [Ctx.reply_w, iff_self_and]
    rintro _ ⟨_, _, C, _, _, hC', _⟩
    rw [hC] at hC'; cases hC'
  | some C =>
    dsimp only
    cases hcn : Map.lookup n C.users with
    | none =>
      refine ⟨hM, Frame.refl _, fun ch m => ?_⟩
      simp only [Ctx.reply_w, iff_self_and]
      rintro _ ⟨_, _, C', cn, _, hC', hcn', _⟩
      rw [hC] at hC'; cases hC'
      rw [hcn] at hcn'; cases hcn'
    | some chum =>
      dsimp only
      cases hho : chum.isHalfOperator with
      | false =>
        refine ⟨hM, Frame.refl _, fun ch m => ?_⟩
        simp only [Bool.false_eq_true, ↓reduceIte, Ctx.reply_w, iff_self_and]
        rintro _ ⟨_, _, C', cn, _, hC', hcn', hh, _⟩
        rw [hC] at hC'; cases hC'
        rw [hcn] at hcn'; cases hcn'
        rw [hho] at hh; cases hh
      | true =>
        simp only [↓reduceIte]
        obtain ⟨s1, s2⟩ := kickSelect_spec (x.conn c).clientName channel C chum.isOnlyHalfOperator
          kickUsers [] List.nodup_nil
        have hmem : ∀ k, k ∈ (kickSelect (x.conn c).clientName channel C chum.isOnlyHalfOperator
            kickUsers []).1 → x.w.memOf channel k = true := by
          intro k hk
          rcases (s2 k).mp hk with a | ⟨_, cm, hcm, _⟩
          · cases a
          · rw [World.memOf_of_lookup hC]
            exact (Map.contains_iff _ _).mpr ⟨cm, hcm⟩
        rw [kickMain_w _ _ _ _ _ _ _ hM s1 hmem]
        obtain ⟨h2, f2, e2⟩ := kick_remove_fold channel _ x.w hM s1 hmem
        refine ⟨h2, f2, fun ch m => ?_⟩
        rw [e2]
        simp only [Bool.and_eq_true, Bool.not_eq_true', Bool.and_eq_false_iff,
          decide_eq_false_iff_not]
        have key : m ∈ (kickSelect (x.conn c).clientName channel C chum.isOnlyHalfOperator
            kickUsers []).1 ↔ (m ∈ kickUsers ∧ KickVictim x.w channel n m) := by
          rw [s2 m]
          constructor
          · rintro (a | ⟨a, cm, hcm, p1, p2⟩)
            · cases a
            · exact ⟨a, C, chum, cm, hC, hcn, hho, hcm, p1, p2⟩
          · rintro ⟨a, C', cn', cm, hC', hcn', _, hcm, p1, p2⟩
            rw [hC] at hC'; cases hC'
            rw [hcn] at hcn'; cases hcn'
            exact Or.inr ⟨a, cm, hcm, p1, p2⟩
        rw [key]
        constructor
        · rintro ⟨h1, h2⟩; exact ⟨h1, fun ⟨a, b⟩ => h2.elim (· a) (· b)⟩
        · rintro ⟨h1, h2⟩
          refine ⟨h1, ?_⟩
          by_cases a : ch = channel
          · exact Or.inr (fun b => h2 ⟨a, b⟩)
          · exact Or.inl a

theorem invCore_processKick {cfg : Cfg} {c : Nat} {channel : Str} {kickUsers : List Str}
    {comment : Option Str} {x : Ctx}
    (h : InvCore x.w) (hl : Live x.w c) (ha : (x.conn c).authenticated = true) :
    InvCore (processKick cfg c channel kickUsers comment x).w ∧
    SameConnIds x.w (processKick cfg c channel kickUsers comment x).w := by
  obtain ⟨n, _, h1, f1, _⟩ :=
    kick_all (cfg := cfg) (channel := channel) (kickUsers := kickUsers) (comment := comment) h hl ha
  exact ⟨InvCore.of_frame h f1 h1, f1.sameConnIds⟩

/-- KICK removes exactly the memberships `(channel, m)` of the listed legitimate victims;
    nobody else's membership changes. -/
theorem kick_membership_effect {cfg : Cfg} {c : Nat} {channel : Str} {kickUsers : List Str}
    {comment : Option Str} {x : Ctx}
    (h : InvCore x.w) (hl : Live x.w c) (ha : (x.conn c).authenticated = true) :
    ∃ n, (x.conn c).nick = some n ∧ ∀ ch m,
      ((processKick cfg c channel kickUsers comment x).w.memOf ch m = true ↔
        (x.w.memOf ch m = true ∧ ¬ (ch = channel ∧ m ∈ kickUsers ∧ KickVictim x.w channel n m))) := by
  obtain ⟨n, hn, _, _, e⟩ :=
    kick_all (cfg := cfg) (channel := channel) (kickUsers := kickUsers) (comment := comment) h hl ha
  exact ⟨n, hn, e⟩

/-! ## JOIN -/

theorem Memb.join_all {cfg : Cfg} {c : Nat} {channels : List Str} {keys : Option (List Str)} {x : Ctx}
    (h : InvCore x.w) (hl : Live x.w c) (ha : (x.conn c).authenticated = true) :
    ∃ n u, (x.conn c).nick = some n ∧ Map.lookup n x.w.users = some u ∧
      MemInv (processJoin cfg c channels keys x).w ∧
      Frame x.w (processJoin cfg c channels keys x).w ∧
      ∀ ch m, (processJoin cfg c channels keys x).w.memOf ch m =
        (x.w.memOf ch m ||
          (decide (m = n) && joined (joinDecisions cfg c channels keys x n u) channels ch)) := by
  obtain ⟨n, u, hn, hu, _⟩ := sender_of_auth h hl ha
  refine ⟨n, u, hn, hu, ?_⟩
  rw [processJoin_eq, hn]
  dsimp only
  rw [hu]
  dsimp only
  have hM := InvCore.memInv h
  have hdec : DecOK x.w n (joinDecisions cfg c channels keys x n u) channels :=
    joinDecide_ok cfg x.w (x.conn c) n u.invitedTo channels (joinKeyList keys) u.channels.length
  obtain ⟨h1, f1, e1⟩ := joinApply_inv x.w n _ channels x.w hdec hM
    ((Map.contains_iff _ _).mpr ⟨u, hu⟩) (JoinInv.init x.w n)
  rw [joinAnnounce_w]
  · simp only [Ctx.modifyW_w, reply_foldl_w]
    exact ⟨h1, f1, e1⟩
  · simp only [Ctx.modifyW_w, reply_foldl_w]
    exact h1
  · simp only [Ctx.modifyW_w, reply_foldl_w]
    intro ch hj
    have : (joinApply n (joinDecisions cfg c channels keys x n u) channels x.w).memOf ch n = true := by
      rw [e1, hj]; simp
    obtain ⟨C, hC, _⟩ := (World.memOf_iff _ _ _).mp this
    exact (Map.contains_iff _ _).mpr ⟨C, hC⟩

theorem invCore_processJoin {cfg : Cfg} {c : Nat} {channels : List Str} {keys : Option (List Str)}
    {x : Ctx} (h : InvCore x.w) (hl : Live x.w c) (ha : (x.conn c).authenticated = true) :
    InvCore (processJoin cfg c channels keys x).w ∧
    SameConnIds x.w (processJoin cfg c channels keys x).w := by
  obtain ⟨n, u, _, _, h1, f1, _⟩ := join_all (cfg := cfg) (channels := channels) (keys := keys) h hl ha
  exact ⟨InvCore.of_frame h f1 h1, f1.sameConnIds⟩

/-- JOIN adds exactly the memberships `(ch, n)` of the sender `n` for the listed channels `ch`
    whose admission decision (`joinDecide`, taken against the pre-state) is `true`; nothing else
    changes.  `Memb.joinDecisions … n u` is the decision list, `p.1.1` the join flag. -/
theorem join_membership_effect {cfg : Cfg} {c : Nat} {channels : List Str} {keys : Option (List Str)}
    {x : Ctx} (h : InvCore x.w) (hl : Live x.w c) (ha : (x.conn c).authenticated = true) :
    ∃ n u, (x.conn c).nick = some n ∧ Map.lookup n x.w.users = some u ∧ ∀ ch m,
      ((processJoin cfg c channels keys x).w.memOf ch m = true ↔
        (x.w.memOf ch m = true ∨
          (m = n ∧ ∃ p, p ∈ (joinDecisions cfg c channels keys x n u).zip channels ∧
            p.1.1 = true ∧ p.2 = ch))) := by
  obtain ⟨n, u, hn, hu, _, _, e⟩ := join_all (cfg := cfg) (channels := channels) (keys := keys) h hl ha
  refine ⟨n, u, hn, hu, fun ch m => ?_⟩
  rw [e]
  simp only [joined, Bool.or_eq_true, Bool.and_eq_true, decide_eq_true_eq, List.any_eq_true]

/-! ## non-vacuity: a concrete world on which all three theorems apply with visible effect -/

namespace Memb.Ex

def mkUser (owner : Nat) : User :=
  { hostname := [], name := [], realname := [], source := [], modes := {}, history := ⟨[], [], []⟩,
    owner := owner }
def mkConn (id : Nat) (nick : Str) : Conn :=
  { id := id, hostname := [], nick := some nick, source := nick, authenticated := true,
    registered := true, hasSender := false, hasQuitSender := false, hasPingSender := false }

def na : Str := ['a']
def nb : Str := ['b']
def hc : Str := ['#', 'c']

/-- two registered users `a` (connection 1) and `b` (connection 2), no channels -/
def w0 : World :=
  { users := [(na, mkUser 1), (nb, mkUser 2)], conns := [mkConn 1 na, mkConn 2 nb],
    connsCount := 2, maxUsers := 2 }

theorem w0_users {n : Str} {u : User} (h : Map.lookup n w0.users = some u) :
    (n = na ∧ u = mkUser 1) ∨ (n = nb ∧ u = mkUser 2) := by
  simp only [w0, Map.lookup] at h
  split at h
  · rename_i e; cases h; exact Or.inl ⟨e.symm, rfl⟩
  · split at h
    · rename_i e; cases h; exact Or.inr ⟨e.symm, rfl⟩
    · cases h

theorem w0_conns {cn : Conn} (h : cn ∈ w0.conns) : cn = mkConn 1 na ∨ cn = mkConn 2 nb := by
  simpa [w0] using h

theorem invCore_w0 : InvCore w0 where
  noPanic := rfl
  usersNodup := by decide
  chansNodup := by decide
  connsNodup := by decide
  membersNodup := fun ch C h => by cases h
  userChansNodup := fun n u h => by
    rcases w0_users h with ⟨_, rfl⟩ | ⟨_, rfl⟩ <;> exact List.nodup_nil
  authOwns := fun cn hcn _ => by
    rcases w0_conns hcn with rfl | rfl
    · exact ⟨na, mkUser 1, rfl, rfl, rfl⟩
    · exact ⟨nb, mkUser 2, rfl, rfl, rfl⟩
  userOwned := fun n u h => by
    rcases w0_users h with ⟨rfl, rfl⟩ | ⟨rfl, rfl⟩
    · exact ⟨mkConn 1 na, by simp [w0], rfl, rfl, rfl⟩
    · exact ⟨mkConn 2 nb, by simp [w0], rfl, rfl, rfl⟩
  memberSym := fun n u ch h => by
    rcases w0_users h with ⟨rfl, rfl⟩ | ⟨rfl, rfl⟩ <;>
      exact ⟨fun h => (by cases h), fun ⟨C, h, _⟩ => (by cases h)⟩
  memberIsUser := fun ch C n h => by cases h
  rankMirror := fun ch C h => by cases h
  noEmptyAdHoc := fun ch C h => by cases h
  invisibleCount := rfl
  operatorsCount := rfl
  wallopsSet := fun n => by
    constructor
    · intro h; cases h
    · rintro ⟨u, h, hw⟩
      rcases w0_users h with ⟨rfl, rfl⟩ | ⟨rfl, rfl⟩ <;> cases hw
  maxUsers := by decide
  resources := fun cn hcn hf => by
    rcases w0_conns hcn with rfl | rfl <;> cases hf
  slots := rfl
  killedFlagged := fun n u h hk => by
    rcases w0_users h with ⟨rfl, rfl⟩ | ⟨rfl, rfl⟩ <;> cases hk

theorem live_w0_1 : Live w0 1 := ⟨mkConn 1 na, by simp [w0], rfl⟩
theorem live_w0_2 : Live w0 2 := ⟨mkConn 2 nb, by simp [w0], rfl⟩

def cfg0 : Cfg := {}
def ctx (w : World) : Ctx := ⟨w, [], []⟩

/-- `a` joins `#c` (creating it) … -/
def w1 : World := (processJoin cfg0 1 [hc] none (ctx w0)).w
/-- … then `b` joins `#c` -/
def w2 : World := (processJoin cfg0 2 [hc] none (ctx w1)).w

theorem inv_w1 : InvCore w1 ∧ SameConnIds w0 w1 :=
  invCore_processJoin (x := ctx w0) invCore_w0 live_w0_1 (by decide)
theorem inv_w2 : InvCore w2 ∧ SameConnIds w1 w2 :=
  invCore_processJoin (x := ctx w1) inv_w1.1 (Live.of_same inv_w1.2 live_w0_2) (by decide)
theorem live_w2_1 : Live w2 1 := Live.of_same inv_w2.2 (Live.of_same inv_w1.2 live_w0_1)

-- JOIN: hypotheses satisfiable, membership really added (and only that)
example : w0.memOf hc na = false ∧ w1.memOf hc na = true ∧ w1.memOf hc nb = false := by decide
example : w2.memOf hc na = true ∧ w2.memOf hc nb = true := by decide
-- the same channel twice in one JOIN (new channel / existing channel): the executable check of
-- the invariant agrees with the theorem
example : invCoreCheck (processJoin cfg0 1 [hc, hc] none (ctx w0)).w = [] := by decide
example : invCoreCheck (processJoin cfg0 2 [hc, hc] none (ctx w1)).w = [] := by decide

-- PART: `a` leaves `#c`
example : InvCore (processPart cfg0 1 [hc] none (ctx w2)).w :=
  (invCore_processPart (x := ctx w2) inv_w2.1 live_w2_1 (by decide)).1
example : w2.memOf hc na = true ∧ (processPart cfg0 1 [hc] none (ctx w2)).w.memOf hc na = false ∧
    (processPart cfg0 1 [hc] none (ctx w2)).w.memOf hc nb = true := by decide
-- the last member leaves an ad-hoc channel: the channel disappears
example : Map.lookup hc (processPart cfg0 1 [hc] none (ctx w1)).w.channels = none := by decide

-- KICK: founder `a` kicks `b` (listed twice) from `#c`
example : InvCore (processKick cfg0 1 hc [nb, nb] none (ctx w2)).w :=
  (invCore_processKick (x := ctx w2) inv_w2.1 live_w2_1 (by decide)).1
example : w2.memOf hc nb = true ∧ (processKick cfg0 1 hc [nb, nb] none (ctx w2)).w.memOf hc nb = false ∧
    (processKick cfg0 1 hc [nb, nb] none (ctx w2)).w.memOf hc na = true := by decide
example : KickVictim w2 hc na nb :=
  ⟨_, _, _, rfl, rfl, rfl, rfl, rfl, Or.inl rfl⟩
-- `b` (no rank) cannot kick: nothing changes
example : (processKick cfg0 2 hc [na] none (ctx w2)).w.channels = w2.channels ∧
    (processKick cfg0 2 hc [na] none (ctx w2)).w.users = w2.users := by decide

end Memb.Ex

end Irc
