/-
  Irc.InvProofs.Membership — part C of the preservation proof of `InvCore`: the
  membership-changing channel handlers JOIN, PART, KICK.
  Helper lemmas: `Irc/InvProofs/MembershipLemmas.lean`.
-/
import Irc.InvProofs.MembershipLemmas

namespace Irc

/-! ## PART -/

theorem part_all {cfg : Cfg} {c : Nat} {channels : List Str} {reason : Option Str} {x : Ctx}
    (h : InvCore x.w) (hl : Live x.w c) (ha : (x.conn c).authenticated = true) :
    ∃ n, (x.conn c).nick = some n ∧
      MemInv (processPart cfg c channels reason x).w ∧
      Frame x.w (processPart cfg c channels reason x).w ∧
      ∀ ch m, (processPart cfg c channels reason x).w.memOf ch m =
        (x.w.memOf ch m && !(decide (ch ∈ channels) && decide (m = n))) := by
  obtain ⟨n, u, hn, hu, _⟩ := sender_of_auth h hl ha
  refine ⟨n, hn, ?_⟩
  rw [processPart_eq, hn]
  dsimp only
  obtain ⟨h1, f1, e1⟩ := part_fold cfg (x.conn c) n reason channels x h.memInv
  have hc : Map.contains n (channels.foldl (partStep cfg (x.conn c) n reason) x).w.users = true := by
    rw [f1.contains]; exact (Map.contains_iff _ _).mpr ⟨u, hu⟩
  rw [if_pos hc]
  exact ⟨h1, f1, e1⟩

theorem invCore_processPart {cfg : Cfg} {c : Nat} {channels : List Str} {reason : Option Str} {x : Ctx}
    (h : InvCore x.w) (hl : Live x.w c) (ha : (x.conn c).authenticated = true) :
    InvCore (processPart cfg c channels reason x).w ∧
    SameConnIds x.w (processPart cfg c channels reason x).w := by
  obtain ⟨n, _, h1, f1, _⟩ := part_all (cfg := cfg) (channels := channels) (reason := reason) h hl ha
  exact ⟨h.of_frame f1 h1, f1.sameConnIds⟩

/-- PART removes exactly the memberships of the sender `n` in the listed channels; nobody
    else's membership changes (channel side; the user side follows by `InvCore.memberSym`). -/
theorem part_membership_effect {cfg : Cfg} {c : Nat} {channels : List Str} {reason : Option Str} {x : Ctx}
    (h : InvCore x.w) (hl : Live x.w c) (ha : (x.conn c).authenticated = true) :
    ∃ n, (x.conn c).nick = some n ∧ ∀ ch m,
      ((processPart cfg c channels reason x).w.memOf ch m = true ↔
        (x.w.memOf ch m = true ∧ ¬ (ch ∈ channels ∧ m = n))) := by
  obtain ⟨n, hn, _, _, e⟩ := part_all (cfg := cfg) (channels := channels) (reason := reason) h hl ha
  refine ⟨n, hn, fun ch m => ?_⟩
  rw [e]
  simp only [Bool.and_eq_true, Bool.not_eq_true', Bool.and_eq_false_iff, decide_eq_false_iff_not,
    decide_eq_true_eq]
  constructor
  · rintro ⟨h1, h2⟩; exact ⟨h1, fun ⟨a, b⟩ => h2.elim (· a) (· b)⟩
  · rintro ⟨h1, h2⟩
    refine ⟨h1, ?_⟩
    by_cases a : ch ∈ channels
    · exact Or.inr (fun b => h2 ⟨a, b⟩)
    · exact Or.inl a

end Irc
