/-
  Irc.InvProofs.TeardownLemmas — helper lemmas for Irc.InvProofs.Teardown:
  general facts about `Map` (unique keys under insert / erase, counting under erase),
  and the analysis of `World.removeUserFromChannel` / `World.removeUser`.
-/
import Irc.InvProofs.Defs

namespace Irc.Tear

/-! ### general `Map` / list lemmas -/
namespace Map
open Irc.Map
variable {α : Type}

theorem keys_cons (k : Str) (v : α) (m : Map α) : keys ((k, v) :: m) = k :: keys m := rfl

theorem keys_insert_of_mem (k : Str) (v : α) (m : Map α) (h : k ∈ keys m) :
    keys (insert k v m) = keys m := by
  induction m with
  | nil => simp [keys] at h
  | cons p m ih =>
    obtain ⟨k', v'⟩ := p
    simp only [Map.insert]
    split
    · rename_i hk; subst hk; rfl
    · rename_i hk
      rw [keys_cons] at h
      have h' : k ∈ keys m := by
        rcases List.mem_cons.mp h with h | h
        · exact absurd h.symm hk
        · exact h
      rw [keys_cons, keys_cons, ih h']

theorem keys_insert_of_not_mem (k : Str) (v : α) (m : Map α) (h : k ∉ keys m) :
    keys (insert k v m) = keys m ++ [k] := by
  induction m with
  | nil => rfl
  | cons p m ih =>
    obtain ⟨k', v'⟩ := p
    rw [keys_cons] at h
    have hk : ¬ k' = k := fun e => h (by rw [e]; exact List.mem_cons_self ..)
    have h' : k ∉ keys m := fun e => h (List.mem_cons_of_mem _ e)
    simp only [Map.insert, hk, ↓reduceIte]
    rw [keys_cons, keys_cons, ih h']; rfl

theorem nodup_keys_insert (k : Str) (v : α) (m : Map α) (h : (keys m).Nodup) :
    (keys (insert k v m)).Nodup := by
  by_cases hk : k ∈ keys m
  · rw [keys_insert_of_mem _ _ _ hk]; exact h
  · rw [keys_insert_of_not_mem _ _ _ hk]
    refine List.nodup_append.mpr ⟨h, by simp, ?_⟩
    intro a ha b hb
    rw [List.mem_singleton] at hb
    subst hb
    intro e; subst e; exact hk ha

theorem nodup_keys_erase (k : Str) (m : Map α) (h : (keys m).Nodup) : (keys (erase k m)).Nodup := by
  rw [keys_erase]; exact h.sublist List.filter_sublist

theorem modify_of_lookup_none (k : Str) (f : α → α) (m : Map α) (h : lookup k m = none) :
    modify k f m = m := by
  induction m with
  | nil => rfl
  | cons p m ih =>
    obtain ⟨k', v'⟩ := p
    rw [lookup_cons] at h
    by_cases hk : k' = k
    · simp [hk] at h
    · simp only [hk, ↓reduceIte] at h
      simp only [Map.modify, hk, ↓reduceIte, ih h]

theorem mem_of_lookup {k : Str} {v : α} {m : Map α} (h : lookup k m = some v) : (k, v) ∈ m := by
  induction m with
  | nil => simp at h
  | cons p m ih =>
    obtain ⟨k', v'⟩ := p
    rw [lookup_cons] at h
    by_cases hk : k' = k
    · simp only [hk, ↓reduceIte, Option.some.injEq] at h
      subst hk; subst h; exact List.mem_cons_self ..
    · simp only [hk, ↓reduceIte] at h
      exact List.mem_cons_of_mem _ (ih h)

theorem length_erase_le (k : Str) (m : Map α) : (erase k m).length ≤ m.length := by
  induction m with
  | nil => exact Nat.le_refl _
  | cons p m ih =>
    obtain ⟨k', v'⟩ := p
    simp only [Map.erase]
    split
    · exact Nat.le_succ_of_le ih
    · simp only [List.length_cons]; omega

theorem erase_of_not_mem_keys (k : Str) (m : Map α) (h : k ∉ keys m) : erase k m = m := by
  induction m with
  | nil => rfl
  | cons p m ih =>
    obtain ⟨k', v'⟩ := p
    rw [keys_cons] at h
    have hk : ¬ k' = k := fun e => h (by rw [e]; exact List.mem_cons_self ..)
    have h' : k ∉ keys m := fun e => h (List.mem_cons_of_mem _ e)
    simp only [Map.erase, hk, ↓reduceIte, ih h']

/-- counting under `erase` when keys are unique -/
theorem filter_length_erase (p : Str × α → Bool) (k : Str) (v : α) (m : Map α)
    (hn : (keys m).Nodup) (h : lookup k m = some v) :
    (m.filter p).length = ((erase k m).filter p).length + (if p (k, v) then 1 else 0) := by
  induction m with
  | nil => simp at h
  | cons q m ih =>
    obtain ⟨k', v'⟩ := q
    rw [keys_cons] at hn
    rw [lookup_cons] at h
    by_cases hk : k' = k
    · subst hk
      simp only [↓reduceIte, Option.some.injEq] at h
      subst h
      have : k' ∉ keys m := (List.nodup_cons.mp hn).1
      simp only [Map.erase, ↓reduceIte, erase_of_not_mem_keys _ _ this, List.filter_cons]
      split <;> simp
    · simp only [hk, ↓reduceIte] at h
      have ih' := ih (List.nodup_cons.mp hn).2 h
      simp only [Map.erase, hk, ↓reduceIte, List.filter_cons]
      split
      · simp only [List.length_cons]; omega
      · exact ih'

theorem contains_erase (k k' : Str) (m : Map α) :
    contains k (erase k' m) = (!decide (k' = k) && contains k m) := by
  unfold contains
  rw [lookup_erase]
  by_cases h : k' = k <;> simp [h]

theorem isEmpty_iff_nil (m : Map α) : m.isEmpty = true ↔ m = [] := List.isEmpty_iff

end Map

/-- exactly one element of a list with unique ids carries a given id -/
theorem filter_id_length {l : List Conn} (hn : (l.map (·.id)).Nodup) {cn : Conn} (hm : cn ∈ l) :
    (l.filter (·.id != cn.id)).length + 1 = l.length := by
  induction l with
  | nil => simp at hm
  | cons a l ih =>
    rw [List.map_cons, List.nodup_cons] at hn
    rcases List.mem_cons.mp hm with e | hm'
    · subst e
      have : l.filter (·.id != cn.id) = l := by
        apply List.filter_eq_self.mpr
        intro b hb
        simp only [bne_iff_ne, ne_eq]
        intro e; exact hn.1 (by rw [← e]; exact List.mem_map.mpr ⟨b, hb, rfl⟩)
      simp [this]
    · have hne : a.id ≠ cn.id := by
        intro e; exact hn.1 (by rw [e]; exact List.mem_map.mpr ⟨cn, hm', rfl⟩)
      have : (a.id != cn.id) = true := by simp [hne]
      simp only [List.filter_cons, this, ↓reduceIte, List.length_cons]
      have := ih hn.2 hm'
      omega

/-- with unique ids, a member of the connection list is determined by its id -/
theorem conn_eq_of_id {l : List Conn} (hn : (l.map (·.id)).Nodup) {a b : Conn}
    (ha : a ∈ l) (hb : b ∈ l) (e : a.id = b.id) : a = b := by
  induction l with
  | nil => simp at ha
  | cons x l ih =>
    rw [List.map_cons, List.nodup_cons] at hn
    rcases List.mem_cons.mp ha with ea | ha' <;> rcases List.mem_cons.mp hb with eb | hb'
    · rw [ea, eb]
    · subst ea; exact absurd (List.mem_map.mpr ⟨b, hb', e.symm⟩) hn.1
    · subst eb; exact absurd (List.mem_map.mpr ⟨a, ha', e⟩) hn.1
    · exact ih hn.2 ha' hb'

/-! ### the connection-independent part of the invariant -/

/-- the clauses of `InvCore` that do not mention connections -/
structure InvData (w : World) : Prop where
  noPanic : w.panicked = none
  usersNodup : (Map.keys w.users).Nodup
  chansNodup : (Map.keys w.channels).Nodup
  membersNodup : ∀ ch C, Map.lookup ch w.channels = some C → (Map.keys C.users).Nodup
  userChansNodup : ∀ n u, Map.lookup n w.users = some u → u.channels.Nodup
  memberSym : ∀ n u ch, Map.lookup n w.users = some u →
    (KSet.mem ch u.channels = true ↔ ∃ C, Map.lookup ch w.channels = some C ∧ Map.contains n C.users = true)
  memberIsUser : ∀ ch C n, Map.lookup ch w.channels = some C → Map.contains n C.users = true →
    Map.contains n w.users = true
  rankMirror : ∀ ch C, Map.lookup ch w.channels = some C → RankMirror C
  noEmptyAdHoc : ∀ ch C, Map.lookup ch w.channels = some C → C.users = [] → C.preconfigured = true
  invisibleCount : w.invisibleCount = (w.users.filter (fun p => p.2.modes.invisible)).length
  operatorsCount : w.operatorsCount = (w.users.filter (fun p => p.2.modes.isLocalOper)).length
  wallopsSet : ∀ n, KSet.mem n w.wallops = true ↔ ∃ u, Map.lookup n w.users = some u ∧ u.modes.wallops = true
  maxUsers : w.users.length ≤ w.maxUsers

theorem toData {w : World} (h : InvCore w) : InvData w :=
  ⟨h.noPanic, h.usersNodup, h.chansNodup, h.membersNodup, h.userChansNodup, h.memberSym, h.memberIsUser,
   h.rankMirror, h.noEmptyAdHoc, h.invisibleCount, h.operatorsCount, h.wallopsSet, h.maxUsers⟩

/-- `InvData` does not look at the connection list or the slot counter -/
theorem InvData.conns_irrel {w : World} (d : InvData w) (cs : List Conn) (k : Nat) :
    InvData { w with conns := cs, connsCount := k } :=
  ⟨d.noPanic, d.usersNodup, d.chansNodup, d.membersNodup, d.userChansNodup, d.memberSym, d.memberIsUser,
   d.rankMirror, d.noEmptyAdHoc, d.invisibleCount, d.operatorsCount, d.wallopsSet, d.maxUsers⟩

/-- assemble `InvCore` from `InvData` and the connection clauses -/
theorem ofData {w : World} (d : InvData w)
    (connsNodup : (w.conns.map (·.id)).Nodup)
    (authOwns : ∀ cn, cn ∈ w.conns → cn.authenticated = true →
      ∃ n u, cn.nick = some n ∧ Map.lookup n w.users = some u ∧ u.owner = cn.id)
    (userOwned : ∀ n u, Map.lookup n w.users = some u →
      ∃ cn, cn ∈ w.conns ∧ cn.id = u.owner ∧ cn.authenticated = true ∧ cn.nick = some n)
    (resources : ∀ cn, cn ∈ w.conns →
      (cn.authenticated = false → cn.hasSender = true ∧ cn.hasQuitSender = true ∧ cn.hasPingSender = true))
    (slots : w.connsCount = w.conns.length)
    (killedFlagged : ∀ n u, Map.lookup n w.users = some u → u.killed = true →
      ∃ cn, cn ∈ w.conns ∧ cn.id = u.owner ∧ (cn.killedBy.isSome = true ∨ cn.quit = true)) : InvCore w :=
  { noPanic := d.noPanic, usersNodup := d.usersNodup, chansNodup := d.chansNodup, connsNodup := connsNodup,
    membersNodup := d.membersNodup, userChansNodup := d.userChansNodup, authOwns := authOwns,
    userOwned := userOwned, memberSym := d.memberSym, memberIsUser := d.memberIsUser,
    rankMirror := d.rankMirror, noEmptyAdHoc := d.noEmptyAdHoc, invisibleCount := d.invisibleCount,
    operatorsCount := d.operatorsCount, wallopsSet := d.wallopsSet, maxUsers := d.maxUsers,
    resources := resources, slots := slots, killedFlagged := killedFlagged }

/-! ### removing a user from one channel -/

/-- the channel `C` with `n` taken out (member entry and the five rank lists) -/
def chanWithout (C : Channel) (n : Str) : Channel :=
  { C with
    users := Map.erase n C.users
    modes := { C.modes with operators := KSet.erase n C.modes.operators
                            halfOperators := KSet.erase n C.modes.halfOperators
                            founders := KSet.erase n C.modes.founders
                            voices := KSet.erase n C.modes.voices
                            protecteds := KSet.erase n C.modes.protecteds } }

/-- what remains of a channel when member `n` leaves: nothing if it becomes empty and is not
    preconfigured -/
def chanDrop (n : Str) (C : Channel) : Option Channel :=
  if ((chanWithout C n)).users.isEmpty && !C.preconfigured then none else some ((chanWithout C n))

theorem removeUser_of_mem (C : Channel) (n : Str) (h : Map.contains n C.users = true) :
    C.removeUser n = some ((chanWithout C n)) := by
  simp [Channel.removeUser, h, chanWithout]

def chansAfterDrop (chn n : Str) (C : Channel) (chs : Map Channel) : Map Channel :=
  match chanDrop n C with
  | none => Map.erase chn chs
  | some C' => Map.insert chn C' chs

theorem lookup_chansAfterDrop (ch chn n : Str) (C : Channel) (chs : Map Channel) :
    Map.lookup ch (chansAfterDrop chn n C chs) = if chn = ch then chanDrop n C else Map.lookup ch chs := by
  unfold chansAfterDrop
  cases chanDrop n C <;> simp only [Map.lookup_erase, Map.lookup_insert]

theorem nodup_chansAfterDrop (chn n : Str) (C : Channel) (chs : Map Channel) (h : (Map.keys chs).Nodup) :
    (Map.keys (chansAfterDrop chn n C chs)).Nodup := by
  unfold chansAfterDrop
  cases chanDrop n C
  · exact Map.nodup_keys_erase _ _ h
  · exact Map.nodup_keys_insert _ _ _ h

theorem removeUserFromChannel_eq (w : World) (chn n : Str) (C : Channel)
    (hC : Map.lookup chn w.channels = some C) (hn : Map.contains n C.users = true)
    (hu : Map.lookup n w.users = none) :
    w.removeUserFromChannel chn n = { w with channels := chansAfterDrop chn n C w.channels } := by
  unfold World.removeUserFromChannel chansAfterDrop chanDrop
  simp only [hC, removeUser_of_mem _ _ hn]
  have hp : ((chanWithout C n)).preconfigured = C.preconfigured := rfl
  rw [hp]
  split <;> simp [Map.modify_of_lookup_none _ _ _ hu]

/-- the fold of `remove_user`: `n` (no longer a user) leaves all channels of the duplicate-free list `l` -/
theorem fold_removeUserFromChannel (n : Str) (l : List Str) (w : World) (hl : l.Nodup)
    (hu : Map.lookup n w.users = none)
    (hmem : ∀ ch, ch ∈ l → ∃ C, Map.lookup ch w.channels = some C ∧ Map.contains n C.users = true) :
    ∃ CH, l.foldl (fun w chn => w.removeUserFromChannel chn n) w = { w with channels := CH } ∧
      (∀ ch, Map.lookup ch CH =
        if ch ∈ l then (Map.lookup ch w.channels).bind (chanDrop n) else Map.lookup ch w.channels) ∧
      ((Map.keys w.channels).Nodup → (Map.keys CH).Nodup) := by
  induction l generalizing w with
  | nil => exact ⟨w.channels, rfl, by simp, id⟩
  | cons chn l ih =>
    obtain ⟨C, hC, hn⟩ := hmem chn (List.mem_cons_self ..)
    rw [List.nodup_cons] at hl
    rw [List.foldl_cons, removeUserFromChannel_eq w chn n C hC hn hu]
    have hne : ∀ ch, ch ∈ l → ¬ chn = ch := fun ch hch e => hl.1 (e ▸ hch)
    obtain ⟨CH, e, hlk, hnd⟩ := ih { w with channels := chansAfterDrop chn n C w.channels } hl.2 hu
      (by
        intro ch hch
        obtain ⟨C', hC', hn'⟩ := hmem ch (List.mem_cons_of_mem _ hch)
        refine ⟨C', ?_, hn'⟩
        show Map.lookup ch (chansAfterDrop chn n C w.channels) = some C'
        rw [lookup_chansAfterDrop, if_neg (hne ch hch)]; exact hC')
    refine ⟨CH, e, ?_, fun h => hnd (nodup_chansAfterDrop _ _ _ _ h)⟩
    intro ch
    rw [hlk ch]
    show (if ch ∈ l then (Map.lookup ch (chansAfterDrop chn n C w.channels)).bind (chanDrop n)
          else Map.lookup ch (chansAfterDrop chn n C w.channels)) = _
    rw [lookup_chansAfterDrop]
    by_cases hch : ch ∈ l
    · simp only [hch, ↓reduceIte, if_neg (hne ch hch), List.mem_cons, or_true]
    · by_cases e : chn = ch
      · subst e; simp [hch, hC]
      · have : ¬ ch = chn := fun e' => e e'.symm
        simp [hch, e, this]

/-! ### `World.removeUser` -/

/-- the fate of channel `C` when user `n` is removed from the server -/
def chanAfterRemove (n : Str) (C : Channel) : Option Channel :=
  if Map.contains n C.users then chanDrop n C else some C

theorem removeUser_unfold (w : World) (n : Str) (u : User) (hu : Map.lookup n w.users = some u)
    (hop : u.modes.isLocalOper = true → ¬ w.operatorsCount = 0)
    (hinv : u.modes.invisible = true → ¬ w.invisibleCount = 0) :
    w.removeUser n = (u.channels.foldl (fun (w : World) chn => w.removeUserFromChannel chn n)
      { w with users := Map.erase n w.users
               operatorsCount := w.operatorsCount - (if u.modes.isLocalOper then 1 else 0)
               invisibleCount := w.invisibleCount - (if u.modes.invisible then 1 else 0)
               wallops := KSet.erase n w.wallops }).pushHistory n u.history := by
  unfold World.removeUser
  simp only [hu]
  cases h1 : u.modes.isLocalOper <;> cases h2 : u.modes.invisible
  · simp
  · simp [hinv h2]
  · simp [hop h1]
  · simp [hop h1, hinv h2]

/-- Explicit form of `remove_user` in a consistent world: no panic site fires. -/
theorem removeUser_eq {w : World} (h : InvData w) {n : Str} {u : User}
    (hu : Map.lookup n w.users = some u) :
    ∃ CH, w.removeUser n =
        { w with users := Map.erase n w.users
                 operatorsCount := w.operatorsCount - (if u.modes.isLocalOper then 1 else 0)
                 invisibleCount := w.invisibleCount - (if u.modes.invisible then 1 else 0)
                 wallops := KSet.erase n w.wallops
                 channels := CH
                 histories := Map.insert n ((Map.lookup n w.histories).getD [] ++ [u.history]) w.histories } ∧
      (∀ ch, Map.lookup ch CH = (Map.lookup ch w.channels).bind (chanAfterRemove n)) ∧
      (Map.keys CH).Nodup := by
  have hop : u.modes.isLocalOper = true → ¬ w.operatorsCount = 0 := by
    intro hb
    have := Map.filter_length_erase (fun p : Str × User => p.2.modes.isLocalOper) n u w.users h.usersNodup hu
    rw [← h.operatorsCount] at this
    simp only [hb, ↓reduceIte] at this
    omega
  have hinv : u.modes.invisible = true → ¬ w.invisibleCount = 0 := by
    intro hb
    have := Map.filter_length_erase (fun p : Str × User => p.2.modes.invisible) n u w.users h.usersNodup hu
    rw [← h.invisibleCount] at this
    simp only [hb, ↓reduceIte] at this
    omega
  obtain ⟨CH, e, hlk, hnd⟩ := fold_removeUserFromChannel n u.channels
    { w with users := Map.erase n w.users
             operatorsCount := w.operatorsCount - (if u.modes.isLocalOper then 1 else 0)
             invisibleCount := w.invisibleCount - (if u.modes.invisible then 1 else 0)
             wallops := KSet.erase n w.wallops }
    (h.userChansNodup n u hu) (Map.lookup_erase_eq n w.users)
    (by
      intro ch hch
      exact (h.memberSym n u ch hu).mp ((KSet.mem_iff ch u.channels).mpr hch))
  refine ⟨CH, ?_, ?_, hnd h.chansNodup⟩
  · rw [removeUser_unfold w n u hu hop hinv, e]; rfl
  · intro ch
    rw [hlk ch]
    show (if ch ∈ u.channels then (Map.lookup ch w.channels).bind (chanDrop n) else Map.lookup ch w.channels) = _
    have hs := h.memberSym n u ch hu
    rw [KSet.mem_iff] at hs
    by_cases hch : ch ∈ u.channels
    · obtain ⟨C, hC, hn⟩ := hs.mp hch
      simp [hch, hC, chanAfterRemove, hn]
    · simp only [hch, ↓reduceIte]
      cases hC : Map.lookup ch w.channels with
      | none => rfl
      | some C =>
        have : Map.contains n C.users = false := by
          cases hc : Map.contains n C.users with
          | false => rfl
          | true => exact absurd (hs.mpr ⟨C, hC, hc⟩) hch
        simp [chanAfterRemove, this]

theorem Map.lookup_erase_some {α : Type} {k k' : Str} {m : Map α} {v : α} :
    Map.lookup k (Map.erase k' m) = some v ↔ k' ≠ k ∧ Map.lookup k m = some v := by
  rw [Map.lookup_erase]
  by_cases h : k' = k <;> simp [h]

theorem chanAfterRemove_some {n : Str} {C C' : Channel} (h : chanAfterRemove n C = some C') :
    (Map.contains n C.users = false ∧ C' = C) ∨
    (Map.contains n C.users = true ∧ C' = (chanWithout C n) ∧ (((chanWithout C n)).users = [] → C.preconfigured = true)) := by
  unfold chanAfterRemove at h
  cases hc : Map.contains n C.users with
  | false =>
    simp only [hc, Bool.false_eq_true, ↓reduceIte, Option.some.injEq] at h
    exact Or.inl ⟨rfl, h.symm⟩
  | true =>
    simp only [hc, ↓reduceIte, chanDrop] at h
    split at h
    · simp at h
    · rename_i hne
      simp only [Option.some.injEq] at h
      refine Or.inr ⟨rfl, h.symm, ?_⟩
      intro he
      simp only [he, List.isEmpty_nil, Bool.true_and, Bool.not_eq_eq_eq_not, Bool.not_true,
        Bool.not_eq_false] at hne
      exact hne

/-- a member other than `n` keeps the channel alive -/
theorem chanAfterRemove_of_other {n m : Str} {C : Channel} (hne : n ≠ m)
    (hm : Map.contains m C.users = true) :
    ∃ C', chanAfterRemove n C = some C' ∧ Map.contains m C'.users = true := by
  unfold chanAfterRemove
  cases hc : Map.contains n C.users with
  | false => exact ⟨C, by simp, hm⟩
  | true =>
    have hm' : Map.contains m ((chanWithout C n)).users = true := by
      show Map.contains m (Map.erase n C.users) = true
      rw [Map.contains_erase]; simp [hne, hm]
    refine ⟨(chanWithout C n), ?_, hm'⟩
    simp only [↓reduceIte, chanDrop]
    have : ((chanWithout C n)).users.isEmpty = false := by
      cases hu : ((chanWithout C n)).users with
      | nil => rw [hu] at hm'; simp [Map.contains] at hm'
      | cons a l => rfl
    simp [this]

theorem rankMirror_without {C : Channel} (h : RankMirror C) (n : Str) : RankMirror ((chanWithout C n)) := by
  have key : ∀ (lst : KSet) (flag : ChanUserModes → Bool),
      (∀ k, KSet.mem k lst = true ↔ ∃ m, Map.lookup k C.users = some m ∧ flag m = true) →
      ∀ k, KSet.mem k (KSet.erase n lst) = true ↔
        ∃ m, Map.lookup k (Map.erase n C.users) = some m ∧ flag m = true := by
    intro lst flag hl k
    rw [KSet.mem_erase, Map.lookup_erase]
    by_cases e : k = n
    · subst e; simp
    · have e' : ¬ n = k := fun x => e x.symm
      simp only [e, decide_false, Bool.not_false, Bool.true_and, e', ↓reduceIte]
      exact hl k
  exact ⟨key _ (·.founder) h.founders, key _ (·.prot) h.protecteds, key _ (·.operator) h.operators,
         key _ (·.halfOper) h.halfOperators, key _ (·.voice) h.voices⟩

/-- `remove_user` re-establishes every connection-independent clause -/
theorem invData_removeUser {w : World} (d : InvData w) {n : Str} {u : User}
    (hu : Map.lookup n w.users = some u) : InvData (w.removeUser n) := by
  obtain ⟨CH, e, hlk, hnd⟩ := removeUser_eq d hu
  rw [e]
  -- channel lookups in the new world
  have hch : ∀ ch C', Map.lookup ch CH = some C' →
      ∃ C, Map.lookup ch w.channels = some C ∧ chanAfterRemove n C = some C' := by
    intro ch C' h
    rw [hlk] at h
    cases hC : Map.lookup ch w.channels with
    | none => rw [hC] at h; simp at h
    | some C => rw [hC] at h; exact ⟨C, rfl, h⟩
  refine
    { noPanic := d.noPanic, usersNodup := Map.nodup_keys_erase _ _ d.usersNodup, chansNodup := hnd,
      membersNodup := ?_, userChansNodup := ?_, memberSym := ?_, memberIsUser := ?_, rankMirror := ?_,
      noEmptyAdHoc := ?_, invisibleCount := ?_, operatorsCount := ?_, wallopsSet := ?_, maxUsers := ?_ }
  · intro ch C' h
    obtain ⟨C, hC, hr⟩ := hch ch C' h
    rcases chanAfterRemove_some hr with ⟨_, rfl⟩ | ⟨_, rfl, _⟩
    · exact d.membersNodup ch _ hC
    · exact Map.nodup_keys_erase _ _ (d.membersNodup ch _ hC)
  · intro m um h
    exact d.userChansNodup m um (Map.lookup_erase_some.mp h).2
  · intro m um ch h
    obtain ⟨hne, hm⟩ := Map.lookup_erase_some.mp h
    rw [d.memberSym m um ch hm]
    constructor
    · rintro ⟨C, hC, hc⟩
      obtain ⟨C', hC', hc'⟩ := chanAfterRemove_of_other hne hc
      exact ⟨C', by show Map.lookup ch CH = some C'; rw [hlk, hC]; exact hC', hc'⟩
    · rintro ⟨C', hC', hc'⟩
      obtain ⟨C, hC, hr⟩ := hch ch C' hC'
      refine ⟨C, hC, ?_⟩
      rcases chanAfterRemove_some hr with ⟨_, rfl⟩ | ⟨_, rfl, _⟩
      · exact hc'
      · have : Map.contains m (Map.erase n C.users) = true := hc'
        rw [Map.contains_erase] at this
        simp only [Bool.and_eq_true] at this
        exact this.2
  · intro ch C' m h hc
    obtain ⟨C, hC, hr⟩ := hch ch C' h
    show Map.contains m (Map.erase n w.users) = true
    rw [Map.contains_erase]
    rcases chanAfterRemove_some hr with ⟨hn, rfl⟩ | ⟨_, rfl, _⟩
    · have hne : ¬ n = m := by intro e; subst e; rw [hn] at hc; exact absurd hc (by simp)
      simp [hne, d.memberIsUser ch _ m hC hc]
    · have : Map.contains m (Map.erase n C.users) = true := hc
      rw [Map.contains_erase] at this
      simp only [Bool.and_eq_true, Bool.not_eq_eq_eq_not, Bool.not_true, decide_eq_false_iff_not] at this
      simp [this.1, d.memberIsUser ch _ m hC this.2]
  · intro ch C' h
    obtain ⟨C, hC, hr⟩ := hch ch C' h
    rcases chanAfterRemove_some hr with ⟨_, rfl⟩ | ⟨_, rfl, _⟩
    · exact d.rankMirror ch _ hC
    · exact rankMirror_without (d.rankMirror ch _ hC) n
  · intro ch C' h he
    obtain ⟨C, hC, hr⟩ := hch ch C' h
    rcases chanAfterRemove_some hr with ⟨_, rfl⟩ | ⟨_, rfl, hp⟩
    · exact d.noEmptyAdHoc ch _ hC he
    · exact hp he
  · show w.invisibleCount - (if u.modes.invisible then 1 else 0) = _
    have := Map.filter_length_erase (fun p : Str × User => p.2.modes.invisible) n u w.users d.usersNodup hu
    rw [← d.invisibleCount] at this
    show _ = ((Map.erase n w.users).filter _).length
    simp only at this
    split <;> simp_all
  · show w.operatorsCount - (if u.modes.isLocalOper then 1 else 0) = _
    have := Map.filter_length_erase (fun p : Str × User => p.2.modes.isLocalOper) n u w.users d.usersNodup hu
    rw [← d.operatorsCount] at this
    show _ = ((Map.erase n w.users).filter _).length
    simp only at this
    split <;> simp_all
  · intro m
    show KSet.mem m (KSet.erase n w.wallops) = true ↔ ∃ um, Map.lookup m (Map.erase n w.users) = some um ∧ _
    rw [KSet.mem_erase, Map.lookup_erase]
    by_cases e : m = n
    · subst e; simp
    · have e' : ¬ n = m := fun x => e x.symm
      simp only [e, decide_false, Bool.not_false, Bool.true_and, e', ↓reduceIte]
      exact d.wallopsSet m
  · exact Nat.le_trans (Map.length_erase_le _ _) d.maxUsers

/-! ### `removeUserFromChannel` for a user that is still registered (PART / KICK shape) -/

theorem Map.length_modify {α : Type} (k : Str) (f : α → α) (m : Map α) :
    (Map.modify k f m).length = m.length := by
  induction m with
  | nil => rfl
  | cons p m ih =>
    obtain ⟨k', v'⟩ := p
    simp only [Map.modify]
    split <;> simp [ih]

theorem Map.filter_length_modify {α : Type} (p : Str × α → Bool) (k : Str) (f : α → α) (m : Map α)
    (hp : ∀ v, p (k, f v) = p (k, v)) :
    ((Map.modify k f m).filter p).length = (m.filter p).length := by
  induction m with
  | nil => rfl
  | cons q m ih =>
    obtain ⟨k', v'⟩ := q
    simp only [Map.modify]
    split
    · rename_i e; subst e
      simp only [List.filter_cons, hp]
      split <;> simp
    · simp only [List.filter_cons]
      split <;> simp [ih]

theorem removeUserFromChannel_eq' (w : World) (chn n : Str) (C : Channel)
    (hC : Map.lookup chn w.channels = some C) (hn : Map.contains n C.users = true) :
    w.removeUserFromChannel chn n =
      { w with channels := chansAfterDrop chn n C w.channels
               users := Map.modify n (fun u => { u with channels := KSet.erase chn u.channels }) w.users } := by
  unfold World.removeUserFromChannel chansAfterDrop chanDrop
  simp only [hC, removeUser_of_mem _ _ hn]
  have hp : ((chanWithout C n)).preconfigured = C.preconfigured := rfl
  rw [hp]
  split <;> simp

theorem chanDrop_some {n : Str} {C C' : Channel} (h : chanDrop n C = some C') :
    C' = (chanWithout C n) ∧ (((chanWithout C n)).users = [] → C.preconfigured = true) := by
  unfold chanDrop at h
  split at h
  · simp at h
  · rename_i hne
    simp only [Option.some.injEq] at h
    refine ⟨h.symm, ?_⟩
    intro he
    simp only [he, List.isEmpty_nil, Bool.true_and, Bool.not_eq_eq_eq_not, Bool.not_true,
      Bool.not_eq_false] at hne
    exact hne

theorem chanDrop_of_other {n m : Str} {C : Channel} (hne : n ≠ m) (hm : Map.contains m C.users = true) :
    chanDrop n C = some ((chanWithout C n)) ∧ Map.contains m ((chanWithout C n)).users = true := by
  have hm' : Map.contains m ((chanWithout C n)).users = true := by
    show Map.contains m (Map.erase n C.users) = true
    rw [Map.contains_erase]; simp [hne, hm]
  refine ⟨?_, hm'⟩
  unfold chanDrop
  have : ((chanWithout C n)).users.isEmpty = false := by
    cases hu : ((chanWithout C n)).users with
    | nil => rw [hu] at hm'; simp [Map.contains] at hm'
    | cons a l => rfl
  simp [this]

/-! ### a small concrete world satisfying the invariant (for non-vacuity examples) -/

/- user `a` (invisible, wallops) alone on the ad-hoc channel `#a`, owned by the authenticated connection 1;
   connection 2 is unauthenticated (it even asked for the nick `a`, the C02 situation) -/
def exUser : User := {
  hostname := str "h", name := str "a", realname := str "r", source := str "a!~a@h",
  modes := { invisible := true, wallops := true }, channels := [str "#a"],
  history := ⟨str "a", str "h", str "r"⟩, owner := 1 }
def exConn1 : Conn := {
  id := 1, hostname := str "h", nick := some (str "a"), source := str "a!~a@h", authenticated := true,
  registered := true, hasSender := false, hasQuitSender := false, hasPingSender := false }
def exConn2 : Conn := { id := 2, hostname := str "h", nick := some (str "a"), source := str "@h" }
def exWorld : World := {
  users := [(str "a", exUser)],
  channels := [(str "#a", { users := [(str "a", ChanUserModes.createdChannel)],
                            modes := { operators := [str "a"], founders := [str "a"] } })],
  wallops := [str "a"], invisibleCount := 1,
  conns := [exConn1, exConn2], connsCount := 2, maxUsers := 1 }

theorem exWorld_invCore : InvCore exWorld := by
  have lu : ∀ n u, Map.lookup n exWorld.users = some u ↔ (n = str "a" ∧ u = exUser) := by
    intro n u
    simp only [exWorld, Map.lookup]
    constructor
    · intro h; split at h
      · rename_i e; simp at h; exact ⟨e.symm, h.symm⟩
      · simp at h
    · rintro ⟨rfl, rfl⟩; simp
  have lc : ∀ ch C, Map.lookup ch exWorld.channels = some C ↔ (ch = str "#a" ∧ C = { users := [(str "a", ChanUserModes.createdChannel)], modes := { operators := [str "a"], founders := [str "a"] } }) := by
    intro n u
    simp only [exWorld, Map.lookup]
    constructor
    · intro h; split at h
      · rename_i e; simp at h; exact ⟨e.symm, h.symm⟩
      · simp at h
    · rintro ⟨rfl, rfl⟩; simp
  have lm : ∀ (n : Str) (v : ChanUserModes) m, Map.lookup n [(str "a", v)] = some m ↔ (n = str "a" ∧ m = v) := by
    intro n v m
    simp only [Map.lookup]
    constructor
    · intro h; split at h
      · rename_i e; simp at h; exact ⟨e.symm, h.symm⟩
      · simp at h
    · rintro ⟨rfl, rfl⟩; simp
  have mc : ∀ y, y ∈ exWorld.conns ↔ y = exConn1 ∨ y = exConn2 := by intro y; simp [exWorld]
  refine
    { noPanic := rfl, usersNodup := by decide, chansNodup := by decide, connsNodup := by decide,
      membersNodup := ?_, userChansNodup := ?_, authOwns := ?_, userOwned := ?_, memberSym := ?_,
      memberIsUser := ?_, rankMirror := ?_, noEmptyAdHoc := ?_, invisibleCount := by decide,
      operatorsCount := by decide, wallopsSet := ?_, maxUsers := by decide, resources := ?_, slots := rfl,
      killedFlagged := ?_ }
  · intro ch C h; obtain ⟨rfl, rfl⟩ := (lc ch C).mp h; decide
  · intro n u h; obtain ⟨rfl, rfl⟩ := (lu n u).mp h; decide
  · intro y hy ha
    rcases (mc y).mp hy with rfl | rfl
    · exact ⟨str "a", exUser, rfl, rfl, rfl⟩
    · simp [exConn2] at ha
  · intro n u h; obtain ⟨rfl, rfl⟩ := (lu n u).mp h
    exact ⟨exConn1, (mc _).mpr (Or.inl rfl), rfl, rfl, rfl⟩
  · intro n u ch h; obtain ⟨rfl, rfl⟩ := (lu n u).mp h
    constructor
    · intro hm
      have : ch = str "#a" := List.mem_singleton.mp ((KSet.mem_iff _ _).mp hm)
      subst this
      exact ⟨_, rfl, by decide⟩
    · rintro ⟨C, hC, _⟩
      obtain ⟨rfl, rfl⟩ := (lc ch C).mp hC
      decide
  · intro ch C n h hc; obtain ⟨rfl, rfl⟩ := (lc ch C).mp h
    obtain ⟨m, hm⟩ := (Map.contains_iff _ _).mp hc
    obtain ⟨rfl, rfl⟩ := (lm n _ m).mp hm
    decide
  · intro ch C h; obtain ⟨rfl, rfl⟩ := (lc ch C).mp h
    have hyes : ∀ flag : ChanUserModes → Bool, flag ChanUserModes.createdChannel = true → ∀ n,
        KSet.mem n [str "a"] = true ↔
          ∃ m, Map.lookup n [(str "a", ChanUserModes.createdChannel)] = some m ∧ flag m = true := by
      intro flag hf n
      rw [KSet.mem_iff, List.mem_singleton]
      constructor
      · rintro rfl; exact ⟨_, rfl, hf⟩
      · rintro ⟨m, hm, _⟩; exact ((lm n _ m).mp hm).1
    have hno : ∀ flag : ChanUserModes → Bool, flag ChanUserModes.createdChannel = false → ∀ n,
        KSet.mem n [] = true ↔
          ∃ m, Map.lookup n [(str "a", ChanUserModes.createdChannel)] = some m ∧ flag m = true := by
      intro flag hf n
      constructor
      · intro h; simp [KSet.mem] at h
      · rintro ⟨m, hm, hfm⟩
        obtain ⟨_, rfl⟩ := (lm n _ m).mp hm
        rw [hf] at hfm; simp at hfm
    exact ⟨hyes _ rfl, hno _ rfl, hyes _ rfl, hno _ rfl, hno _ rfl⟩
  · intro ch C h he; obtain ⟨rfl, rfl⟩ := (lc ch C).mp h; simp at he
  · intro n
    show KSet.mem n [str "a"] = true ↔ _
    rw [KSet.mem_iff, List.mem_singleton]
    constructor
    · rintro rfl; exact ⟨exUser, rfl, rfl⟩
    · rintro ⟨u, hu, _⟩; exact ((lu n u).mp hu).1
  · intro y hy ha
    rcases (mc y).mp hy with rfl | rfl
    · simp [exConn1] at ha
    · exact ⟨rfl, rfl, rfl⟩
  · intro n u h hk; obtain ⟨rfl, rfl⟩ := (lu n u).mp h
    simp [exUser] at hk

theorem exWorld_inv : Inv exWorld :=
  { toInvCore := exWorld_invCore
    settled := by
      intro y hy
      have : y = exConn1 ∨ y = exConn2 := by simpa [exWorld] using hy
      rcases this with rfl | rfl <;> exact ⟨rfl, rfl⟩
    notKilled := by
      intro n u h
      have : (n, u) ∈ exWorld.users := Map.mem_of_lookup h
      have : (n, u) = (str "a", exUser) := by simpa [exWorld] using this
      cases this; rfl }

end Irc.Tear
