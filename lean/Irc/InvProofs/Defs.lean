/-
  Irc.InvProofs.Defs — shared vocabulary of the invariant-preservation proofs.
-/
import Irc.Inv
import Irc.Lemmas.Frame

namespace Irc

/-- `c` is the id of a live connection -/
def Live (w : World) (c : Nat) : Prop := ∃ cn, cn ∈ w.conns ∧ cn.id = c

/-- a handler does not create or remove connections (only `connect` / `teardown` do) -/
def SameConnIds (w w' : World) : Prop := w'.conns.map (·.id) = w.conns.map (·.id)

theorem SameConnIds.refl (w : World) : SameConnIds w w := rfl
theorem SameConnIds.trans {a b c : World} (h1 : SameConnIds a b) (h2 : SameConnIds b c) :
    SameConnIds a c := by unfold SameConnIds at *; rw [h2, h1]

theorem Live.of_same {w w' : World} {c : Nat} (h : SameConnIds w w') (l : Live w c) : Live w' c := by
  obtain ⟨cn, hm, hid⟩ := l
  have : c ∈ w.conns.map (·.id) := List.mem_map.mpr ⟨cn, hm, hid⟩
  rw [← h] at this
  obtain ⟨cn', hm', hid'⟩ := List.mem_map.mp this
  exact ⟨cn', hm', hid'⟩

/-- `World.conn?` finds the live connection with id `c` -/
theorem conn?_of_live {w : World} {c : Nat} (l : Live w c) : ∃ cn, w.conn? c = some cn ∧ cn ∈ w.conns ∧ cn.id = c := by
  obtain ⟨cn, hm, hid⟩ := l
  unfold World.conn?
  cases h : w.conns.find? (·.id == c) with
  | none =>
    have := List.find?_eq_none.mp h cn hm
    simp [hid] at this
  | some cn' =>
    refine ⟨cn', rfl, List.mem_of_find?_eq_some h, ?_⟩
    have := List.find?_some h
    simpa using this

/-- sending to an existing user leaves the world alone -/
theorem Ctx.send_w_eq (x : Ctx) (n l : Str) (h : Map.contains n x.w.users = true) :
    (x.send n l).w = x.w := by
  obtain ⟨u, hu⟩ := (Map.contains_iff n x.w.users).mp h
  rw [Ctx.send_w_of_lookup x n l hu]

theorem Ctx.sendDisplay_w_eq (x : Ctx) (n src t : Str) (h : Map.contains n x.w.users = true) :
    (x.sendDisplay n src t).w = x.w := by
  unfold Ctx.sendDisplay; exact Ctx.send_w_eq x n _ h

theorem Ctx.sendAll_w_eq (x : Ctx) (ns : List Str) (l : Str)
    (h : ∀ n, n ∈ ns → Map.contains n x.w.users = true) : (x.sendAll ns l).w = x.w := by
  unfold Ctx.sendAll
  induction ns generalizing x with
  | nil => rfl
  | cons n ns ih =>
    simp only [List.foldl_cons]
    have h1 : (x.send n l).w = x.w := Ctx.send_w_eq x n l (h n (List.mem_cons_self ..))
    rw [ih (x.send n l) (by intro m hm; rw [h1]; exact h m (List.mem_cons_of_mem _ hm))]
    exact h1

end Irc
