/-
  Irc.InvProofs.ReadOnlyLemmas — helper lemmas for the handlers that do not change the
  shared state (part E of the invariant-preservation proof).
-/
import Irc.InvProofs.Defs

namespace Irc.RO

/-! ### generic fold lemma: a fold whose body never changes the world -/

theorem foldl_w_eq {α : Type} (f : Ctx → α → Ctx) (l : List α) (x : Ctx)
    (hf : ∀ (y : Ctx) (a : α), y.w = x.w → a ∈ l → (f y a).w = y.w) :
    (l.foldl f x).w = x.w := by
  induction l generalizing x with
  | nil => rfl
  | cons a l ih =>
    simp only [List.foldl_cons]
    have h1 := hf x a rfl (List.mem_cons_self ..)
    rw [ih (f x a) (fun y b hy hb => hf y b (hy.trans h1) (List.mem_cons_of_mem _ hb))]
    exact h1

/-- world of a fold of `reply`s -/
theorem foldl_reply_w {α : Type} (cfg : Cfg) (g : α → Str) (l : List α) (x : Ctx) :
    (l.foldl (fun x a => x.reply cfg (g a)) x).w = x.w :=
  foldl_w_eq _ l x (fun _ _ _ _ => rfl)

/-- direct lines of a fold of `reply`s -/
theorem foldl_reply_direct {α : Type} (cfg : Cfg) (g : α → Str) (l : List α) (x : Ctx) :
    (l.foldl (fun x a => x.reply cfg (g a)) x).direct =
      x.direct ++ l.map (fun a => ':' :: (cfg.name ++ ' ' :: g a)) := by
  induction l generalizing x with
  | nil => simp
  | cons a l ih => simp [List.foldl_cons, ih]

/-- the same for an arbitrary accumulator with a world projection -/
theorem foldl_proj_eq {σ α : Type} (π : σ → World) (f : σ → α → σ) (l : List α) (s : σ)
    (hf : ∀ (t : σ) (a : α), π t = π s → a ∈ l → π (f t a) = π t) :
    π (l.foldl f s) = π s := by
  induction l generalizing s with
  | nil => rfl
  | cons a l ih =>
    simp only [List.foldl_cons]
    have h1 := hf s a rfl (List.mem_cons_self ..)
    rw [ih (f s a) (fun t b ht hb => hf t b (ht.trans h1) (List.mem_cons_of_mem _ hb))]
    exact h1

/-- direct lines of a fold of `reply`s whose text may read the (unchanged) world -/
theorem foldl_reply_dep_direct {α : Type} (cfg : Cfg) (g : World → α → Str) (l : List α) (x : Ctx) :
    (l.foldl (fun x a => x.reply cfg (g x.w a)) x).direct =
      x.direct ++ l.map (fun a => ':' :: (cfg.name ++ ' ' :: g x.w a)) := by
  induction l generalizing x with
  | nil => simp
  | cons a l ih => simp [List.foldl_cons, ih]

theorem any_isNone_false {α β : Type} (l : List α) (F : α → Option β)
    (h : ∀ a, a ∈ l → (F a).isSome = true) : (l.map F).any (·.isNone) = false := by
  rw [List.any_eq_false]
  intro o ho
  obtain ⟨a, ha, rfl⟩ := List.mem_map.mp ho
  have := h a ha
  cases hF : F a <;> simp_all

/-! ### association lists: entries vs. lookup -/

theorem map_contains_of_mem {α : Type} {k : Str} {v : α} {m : Map α} (h : (k, v) ∈ m) :
    Map.contains k m = true := by
  rw [Map.contains_iff, ← Map.mem_keys_iff]
  exact List.mem_map.mpr ⟨(k, v), h, rfl⟩

theorem map_lookup_of_mem_nodup {α : Type} {k : Str} {v : α} {m : Map α}
    (hn : (Map.keys m).Nodup) (h : (k, v) ∈ m) : Map.lookup k m = some v := by
  induction m with
  | nil => simp at h
  | cons p m ih =>
    obtain ⟨k', v'⟩ := p
    have hk : Map.keys ((k', v') :: m) = k' :: Map.keys m := rfl
    rw [hk, List.nodup_cons] at hn
    simp only [List.mem_cons, Prod.mk.injEq] at h
    rcases h with ⟨e1, e2⟩ | h
    · subst e1; subst e2; simp [Map.lookup]
    · have hne : ¬ k' = k := by
        intro e; subst e
        exact hn.1 (List.mem_map.mpr ⟨(k', v), h, rfl⟩)
      simp only [Map.lookup, hne, ↓reduceIte]
      exact ih hn.2 h

theorem mem_dedup {a : Str} {l : List Str} : a ∈ dedup l ↔ a ∈ l := by
  induction l with
  | nil => simp [dedup]
  | cons b l ih =>
    simp only [dedup, List.mem_cons, List.mem_filter, ih, bne_iff_ne, ne_eq]
    constructor
    · rintro (h | ⟨h, _⟩)
      · exact Or.inl h
      · exact Or.inr h
    · rintro (h | h)
      · exact Or.inl h
      · by_cases e : a = b
        · exact Or.inl e
        · exact Or.inr ⟨h, e⟩

/-! ### the acting connection -/

theorem conn_of_live {x : Ctx} {c : Nat} (hl : Live x.w c) :
    x.conn c ∈ x.w.conns ∧ (x.conn c).id = c := by
  obtain ⟨cn, h1, h2, h3⟩ := conn?_of_live hl
  unfold Ctx.conn
  rw [h1]
  exact ⟨h2, h3⟩

/-- the sender of an authenticated live connection is a registered user -/
theorem sender_user {x : Ctx} {c : Nat} (h : InvCore x.w) (hl : Live x.w c)
    (ha : (x.conn c).authenticated = true) :
    ∃ n u, (x.conn c).nick = some n ∧ Map.lookup n x.w.users = some u ∧ u.owner = c := by
  obtain ⟨hm, hid⟩ := conn_of_live hl
  obtain ⟨n, u, h1, h2, h3⟩ := h.authOwns _ hm ha
  exact ⟨n, u, h1, h2, h3.trans hid⟩

theorem conn_congr {x y : Ctx} (h : y.w = x.w) (c : Nat) : y.conn c = x.conn c := by
  unfold Ctx.conn; rw [h]

/-! ### chunks -/

theorem chunksAux_le {α : Type} (n : Nat) (xs : List α) (fuel : Nat) (h : xs.length ≤ n)
    (hne : xs ≠ []) (hf : 0 < fuel) : chunksAux n fuel xs = [xs] := by
  cases fuel with
  | zero => omega
  | succ f =>
    cases xs with
    | nil => exact absurd rfl hne
    | cons a as =>
      simp only [chunksAux]
      rw [List.take_of_length_le h, List.drop_of_length_le h]
      cases f <;> simp [chunksAux]

theorem chunks_nil {α : Type} (n : Nat) : chunks n ([] : List α) = [] := by
  unfold chunks; split <;> simp [chunksAux]

theorem chunks_le {α : Type} (n : Nat) (xs : List α) (h : xs.length ≤ n) (hne : xs ≠ []) :
    chunks n xs = [xs] := by
  unfold chunks
  have : n ≠ 0 := by
    intro e; subst e
    cases xs with
    | nil => exact hne rfl
    | cons => simp at h
  simp only [this, ↓reduceIte]
  apply chunksAux_le n xs _ h hne
  cases xs with
  | nil => exact absurd rfl hne
  | cons => simp

theorem chunksAux_flatten {α : Type} (n : Nat) (hn : 0 < n) (fuel : Nat) (xs : List α)
    (hf : xs.length ≤ fuel) : (chunksAux n fuel xs).flatten = xs := by
  induction fuel generalizing xs with
  | zero =>
    have : xs = [] := List.eq_nil_of_length_eq_zero (by omega)
    subst this; simp [chunksAux]
  | succ f ih =>
    cases xs with
    | nil => simp [chunksAux]
    | cons a as =>
      simp only [chunksAux, List.flatten_cons]
      rw [ih]
      · exact List.take_append_drop n (a :: as)
      · simp only [List.length_drop, List.length_cons] at hf ⊢
        omega

/-- the chunks, concatenated, are the original list -/
theorem chunks_flatten {α : Type} (n : Nat) (hn : 0 < n) (xs : List α) :
    (chunks n xs).flatten = xs := by
  unfold chunks
  have : n ≠ 0 := by omega
  simp only [this, ↓reduceIte]
  exact chunksAux_flatten n hn _ xs (Nat.le_refl _)

theorem chunksAux_len {α : Type} (n : Nat) (hn : 0 < n) (fuel : Nat) (xs : List α) :
    ∀ ch, ch ∈ chunksAux n fuel xs → ch ≠ [] ∧ ch.length ≤ n := by
  induction fuel generalizing xs with
  | zero => intro ch h; simp [chunksAux] at h
  | succ f ih =>
    cases xs with
    | nil => intro ch h; simp [chunksAux] at h
    | cons a as =>
      intro ch h
      simp only [chunksAux, List.mem_cons] at h
      rcases h with h | h
      · subst h
        constructor
        · cases n with
          | zero => omega
          | succ m => simp
        · simp only [List.length_take]; omega
      · exact ih _ ch h

/-- every chunk is non-empty and has at most `n` elements -/
theorem chunks_len {α : Type} (n : Nat) (xs : List α) :
    ∀ ch, ch ∈ chunks n xs → ch ≠ [] ∧ ch.length ≤ n := by
  unfold chunks
  split
  · intro ch h; simp at h
  · rename_i hn
    exact chunksAux_len n (by omega) _ xs

/-! ### PRIVMSG recipients -/

theorem specialRecipients_members (tt : TargetType) (ch : Channel) (nick : Str) (hr : RankMirror ch) :
    ∀ n, n ∈ specialRecipients tt ch nick → Map.contains n ch.users = true := by
  intro n hn
  simp only [specialRecipients, mem_dedup, List.mem_filter, List.mem_append] at hn
  have key : ∀ (b : Bool) (l : KSet), (∀ n, KSet.mem n l = true → ∃ m, Map.lookup n ch.users = some m ∧ True) →
      n ∈ (if b = true then l else []) → Map.contains n ch.users = true := by
    intro b l hl hm
    split at hm
    · obtain ⟨m, hm', _⟩ := hl n ((KSet.mem_iff _ _).mpr hm)
      exact (Map.contains_iff _ _).mpr ⟨m, hm'⟩
    · simp at hm
  rcases hn.1 with (((hm | hm) | hm) | hm) | hm
  · exact key _ _ (fun n h => by obtain ⟨m, h1, _⟩ := (hr.founders n).mp h; exact ⟨m, h1, trivial⟩) hm
  · exact key _ _ (fun n h => by obtain ⟨m, h1, _⟩ := (hr.protecteds n).mp h; exact ⟨m, h1, trivial⟩) hm
  · exact key _ _ (fun n h => by obtain ⟨m, h1, _⟩ := (hr.operators n).mp h; exact ⟨m, h1, trivial⟩) hm
  · exact key _ _ (fun n h => by obtain ⟨m, h1, _⟩ := (hr.halfOperators n).mp h; exact ⟨m, h1, trivial⟩) hm
  · exact key _ _ (fun n h => by obtain ⟨m, h1, _⟩ := (hr.voices n).mp h; exact ⟨m, h1, trivial⟩) hm

theorem foldl_sendDisplay_w (src t : Str) (l : List Str) (x : Ctx)
    (hk : ∀ n, n ∈ l → Map.contains n x.w.users = true) :
    (l.foldl (fun y n => y.sendDisplay n src t) x).w = x.w := by
  apply foldl_w_eq
  intro y n hy hn
  apply Ctx.sendDisplay_w_eq
  rw [hy]; exact hk n hn


theorem map_mem_of_lookup {α : Type} {k : Str} {v : α} {m : Map α} (h : Map.lookup k m = some v) :
    (k, v) ∈ m := by
  induction m with
  | nil => simp at h
  | cons p m ih =>
    obtain ⟨k', v'⟩ := p
    simp only [Map.lookup] at h
    split at h
    · rename_i e; subst e; simp at h; subst h; exact List.mem_cons_self ..
    · exact List.mem_cons_of_mem _ (ih h)

/-! ### a small concrete world satisfying `InvCore` (for the non-vacuity examples) -/
namespace Ex

def alice : Str := str "alice"
def bob : Str := str "bob"
def chan : Str := str "#c"

def uAlice : User :=
  { hostname := str "h1", name := str "al", realname := str "A", source := str "alice!~al@h1",
    modes := { wallops := true, oper := true, invisible := true }, away := some (str "gone"),
    channels := [chan], history := ⟨str "al", str "h1", str "A"⟩, owner := 1 }

def uBob : User :=
  { hostname := str "h2", name := str "bo", realname := str "B", source := str "bob!~bo@h2",
    modes := {}, channels := [chan], history := ⟨str "bo", str "h2", str "B"⟩, owner := 2 }

def cChan : Channel :=
  { modes := { founders := [alice], operators := [alice], voices := [bob] }
    users := [(alice, { founder := true, operator := true }), (bob, { voice := true })] }

def conn1 : Conn :=
  { id := 1, hostname := str "h1", nick := some alice, name := some (str "al"),
    realname := some (str "A"), source := str "alice!~al@h1", authenticated := true,
    hasSender := false, hasQuitSender := false, hasPingSender := false }

def conn2 : Conn :=
  { id := 2, hostname := str "h2", nick := some bob, name := some (str "bo"),
    realname := some (str "B"), source := str "bob!~bo@h2", authenticated := true,
    hasSender := false, hasQuitSender := false, hasPingSender := false }

def w : World :=
  { users := [(alice, uAlice), (bob, uBob)], channels := [(chan, cChan)], wallops := [alice],
    invisibleCount := 1, operatorsCount := 1, maxUsers := 2, conns := [conn1, conn2], connsCount := 2 }

def x : Ctx := { w := w }
def cfg : Cfg := {}

theorem users_cases {n : Str} {u : User} (h : Map.lookup n w.users = some u) :
    (n = alice ∧ u = uAlice) ∨ (n = bob ∧ u = uBob) := by
  have := map_mem_of_lookup h
  simpa [w] using this

theorem chans_cases {ch : Str} {C : Channel} (h : Map.lookup ch w.channels = some C) :
    ch = chan ∧ C = cChan := by
  have := map_mem_of_lookup h
  simpa [w] using this

theorem conns_cases {cn : Conn} (h : cn ∈ w.conns) : cn = conn1 ∨ cn = conn2 := by
  simpa [w] using h

theorem members_cases {n : Str} {m : ChanUserModes} (h : Map.lookup n cChan.users = some m) :
    (n = alice ∧ m = { founder := true, operator := true }) ∨ (n = bob ∧ m = { voice := true }) := by
  have := map_mem_of_lookup h
  simpa [cChan] using this

theorem rank (lst : KSet) (flag : ChanUserModes → Bool)
    (h1 : ∀ n, n ∈ lst → ∃ m, Map.lookup n cChan.users = some m ∧ flag m = true)
    (h2 : flag { founder := true, operator := true } = true → alice ∈ lst)
    (h3 : flag { voice := true } = true → bob ∈ lst) :
    ∀ n, KSet.mem n lst = true ↔ ∃ m, Map.lookup n cChan.users = some m ∧ flag m = true := by
  intro n
  rw [KSet.mem_iff]
  constructor
  · exact h1 n
  · rintro ⟨m, hm, hf⟩
    rcases members_cases hm with ⟨rfl, rfl⟩ | ⟨rfl, rfl⟩
    · exact h2 hf
    · exact h3 hf

theorem inv : InvCore w where
  noPanic := rfl
  usersNodup := by decide
  chansNodup := by decide
  connsNodup := by decide
  membersNodup := by
    intro ch C h; obtain ⟨rfl, rfl⟩ := chans_cases h; decide
  userChansNodup := by
    intro n u h
    rcases users_cases h with ⟨rfl, rfl⟩ | ⟨rfl, rfl⟩ <;> decide
  authOwns := by
    intro cn h _
    rcases conns_cases h with rfl | rfl
    · exact ⟨alice, uAlice, rfl, by decide, rfl⟩
    · exact ⟨bob, uBob, rfl, by decide, rfl⟩
  userOwned := by
    intro n u h
    rcases users_cases h with ⟨rfl, rfl⟩ | ⟨rfl, rfl⟩
    · exact ⟨conn1, by simp [w], rfl, rfl, rfl⟩
    · exact ⟨conn2, by simp [w], rfl, rfl, rfl⟩
  memberSym := by
    intro n u ch h
    have key : KSet.mem ch u.channels = true ↔ ch = chan := by
      rcases users_cases h with ⟨rfl, rfl⟩ | ⟨rfl, rfl⟩ <;>
        simp [KSet.mem_iff, uAlice, uBob]
    rw [key]
    constructor
    · rintro rfl
      rcases users_cases h with ⟨rfl, rfl⟩ | ⟨rfl, rfl⟩
      · exact ⟨cChan, by decide, by decide⟩
      · exact ⟨cChan, by decide, by decide⟩
    · rintro ⟨C, hC, _⟩; exact (chans_cases hC).1
  memberIsUser := by
    intro ch C n hC hn
    obtain ⟨rfl, rfl⟩ := chans_cases hC
    obtain ⟨m, hm⟩ := (Map.contains_iff _ _).mp hn
    rcases members_cases hm with ⟨rfl, _⟩ | ⟨rfl, _⟩ <;> decide
  rankMirror := by
    intro ch C h; obtain ⟨rfl, rfl⟩ := chans_cases h
    exact
      { founders := rank _ (·.founder) (by decide) (by decide) (by decide)
        protecteds := rank _ (·.prot) (by decide) (by decide) (by decide)
        operators := rank _ (·.operator) (by decide) (by decide) (by decide)
        halfOperators := rank _ (·.halfOper) (by decide) (by decide) (by decide)
        voices := rank _ (·.voice) (by decide) (by decide) (by decide) }
  noEmptyAdHoc := by
    intro ch C h he; obtain ⟨rfl, rfl⟩ := chans_cases h; cases he
  invisibleCount := by decide
  operatorsCount := by decide
  wallopsSet := by
    intro n
    constructor
    · intro hn
      have : n = alice := by simpa [KSet.mem_iff, w] using hn
      subst this; exact ⟨uAlice, by decide, rfl⟩
    · rintro ⟨u, hu, hw⟩
      rcases users_cases hu with ⟨rfl, rfl⟩ | ⟨rfl, rfl⟩
      · decide
      · cases hw
  maxUsers := by decide
  resources := by
    intro cn h ha
    rcases conns_cases h with rfl | rfl <;> cases ha
  slots := rfl
  killedFlagged := by
    intro n u h hk
    rcases users_cases h with ⟨rfl, rfl⟩ | ⟨rfl, rfl⟩ <;> cases hk

theorem live1 : Live x.w 1 := ⟨conn1, by simp [x, w], rfl⟩
theorem auth1 : (x.conn 1).authenticated = true := by decide

end Ex
end Irc.RO
