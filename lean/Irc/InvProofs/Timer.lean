/-
  Irc.InvProofs.Timer — the timer branches preserve the invariant; a pong timeout is an ending
  like any other (same world as `eof`), so C06 applies to it.
-/
import Irc.StepTimer
import Irc.InvProofs.Step

namespace Irc

/-- the world computed by one settling step does not depend on the output accumulators -/
theorem settleConn_world_indep (cfg : Cfg) (w : World) (o o' : List (Nat × Str)) (e e' : List Str) (c : Nat) :
    (settleConn cfg (w, o, e) c).1 = (settleConn cfg (w, o', e') c).1 := by
  unfold settleConn
  simp only
  split
  · rfl
  · rename_i cn hcn
    by_cases hq : cn.quit = true
    · simp [hq]
    · cases hk : cn.killedBy with
      | none => simp [hq]
      | some p => obtain ⟨a, b⟩ := p; simp [hq]

theorem settle_world_indep (cfg : Cfg) (w : World) (o o' : List (Nat × Str)) (e e' : List Str) :
    (settle cfg w o e).1 = (settle cfg w o' e').1 := by
  unfold settle
  generalize (w.conns.map (·.id)) = ids
  induction ids generalizing w o o' e e' with
  | nil => rfl
  | cons i is ih =>
    simp only [List.foldl_cons]
    have h1 := settleConn_world_indep cfg w o o' e e' i
    rcases hA : settleConn cfg (w, o, e) i with ⟨wa, oa, ea⟩
    rcases hB : settleConn cfg (w, o', e') i with ⟨wb, ob, eb⟩
    rw [hA, hB] at h1
    simp only at h1
    subst h1
    exact ih wa oa ob ea eb

/-- a pong timeout leaves exactly the world that the client closing its socket would leave -/
theorem stepPongTimeout_world (cfg : Cfg) (w : World) (c : Nat) :
    (stepPongTimeout cfg w c).w = (step cfg w (.eof c)).w := by
  cases h : w.conn? c with
  | none => simp [stepPongTimeout, step, h]
  | some cn =>
    simp only [stepPongTimeout, step, h, finish, Ctx.setConn_w, Ctx.reply_w]
    exact settle_world_indep cfg _ _ _ _ _

theorem inv_stepPongTimeout {cfg : Cfg} {w : World} {c : Nat} (h : Inv w) :
    Inv (stepPongTimeout cfg w c).w := by
  rw [stepPongTimeout_world]
  exact inv_step_eof h

/-- the timed-out connection is told why -/
theorem stepPongTimeout_says_error (cfg : Cfg) (w : World) (c : Nat) (cn : Conn) (h : w.conn? c = some cn) :
    (c, ':' :: (cfg.name ++ ' ' :: str "ERROR :Pong timeout, connection will be closed.")) ∈
      (stepPongTimeout cfg w c).outs := by
  unfold stepPongTimeout
  simp only [h]
  unfold finish settle
  simp only [Ctx.setConn_direct, Ctx.reply_direct, Ctx.setConn_queued, Ctx.reply_queued]
  -- the settling fold only appends to the output list
  have key : ∀ (ids : List Nat) (acc : World × List (Nat × Str) × List Str) (o : Nat × Str),
      o ∈ acc.2.1 → o ∈ (ids.foldl (settleConn cfg) acc).2.1 := by
    intro ids
    induction ids with
    | nil => intro acc o ho; exact ho
    | cons i is ih =>
      intro acc o ho
      simp only [List.foldl_cons]
      apply ih
      obtain ⟨w0, outs0, evs0⟩ := acc
      unfold settleConn
      simp only
      split
      · exact ho
      · split <;> (try split) <;> (try split) <;> simp_all
  apply key
  simp

theorem inv_stepPingTick {cfg : Cfg} {w : World} {c : Nat} (h : Inv w) :
    Inv (stepPingTick cfg w c).w := by
  unfold stepPingTick
  cases hc : w.conn? c with
  | none => exact h
  | some cn =>
    simp only
    apply inv_finish
    have hm : cn ∈ w.conns := List.mem_of_find?_eq_some hc
    show InvCore ((({ w := w } : Ctx).reply cfg (str "PING :LALAL")).setConn { cn with pongPending := true }).w
    simp only [Ctx.setConn_w, Ctx.reply_w]
    exact Reg.invCore_setConn_same h.toInvCore hm rfl rfl rfl rfl rfl rfl id

end Irc
