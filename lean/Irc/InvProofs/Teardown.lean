/-
  Irc.InvProofs.Teardown — part A of the preservation proof of the global invariant:
  the initial world, `remove_user` / `teardown`, the settling phase (`settleConn`, `settle`,
  `finish`) and the non-line events of `step`.
-/
import Irc.InvProofs.TeardownLemmas

namespace Irc
open Tear

/-! ### 1. the initial world -/

/-- what `World.init` builds for one configured channel -/
private def initChan (c : ChanCfg) : Channel :=
  { topic := c.topic.map (fun t => { topic := t, nick := [] })
    modes := { c.modes with operators := [], halfOperators := [], voices := [],
                            founders := [], protecteds := [] }
    defaultModes := { operators := c.modes.operators, halfOperators := c.modes.halfOperators,
                      voices := c.modes.voices, founders := c.modes.founders,
                      protecteds := c.modes.protecteds }
    preconfigured := true }

/-- a channel without members and with empty rank lists -/
private def EmptyPre (C : Channel) : Prop :=
  C.users = [] ∧ C.modes.founders = [] ∧ C.modes.protecteds = [] ∧ C.modes.operators = [] ∧
  C.modes.halfOperators = [] ∧ C.modes.voices = [] ∧ C.preconfigured = true

private theorem init_channels_aux (l : List ChanCfg) (m : Map Channel)
    (hn : (Map.keys m).Nodup) (he : ∀ ch C, Map.lookup ch m = some C → EmptyPre C) :
    (Map.keys (l.foldl (fun m c => Map.insert c.name (initChan c) m) m)).Nodup ∧
    ∀ ch C, Map.lookup ch (l.foldl (fun m c => Map.insert c.name (initChan c) m) m) = some C → EmptyPre C := by
  induction l generalizing m with
  | nil => exact ⟨hn, he⟩
  | cons c l ih =>
    rw [List.foldl_cons]
    apply ih
    · exact Map.nodup_keys_insert _ _ _ hn
    · intro ch C h
      rw [Map.lookup_insert] at h
      split at h
      · simp only [Option.some.injEq] at h; subst h
        exact ⟨rfl, rfl, rfl, rfl, rfl, rfl, rfl⟩
      · exact he ch C h

theorem inv_init (cfg : Cfg) : Inv (World.init cfg) := by
  have hch : (World.init cfg).channels =
      cfg.channels.foldl (fun m c => Map.insert c.name (initChan c) m) [] := rfl
  obtain ⟨hnd, hemp⟩ := init_channels_aux cfg.channels [] (by simp [Map.keys]) (by intro ch C h; simp at h)
  rw [← hch] at hnd hemp
  have hu : (World.init cfg).users = [] := rfl
  have hc : (World.init cfg).conns = [] := rfl
  refine
    { noPanic := rfl, usersNodup := by rw [hu]; simp [Map.keys], chansNodup := hnd,
      connsNodup := by rw [hc]; simp, membersNodup := ?_, userChansNodup := by rw [hu]; intro n u h; simp at h,
      authOwns := by rw [hc]; intro cn h; simp at h, userOwned := by rw [hu]; intro n u h; simp at h,
      memberSym := by rw [hu]; intro n u ch h; simp at h, memberIsUser := ?_, rankMirror := ?_,
      noEmptyAdHoc := ?_, invisibleCount := rfl, operatorsCount := rfl, wallopsSet := ?_, maxUsers := Nat.le_refl _,
      resources := by rw [hc]; intro cn h; simp at h, slots := rfl,
      killedFlagged := by rw [hu]; intro n u h; simp at h,
      settled := by rw [hc]; intro cn h; simp at h, notKilled := by rw [hu]; intro n u h; simp at h }
  · intro ch C h
    rw [(hemp ch C h).1]; simp [Map.keys]
  · intro ch C n h hc'
    rw [(hemp ch C h).1] at hc'; simp [Map.contains] at hc'
  · intro ch C h
    obtain ⟨h0, h1, h2, h3, h4, h5, _⟩ := hemp ch C h
    constructor <;> intro n <;> simp [h0, h1, h2, h3, h4, h5, KSet.mem]
  · intro ch C h _
    exact (hemp ch C h).2.2.2.2.2.2
  · intro n
    have hw : (World.init cfg).wallops = [] := rfl
    rw [hw, hu]; simp [KSet.mem]

/-! ### 2. removing a registered user from one of its channels -/

/-- `remove_user_from_channel` for a user `n` that is still registered and is on channel `ch`
    (the PART / KICK situation) keeps the whole core invariant: both sides of the membership
    relation are updated.  (Inside `remove_user` the user entry has already been taken out, there
    the symmetry is broken transiently; see `invCore_removeUser`.) -/
theorem invCore_removeUserFromChannel {w : World} (h : InvCore w) {n : Str} {u : User} {ch : Str}
    (hu : Map.lookup n w.users = some u) (hmem : KSet.mem ch u.channels = true) :
    InvCore (w.removeUserFromChannel ch n) := by
  obtain ⟨C, hC, hn⟩ := (h.memberSym n u ch hu).mp hmem
  rw [removeUserFromChannel_eq' w ch n C hC hn]
  -- users of the new world
  have hlu : ∀ m, Map.lookup m (Map.modify n (fun u : User => { u with channels := KSet.erase ch u.channels }) w.users) =
      if n = m then (Map.lookup m w.users).map (fun u => { u with channels := KSet.erase ch u.channels })
      else Map.lookup m w.users := fun m => Map.lookup_modify m n _ w.users
  -- every new user entry comes from an old one, differing at most in `channels`
  have hold : ∀ m um', Map.lookup m (Map.modify n (fun u : User => { u with channels := KSet.erase ch u.channels }) w.users) = some um' →
      ∃ um, Map.lookup m w.users = some um ∧ um'.owner = um.owner ∧ um'.killed = um.killed ∧
        um'.modes = um.modes ∧
        um'.channels = if n = m then KSet.erase ch um.channels else um.channels := by
    intro m um' hl
    rw [hlu] at hl
    by_cases e : n = m
    · simp only [e, ↓reduceIte] at hl
      cases hx : Map.lookup m w.users with
      | none => rw [hx] at hl; simp at hl
      | some um =>
        rw [hx] at hl; simp only [Option.map_some, Option.some.injEq] at hl
        subst hl
        exact ⟨um, rfl, rfl, rfl, rfl, by simp [e]⟩
    · simp only [e, ↓reduceIte] at hl
      exact ⟨um', hl, rfl, rfl, rfl, by simp [e]⟩
  have hnew : ∀ m um, Map.lookup m w.users = some um →
      ∃ um', Map.lookup m (Map.modify n (fun u : User => { u with channels := KSet.erase ch u.channels }) w.users) = some um' ∧
        um'.owner = um.owner := by
    intro m um hl
    rw [hlu]
    by_cases e : n = m
    · simp only [e, ↓reduceIte, hl, Option.map_some]; exact ⟨_, rfl, rfl⟩
    · simp only [e, ↓reduceIte]; exact ⟨um, hl, rfl⟩
  -- channels of the new world
  have hlc : ∀ ch2, Map.lookup ch2 (chansAfterDrop ch n C w.channels) =
      if ch = ch2 then chanDrop n C else Map.lookup ch2 w.channels :=
    fun ch2 => lookup_chansAfterDrop ch2 ch n C w.channels
  have hcold : ∀ ch2 C', Map.lookup ch2 (chansAfterDrop ch n C w.channels) = some C' →
      (ch = ch2 ∧ C' = (chanWithout C n) ∧ (((chanWithout C n)).users = [] → C.preconfigured = true)) ∨
      (ch ≠ ch2 ∧ Map.lookup ch2 w.channels = some C') := by
    intro ch2 C' hl
    rw [hlc] at hl
    by_cases e : ch = ch2
    · simp only [e, ↓reduceIte] at hl
      obtain ⟨e1, e2⟩ := chanDrop_some hl
      exact Or.inl ⟨e, e1, e2⟩
    · simp only [e, ↓reduceIte] at hl
      exact Or.inr ⟨e, hl⟩
  refine
    { noPanic := h.noPanic, usersNodup := ?_, chansNodup := nodup_chansAfterDrop _ _ _ _ h.chansNodup,
      connsNodup := h.connsNodup, membersNodup := ?_, userChansNodup := ?_, authOwns := ?_, userOwned := ?_,
      memberSym := ?_, memberIsUser := ?_, rankMirror := ?_, noEmptyAdHoc := ?_, invisibleCount := ?_,
      operatorsCount := ?_, wallopsSet := ?_, maxUsers := ?_, resources := h.resources, slots := h.slots,
      killedFlagged := ?_ }
  · show (Map.keys (Map.modify n _ w.users)).Nodup
    rw [Map.keys_modify]; exact h.usersNodup
  · intro ch2 C' hl
    rcases hcold ch2 C' hl with ⟨_, rfl, _⟩ | ⟨_, hl'⟩
    · exact Map.nodup_keys_erase _ _ (h.membersNodup ch C hC)
    · exact h.membersNodup ch2 C' hl'
  · intro m um' hl
    obtain ⟨um, hum, _, _, _, hch⟩ := hold m um' hl
    rw [hch]
    split
    · exact (h.userChansNodup m um hum).sublist List.filter_sublist
    · exact h.userChansNodup m um hum
  · intro y hy hya
    obtain ⟨n2, u2, hn2, hu2, ho2⟩ := h.authOwns y hy hya
    obtain ⟨u2', hu2', ho2'⟩ := hnew n2 u2 hu2
    exact ⟨n2, u2', hn2, hu2', by rw [ho2']; exact ho2⟩
  · intro m um' hl
    obtain ⟨um, hum, ho, _⟩ := hold m um' hl
    rw [ho]; exact h.userOwned m um hum
  · intro m um' ch2 hl
    obtain ⟨um, hum, _, _, _, hch⟩ := hold m um' hl
    have hsym := h.memberSym m um ch2 hum
    rw [hch, hlc]
    by_cases e1 : n = m <;> by_cases e2 : ch = ch2
    · -- the removed membership itself
      subst e1; subst e2
      simp only [↓reduceIte, KSet.mem_erase, decide_true, Bool.not_true, Bool.false_and, Bool.false_eq_true,
        false_iff, not_exists, not_and]
      intro C' hC'
      obtain ⟨rfl, _⟩ := chanDrop_some hC'
      show ¬ Map.contains n (Map.erase n C.users) = true
      rw [Map.contains_erase]; simp
    · subst e1
      have : ¬ ch2 = ch := fun e => e2 e.symm
      simp only [↓reduceIte, e2, KSet.mem_erase, this, decide_false, Bool.not_false, Bool.true_and]
      exact hsym
    · subst e2
      simp only [e1, ↓reduceIte]
      rw [hsym]
      constructor
      · rintro ⟨C0, hC0, hc0⟩
        rw [hC] at hC0; simp only [Option.some.injEq] at hC0; subst hC0
        obtain ⟨hd, hc⟩ := chanDrop_of_other e1 hc0
        exact ⟨_, hd, hc⟩
      · rintro ⟨C', hC', hc'⟩
        obtain ⟨rfl, _⟩ := chanDrop_some hC'
        refine ⟨C, hC, ?_⟩
        have : Map.contains m (Map.erase n C.users) = true := hc'
        rw [Map.contains_erase] at this
        simp only [Bool.and_eq_true] at this
        exact this.2
    · simp only [e1, e2, ↓reduceIte]
      exact hsym
  · intro ch2 C' m hl hc
    show Map.contains m (Map.modify n _ w.users) = true
    have : Map.contains m w.users = true := by
      rcases hcold ch2 C' hl with ⟨_, rfl, _⟩ | ⟨_, hl'⟩
      · have : Map.contains m (Map.erase n C.users) = true := hc
        rw [Map.contains_erase] at this
        simp only [Bool.and_eq_true] at this
        exact h.memberIsUser ch C m hC this.2
      · exact h.memberIsUser ch2 C' m hl' hc
    obtain ⟨um, hum⟩ := (Map.contains_iff _ _).mp this
    obtain ⟨um', hum', _⟩ := hnew m um hum
    exact (Map.contains_iff _ _).mpr ⟨um', hum'⟩
  · intro ch2 C' hl
    rcases hcold ch2 C' hl with ⟨_, rfl, _⟩ | ⟨_, hl'⟩
    · exact rankMirror_without (h.rankMirror ch C hC) n
    · exact h.rankMirror ch2 C' hl'
  · intro ch2 C' hl he
    rcases hcold ch2 C' hl with ⟨_, rfl, hp⟩ | ⟨_, hl'⟩
    · exact hp he
    · exact h.noEmptyAdHoc ch2 C' hl' he
  · have e := Map.filter_length_modify (fun p : Str × User => p.2.modes.invisible) n
      (fun u : User => { u with channels := KSet.erase ch u.channels }) w.users (fun _ => rfl)
    exact h.invisibleCount.trans e.symm
  · have e := Map.filter_length_modify (fun p : Str × User => p.2.modes.isLocalOper) n
      (fun u : User => { u with channels := KSet.erase ch u.channels }) w.users (fun _ => rfl)
    exact h.operatorsCount.trans e.symm
  · intro m
    rw [show (_ : World).wallops = w.wallops from rfl, h.wallopsSet m]
    constructor
    · rintro ⟨um, hum, hw⟩
      rw [hlu]
      by_cases e : n = m
      · simp only [e, ↓reduceIte, hum, Option.map_some]; exact ⟨_, rfl, hw⟩
      · simp only [e, ↓reduceIte]; exact ⟨um, hum, hw⟩
    · rintro ⟨um', hum', hw⟩
      obtain ⟨um, hum, _, _, hmo, _⟩ := hold m um' hum'
      exact ⟨um, hum, by rw [← hmo]; exact hw⟩
  · show (Map.modify n _ w.users).length ≤ w.maxUsers
    rw [Map.length_modify]; exact h.maxUsers
  · intro m um' hl hk
    obtain ⟨um, hum, ho, hki, _⟩ := hold m um' hl
    rw [ho]; exact h.killedFlagged m um hum (by rw [← hki]; exact hk)

/-! ### 3. `remove_user` -/

/-- `remove_user` of an existing user: all connection-independent clauses of the invariant hold again
    (in particular no panic site fires), the connection list is untouched, `n` is gone and every other
    user entry is unchanged. -/
theorem invCore_removeUser {w : World} (h : InvCore w) {n : Str} {u : User}
    (hu : Map.lookup n w.users = some u) :
    InvData (w.removeUser n) ∧ (w.removeUser n).conns = w.conns ∧
    (w.removeUser n).connsCount = w.connsCount ∧ (w.removeUser n).users = Map.erase n w.users := by
  refine ⟨invData_removeUser (toData h) hu, ?_⟩
  obtain ⟨CH, e, _, _⟩ := removeUser_eq (toData h) hu
  rw [e]; exact ⟨rfl, rfl, rfl⟩

/-! ### 4. `teardown` -/

theorem Tear.conn?_of_mem {w : World} (hn : (w.conns.map (·.id)).Nodup) {cn : Conn} (hm : cn ∈ w.conns) :
    w.conn? cn.id = some cn := by
  obtain ⟨cn', e, hm', hid⟩ := conn?_of_live (w := w) (c := cn.id) ⟨cn, hm, rfl⟩
  rw [e, conn_eq_of_id hn hm' hm hid]

theorem Tear.conn?_some {w : World} {c : Nat} {cn : Conn} (h : w.conn? c = some cn) : cn ∈ w.conns ∧ cn.id = c := by
  unfold World.conn? at h
  refine ⟨List.mem_of_find?_eq_some h, ?_⟩
  have := List.find?_some h
  simpa using this

theorem Tear.conn?_none {w : World} {c : Nat} (h : w.conn? c = none) : ∀ cn, cn ∈ w.conns → cn.id ≠ c := by
  unfold World.conn? at h
  intro cn hm
  have := List.find?_eq_none.mp h cn hm
  simpa using this

/-- teardown of an unauthenticated connection only frees the slot -/
theorem Tear.teardown_unauth_eq {w : World} (h : InvCore w) {cn : Conn} (hm : cn ∈ w.conns)
    (ha : cn.authenticated = false) :
    teardown w cn.id =
      { w with conns := w.conns.filter (·.id != cn.id), connsCount := w.connsCount - 1 } := by
  unfold teardown
  rw [conn?_of_mem h.connsNodup hm]
  simp [ha]

/-- teardown of an authenticated connection, explicitly -/
theorem Tear.teardown_auth_eq {w : World} (h : InvCore w) {cn : Conn} (hm : cn ∈ w.conns)
    (ha : cn.authenticated = true) {n : Str} (hn : cn.nick = some n) :
    ∃ u CH, Map.lookup n w.users = some u ∧ u.owner = cn.id ∧
      teardown w cn.id =
        { w with users := Map.erase n w.users
                 operatorsCount := w.operatorsCount - (if u.modes.isLocalOper then 1 else 0)
                 invisibleCount := w.invisibleCount - (if u.modes.invisible then 1 else 0)
                 wallops := KSet.erase n w.wallops
                 channels := CH
                 histories := Map.insert n ((Map.lookup n w.histories).getD [] ++ [u.history]) w.histories
                 conns := w.conns.filter (·.id != cn.id)
                 connsCount := w.connsCount - 1 } ∧
      (∀ ch, Map.lookup ch CH = (Map.lookup ch w.channels).bind (chanAfterRemove n)) ∧
      teardown w cn.id = { w.removeUser n with conns := w.conns.filter (·.id != cn.id)
                                               connsCount := w.connsCount - 1 } := by
  obtain ⟨n', u, hn', hu, ho⟩ := h.authOwns cn hm ha
  rw [hn] at hn'; simp only [Option.some.injEq] at hn'; subst hn'
  obtain ⟨CH, e, hlk, _⟩ := removeUser_eq (toData h) hu
  refine ⟨u, CH, hu, ho, ?_, hlk, ?_⟩
  · unfold teardown
    rw [conn?_of_mem h.connsNodup hm]
    simp only [ha, ↓reduceIte, hn, e]
  · unfold teardown
    rw [conn?_of_mem h.connsNodup hm]
    simp only [ha, ↓reduceIte, hn, e]

/-- common part of both teardown cases: the owning connection disappears together with its user
    (if it has one) -/
theorem Tear.invCore_dropConn {w W' : World} (h : InvCore w) {cn : Conn} (hm : cn ∈ w.conns) (d : InvData W')
    (hconns : W'.conns = w.conns.filter (·.id != cn.id)) (hcnt : W'.connsCount = w.connsCount - 1)
    (husers : ∀ m, Map.lookup m W'.users =
      if cn.authenticated = true ∧ cn.nick = some m then none else Map.lookup m w.users) : InvCore W' := by
  have hmem : ∀ y, y ∈ W'.conns ↔ y ∈ w.conns ∧ y.id ≠ cn.id := by
    intro y; rw [hconns, List.mem_filter]; simp
  have hold : ∀ m um, Map.lookup m W'.users = some um →
      ¬ (cn.authenticated = true ∧ cn.nick = some m) ∧ Map.lookup m w.users = some um := by
    intro m um hl
    rw [husers] at hl
    split at hl
    · simp at hl
    · rename_i hc; exact ⟨hc, hl⟩
  -- the owner of a surviving user is not `cn`
  have hother : ∀ m um, Map.lookup m W'.users = some um → ∀ y, y ∈ w.conns → y.id = um.owner → y.id ≠ cn.id := by
    intro m um hl y hy hyo e
    obtain ⟨hc, hl'⟩ := hold m um hl
    obtain ⟨z, hz, hzo, hza, hzn⟩ := h.userOwned m um hl'
    have : z = cn := conn_eq_of_id h.connsNodup hz hm (by rw [hzo, ← hyo, e])
    subst this
    exact hc ⟨hza, hzn⟩
  refine ofData d ?_ ?_ ?_ ?_ ?_ ?_
  · rw [hconns]
    exact h.connsNodup.sublist (List.Sublist.map _ List.filter_sublist)
  · intro y hy hya
    obtain ⟨hyw, hyne⟩ := (hmem y).mp hy
    obtain ⟨n2, u2, hn2, hu2, ho2⟩ := h.authOwns y hyw hya
    refine ⟨n2, u2, hn2, ?_, ho2⟩
    rw [husers, if_neg]; exact hu2
    rintro ⟨ha, hn⟩
    obtain ⟨n1, u1, hn1, hu1, ho1⟩ := h.authOwns cn hm ha
    rw [hn] at hn1; simp only [Option.some.injEq] at hn1; subst hn1
    rw [hu2] at hu1; simp only [Option.some.injEq] at hu1; subst hu1
    exact hyne (ho2.symm.trans ho1)
  · intro m um hl
    obtain ⟨_, hl'⟩ := hold m um hl
    obtain ⟨z, hz, hzo, hza, hzn⟩ := h.userOwned m um hl'
    exact ⟨z, (hmem z).mpr ⟨hz, hother m um hl z hz hzo⟩, hzo, hza, hzn⟩
  · intro y hy
    exact h.resources y ((hmem y).mp hy).1
  · rw [hcnt, hconns, h.slots]
    have := filter_id_length h.connsNodup hm
    omega
  · intro m um hl hk
    obtain ⟨_, hl'⟩ := hold m um hl
    obtain ⟨z, hz, hzo, hzf⟩ := h.killedFlagged m um hl' hk
    exact ⟨z, (hmem z).mpr ⟨hz, hother m um hl z hz hzo⟩, hzo, hzf⟩

theorem Tear.teardown_conns {w : World} (h : InvCore w) {cn : Conn} (hm : cn ∈ w.conns) :
    (teardown w cn.id).conns = w.conns.filter (·.id != cn.id) := by
  cases ha : cn.authenticated with
  | false => rw [teardown_unauth_eq h hm ha]
  | true =>
    obtain ⟨n, u, hn, _, _⟩ := h.authOwns cn hm ha
    obtain ⟨u, CH, _, _, e, _, _⟩ := teardown_auth_eq h hm ha hn
    rw [e]

/-- `teardown` of a live connection preserves the core invariant -/
theorem invCore_teardown {w : World} (h : InvCore w) (cn : Conn) (hm : cn ∈ w.conns) :
    InvCore (teardown w cn.id) := by
  cases ha : cn.authenticated with
  | false =>
    rw [teardown_unauth_eq h hm ha]
    exact invCore_dropConn h hm ((toData h).conns_irrel _ _) rfl rfl (by intro m; simp [ha])
  | true =>
    obtain ⟨n, u, hn, hu, _⟩ := h.authOwns cn hm ha
    obtain ⟨_, _, _, _, _, _, e⟩ := teardown_auth_eq h hm ha hn
    rw [e]
    obtain ⟨d, _, _, hus⟩ := invCore_removeUser h hu
    refine invCore_dropConn h hm (d.conns_irrel _ _) rfl rfl ?_
    intro m
    show Map.lookup m (w.removeUser n).users = _
    rw [hus, Map.lookup_erase]
    simp [ha, hn]

/-! ### spec-level facts about `teardown` (used by C06 / C02) -/

/-- After the teardown of an authenticated connection with nick `n` there is no trace of `n`:
    no user entry, not in the wallops set, in no channel's member map and in none of the rank lists. -/
theorem teardown_removes_user {w : World} (h : InvCore w) {cn : Conn} (hm : cn ∈ w.conns)
    (ha : cn.authenticated = true) {n : Str} (hn : cn.nick = some n) :
    Map.lookup n (teardown w cn.id).users = none ∧
    KSet.mem n (teardown w cn.id).wallops = false ∧
    ∀ ch C', Map.lookup ch (teardown w cn.id).channels = some C' →
      Map.contains n C'.users = false ∧
      KSet.mem n C'.modes.founders = false ∧ KSet.mem n C'.modes.protecteds = false ∧
      KSet.mem n C'.modes.operators = false ∧ KSet.mem n C'.modes.halfOperators = false ∧
      KSet.mem n C'.modes.voices = false := by
  have hi := invCore_teardown h cn hm
  obtain ⟨u, CH, hu, _, e, hlk, _⟩ := teardown_auth_eq h hm ha hn
  have hnone : Map.lookup n (teardown w cn.id).users = none := by
    rw [e]; exact Map.lookup_erase_eq n w.users
  refine ⟨hnone, ?_, ?_⟩
  · cases hw : KSet.mem n (teardown w cn.id).wallops with
    | false => rfl
    | true =>
      obtain ⟨u', hu', _⟩ := (hi.wallopsSet n).mp hw
      rw [hnone] at hu'; simp at hu'
  · intro ch C' hC'
    have hc : Map.contains n C'.users = false := by
      cases hc : Map.contains n C'.users with
      | false => rfl
      | true =>
        have := hi.memberIsUser ch C' n hC' hc
        rw [Map.contains_iff] at this
        obtain ⟨v, hv⟩ := this
        rw [hnone] at hv; simp at hv
    have hl : Map.lookup n C'.users = none := (Map.contains_false_iff _ _).mp hc
    have rm := hi.rankMirror ch C' hC'
    have key : ∀ (lst : KSet) (flag : ChanUserModes → Bool),
        (KSet.mem n lst = true ↔ ∃ m, Map.lookup n C'.users = some m ∧ flag m = true) →
        KSet.mem n lst = false := by
      intro lst flag hiff
      cases hx : KSet.mem n lst with
      | false => rfl
      | true =>
        obtain ⟨m, hm', _⟩ := hiff.mp hx
        rw [hl] at hm'; simp at hm'
    exact ⟨hc, key _ _ (rm.founders n), key _ _ (rm.protecteds n), key _ _ (rm.operators n),
           key _ _ (rm.halfOperators n), key _ _ (rm.voices n)⟩

/-- `C'` is `C` except for what concerns member `n`: same topic, flags, key, limit, lists, default
    ranks, ban info, preconfigured bit; every other member's entry and rank-list membership is the same. -/
def Tear.ChanSameExcept (n : Str) (C C' : Channel) : Prop :=
  C'.topic = C.topic ∧ C'.defaultModes = C.defaultModes ∧ C'.banInfo = C.banInfo ∧
  C'.preconfigured = C.preconfigured ∧
  C'.modes.ban = C.modes.ban ∧ C'.modes.exception = C.modes.exception ∧
  C'.modes.clientLimit = C.modes.clientLimit ∧ C'.modes.inviteException = C.modes.inviteException ∧
  C'.modes.key = C.modes.key ∧ C'.modes.inviteOnly = C.modes.inviteOnly ∧
  C'.modes.moderated = C.modes.moderated ∧ C'.modes.secret = C.modes.secret ∧
  C'.modes.protectedTopic = C.modes.protectedTopic ∧
  C'.modes.noExternalMessages = C.modes.noExternalMessages ∧
  (∀ m, m ≠ n → Map.lookup m C'.users = Map.lookup m C.users) ∧
  (∀ m, m ≠ n → KSet.mem m C'.modes.founders = KSet.mem m C.modes.founders) ∧
  (∀ m, m ≠ n → KSet.mem m C'.modes.protecteds = KSet.mem m C.modes.protecteds) ∧
  (∀ m, m ≠ n → KSet.mem m C'.modes.operators = KSet.mem m C.modes.operators) ∧
  (∀ m, m ≠ n → KSet.mem m C'.modes.halfOperators = KSet.mem m C.modes.halfOperators) ∧
  (∀ m, m ≠ n → KSet.mem m C'.modes.voices = KSet.mem m C.modes.voices)

theorem Tear.ChanSameExcept.refl (n : Str) (C : Channel) : ChanSameExcept n C C := by
  unfold ChanSameExcept; simp

theorem Tear.chanSameExcept_without (n : Str) (C : Channel) : ChanSameExcept n C ((chanWithout C n)) := by
  have k : ∀ (lst : KSet) m, m ≠ n → KSet.mem m (KSet.erase n lst) = KSet.mem m lst := by
    intro lst m hne; rw [KSet.mem_erase]; simp [hne]
  refine ⟨rfl, rfl, rfl, rfl, rfl, rfl, rfl, rfl, rfl, rfl, rfl, rfl, rfl, rfl, ?_, k _, k _, k _, k _, k _⟩
  intro m hne
  exact Map.lookup_erase_ne m n C.users (fun e => hne e.symm)

/-- The teardown of the authenticated connection with nick `n` leaves everybody else alone:
    * every other user entry is literally unchanged (memberships, modes, away, invitations, …);
    * every channel of the new world is the old channel of that name, changed only in what concerns `n`;
    * a channel disappears only if it was not preconfigured and `n` was its only member;
    * `histories[n]` gets the user's history entry appended, other histories are unchanged;
    * `maxUsers` is unchanged. -/
theorem teardown_keeps_others {w : World} (h : InvCore w) {cn : Conn} (hm : cn ∈ w.conns)
    (ha : cn.authenticated = true) {n : Str} (hn : cn.nick = some n) :
    (∀ m, m ≠ n → Map.lookup m (teardown w cn.id).users = Map.lookup m w.users) ∧
    (∀ ch C', Map.lookup ch (teardown w cn.id).channels = some C' →
      ∃ C, Map.lookup ch w.channels = some C ∧ ChanSameExcept n C C') ∧
    (∀ ch C, Map.lookup ch w.channels = some C → Map.lookup ch (teardown w cn.id).channels = none →
      C.preconfigured = false ∧ Map.contains n C.users = true ∧
      ∀ m, Map.contains m C.users = true → m = n) ∧
    (∃ u, Map.lookup n w.users = some u ∧ u.owner = cn.id ∧
      Map.lookup n (teardown w cn.id).histories =
        some ((Map.lookup n w.histories).getD [] ++ [u.history])) ∧
    (∀ m, m ≠ n → Map.lookup m (teardown w cn.id).histories = Map.lookup m w.histories) ∧
    (teardown w cn.id).maxUsers = w.maxUsers := by
  obtain ⟨u, CH, hu, ho, e, hlk, _⟩ := teardown_auth_eq h hm ha hn
  rw [e]
  refine ⟨?_, ?_, ?_, ⟨u, hu, ho, ?_⟩, ?_, rfl⟩
  · intro m hne
    exact Map.lookup_erase_ne m n w.users (fun e => hne e.symm)
  · intro ch C' hC'
    have hC' : Map.lookup ch CH = some C' := hC'
    rw [hlk] at hC'
    cases hC : Map.lookup ch w.channels with
    | none => rw [hC] at hC'; simp at hC'
    | some C =>
      rw [hC] at hC'
      refine ⟨C, rfl, ?_⟩
      rcases chanAfterRemove_some hC' with ⟨_, rfl⟩ | ⟨_, rfl, _⟩
      · exact ChanSameExcept.refl n _
      · exact chanSameExcept_without n C
  · intro ch C hC hnone
    have hnone : Map.lookup ch CH = none := hnone
    rw [hlk, hC] at hnone
    have hnone : chanAfterRemove n C = none := hnone
    unfold chanAfterRemove at hnone
    cases hc : Map.contains n C.users with
    | false => simp [hc] at hnone
    | true =>
      simp only [hc, ↓reduceIte, chanDrop] at hnone
      split at hnone
      · rename_i hcond
        simp only [Bool.and_eq_true, Bool.not_eq_eq_eq_not, Bool.not_true] at hcond
        refine ⟨hcond.2, rfl, ?_⟩
        intro m hmc
        have hemp : Map.erase n C.users = [] := List.isEmpty_iff.mp hcond.1
        cases hmn : decide (m = n) with
        | true => exact of_decide_eq_true hmn
        | false =>
          have hne : ¬ n = m := fun e => (of_decide_eq_false hmn) e.symm
          have : Map.contains m (Map.erase n C.users) = true := by
            rw [Map.contains_erase]; simp [hne, hmc]
          rw [hemp] at this
          simp [Map.contains] at this
      · simp at hnone
  · exact Map.lookup_insert_eq n _ w.histories
  · intro m hne
    exact Map.lookup_insert_ne m n _ w.histories (fun e => hne e.symm)

/-- The teardown of an unauthenticated connection (e.g. one refused at registration) touches nothing
    but the connection list and the slot counter. -/
theorem teardown_unauthenticated_noop {w : World} (h : InvCore w) {cn : Conn} (hm : cn ∈ w.conns)
    (ha : cn.authenticated = false) :
    (teardown w cn.id).users = w.users ∧ (teardown w cn.id).channels = w.channels ∧
    (teardown w cn.id).wallops = w.wallops ∧ (teardown w cn.id).invisibleCount = w.invisibleCount ∧
    (teardown w cn.id).operatorsCount = w.operatorsCount ∧ (teardown w cn.id).maxUsers = w.maxUsers ∧
    (teardown w cn.id).histories = w.histories ∧ (teardown w cn.id).srvQuit = w.srvQuit ∧
    (teardown w cn.id).cmdCounts = w.cmdCounts ∧ (teardown w cn.id).panicked = w.panicked ∧
    (teardown w cn.id).conns = w.conns.filter (·.id != cn.id) ∧
    (teardown w cn.id).connsCount = w.connsCount - 1 := by
  rw [teardown_unauth_eq h hm ha]
  exact ⟨rfl, rfl, rfl, rfl, rfl, rfl, rfl, rfl, rfl, rfl, rfl, rfl⟩

/-! ### updating the flags of one connection -/

theorem Tear.mem_setConn {w : World} {cn cn' : Conn} (hm : cn ∈ w.conns)
    (hid : cn'.id = cn.id) (y : Conn) :
    y ∈ (w.setConn cn').conns ↔ (y = cn' ∨ (y ∈ w.conns ∧ y.id ≠ cn.id)) := by
  show y ∈ w.conns.map (fun x => if x.id == cn'.id then cn' else x) ↔ _
  rw [List.mem_map]
  constructor
  · rintro ⟨x, hx, rfl⟩
    by_cases e : x.id = cn.id
    · left; simp [hid, e]
    · right; simp [hid, e, hx]
  · rintro (rfl | ⟨hy, hne⟩)
    · exact ⟨cn, hm, by simp [hid]⟩
    · exact ⟨y, hy, by simp [hid, hne]⟩

theorem Tear.setConn_ids (w : World) (cn' : Conn) :
    (w.setConn cn').conns.map (·.id) = w.conns.map (·.id) := by
  show (w.conns.map (fun x => if x.id == cn'.id then cn' else x)).map (·.id) = _
  rw [List.map_map]
  apply List.map_congr_left
  intro x _
  simp only [Function.comp]
  split
  · rename_i e; simp only [beq_iff_eq] at e; exact e.symm
  · rfl

/-- Replacing a live connection by one with the same id, nick, authentication state and resources,
    whose kill/quit flags are at least as "flagged", preserves the core invariant. -/
theorem Tear.invCore_setConn {w : World} (h : InvCore w) {cn cn' : Conn} (hm : cn ∈ w.conns)
    (hid : cn'.id = cn.id) (hnick : cn'.nick = cn.nick) (hauth : cn'.authenticated = cn.authenticated)
    (hres : cn'.authenticated = false →
      cn'.hasSender = true ∧ cn'.hasQuitSender = true ∧ cn'.hasPingSender = true)
    (hflag : (cn.killedBy.isSome = true ∨ cn.quit = true) → (cn'.killedBy.isSome = true ∨ cn'.quit = true)) :
    InvCore (w.setConn cn') := by
  have hmem := mem_setConn (w := w) hm hid
  -- the image of an old connection
  have himg : ∀ z, z ∈ w.conns → ∃ z', z' ∈ (w.setConn cn').conns ∧ z'.id = z.id ∧
      z'.authenticated = z.authenticated ∧ z'.nick = z.nick ∧
      ((z.killedBy.isSome = true ∨ z.quit = true) → (z'.killedBy.isSome = true ∨ z'.quit = true)) := by
    intro z hz
    by_cases e : z.id = cn.id
    · have : z = cn := conn_eq_of_id h.connsNodup hz hm e
      subst this
      exact ⟨cn', (hmem cn').mpr (Or.inl rfl), hid, hauth, hnick, hflag⟩
    · exact ⟨z, (hmem z).mpr (Or.inr ⟨hz, e⟩), rfl, rfl, rfl, id⟩
  refine ofData ((toData h).conns_irrel _ w.connsCount) ?_ ?_ ?_ ?_ ?_ ?_
  · show ((w.setConn cn').conns.map (·.id)).Nodup
    rw [setConn_ids w cn']; exact h.connsNodup
  · intro y hy hya
    rcases (hmem y).mp hy with rfl | ⟨hyw, _⟩
    · rw [hauth] at hya
      obtain ⟨n, u, hn, hu, ho⟩ := h.authOwns cn hm hya
      exact ⟨n, u, by rw [hnick]; exact hn, hu, by rw [hid]; exact ho⟩
    · exact h.authOwns y hyw hya
  · intro m um hl
    obtain ⟨z, hz, hzo, hza, hzn⟩ := h.userOwned m um hl
    obtain ⟨z', hz', e1, e2, e3, _⟩ := himg z hz
    exact ⟨z', hz', by rw [e1]; exact hzo, by rw [e2]; exact hza, by rw [e3]; exact hzn⟩
  · intro y hy
    rcases (hmem y).mp hy with rfl | ⟨hyw, _⟩
    · exact hres
    · exact h.resources y hyw
  · show w.connsCount = (w.conns.map _).length
    rw [List.length_map]; exact h.slots
  · intro m um hl hk
    obtain ⟨z, hz, hzo, hzf⟩ := h.killedFlagged m um hl hk
    obtain ⟨z', hz', e1, _, _, e4⟩ := himg z hz
    exact ⟨z', hz', by rw [e1]; exact hzo, e4 hzf⟩

/-- the special case used by the stream-end events and by the settling phase -/
theorem Tear.invCore_setConn_quit {w : World} (h : InvCore w) {cn : Conn} (hm : cn ∈ w.conns)
    (k : Option (Str × Str)) : InvCore (w.setConn { cn with quit := true, killedBy := k }) :=
  invCore_setConn h hm rfl rfl rfl (fun ha => h.resources cn hm ha) (fun _ => Or.inr rfl)

/-! ### 5. the settling phase -/

/-- the world component of `settleConn` -/
def Tear.settleW (w : World) (c : Nat) : World :=
  match w.conn? c with
  | none => w
  | some cn =>
    if cn.quit then teardown w c
    else match cn.killedBy with
      | some _ => teardown (w.setConn { cn with quit := true, killedBy := none }) c
      | none => w

theorem Tear.settleConn_w (cfg : Cfg) (acc : World × List (Nat × Str) × List Str) (c : Nat) :
    (settleConn cfg acc c).1 = settleW acc.1 c := by
  obtain ⟨w, outs, evs⟩ := acc
  unfold settleConn settleW
  simp only
  cases hc : w.conn? c with
  | none => rfl
  | some cn =>
    simp only
    cases hq : cn.quit with
    | true => simp [hq]
    | false =>
      cases hk : cn.killedBy with
      | none => simp [hq]
      | some p => obtain ⟨a, b⟩ := p; simp

theorem Tear.settle_w (cfg : Cfg) (l : List Nat) (acc : World × List (Nat × Str) × List Str) :
    (l.foldl (settleConn cfg) acc).1 = l.foldl settleW acc.1 := by
  induction l generalizing acc with
  | nil => rfl
  | cons c l ih => rw [List.foldl_cons, List.foldl_cons, ih, settleConn_w]

/-- one settling step: the invariant is kept, and exactly the connection `c` disappears if it is
    flagged (all other connections are literally unchanged) -/
theorem Tear.settleW_spec {w : World} (h : InvCore w) (c : Nat) :
    InvCore (settleW w c) ∧
    ∀ y, y ∈ (settleW w c).conns ↔ y ∈ w.conns ∧ (y.id = c → y.quit = false ∧ y.killedBy = none) := by
  unfold settleW
  cases hc : w.conn? c with
  | none =>
    refine ⟨h, fun y => ⟨fun hy => ⟨hy, fun e => absurd e (conn?_none hc y hy)⟩, fun hy => hy.1⟩⟩
  | some cn =>
    obtain ⟨hm, hid⟩ := conn?_some hc
    subst hid
    have huniq : ∀ y, y ∈ w.conns → y.id = cn.id → y = cn :=
      fun y hy e => conn_eq_of_id h.connsNodup hy hm e
    simp only
    cases hq : cn.quit with
    | true =>
      simp only [↓reduceIte]
      refine ⟨invCore_teardown h cn hm, ?_⟩
      intro y
      rw [teardown_conns h hm, List.mem_filter]
      constructor
      · rintro ⟨hy, hne⟩
        exact ⟨hy, fun e => by simp [e] at hne⟩
      · rintro ⟨hy, hf⟩
        refine ⟨hy, ?_⟩
        simp only [bne_iff_ne, ne_eq]
        intro e
        have := huniq y hy e
        subst this
        rw [hq] at hf; exact absurd (hf rfl).1 (by simp)
    | false =>
      cases hk : cn.killedBy with
      | none =>
        simp only [Bool.false_eq_true, ↓reduceIte]
        refine ⟨h, fun y => ⟨fun hy => ⟨hy, fun e => ?_⟩, fun hy => hy.1⟩⟩
        have := huniq y hy e
        subst this
        exact ⟨hq, hk⟩
      | some p =>
        simp only [Bool.false_eq_true, ↓reduceIte]
        have h1 : InvCore (w.setConn { cn with quit := true, killedBy := none }) :=
          invCore_setConn_quit h hm none
        have hmem := mem_setConn (w := w) (cn' := { cn with quit := true, killedBy := none }) hm rfl
        have hm1 : ({ cn with quit := true, killedBy := none } : Conn) ∈
            (w.setConn { cn with quit := true, killedBy := none }).conns := (hmem _).mpr (Or.inl rfl)
        have ht := invCore_teardown h1 _ hm1
        have hcs := teardown_conns h1 hm1
        refine ⟨ht, ?_⟩
        intro y
        show y ∈ (teardown (w.setConn { cn with quit := true, killedBy := none }) cn.id).conns ↔ _
        have hcs' : (teardown (w.setConn { cn with quit := true, killedBy := none }) cn.id).conns =
            (w.setConn { cn with quit := true, killedBy := none }).conns.filter (·.id != cn.id) := hcs
        rw [hcs', List.mem_filter, hmem y]
        constructor
        · rintro ⟨hy | ⟨hy, _⟩, hne⟩
          · subst hy; simp at hne
          · exact ⟨hy, fun e => by simp [e] at hne⟩
        · rintro ⟨hy, hf⟩
          have hne : y.id ≠ cn.id := by
            intro e
            have := huniq y hy e
            subst this
            rw [hk] at hf; exact absurd (hf rfl).2 (by simp)
          exact ⟨Or.inr ⟨hy, hne⟩, by simp [hne]⟩

theorem Tear.foldl_settleW (l : List Nat) (hl : l.Nodup) (w0 w : World) (h : InvCore w)
    (hinv : ∀ y, y ∈ w.conns ↔ y ∈ w0.conns ∧ (y.id ∈ l ∨ (y.quit = false ∧ y.killedBy = none))) :
    InvCore (l.foldl settleW w) ∧
    ∀ y, y ∈ (l.foldl settleW w).conns ↔ y ∈ w0.conns ∧ y.quit = false ∧ y.killedBy = none := by
  induction l generalizing w with
  | nil =>
    refine ⟨h, fun y => ?_⟩
    rw [List.foldl_nil, hinv]; simp
  | cons c l ih =>
    rw [List.nodup_cons] at hl
    obtain ⟨h1, hc1⟩ := settleW_spec h c
    rw [List.foldl_cons]
    apply ih hl.2 _ h1
    intro y
    rw [hc1, hinv]
    constructor
    · rintro ⟨⟨hy0, hor⟩, hf⟩
      refine ⟨hy0, ?_⟩
      rcases hor with hor | hor
      · rcases List.mem_cons.mp hor with e | hor
        · exact Or.inr (hf e)
        · exact Or.inl hor
      · exact Or.inr hor
    · rintro ⟨hy0, hor⟩
      refine ⟨⟨hy0, ?_⟩, ?_⟩
      · rcases hor with hor | hor
        · exact Or.inl (List.mem_cons_of_mem _ hor)
        · exact Or.inr hor
      · intro e
        rcases hor with hor | hor
        · exact absurd (e ▸ hor) hl.1
        · exact hor

/-- The settling phase re-establishes the full invariant: every quitting / killed connection is torn
    down; exactly the unflagged connections stay, unchanged. -/
theorem inv_settle {w : World} (h : InvCore w) (cfg : Cfg) (outs : List (Nat × Str)) (evs : List Str) :
    Inv (settle cfg w outs evs).1 ∧
    ∀ y, y ∈ (settle cfg w outs evs).1.conns ↔ y ∈ w.conns ∧ y.quit = false ∧ y.killedBy = none := by
  unfold settle
  rw [settle_w]
  obtain ⟨hi, hc⟩ := foldl_settleW (w.conns.map (·.id)) h.connsNodup w w h
    (by
      intro y
      constructor
      · intro hy; exact ⟨hy, Or.inl (List.mem_map.mpr ⟨y, hy, rfl⟩)⟩
      · intro hy; exact hy.1)
  refine ⟨{ toInvCore := hi, settled := ?_, notKilled := ?_ }, hc⟩
  · intro y hy
    exact ((hc y).mp hy).2
  · intro n u hu
    cases hk : u.killed with
    | false => rfl
    | true =>
      obtain ⟨z, hz, _, hzf⟩ := hi.killedFlagged n u hu hk
      obtain ⟨_, hq, hkb⟩ := (hc z).mp hz
      rw [hq, hkb] at hzf
      simp at hzf

/-- if nothing is flagged the settling phase does nothing at all -/
theorem Tear.settle_of_settled (cfg : Cfg) (w : World) (outs : List (Nat × Str)) (evs : List Str)
    (hs : ∀ cn, cn ∈ w.conns → cn.quit = false ∧ cn.killedBy = none) :
    settle cfg w outs evs = (w, outs, evs) := by
  unfold settle
  have : ∀ l : List Nat, l.foldl (settleConn cfg) (w, outs, evs) = (w, outs, evs) := by
    intro l
    induction l with
    | nil => rfl
    | cons c l ih =>
      rw [List.foldl_cons]
      have : settleConn cfg (w, outs, evs) c = (w, outs, evs) := by
        unfold settleConn
        simp only
        cases hc : w.conn? c with
        | none => rfl
        | some cn =>
          obtain ⟨hq, hk⟩ := hs cn (conn?_some hc).1
          simp [hq, hk]
      rw [this, ih]
  exact this _

/-! ### 6. `finish` -/

theorem inv_finish {cfg : Cfg} {c : Nat} {x : Ctx} {evs : List Str} (h : InvCore x.w) :
    Inv (finish cfg c x evs).w := by
  unfold finish
  exact (inv_settle h cfg _ evs).1

/-- the connections after `finish` are exactly the unflagged ones of the handler's result -/
theorem Tear.finish_conns {cfg : Cfg} {c : Nat} {x : Ctx} {evs : List Str} (h : InvCore x.w) :
    ∀ y, y ∈ (finish cfg c x evs).w.conns ↔ y ∈ x.w.conns ∧ y.quit = false ∧ y.killedBy = none := by
  unfold finish
  exact (inv_settle h cfg _ evs).2

/-! ### 7. the non-line events of `step` -/

/-- what `connect` does to the world: nothing if the server is full, else one fresh unauthenticated
    connection with all its resources is appended and the slot counter incremented -/
theorem Tear.step_connect_w (cfg : Cfg) (w : World) (c : Nat) (ip : Str) :
    (step cfg w (.connect c ip)).w = w ∨
    (step cfg w (.connect c ip)).w =
      { w with conns := w.conns ++ [Conn.new c ip], connsCount := w.connsCount + 1 } := by
  unfold step
  simp only
  split
  · split
    · exact Or.inl rfl
    · exact Or.inr rfl
  · exact Or.inr rfl

theorem inv_step_connect {cfg : Cfg} {w : World} {c : Nat} {ip : Str} (h : Inv w)
    (hs : Sched w (.connect c ip)) : Inv (step cfg w (.connect c ip)).w := by
  have hs : ∀ cn, cn ∈ w.conns → cn.id ≠ c := hs
  rcases step_connect_w cfg w c ip with e | e <;> rw [e]
  · exact h
  · have hmem : ∀ y, y ∈ w.conns ++ [Conn.new c ip] ↔ y ∈ w.conns ∨ y = Conn.new c ip := by
      intro y; simp
    have hcore : InvCore { w with conns := w.conns ++ [Conn.new c ip], connsCount := w.connsCount + 1 } := by
      refine ofData ((toData h.toInvCore).conns_irrel _ _) ?_ ?_ ?_ ?_ ?_ ?_
      · show ((w.conns ++ [Conn.new c ip]).map (·.id)).Nodup
        rw [List.map_append]
        refine List.nodup_append.mpr ⟨h.connsNodup, by simp, ?_⟩
        intro a ha b hb
        simp only [List.map_cons, List.map_nil, List.mem_singleton] at hb
        obtain ⟨y, hy, rfl⟩ := List.mem_map.mp ha
        rw [hb]; exact hs y hy
      · intro y hy hya
        rcases (hmem y).mp hy with hy | rfl
        · exact h.authOwns y hy hya
        · simp [Conn.new] at hya
      · intro m um hl
        obtain ⟨z, hz, r⟩ := h.userOwned m um hl
        exact ⟨z, (hmem z).mpr (Or.inl hz), r⟩
      · intro y hy
        rcases (hmem y).mp hy with hy | rfl
        · exact h.resources y hy
        · intro _; exact ⟨rfl, rfl, rfl⟩
      · show w.connsCount + 1 = (w.conns ++ [Conn.new c ip]).length
        rw [List.length_append, h.slots]; rfl
      · intro m um hl hk
        obtain ⟨z, hz, r⟩ := h.killedFlagged m um hl hk
        exact ⟨z, (hmem z).mpr (Or.inl hz), r⟩
    refine { toInvCore := hcore, settled := ?_, notKilled := h.notKilled }
    intro y hy
    rcases (hmem y).mp hy with hy | rfl
    · exact h.settled y hy
    · exact ⟨rfl, rfl⟩

/-- the stream of a live connection ends: `quit` is set, then the settling phase runs -/
private theorem inv_step_streamEnd {cfg : Cfg} {w : World} {c : Nat} {cn : Conn} {x : Ctx} {evs : List Str}
    (h : Inv w) (hc : w.conn? c = some cn) (hx : x.w = w) :
    Inv (finish cfg c (x.setConn { cn with quit := true }) evs).w := by
  apply inv_finish
  rw [Ctx.setConn_w, hx]
  exact invCore_setConn_quit h.toInvCore (conn?_some hc).1 cn.killedBy

theorem inv_step_tooLong {cfg : Cfg} {w : World} {c : Nat} (h : Inv w) : Inv (step cfg w (.tooLong c)).w := by
  unfold step
  simp only
  split
  · exact h
  · rename_i cn hc
    exact inv_step_streamEnd h hc rfl

theorem inv_step_badUtf8 {cfg : Cfg} {w : World} {c : Nat} (h : Inv w) : Inv (step cfg w (.badUtf8 c)).w := by
  unfold step
  simp only
  split
  · exact h
  · rename_i cn hc
    exact inv_step_streamEnd h hc rfl

theorem inv_step_eof {cfg : Cfg} {w : World} {c : Nat} (h : Inv w) : Inv (step cfg w (.eof c)).w := by
  unfold step
  simp only
  split
  · exact h
  · rename_i cn hc
    exact inv_step_streamEnd h hc rfl

theorem inv_step_reset {cfg : Cfg} {w : World} {c : Nat} (h : Inv w) : Inv (step cfg w (.reset c)).w := by
  unfold step
  simp only
  split
  · exact h
  · rename_i cn hc
    exact inv_step_streamEnd h hc rfl

theorem inv_step_partial {cfg : Cfg} {w : World} {c : Nat} {s : Str} (h : Inv w) :
    Inv (step cfg w (.partialLine c s)).w := by
  unfold step
  simp only
  split <;> exact h

/-- a `line` event for a dead connection leaves the world alone -/
theorem Tear.inv_step_line_dead {cfg : Cfg} {w : World} {c : Nat} {s : Str} (h : Inv w)
    (hc : w.conn? c = none) : Inv (step cfg w (.line c s)).w := by
  unfold step
  simp only [hc]
  exact h

/-- a `line` event for a live connection reduces to the handler (`handleLine`) preserving `InvCore` -/
theorem Tear.inv_step_line_of_handler {cfg : Cfg} {w : World} {c : Nat} {s : Str}
    (hh : InvCore (handleLine cfg c s { w := w }).w) (h : Inv w) : Inv (step cfg w (.line c s)).w := by
  unfold step
  simp only
  split
  · exact h
  · exact inv_finish hh

/-! ### non-vacuity: the hypotheses are satisfiable and the conclusions say something
  (`Tear.exWorld`: user `a` alone on ad-hoc `#a`, owned by authenticated connection 1; connection 2
  unauthenticated) -/

-- `inv_init` / `inv_step_connect`: `Sched` holds for a fresh id and a connection is really added
example : Sched (World.init {}) (.connect 5 (str "ip")) := by intro cn h; simp [World.init] at h
example : (step {} (World.init {}) (.connect 5 (str "ip"))).w.conns = [Conn.new 5 (str "ip")] := by decide
example : Inv (step {} (World.init {}) (.connect 5 (str "ip"))).w :=
  inv_step_connect (inv_init {}) (by intro cn h; simp [World.init] at h)
-- `invCore_removeUserFromChannel` / `invCore_removeUser`
example : InvCore (exWorld.removeUserFromChannel (str "#a") (str "a")) :=
  invCore_removeUserFromChannel exWorld_invCore (u := exUser) rfl (by decide)
example : (exWorld.removeUserFromChannel (str "#a") (str "a")).channels = [] ∧
    Map.lookup (str "a") (exWorld.removeUserFromChannel (str "#a") (str "a")).users =
      some { exUser with channels := [] } := by decide
example : InvData (exWorld.removeUser (str "a")) := (invCore_removeUser exWorld_invCore (u := exUser) rfl).1
-- `invCore_teardown`, `teardown_removes_user`, `teardown_keeps_others`: authenticated connection 1
example : InvCore (teardown exWorld exConn1.id) := invCore_teardown exWorld_invCore exConn1 (by decide)
example : Map.lookup (str "a") exWorld.users ≠ none ∧ (teardown exWorld 1).users = [] ∧
    (teardown exWorld 1).channels = [] ∧ (teardown exWorld 1).wallops = [] ∧
    (teardown exWorld 1).invisibleCount = 0 ∧ (teardown exWorld 1).conns = [exConn2] ∧
    (teardown exWorld 1).connsCount = 1 ∧
    Map.lookup (str "a") (teardown exWorld 1).histories = some [exUser.history] := by decide
example : exConn1 ∈ exWorld.conns ∧ exConn1.authenticated = true ∧ exConn1.nick = some (str "a") := by decide
-- `teardown_unauthenticated_noop`: unauthenticated connection 2 (which had asked for nick `a`)
example : exConn2 ∈ exWorld.conns ∧ exConn2.authenticated = false ∧ exConn2.nick = some (str "a") := by decide
example : (teardown exWorld 2).users = exWorld.users ∧ (teardown exWorld 2).conns = [exConn1] := by decide
-- `inv_settle` / `inv_finish`: a flagged connection is really removed
example : InvCore (exWorld.setConn { exConn1 with quit := true }) :=
  invCore_setConn_quit exWorld_invCore (cn := exConn1) (by decide) none
example : (settle {} (exWorld.setConn { exConn1 with quit := true }) [] []).1.conns = [exConn2] := by decide
-- stream-end events on a world satisfying `Inv`
example : (step {} exWorld (.eof 1)).w.conns = [exConn2] ∧ (step {} exWorld (.eof 1)).w.users = [] := by decide
example : (step {} exWorld (.tooLong 2)).w.conns = [exConn1] ∧
    (step {} exWorld (.tooLong 2)).w.users = exWorld.users := by decide
example : Inv (step {} exWorld (.reset 1)).w := inv_step_reset exWorld_inv

end Irc
