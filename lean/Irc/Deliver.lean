/-
  Irc.Deliver — a small-step model of the DELIVERY of lines to a connection's socket
  (property C18, first sentence: "Replies to one connection's commands arrive in the order the
  commands were sent, and messages from one sender to one receiver arrive in the order they
  were sent").

  Rust (`/repo/src/state/mod.rs`, `process` / `process_internal`): every connection task loops
  over `process(conn)`.  One call handles ONE event chosen by `tokio::select!` among the ready
  ones:
   * a line from the socket: the command handler runs; its DIRECT replies are appended to the
     connection's output buffer (`feed_msg`), the lines it sends to users — including the
     issuing user itself (echo of TOPIC / MODE / NICK / PART, a PRIVMSG to one's own nick) —
     are PUSHED into the unbounded mpsc queue of the receiving connection;
   * or one line from the connection's own queue (`receiver.recv()`): appended to the buffer.
  After the event, since the repair `65df214`, `process` DRAINS the connection's own queue
  (`while let Ok(m) = receiver.try_recv() { feed(m) }`) into the buffer, then flushes the buffer
  to the socket.  Before the repair the drain was missing.

  The model: `DState` keeps, per connection, what reached the socket (`sock`) and the mpsc queue
  (`queue`); every line carries the tag (issuing connection, index of the issuing connection's
  command that caused it).  `dstep cfg drain` executes one `process` call; `drain = true` is the
  repaired server, `drain = false` the old one.  The handler is `Irc.handleLine` of the
  sequential model (one lock section, cf. `Irc/Conc.lean`); the world component evolves exactly
  as in `Conc.Section.whole` and does not depend on `drain` nor on the `recv` events.

  Not modelled (trusted / elsewhere): the mpsc queue is FIFO and loses nothing (it IS the list
  `queue d` here); the output buffer is flushed in order (buffer and socket are one list);
  the other `select!` branches (ping / pong timers, kill signal: they write one direct line to
  the connection's own buffer and are events of their own, `Irc/Timer.lean`, `Irc.settle`);
  the split of the registration commands into several lock sections (`Irc/Conc.lean`: the
  direct replies and the pushes of a split command are still produced by ONE `process` call of
  the issuing task, so for delivery the command is one event); teardown of a connection.
  A `cmd` event of a connection that has no record in the world is allowed (the theorems hold
  for every event list).

  Everything here is computable with structural recursion only (`decide` evaluates small runs).
-/
import Irc.Conc

namespace Irc

/-- a delivered / queued line: (issuing connection, index of the issuing connection's command
    that caused it, the line) -/
abbrev Tagged := Nat × Nat × Str

structure DState where
  /-- shared state + connection records -/
  w     : World
  /-- what reached connection `d`'s socket, in order -/
  sock  : Nat → List (Nat × Nat × Str) := fun _ => []
  /-- connection `d`'s mpsc queue, oldest first -/
  queue : Nat → List (Nat × Nat × Str) := fun _ => []
  /-- how many commands connection `c` has issued so far -/
  count : Nat → Nat := fun _ => 0

inductive DEvent
  /-- connection `c`'s task takes its next line: handler, then (if `drain`) drain `c`'s queue -/
  | cmd (c : Nat) (line : Str)
  /-- connection `d`'s task takes ONE line from its queue (if any), then (if `drain`) drains -/
  | recv (d : Nat)
  deriving DecidableEq, Repr

/-- the direct replies of command number `k` of connection `c`, tagged -/
def tagDirect (c k : Nat) (x : Ctx) : List Tagged := x.direct.map (fun l => (c, k, l))

/-- what command number `k` of connection `c` pushes into the queue of `d`, in push order -/
def tagPushes (c k : Nat) (x : Ctx) (d : Nat) : List Tagged :=
  (x.queued.filter (fun p => p.1 == d)).map (fun p => (c, k, p.2))

/-- the command counters after a command of `c` -/
def bump (cnt : Nat → Nat) (c : Nat) : Nat → Nat := fun i => if i = c then cnt c + 1 else cnt i

namespace DState

/-- the initial delivery state over a world: empty sockets and queues, no command issued -/
def init (w : World) : DState := { w := w }

/-- `while let Ok(m) = receiver.try_recv() { stream.feed(m) }` of connection `c` -/
def drainQ (s : DState) (c : Nat) : DState :=
  { s with sock := fun i => if i = c then s.sock c ++ s.queue c else s.sock i
           queue := fun i => if i = c then [] else s.queue i }

def drainIf (drain : Bool) (s : DState) (c : Nat) : DState := if drain then s.drainQ c else s

/-- the handler of command `line` of connection `c`: direct replies to `c`'s buffer, pushes to
    the queues of the receivers, all tagged `(c, count c)` -/
def handle (cfg : Cfg) (s : DState) (c : Nat) (line : Str) : DState :=
  let x := handleLine cfg c line { w := s.w }
  let k := s.count c
  { w := x.w
    sock := fun i => if i = c then s.sock c ++ tagDirect c k x else s.sock i
    queue := fun i => s.queue i ++ tagPushes c k x i
    count := bump s.count c }

/-- `Some(msg) = receiver.recv() => stream.feed(msg)`; nothing if the queue is empty (the branch
    is not ready then) -/
def recvOne (s : DState) (d : Nat) : DState :=
  match s.queue d with
  | [] => s
  | m :: rest =>
    { s with sock := fun i => if i = d then s.sock d ++ [m] else s.sock i
             queue := fun i => if i = d then rest else s.queue i }

/-- everything connection `d` has got or will get: socket, then queue -/
def all (s : DState) (d : Nat) : List Tagged := s.sock d ++ s.queue d

end DState

/-- one call of `process` -/
def dstep (cfg : Cfg) (drain : Bool) (s : DState) : DEvent → DState
  | .cmd c line => (s.handle cfg c line).drainIf drain c
  | .recv d => (s.recvOne d).drainIf drain d

def drun (cfg : Cfg) (drain : Bool) (s : DState) (evs : List DEvent) : DState :=
  evs.foldl (dstep cfg drain) s

/-! ### observation logs (specification side)

What the commands of an event list PRODUCE, command by command, independently of sockets,
queues and `drain`: the world and the command counters are threaded as `dstep` does (`recv`
events change neither).  `f c k x` selects what is logged for command number `k` of connection
`c` with handler result `x`. -/

def dlog (cfg : Cfg) (f : Nat → Nat → Ctx → List Tagged) :
    World → (Nat → Nat) → List DEvent → List Tagged
  | _, _, [] => []
  | w, cnt, .recv _ :: es => dlog cfg f w cnt es
  | w, cnt, .cmd c line :: es =>
    let x := handleLine cfg c line { w := w }
    f c (cnt c) x ++ dlog cfg f x.w (bump cnt c) es

/-- the direct replies of connection `d`, in command order -/
def directLog (cfg : Cfg) (d : Nat) :=
  dlog cfg (fun c k x => if c = d then tagDirect c k x else [])

/-- the pushes of sender `s` into the queue of receiver `d`, in push order -/
def pushLog (cfg : Cfg) (s d : Nat) :=
  dlog cfg (fun c k x => if c = s then tagPushes c k x d else [])

/-- everything produced for `d` (direct replies of its own commands, pushes of anybody), in
    production order -/
def producedLog (cfg : Cfg) (d : Nat) :=
  dlog cfg (fun c k x => (if c = d then tagDirect c k x else []) ++ tagPushes c k x d)

/-- the results of `d`'s own commands for `d` itself: per command the direct replies, then the
    echoes it pushed to itself -/
def ownLog (cfg : Cfg) (d : Nat) :=
  dlog cfg (fun c k x => if c = d then tagDirect c k x ++ tagPushes c k x d else [])

end Irc
